// K1 driver: the real when_all over n scripted leaves, each completed on its own virtual thread,
// with an external stop request racing on another thread.
// program: <outcomes: string over v,e,d> <stop|nostop|prestop>
#include <unifex/when_all.hpp>
#include "vh.hpp"
using namespace unifex;

template <std::size_t... I>
static std::vector<std::function<void()>> make_threads(const std::string& outs, const std::string& stopmode, std::index_sequence<I...>) {
  constexpr std::size_t N = sizeof...(I);
  struct Shared {
    vh::leaf_ctl ctl[N];
    inplace_stop_source ext;
    vh::root_state root;
    using op_t = connect_result_t<decltype(when_all(((void)I, vh::leaf{nullptr})...)), vh::root_receiver<>>;
    manual_lifetime<op_t> op;
    bool constructed = false;
  };
  auto sh = std::make_shared<Shared>();
  static const char* names[] = {"leaf0", "leaf1", "leaf2", "leaf3"};
  for (std::size_t i = 0; i < N; ++i) sh->ctl[i].name = names[i];
  std::vector<std::function<void()>> th;
  for (std::size_t i = 0; i < N; ++i)
    th.push_back([sh, i, k = outs[i]] { sh->ctl[i].complete(k, (int)i + 10); });
  // thread N: external stop
  th.push_back([sh, stopmode] {
    if (stopmode == "stop") { dsched::block_until([&] { return sh->constructed; }); sh->ext.request_stop(); }
  });
  // thread N+1: connect + start (+ destroy the operation once the root completed)
  th.push_back([sh, stopmode] {
    dsched::name_range(&sh->ext.state_, 1, "ext.state");
    if (stopmode == "prestop") sh->ext.request_stop();
    sh->op.construct_with([&] {
      return unifex::connect(when_all(vh::leaf{&sh->ctl[I]}...), vh::root_receiver<>{&sh->root, sh->ext.get_token()});
    });
    auto& op = sh->op.get();
    dsched::name_range(&op.refCount_, sizeof(op.refCount_), "wa.refCount");
    dsched::name_range(&op.doneOrError_, sizeof(op.doneOrError_), "wa.doneOrError");
    dsched::name_range(&op.stopSource_.state_, 1, "wa.src.state");
    sh->constructed = true;
    unifex::start(op);
    dsched::block_until([&] { return sh->root.completions > 0; });
    sh->op.destruct();
    dsched::action("op_destroyed");
  });
  return th;
}

int main(int argc, char** argv) {
  auto cli = vh::parse_cli(argc, argv);
  std::string outs = cli.prog.at(0), stopmode = cli.prog.size() > 1 ? cli.prog[1] : "nostop";
  auto make = [&]() -> std::vector<std::function<void()>> {
    switch (outs.size()) {
      case 1: return make_threads(outs, stopmode, std::make_index_sequence<1>{});
      case 2: return make_threads(outs, stopmode, std::make_index_sequence<2>{});
      case 3: return make_threads(outs, stopmode, std::make_index_sequence<3>{});
      default: return make_threads(outs, stopmode, std::make_index_sequence<4>{});
    }
  };
  // direct monitor: exactly one root completion, after every leaf completed
  auto monitor = [&](const dsched::Result& r) -> std::string {
    int roots = 0, leaves = 0; bool early = false;
    for (auto& e : r.trace) {
      if (e.find("!root ") != std::string::npos) { ++roots; if (leaves < (int)outs.size()) early = true; }
      if (e.find(".complete ") != std::string::npos) ++leaves;
    }
    if (roots != 1) return "root completions=" + std::to_string(roots);
    if (early) return "root completed before all children";
    return "";
  };
  return vh::drive(cli, make, monitor);
}
