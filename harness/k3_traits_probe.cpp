// Direct monitor for C11's static-trait clauses on hand-written expressions that are outside the Calc
// grammar: for each probe print the declared traits and what one real run did.
#include <unifex/just.hpp>
#include <unifex/just_done.hpp>
#include <unifex/just_error.hpp>
#include <unifex/just_from.hpp>
#include <unifex/then.hpp>
#include <unifex/materialize.hpp>
#include <unifex/dematerialize.hpp>
#include <unifex/let_value.hpp>
#include <unifex/let_done.hpp>
#include <unifex/let_error.hpp>
#include <unifex/let_value_with.hpp>
#include <unifex/let_value_with_stop_source.hpp>
#include <unifex/sequence.hpp>
#include <unifex/finally.hpp>
#include <unifex/when_all.hpp>
#include <unifex/stop_when.hpp>
#include <unifex/retry_when.hpp>
#include <unifex/repeat_effect_until.hpp>
#include <unifex/done_as_optional.hpp>
#include <unifex/into_variant.hpp>
#include <unifex/variant_sender.hpp>
#include <unifex/upon_done.hpp>
#include <unifex/upon_error.hpp>
#include <unifex/defer.hpp>
#include <unifex/unstoppable.hpp>
#include <unifex/with_query_value.hpp>
#include <unifex/inline_scheduler.hpp>
#include <unifex/scheduler_concepts.hpp>
#include <unifex/via.hpp>
#include <unifex/on.hpp>
#include <unifex/allocate.hpp>
#include <unifex/just_void_or_done.hpp>
#include <unifex/blocking.hpp>
#include <cstdio>
#include <exception>
using namespace unifex;

struct rec { char* ch; bool* in_start; bool* during; 
  template <typename... V> void set_value(V&&...) && noexcept { *ch = 'v'; *during = *in_start; }
  template <typename E> void set_error(E&&) && noexcept { *ch = 'e'; *during = *in_start; }
  void set_done() && noexcept { *ch = 'd'; *during = *in_start; }
  friend inline_scheduler tag_invoke(tag_t<get_scheduler>, const rec&) noexcept { return {}; }
};

template <typename S> void probe(const char* name, S s) {
  char ch = '-'; bool in_start = false, during = false;
  constexpr int bl = (int)sender_traits<S>::blocking.value;
  constexpr bool sd = sender_traits<S>::sends_done;
  int rt = (int)blocking(s).value;
  auto op = connect(std::move(s), rec{&ch, &in_start, &during});
  in_start = true; start(op); in_start = false;
  std::printf("%s blocking=%d sends_done=%d rt_blocking=%d outcome=%c inline=%d\n", name, bl, (int)sd, rt, ch, (int)during);
}

int main() {
  auto ex = [] { return std::make_exception_ptr(42); };
  probe("demat_mat_just", dematerialize(materialize(just(1))));
  probe("demat_mat_done", dematerialize(materialize(just_done())));
  probe("demat_mat_error", dematerialize(materialize(just_error(ex()))));
  probe("mat_done", materialize(just_done()));
  probe("dopt_done", done_as_optional(let_done(just(1), [] { return just(2); })));
  probe("let_done_to_done", let_done(just_done(), [] { return just_done(); }));
  probe("let_done_to_value", let_done(just_done(), [] { return just(); }));
  probe("upon_done_value", upon_done(just_done(), [] { return 1; }));
  probe("let_error_to_done", let_error(just_error(ex()), [](auto&&) { return just_done(); }));
  probe("seq_just_done", sequence(just(), just_done()));
  probe("finally_done", finally(just(1), just_done()));
  probe("finally_value", finally(just(1), just()));
  probe("when_all_just", when_all(just(1), just(2)));
  probe("stop_when_just", stop_when(just(1), just()));
  probe("retry_when_ok", retry_when(just(1), [](auto&&) { return just(); }));
  probe("repeat_until", repeat_effect_until(just(), [n = 0]() mutable { return ++n > 2; }));
  probe("into_variant", into_variant(just(1)));
  probe("lvws", let_value_with_stop_source([](auto&) { return just(1); }));
  probe("lvw", let_value_with([] { return 5; }, [](int& x) { return just(x); }));
  probe("defer", defer([] { return just_done(); }));
  probe("just_from", just_from([] { return 3; }));
  probe("via_inline", via(just(1), inline_scheduler{}));
  probe("on_inline", on(inline_scheduler{}, just(1)));
  probe("unstoppable_done", unstoppable(just_done()));
  probe("jvod_true", just_void_or_done(true));
  probe("jvod_false", just_void_or_done(false));
  probe("schedule_inline", schedule(inline_scheduler{}));
}
