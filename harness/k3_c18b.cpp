// K3 driver for C18 part B (small differentials, implementation against implementation):
//   sched_eq <a> <b>    any_scheduler / any_scheduler_ref comparisons against the wrapped schedulers' own
//                       operator== (a, b in inline loopA loopB tsA tsB poolA poolB)
//   sched_run <a> <v>   schedule() through any_scheduler / any_scheduler_ref vs the scheduler itself
//   stream <mode> <lo> <hi> <k|none> <x>
//                       a probe stream (logs every next()/cleanup() start with the stop state it sees)
//                       consumed through reduce_stream / for_each / transform_stream, with and without
//                       type_erase<int>; modes: reduce foreach xform (k = request stop after k values),
//                       throw (the consumer throws at value number k), next_error (next() fails at k),
//                       next_error_late (next() fails at k, after a stop request at k - 1)
//   range <lo> <hi>     reduce_stream over unifex::range_stream with and without type_erase<int>
// output: "<with wrapper> | <without wrapper>[ | <oracle>]": all parts must be equal.
#include <unifex/any_scheduler.hpp>
#include <unifex/type_erased_stream.hpp>
#include <unifex/range_stream.hpp>
#include <unifex/reduce_stream.hpp>
#include <unifex/for_each.hpp>
#include <unifex/transform_stream.hpp>
#include <unifex/inline_scheduler.hpp>
#include <unifex/manual_event_loop.hpp>
#include <unifex/timed_single_thread_context.hpp>
#include <unifex/static_thread_pool.hpp>
#include <unifex/let_value_with_stop_source.hpp>
#include <unifex/sync_wait.hpp>
#include <unifex/then.hpp>
#include <unifex/just.hpp>

#include <iostream>
#include <sstream>
#include <string>
#include <thread>
#include <variant>
#include <vector>

using namespace unifex;

// ---- schedulers ---------------------------------------------------------------------------------------
struct contexts {
  manual_event_loop loopA, loopB;
  timed_single_thread_context tsA, tsB;
  static_thread_pool poolA{2}, poolB{2};
  std::thread tA{[this] { loopA.run(); }}, tB{[this] { loopB.run(); }};
  ~contexts() { loopA.stop(); loopB.stop(); tA.join(); tB.join(); }
};
using sched_v = std::variant<inline_scheduler, decltype(std::declval<manual_event_loop&>().get_scheduler()),
                             decltype(std::declval<timed_single_thread_context&>().get_scheduler()),
                             decltype(std::declval<static_thread_pool&>().get_scheduler())>;
static sched_v pick(contexts& c, const std::string& n) {
  if (n == "inline") return inline_scheduler{};
  if (n == "loopA") return c.loopA.get_scheduler();
  if (n == "loopB") return c.loopB.get_scheduler();
  if (n == "tsA") return c.tsA.get_scheduler();
  if (n == "tsB") return c.tsB.get_scheduler();
  if (n == "poolA") return c.poolA.get_scheduler();
  if (n == "poolB") return c.poolB.get_scheduler();
  throw std::runtime_error("scheduler name");
}

template <typename A, typename B>
static std::string sched_eq(A a, B b, bool same_name) {
  bool exp;
  if constexpr (std::is_same_v<A, B>) exp = (a == b); else exp = false;
  any_scheduler ea = a, eb = b;
  any_scheduler ca = ea;              // copy
  any_scheduler ma = any_scheduler(a);
  any_scheduler mv = std::move(ma);   // move
  any_scheduler as = b; as = ea;      // copy-assign
  A a2 = a;                           // a second object equal to a
  any_scheduler_ref ra = a, rb = b, ra2 = a2, raa = a;
  char got[256], want[256];
  std::snprintf(got, sizeof got, "eq=%d ne=%d sym=%d copy=%d move=%d assign=%d type=%d ref_deep=%d ref_deep2=%d ref_same=%d",
                (int)(ea == eb), (int)(ea != eb), (int)(eb == ea), (int)(ca == ea), (int)(mv == ea), (int)(as == ea),
                (int)(ea.type() == eb.type()), (int)ra.equal_to(rb), (int)ra.equal_to(ra2), (int)(ra == raa));
  std::snprintf(want, sizeof want, "eq=%d ne=%d sym=%d copy=%d move=%d assign=%d type=%d ref_deep=%d ref_deep2=%d ref_same=%d",
                (int)exp, (int)!exp, (int)exp, 1, 1, 1, (int)std::is_same_v<A, B>, (int)exp, 1, 1);
  // any_scheduler_ref::operator== is documented as shallow (same referred-to object), reported separately:
  std::string shallow = std::string(" [ref== distinct-equal-objects: ") + ((ra == ra2) ? "1" : "0") + "]";
  (void)same_name;
  return std::string(got) + " | " + want + " #" + shallow;
}

template <typename S>
static std::string sched_run(S s, int v) {
  auto body = [v](auto sch) {
    std::thread::id tid;
    auto r = sync_wait(then(schedule(sch), [&]() noexcept { tid = std::this_thread::get_id(); return 2 * v + 1; }));
    return std::make_pair(r ? *r : -1, tid);
  };
  auto plain = body(s);
  auto erased = body(any_scheduler(s));
  S s2 = s;
  auto viaref = body(any_scheduler_ref(s2));
  bool pinned = !std::is_same_v<S, decltype(std::declval<static_thread_pool&>().get_scheduler())>;
  auto show = [&](std::pair<int, std::thread::id> p) {
    return "v=" + std::to_string(p.first) + " thread=" + (pinned ? (p.second == plain.second ? "same" : "OTHER") : "-");
  };
  return show(erased) + " | " + show(viaref) + " | " + show(plain);
}

// ---- streams -----------------------------------------------------------------------------------------
static std::string SLOG;
struct serr { int at; };
struct cerr_ { int at; };

struct probe_stream {
  int cur, hi, err_at;
  template <typename R>
  struct next_op {
    probe_stream& s; R r;
    void start() noexcept {
      bool stopped = get_stop_token(r).stop_requested();
      SLOG += "n" + std::to_string(s.cur) + (stopped ? "s " : " ");
      if (s.cur == s.err_at) { unifex::set_error(std::move(r), std::make_exception_ptr(serr{s.cur})); return; }
      if (stopped) { unifex::set_done(std::move(r)); return; }
      if (s.cur < s.hi) unifex::set_value(std::move(r), s.cur++);
      else unifex::set_done(std::move(r));
    }
  };
  struct next_sender {
    probe_stream& s;
    template <template <typename...> class Variant, template <typename...> class Tuple>
    using value_types = Variant<Tuple<int>>;
    template <template <typename...> class Variant>
    using error_types = Variant<std::exception_ptr>;
    static constexpr bool sends_done = true;
    template <typename R>
    next_op<remove_cvref_t<R>> connect(R&& r) && { return next_op<remove_cvref_t<R>>{s, (R&&)r}; }
  };
  template <typename R>
  struct cleanup_op {
    R r;
    void start() noexcept { SLOG += "c "; unifex::set_done(std::move(r)); }
  };
  struct cleanup_sender {
    template <template <typename...> class Variant, template <typename...> class Tuple>
    using value_types = Variant<>;
    template <template <typename...> class Variant>
    using error_types = Variant<std::exception_ptr>;
    static constexpr bool sends_done = true;
    template <typename R>
    cleanup_op<remove_cvref_t<R>> connect(R&& r) && { return cleanup_op<remove_cvref_t<R>>{(R&&)r}; }
  };
  friend next_sender tag_invoke(tag_t<next>, probe_stream& s) noexcept { return next_sender{s}; }
  friend cleanup_sender tag_invoke(tag_t<cleanup>, probe_stream&) noexcept { return cleanup_sender{}; }
};

template <typename MakeStream>
static std::string consume(const std::string& mode, int k, MakeStream mk) {
  SLOG.clear();
  int seen = 0;
  std::string term;
  try {
    if (mode == "foreach") {
      auto r = sync_wait(let_value_with_stop_source([&](inplace_stop_source& src) {
        if (k == 0) src.request_stop();
        return for_each(mk(), [&, k](int v) { SLOG += "v" + std::to_string(v) + " "; if (++seen == k) src.request_stop(); });
      }));
      term = r ? "value" : "done";
    } else {
      auto r = sync_wait(let_value_with_stop_source([&](inplace_stop_source& src) {
        if (k == 0 && mode != "throw") src.request_stop();
        return reduce_stream(mk(), 0, [&, k](int acc, int v) {
          SLOG += "v" + std::to_string(v) + " ";
          ++seen;
          if (mode == "throw" && seen == k) throw cerr_{v};
          if ((mode == "next_error_late" ? seen == k - 1 : seen == k) && mode != "throw" && mode != "next_error") src.request_stop();
          return acc + v;
        });
      }));
      term = r ? "value " + std::to_string(*r) : "done";
    }
  } catch (const serr& e) { term = "stream-error " + std::to_string(e.at);
  } catch (const cerr_& e) { term = "consumer-error " + std::to_string(e.at);
  } catch (...) { term = "other-error"; }
  return SLOG + "-> " + term;
}

static std::string run_stream(const std::string& mode, int lo, int hi, int k) {
  int err_at = (mode == "next_error" || mode == "next_error_late") ? lo + (k < 0 ? 0 : k) : -1000000;
  auto sq = [](int v) { return v * v; };
  std::string with, without;
  if (mode == "xform") {
    with = consume(mode, k, [&] { return type_erase<int>(transform_stream(probe_stream{lo, hi, err_at}, sq)); });
    std::string with2 = consume(mode, k, [&] { return transform_stream(type_erase<int>(probe_stream{lo, hi, err_at}), sq); });
    without = consume(mode, k, [&] { return transform_stream(probe_stream{lo, hi, err_at}, sq); });
    if (with2 != without) with = "inner-wrapper: " + with2;
  } else {
    with = consume(mode, k, [&] { return type_erase<int>(probe_stream{lo, hi, err_at}); });
    without = consume(mode, k, [&] { return probe_stream{lo, hi, err_at}; });
  }
  std::string out = with + " | " + without;
  if (k < 0 && (mode == "reduce" || mode == "xform")) {   // oracle for the un-stopped run
    long sum = 0; std::string log;
    for (int i = lo; i < hi; ++i) { int v = mode == "xform" ? i * i : i; sum += v; log += "n" + std::to_string(i) + " v" + std::to_string(v) + " "; }
    log += "n" + std::to_string(hi < lo ? lo : hi) + " c -> value " + std::to_string(sum);
    out += " | " + log;
  }
  return out;
}

// the library's own range_stream (its cleanup is just_done(): completes inline) with and without the wrapper
static std::string run_range(int lo, int hi) {
  std::string a, b;
  {
    std::string log;
    auto r = sync_wait(reduce_stream(type_erase<int>(range_stream{lo, hi}), 0, [&](int acc, int v) { log += std::to_string(v) + " "; return acc + v; }));
    a = log + "-> " + (r ? std::to_string(*r) : std::string("done"));
  }
  {
    std::string log;
    auto r = sync_wait(reduce_stream(range_stream{lo, hi}, 0, [&](int acc, int v) { log += std::to_string(v) + " "; return acc + v; }));
    b = log + "-> " + (r ? std::to_string(*r) : std::string("done"));
  }
  long sum = 0; std::string log;
  for (int i = lo; i < hi; ++i) { sum += i; log += std::to_string(i) + " "; }
  return a + " | " + b + " | " + log + "-> " + std::to_string(sum);
}

int main() {
  contexts ctx;
  std::string line;
  while (std::getline(std::cin, line)) {
    std::istringstream is(line);
    std::string cmd; is >> cmd;
    std::string out = "ERR unknown";
    try {
      if (cmd == "sched_eq") {
        std::string a, b; is >> a >> b;
        out = std::visit([&](auto x, auto y) { return sched_eq(x, y, a == b); }, pick(ctx, a), pick(ctx, b));
      } else if (cmd == "sched_run") {
        std::string a; int v; is >> a >> v;
        out = std::visit([&](auto x) { return sched_run(x, v); }, pick(ctx, a));
      } else if (cmd == "stream") {
        std::string mode, ks; int lo, hi, x; is >> mode >> lo >> hi >> ks >> x;
        out = run_stream(mode, lo, hi, ks == "none" ? -1 : std::stoi(ks));
      } else if (cmd == "range") {
        int lo, hi; is >> lo >> hi;
        out = run_range(lo, hi);
      }
    } catch (const std::exception& e) { out = std::string("ERR exception ") + e.what(); }
    std::cout << out << "\n";
    std::cout.flush();
  }
}
