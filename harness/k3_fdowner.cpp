// K3 driver for C14 (model FdOwner): runs operation sequences read from stdin on the REAL
// unifex::linuxos::safe_file_descriptor (real descriptors: /dev/null, somebody else's: /dev/zero) and
// unifex::linuxos::mmap_region (real anonymous mappings) and prints what the kernel saw, in the
// format of the extracted model (ocaml handler `fdowner`).  Configuration 'plain17'.
//
// The process' close() and munmap() are interposed (defined here, forwarding to the raw syscalls):
// every call the library makes is logged with its result, so a second close of the same number is
// seen deterministically (EBADF, or - if the number was handed out again - the close of somebody
// else's descriptor, which the sentinel check then reports by fstat identity).
// Before the first case every descriptor above 2 is closed, so that "lowest free number" is the
// same in the process and in the model (0, 1, 2 open).
//
// input line:   fd <nslots> | op op ...        or        mm <nslots> | op op ...
//   ops: n<i> construct slot i from a fresh resource   e<i> default-construct   c<i>,<j> move-construct i from j
//        a<i>,<j> move-assign i = std::move(j)   x<i> close() (fd only)   d<i> destroy   o somebody else opens
//   an operation whose precondition does not hold (slot dead/alive, !valid()) is skipped, as in the model.
// output line:  log=<o<n>|c<n>:ok|c<n>:EBADF,...> slots=<-|e|n,...> open=<numbers> sentinels=<ok|BAD ...>
#include <unifex/linux/safe_file_descriptor.hpp>
#include <unifex/linux/mmap_region.hpp>
#include <unifex/manual_lifetime.hpp>

#include <cerrno>
#include <cstdio>
#include <cstring>
#include <fcntl.h>
#include <iostream>
#include <sstream>
#include <string>
#include <sys/mman.h>
#include <sys/stat.h>
#include <sys/syscall.h>
#include <unistd.h>
#include <vector>

using unifex::linuxos::mmap_region;
using unifex::linuxos::safe_file_descriptor;

namespace {
bool g_logging = false;
std::string g_log;
void add_log(const std::string& s) { if (!g_log.empty()) g_log += ","; g_log += s; }

struct Alloc { void* p; bool live; };
std::vector<Alloc> g_allocs;   // mappings in allocation order: number = 3 + index
}  // namespace

extern "C" int close(int fd) {
  long rc = ::syscall(SYS_close, fd);
  if (g_logging) add_log("c" + std::to_string(fd) + (rc == 0 ? ":ok" : ":EBADF"));
  return (int)rc;
}
extern "C" int munmap(void* p, size_t n) {
  if (g_logging) {
    int hit = -1, last = -1;
    for (int i = 0; i < (int)g_allocs.size(); ++i) if (g_allocs[i].p == p) { last = i; if (g_allocs[i].live) hit = i; }
    if (hit >= 0) { g_allocs[hit].live = false; add_log("c" + std::to_string(3 + hit) + ":ok"); }
    else add_log("c" + std::to_string(3 + last) + ":EBADF");
  }
  return (int)::syscall(SYS_munmap, p, n);
}

namespace {
bool is_open(int fd) { return ::fcntl(fd, F_GETFD) != -1; }
void raw_close_all_above_2() {
  for (int fd = 3; fd < 256; ++fd) if (is_open(fd)) ::syscall(SYS_close, fd);
}
bool mapped(void* p) { unsigned char v; return ::mincore(p, 4096, &v) == 0; }

struct Sentinel { int fd; dev_t dev; ino_t ino; };

std::pair<int, int> two(const std::string& s) {
  auto c = s.find(',');
  return {std::atoi(s.substr(0, c).c_str()), std::atoi(s.substr(c + 1).c_str())};
}

std::string run_fd(int k, const std::vector<std::string>& ops) {
  std::vector<unifex::manual_lifetime<safe_file_descriptor>> slot(k);
  std::vector<bool> alive(k, false);
  std::vector<Sentinel> sent;
  g_log.clear();
  g_logging = true;
  for (auto& w : ops) {
    char c = w[0];
    std::string a = w.substr(1);
    if (c == 'o') {
      int fd = ::open("/dev/zero", O_RDONLY);
      struct stat st; ::fstat(fd, &st);
      sent.push_back({fd, st.st_dev, st.st_ino});
      add_log("o" + std::to_string(fd));
    } else if (c == 'n') {
      int i = std::atoi(a.c_str());
      if (i < k && !alive[i]) {
        int fd = ::open("/dev/null", O_RDONLY);
        add_log("o" + std::to_string(fd));
        slot[i].construct(fd); alive[i] = true;
      }
    } else if (c == 'e') {
      int i = std::atoi(a.c_str());
      if (i < k && !alive[i]) { slot[i].construct(); alive[i] = true; }
    } else if (c == 'c') {
      auto [i, j] = two(a);
      if (i < k && j < k && !alive[i] && alive[j]) { slot[i].construct(std::move(slot[j].get())); alive[i] = true; }
    } else if (c == 'a') {
      auto [i, j] = two(a);
      if (i < k && j < k && alive[i] && alive[j]) slot[i].get() = std::move(slot[j].get());
    } else if (c == 'x') {
      int i = std::atoi(a.c_str());
      if (i < k && alive[i] && slot[i].get().valid()) slot[i].get().close();
    } else if (c == 'd') {
      int i = std::atoi(a.c_str());
      if (i < k && alive[i]) { slot[i].destruct(); alive[i] = false; }
    }
  }
  g_logging = false;
  std::string out = "log=" + g_log + " slots=";
  for (int i = 0; i < k; ++i) {
    if (i) out += ",";
    out += !alive[i] ? "-" : slot[i].get().valid() ? std::to_string(slot[i].get().get()) : "e";
  }
  out += " open=";
  bool first = true;
  for (int fd = 0; fd < 256; ++fd) if (is_open(fd)) { if (!first) out += ","; out += std::to_string(fd); first = false; }
  std::string bad;
  for (auto& s : sent) {
    struct stat st;
    if (::fstat(s.fd, &st) != 0) bad += " fd" + std::to_string(s.fd) + ":closed";
    else if (st.st_dev != s.dev || st.st_ino != s.ino) bad += " fd" + std::to_string(s.fd) + ":another-file";
  }
  out += bad.empty() ? " sentinels=ok" : " sentinels=BAD" + bad;
  // reset for the next case without going through the objects' own cleanup
  for (int i = 0; i < k; ++i) if (alive[i]) { slot[i].get().fd_ = -1; slot[i].destruct(); }
  raw_close_all_above_2();
  return out;
}

std::string run_mm(int k, const std::vector<std::string>& ops) {
  std::vector<unifex::manual_lifetime<mmap_region>> slot(k);
  std::vector<bool> alive(k, false);
  std::vector<int> sent;   // allocation indices of somebody else's mappings
  g_log.clear();
  g_allocs.clear();
  g_logging = true;
  auto fresh = [&]() -> void* {
    void* p = ::mmap(nullptr, 4096, PROT_READ | PROT_WRITE, MAP_PRIVATE | MAP_ANONYMOUS, -1, 0);
    g_allocs.push_back({p, true});
    add_log("o" + std::to_string(3 + (int)g_allocs.size() - 1));
    return p;
  };
  for (auto& w : ops) {
    char c = w[0];
    std::string a = w.substr(1);
    if (c == 'o') { fresh(); sent.push_back((int)g_allocs.size() - 1); }
    else if (c == 'n') {
      int i = std::atoi(a.c_str());
      if (i < k && !alive[i]) { void* p = fresh(); slot[i].construct(p, (std::size_t)4096); alive[i] = true; }
    } else if (c == 'e') {
      int i = std::atoi(a.c_str());
      if (i < k && !alive[i]) { slot[i].construct(); alive[i] = true; }
    } else if (c == 'c') {
      auto [i, j] = two(a);
      if (i < k && j < k && !alive[i] && alive[j]) { slot[i].construct(std::move(slot[j].get())); alive[i] = true; }
    } else if (c == 'a') {
      auto [i, j] = two(a);
      if (i < k && j < k && alive[i] && alive[j]) slot[i].get() = std::move(slot[j].get());
    } else if (c == 'd') {
      int i = std::atoi(a.c_str());
      if (i < k && alive[i]) { slot[i].destruct(); alive[i] = false; }
    }
  }
  g_logging = false;
  auto number_of = [&](void* p) { int r = -1; for (int i = 0; i < (int)g_allocs.size(); ++i) if (g_allocs[i].p == p && g_allocs[i].live) r = i; return r; };
  std::string out = "log=" + g_log + " slots=";
  for (int i = 0; i < k; ++i) {
    if (i) out += ",";
    if (!alive[i]) out += "-";
    else if (slot[i].get().size() == 0) out += "e";
    else { int n = number_of(slot[i].get().data()); out += n >= 0 ? std::to_string(3 + n) : "dangling"; }
  }
  out += " open=0,1,2";
  for (int i = 0; i < (int)g_allocs.size(); ++i) if (g_allocs[i].live) out += "," + std::to_string(3 + i);
  std::string bad;
  for (int si : sent) if (!g_allocs[si].live || !mapped(g_allocs[si].p)) bad += " map" + std::to_string(3 + si) + ":unmapped";
  for (int i = 0; i < (int)g_allocs.size(); ++i) if (g_allocs[i].live && !mapped(g_allocs[i].p)) bad += " map" + std::to_string(3 + i) + ":gone";
  out += bad.empty() ? " sentinels=ok" : " sentinels=BAD" + bad;
  for (int i = 0; i < k; ++i) if (alive[i]) { slot[i].get().size_ = 0; slot[i].destruct(); }
  for (auto& al : g_allocs) if (al.live) ::syscall(SYS_munmap, al.p, (size_t)4096);
  g_allocs.clear();
  return out;
}
}  // namespace

int main() {
  raw_close_all_above_2();
  std::string line;
  while (std::getline(std::cin, line)) {
    std::istringstream is(line);
    std::string kind, bar, w;
    int k = 0;
    is >> kind >> k >> bar;
    std::vector<std::string> ops;
    while (is >> w) ops.push_back(w);
    std::string out = kind == "fd" ? run_fd(k, ops) : kind == "mm" ? run_mm(k, ops) : "ERR kind";
    std::printf("%s\n", out.c_str());
    std::fflush(stdout);
  }
  return 0;
}
