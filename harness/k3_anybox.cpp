// K3 driver for C18 part A: runs operation sequences on the real unifex::basic_any_object /
// unifex::any_unique (and any_ref stacked on top) holding tracked wrapped types, with a counting
// allocator, and prints the event list in the format of the extracted model (ocaml handler "anybox",
// coq/Proto/AnyBoxDefs.v).
//
// input line :  <cfg> <nvars> | <op> <op> ...          (or the single word "classes" / "configs")
//   ops      :  N:v:c:p:m:a   construct variable v holding class c with payload p; m = I in_place, C converting,
//                             J allocator_arg + in_place, D allocator_arg + converting; a = armed failure
//               MC:v:w:a      move-construct v from w          MA:v:w:a   move-assign v = move(w)
//               AV:v:c:p:a    v = T_c(p)                      SW:v:w:a   swap(v, w)
//               IV:v          get_pay(v)                      PK:v:d:t   poke(v, d, t) (adds d, throws perr if t)
//               RF:v:w        any_ref(v): get_pay through the ref, and any_ref(v) == any_ref(w)
//               DL:v          destroy v
//   armed a  :  0 none, 1 the first move-construction of a throwing-move class throws, 2 the first allocation throws
// output     :  per op "ev;ev;...;ret X", ops joined by " / ", final pseudo-op "end" destroys what is left,
//               then " # live=<n> blocks=<n> bad=<n>"
#include <unifex/any_object.hpp>
#include <unifex/any_unique.hpp>
#include <unifex/any_ref.hpp>
#include <unifex/overload.hpp>
#include <unifex/this.hpp>
#include <unifex/tag_invoke.hpp>

#include <array>
#include <cstdint>
#include <cstdio>
#include <iostream>
#include <map>
#include <new>
#include <optional>
#include <set>
#include <sstream>
#include <stdexcept>
#include <string>
#include <vector>

namespace ab {

static std::vector<std::string> LOG;
static void log(const std::string& s) { LOG.push_back(s); }
static int next_id = 0, next_blk = 0, armed = 0, bad = 0;
static std::set<int> live;
static std::map<void*, std::pair<int, std::size_t>> blocks;

struct boom { int id; };   // thrown by a wrapped move constructor
struct oom {};             // thrown by the allocator
struct perr { int v; };    // thrown by poke

static void* do_alloc(std::size_t bytes, std::size_t align) {
  if (armed == 2) { armed = 0; log("athrow " + std::to_string(bytes)); throw oom{}; }
  void* p = ::operator new(bytes, std::align_val_t(align));
  int b = next_blk++;
  blocks[p] = {b, bytes};
  log("alloc " + std::to_string(b) + " " + std::to_string(bytes));
  if (reinterpret_cast<std::uintptr_t>(p) % align) { ++bad; log("misaligned-block"); }
  return p;
}
static void do_dealloc(void* p, std::size_t bytes, std::size_t align) {
  auto it = blocks.find(p);
  if (it == blocks.end()) { ++bad; log("dealloc-unknown " + std::to_string(bytes)); return; }
  if (bytes == 0) bytes = it->second.second;   // class-level operator delete: size not passed
  log("dealloc " + std::to_string(it->second.first) + " " + std::to_string(bytes));
  if (it->second.second != bytes) { ++bad; log("dealloc-size-mismatch"); }
  blocks.erase(it);
  ::operator delete(p, std::align_val_t(align));
}

template <typename U>
struct calloc {
  using value_type = U;
  calloc() = default;
  template <typename V> calloc(const calloc<V>&) noexcept {}
  U* allocate(std::size_t n) { return static_cast<U*>(do_alloc(n * sizeof(U), alignof(U))); }
  void deallocate(U* p, std::size_t n) noexcept { do_dealloc(p, n * sizeof(U), alignof(U)); }
  template <typename V> bool operator==(const calloc<V>&) const noexcept { return true; }
  template <typename V> bool operator!=(const calloc<V>&) const noexcept { return false; }
};

// ---- CPOs ---------------------------------------------------------------------------------------
inline constexpr struct get_pay_cpo {
  using type_erased_signature_t = int(const unifex::this_&) noexcept;
  template <typename T>
  auto operator()(const T& x) const noexcept -> unifex::tag_invoke_result_t<get_pay_cpo, const T&> {
    return unifex::tag_invoke(*this, x);
  }
} get_pay{};
// same query with a non-const `this_&` signature, used for any_unique: before repository fix 05635c8 its
// allocator-aware storage only had the non-const get_wrapped_object and a `const this_&` CPO did not compile
// there; keeping this driver independent of that, the const case is covered by probe "uniq_alloc_const_cpo"
inline constexpr struct get_pay_nc_cpo {
  using type_erased_signature_t = int(unifex::this_&) noexcept;
  template <typename T>
  auto operator()(T& x) const noexcept -> unifex::tag_invoke_result_t<get_pay_nc_cpo, T&> {
    return unifex::tag_invoke(*this, x);
  }
} get_pay_nc{};
inline constexpr struct poke_cpo {
  using type_erased_signature_t = int(unifex::this_&, int, bool);
  template <typename T>
  auto operator()(T& x, int d, bool t) const -> unifex::tag_invoke_result_t<poke_cpo, T&, int, bool> {
    return unifex::tag_invoke(*this, x, d, t);
  }
} poke{};

// ---- tracked wrapped types ------------------------------------------------------------------------
struct core { int id; short pay; bool moved; unsigned char magic; };
template <std::size_t N> struct pad_t { unsigned char b[N]; };
template <> struct pad_t<0> {};

template <std::size_t Size, std::size_t Align, bool NoThrow>
struct alignas(Align) tracked : core, pad_t<Size - sizeof(core)> {
  void born() {
    magic = 0x5a;
    if (reinterpret_cast<std::uintptr_t>(this) % Align) { ++bad; log("misaligned-object"); }
    live.insert(id);
  }
  explicit tracked(int p) noexcept {
    id = next_id++; pay = (short)p; moved = false;
    log("ctor " + std::to_string(id));
    born();
  }
  tracked(tracked&& o) noexcept(NoThrow) {
    if (!NoThrow && armed == 1) { armed = 0; log("mthrow " + std::to_string(o.id)); throw boom{o.id}; }
    id = next_id++; pay = o.pay; moved = o.moved; o.moved = true;   // husk-ness is inherited
    log("move " + std::to_string(id) + "<-" + std::to_string(o.id));
    born();
  }
  tracked(const tracked& o) {
    id = next_id++; pay = o.pay; moved = false;
    log("copy " + std::to_string(id) + "<-" + std::to_string(o.id));
    born();
  }
  tracked& operator=(const tracked&) = delete;
  ~tracked() {
    log("dtor " + std::to_string(id));
    if (magic != 0x5a || !live.erase(id)) { ++bad; log("dtor-of-dead-object"); }
    magic = 0;
  }
  static void* operator new(std::size_t n) { return do_alloc(n, Align); }
  static void* operator new(std::size_t n, std::align_val_t a) { return do_alloc(n, (std::size_t)a); }
  static void* operator new(std::size_t, void* p) noexcept { return p; }
  // unsized forms only: g++ 12 calls no deallocation function at all when the constructor of an aligned
  // new-expression throws and only the sized aligned form is declared in class scope
  static void operator delete(void* p) noexcept { do_dealloc(p, 0, Align); }
  static void operator delete(void* p, std::align_val_t a) noexcept { do_dealloc(p, 0, (std::size_t)a); }
  static void operator delete(void*, void*) noexcept {}

  friend int tag_invoke(get_pay_cpo, const tracked& t) noexcept {
    if (t.magic != 0x5a) { ++bad; log("use-of-dead-object"); }
    return t.moved ? -1 : t.pay;
  }
  friend int tag_invoke(get_pay_nc_cpo, tracked& t) noexcept { return tag_invoke(get_pay_cpo{}, t); }
  friend int tag_invoke(poke_cpo, tracked& t, int d, bool thr) {
    if (t.magic != 0x5a) { ++bad; log("use-of-dead-object"); }
    t.pay = (short)(t.pay + d);
    if (thr) throw perr{t.pay};
    return t.pay;
  }
};

template <typename T> struct tag { using type = T; };

// the wrapped-type classes: size, alignment, nothrow move
#define AB_CLASSES(X) \
  X(0, 8, 4, true) X(1, 8, 4, false) X(2, 24, 8, true) X(3, 24, 8, false) X(4, 40, 8, true) X(5, 40, 8, false) \
  X(6, 16, 16, true) X(7, 16, 16, false) X(8, 64, 64, true) X(9, 64, 64, false) X(10, 8, 8, true) X(11, 32, 32, false)
static constexpr int NCLASSES = 12;

template <typename F>
static void with_class(int c, F&& f) {
  switch (c) {
#define X(i, s, a, n) case i: f(tag<tracked<s, a, n>>{}); break;
    AB_CLASSES(X)
#undef X
    default: throw std::runtime_error("class");
  }
}
#define X(i, s, a, n) static_assert(sizeof(tracked<s, a, n>) == s && alignof(tracked<s, a, n>) == a);
AB_CLASSES(X)
#undef X

// ---- the wrappers under test ------------------------------------------------------------------------
template <std::size_t S, std::size_t A, bool R>
using obj_t = unifex::basic_any_object<S, A, R, calloc<std::byte>, unifex::tag_t<get_pay>, unifex::tag_t<poke>>;
using uniq_t = unifex::any_unique_t<get_pay_nc, poke>;
template <typename W> struct ref_for { using type = unifex::any_ref_t<get_pay, poke>; };
template <> struct ref_for<uniq_t> { using type = unifex::any_ref_t<get_pay_nc, poke>; };
template <typename W> int pay_of(W& w) { return get_pay(w); }
inline int pay_of(uniq_t& w) { return get_pay_nc(w); }
inline int pay_of(unifex::any_ref_t<get_pay_nc, poke>& w) { return get_pay_nc(w); }

template <typename W> struct is_uniq : std::false_type {};
template <> struct is_uniq<uniq_t> : std::true_type {};

static std::string flush_events(const std::string& ret) {
  std::string s;
  for (auto& l : LOG) { s += l; s += ";"; }
  LOG.clear();
  return s + "ret " + ret;
}

template <typename W>
struct machine {
  static constexpr int MAXV = 6;
  std::array<std::optional<W>, MAXV> v;

  template <typename T>
  void construct(int i, int p, char mode) {
    if constexpr (is_uniq<W>::value) {
      switch (mode) {
        case 'I': v[i].emplace(std::in_place_type<T>, p); break;
        case 'J': v[i].emplace(std::allocator_arg, calloc<std::byte>{}, std::in_place_type<T>, p); break;
        case 'C': { T tmp(p); v[i].emplace(std::move(tmp)); break; }
        default:  { T tmp(p); v[i].emplace(std::move(tmp), calloc<std::byte>{}); break; }
      }
    } else {
      switch (mode) {
        case 'I': v[i].emplace(std::in_place_type<T>, p); break;
        case 'J': v[i].emplace(std::allocator_arg, calloc<std::byte>{}, std::in_place_type<T>, p); break;
        case 'C': { T tmp(p); v[i].emplace(std::move(tmp)); break; }
        default:  { T tmp(p); v[i].emplace(std::allocator_arg, calloc<std::byte>{}, std::move(tmp)); break; }
      }
    }
  }

  std::string op(const std::string& tok) {
    std::vector<std::string> f;
    { std::string x; std::istringstream is(tok); while (std::getline(is, x, ':')) f.push_back(x); }
    auto I = [&](std::size_t k) { return std::stoi(f.at(k)); };
    const std::string& k = f.at(0);
    std::string ret = "ok";
    armed = 0;
    try {
      if (k == "N") {
        int i = I(1), c = I(2), p = I(3); char m = f.at(4)[0]; armed = I(5);
        if (v.at(i)) return "ERR live";
        with_class(c, [&](auto t) { construct<typename decltype(t)::type>(i, p, m); });
      } else if (k == "MC") {
        int i = I(1), j = I(2); armed = I(3);
        if (v.at(i) || !v.at(j)) return "ERR state";
        v[i].emplace(std::move(*v[j]));
      } else if (k == "MA") {
        int i = I(1), j = I(2); armed = I(3);
        if (!v.at(i) || !v.at(j)) return "ERR state";
        *v[i] = std::move(*v[j]);
      } else if (k == "AV") {
        int i = I(1), c = I(2), p = I(3); armed = I(4);
        if (!v.at(i)) return "ERR state";
        with_class(c, [&](auto t) { using T = typename decltype(t)::type; T tmp(p); *v[i] = std::move(tmp); });
      } else if (k == "SW") {
        int i = I(1), j = I(2); armed = I(3);
        if (!v.at(i) || !v.at(j)) return "ERR state";
        using std::swap;
        swap(*v[i], *v[j]);
      } else if (k == "IV") {
        int i = I(1);
        if (!v.at(i)) return "ERR state";
        int r = pay_of(*v[i]);
        ret = r < 0 ? std::string("mf") : std::to_string(r);
      } else if (k == "PK") {
        int i = I(1), d = I(2), t = I(3);
        if (!v.at(i)) return "ERR state";
        ret = std::to_string(poke(*v[i], d, t != 0));
      } else if (k == "RF") {
        int i = I(1), j = I(2);
        if (!v.at(i) || !v.at(j)) return "ERR state";
        using ref_t = typename ref_for<W>::type;
        ref_t a(*v[i]), b(*v[j]);
        ref_t a2 = a;
        int r = pay_of(a2);
        ret = (r < 0 ? std::string("mf") : std::to_string(r)) + ((a2 == b) ? " eq" : " ne");
        if ((a == b) != (i == j) || (a != b) == (a == b)) { ++bad; log("any_ref-equality"); }
      } else if (k == "DL") {
        int i = I(1);
        if (!v.at(i)) return "ERR state";
        v[i].reset();
      } else {
        return "ERR op";
      }
    } catch (const boom& b) { ret = "threw boom " + std::to_string(b.id);
    } catch (const oom&) { ret = "threw oom";
    } catch (const perr& e) { ret = "threw perr " + std::to_string(e.v);
    }
    armed = 0;
    return flush_events(ret);
  }

  std::string run(std::istream& is) {
    LOG.clear(); next_id = 0; next_blk = 0; armed = 0; bad = 0; live.clear(); blocks.clear();
    std::string out, tok;
    while (is >> tok) {
      std::string r = op(tok);
      if (r.rfind("ERR", 0) == 0) { for (auto& x : v) x.reset(); LOG.clear(); return r + " at " + tok; }
      out += r + " / ";
    }
    for (auto& x : v) x.reset();
    out += flush_events("end");
    return out + " # live=" + std::to_string(live.size()) + " blocks=" + std::to_string(blocks.size()) +
        " bad=" + std::to_string(bad);
  }
};

}  // namespace ab

// configurations: name, kind, InlineSize, InlineAlignment, RequireNoexceptMove
#define AB_CONFIGS(X) \
  X("O24T", 24, 8, true) X("O24F", 24, 8, false) X("O4T", 4, 4, true) X("O4F", 4, 2, false) \
  X("O64T", 64, 64, true) X("O64F", 64, 64, false) X("O16F", 16, 16, false)

int main() {
  std::string line;
  while (std::getline(std::cin, line)) {
    std::istringstream is(line);
    std::string cfg; is >> cfg;
    if (cfg == "classes") {
      std::string s;
#define X(i, sz, a, n) s += std::to_string(sz) + ":" + std::to_string(a) + ":" + (n ? "1" : "0") + " ";
      AB_CLASSES(X)
#undef X
      std::cout << s << "\n";
      continue;
    }
    if (cfg == "configs") {
      std::string s = "U:uniq:0:0:0 ";
#define X(nm, sz, a, r) s += std::string(nm) + ":obj:" + std::to_string(sz) + ":" + std::to_string(a) + ":" + (r ? "1" : "0") + " ";
      AB_CONFIGS(X)
#undef X
      std::cout << s << "\n";
      continue;
    }
    int nv; std::string bar; is >> nv >> bar;
    std::string out = "ERR cfg";
    try {
      if (cfg == "U") { ab::machine<ab::uniq_t> m; out = m.run(is); }
#define X(nm, sz, a, r) else if (cfg == nm) { ab::machine<ab::obj_t<sz, a, r>> m; out = m.run(is); }
      AB_CONFIGS(X)
#undef X
    } catch (const std::exception& e) { out = std::string("ERR exception ") + e.what(); }
    std::cout << out << "\n";
    std::cout.flush();
  }
}
