// k2e.hpp — C18 part B: type-erasing helpers for the K2 program differential.
//   k2::erase(s)        wraps s in with_receiver_queries<q0, q1>::any_sender_of<int>: the stop token is
//                       adapted to inplace_stop_token, the two user queries of k2.hpp are declared so
//                       that the wrapper forwards them (any_sender_of.hpp:203-211 "Forward other
//                       receiver queries", reached through the any_ref vtable of _rec_ref)
//   k2::erase_plain(s)  wraps s in plain any_sender_of<int>: only the stop token crosses the wrapper;
//                       queries that are not declared read their default below the wrapper (documented)
#pragma once
#include "k2.hpp"
#include <unifex/any_sender_of.hpp>
#include <unifex/overload.hpp>
#include <unifex/this.hpp>

namespace k2 {
inline constexpr auto& q0_erased = unifex::overload<int(const unifex::this_&) noexcept>(get_q0);
inline constexpr auto& q1_erased = unifex::overload<int(const unifex::this_&) noexcept>(get_q1);
using any_int_sender_q = unifex::with_receiver_queries<q0_erased, q1_erased>::any_sender_of<int>;
using any_int_sender = unifex::any_sender_of<int>;

template <typename S> any_int_sender_q erase(S&& s) { return any_int_sender_q{(S&&)s}; }
template <typename S> any_int_sender erase_plain(S&& s) { return any_int_sender{(S&&)s}; }
}  // namespace k2
