// K1 driver for C03: the real inplace_stop_source / inplace_stop_token / inplace_stop_callback
// driven by small client programs on dsched virtual threads.
//
// program:  <threads> <bodies>
//   threads: thread programs separated by '/', instructions by ',':
//            R<c> construct callback c on the token      D<c> destroy callback c
//            S    source.request_stop()                  Q    source.stop_requested()
//            W<c> wait until the constructor of c returned (owner synchronisation only)
//   bodies : '-' or <c>=<instrs>/<c>=<instrs>  — what callback c does when invoked (same syntax)
// e.g.  "R0,D0/S/S" "0=D1"
//
// Optional third argument "fused" | "adapter": two sources.  The instructions above then address the
// INNER source (the fused_stop_source itself / the adapter's source_), and
//            s    upstream.request_stop()                q    upstream.stop_requested()
//            A    attach: fused.register_callbacks(upstream token) / adapter.subscribe(token)
//            U    detach: deregister_callbacks() / unsubscribe()  (waits until A returned)
// "adapter_dm": the adapter over an upstream token type whose move is destructive (moved-from = not
// stoppable, like std::stop_token).  Clients use the token subscribe() returned.
// (only in thread programs).  The forwarding callback is the library's own functor, so it logs
// nothing; actions "ub" (s/A begins), "us b" (s returned b), "att" (A returned), "uret" (U returned),
// marker 19 before U.
//
// Callback objects live in raw storage (construct = placement new, D = destructor call followed
// by poisoning the storage), so a use of a destroyed callback by the library is visible.
// Owner synchronisation: D<c> first waits until the constructor of c returned -- unless it is called
// from inside the inline execution of c itself (registration after the stop), which is allowed.
// Markers (driver-owned atomic "mark", one store = one schedule point):
//   10+c  destructor of c is about to be called        20+c  body of callback c is about to return
//   30+c  W<c> passed
// Actions: "regd c" (constructor returned), "exec c" (body entered), "dret c" (destructor returned), "rs b" (request_stop returned b).
#include <unifex/inplace_stop_token.hpp>
#include <unifex/fused_stop_source.hpp>
#include "vh.hpp"
#include <new>
using namespace unifex;

namespace {
struct Instr { char op; int c; };
using Prog = std::vector<Instr>;
constexpr int MAXCB = 8;

// a stop token type that is not inplace_stop_token, so that the generic inplace_stop_token_adapter is used
template <bool DestructiveMove>
struct wtoken_t {
  inplace_stop_token tok;
  bool engaged = true;
  wtoken_t() noexcept = default;
  explicit wtoken_t(inplace_stop_token t) noexcept : tok(t) {}
  wtoken_t(const wtoken_t&) noexcept = default;
  wtoken_t& operator=(const wtoken_t&) noexcept = default;
  // with DestructiveMove the moved-from token is disengaged, like std::stop_token
  wtoken_t(wtoken_t&& o) noexcept : tok(o.tok), engaged(o.engaged) { if (DestructiveMove) { o.engaged = false; o.tok = inplace_stop_token{}; } }
  wtoken_t& operator=(wtoken_t&& o) noexcept { tok = o.tok; engaged = o.engaged; if (DestructiveMove) { o.engaged = false; o.tok = inplace_stop_token{}; } return *this; }
  bool stop_requested() const noexcept { return engaged && tok.stop_requested(); }
  bool stop_possible() const noexcept { return engaged && tok.stop_possible(); }
  template <typename F>
  struct callback_type {
    inplace_stop_callback<F> inner;
    template <typename T>
    callback_type(wtoken_t t, T&& f) noexcept : inner(t.tok, (T&&)f) {}
  };
};
using wtoken = wtoken_t<false>;
using dtoken = wtoken_t<true>;

struct Shared;
struct Fn {
  Shared* sh; int c;
  void operator()() noexcept;
};
using cb_t = inplace_stop_callback<Fn>;

struct Shared {
  int mode = 0;   // 0 single source, 1 fused_stop_source, 2 inplace_stop_token_adapter<wtoken>,
                  // 3 inplace_stop_token_adapter<dtoken> (upstream token with a destructive move)
  inplace_stop_source src;
  inplace_stop_source up;
  fused_stop_source<inplace_stop_token> fs;
  inplace_stop_token_adapter<wtoken> ad;
  inplace_stop_token_adapter<dtoken> ad2;
  inplace_stop_token sub_tok;   // what subscribe() returned (adapter modes)
  bool attached = false;
  int constructing[MAXCB] = {-1, -1, -1, -1, -1, -1, -1, -1};   // thread inside the constructor of c
  inplace_stop_source& in() {
    return mode == 0 ? src : mode == 1 ? static_cast<inplace_stop_source&>(fs) : mode == 2 ? ad.source_ : ad2.source_;
  }
  // the token clients use: for the adapters, the one subscribe() handed out
  inplace_stop_token tok() {
    if (mode >= 2) { dsched::block_until([this] { return attached; }); return sub_tok; }
    return in().get_token();
  }
  alignas(cb_t) unsigned char store[MAXCB][sizeof(cb_t)];
  bool registered[MAXCB] = {};
  bool dstarted[MAXCB] = {};
  std::atomic<int> mark{0};
  std::vector<Prog> bodies;
  cb_t* slot(int c) { return reinterpret_cast<cb_t*>(store[c]); }
  void name_all() {
    static const char* nm[MAXCB] = {"cb0.done", "cb1.done", "cb2.done", "cb3.done", "cb4.done", "cb5.done", "cb6.done", "cb7.done"};
    dsched::name_range(&in().state_, sizeof(src.state_), "src.state");
    if (mode != 0) {
      dsched::name_range(&up.state_, sizeof(up.state_), "up.state");
      if (mode == 1) {
        using fct = decltype(fs)::fused_callback_type;
        auto* f = reinterpret_cast<fct*>(&fs.callbacks_);   // payload of the optional
        dsched::name_range(&f->callback_.callbackCompleted_, 1, "fwd.done");
      } else if (mode == 2) {
        dsched::name_range(&ad.callback_.get().inner.callbackCompleted_, 1, "fwd.done");
      } else {
        dsched::name_range(&ad2.callback_.get().inner.callbackCompleted_, 1, "fwd.done");
      }
    }
    dsched::name_range(&mark, sizeof(mark), "mark");
    for (int c = 0; c < MAXCB; ++c)
      dsched::name_range(&slot(c)->callbackCompleted_, sizeof(slot(c)->callbackCompleted_), nm[c]);
  }
};

void run_prog(Shared* sh, const Prog& p) {
  for (std::size_t i = 0; i < p.size(); ++i) {
    Instr in = p[i];
    switch (in.op) {
      case 'R':
      {
        inplace_stop_token tk = sh->tok();
        sh->constructing[in.c] = dsched::self();
        new (sh->store[in.c]) cb_t(tk, Fn{sh, in.c});
        sh->constructing[in.c] = -1;
        sh->registered[in.c] = true;
      }
        dsched::action("regd %d", in.c);
        break;
      case 'D': {
        int c = in.c;
        int me = dsched::self();
        // after the constructor returned, or from inside the inline execution of c itself
        dsched::block_until([sh, c, me] { return (sh->registered[c] || sh->constructing[c] == me) && !sh->dstarted[c]; });
        sh->dstarted[c] = true;
        sh->mark.store(10 + c, std::memory_order_relaxed);
        sh->slot(c)->~cb_t();
        std::memset(sh->store[c], 0xAB, sizeof(cb_t));
        dsched::action("dret %d", c);
        break;
      }
      case 'S': {
        bool r = sh->in().request_stop();
        dsched::action("rs %d", (int)r);
        break;
      }
      case 'W': {
        int c = in.c;
        dsched::block_until([sh, c] { return sh->registered[c]; });
        sh->mark.store(30 + c, std::memory_order_relaxed);
        break;
      }
      case 'Q':
        (void)sh->tok().stop_requested();
        break;
      case 's': {
        dsched::action("ub");
        bool r = sh->up.request_stop();
        dsched::action("us %d", (int)r);
        break;
      }
      case 'q':
        (void)sh->up.get_token().stop_requested();
        break;
      case 'A':
        dsched::action("ub");
        if (sh->mode == 1) { sh->fs.register_callbacks(sh->up.get_token()); sh->sub_tok = sh->fs.get_token(); }
        else if (sh->mode == 2) sh->sub_tok = sh->ad.subscribe(wtoken{sh->up.get_token()});
        else sh->sub_tok = sh->ad2.subscribe(dtoken{sh->up.get_token()});
        sh->attached = true;
        dsched::action("att %d", (int)sh->sub_tok.stop_possible());
        break;
      case 'U':
        dsched::block_until([sh] { return sh->attached; });
        sh->mark.store(19, std::memory_order_relaxed);
        if (sh->mode == 1) sh->fs.deregister_callbacks();
        else if (sh->mode == 2) sh->ad.unsubscribe();
        else sh->ad2.unsubscribe();
        dsched::action("uret");
        break;
    }
  }
}

void Fn::operator()() noexcept {
  Shared* s = sh;     // the body may destroy this very object
  int id = c;
  if (s->constructing[id] == dsched::self()) dsched::action("inl %d", id);
  dsched::action("exec %d", id);
  Prog body = id < (int)s->bodies.size() ? s->bodies[id] : Prog{};
  run_prog(s, body);
  s->mark.store(20 + id, std::memory_order_relaxed);
}

Prog parse_prog(const std::string& s) {
  Prog p;
  std::size_t i = 0;
  while (i < s.size()) {
    std::size_t j = s.find(',', i);
    if (j == std::string::npos) j = s.size();
    std::string w = s.substr(i, j - i);
    if (!w.empty() && w != "-") {
      Instr in{w[0], w.size() > 1 ? std::atoi(w.c_str() + 1) : 0};
      if (!std::strchr("RDSQWsqAU", in.op) || in.c < 0 || in.c >= MAXCB) { std::fprintf(stderr, "bad instruction %s\n", w.c_str()); std::exit(2); }
      p.push_back(in);
    }
    i = j + 1;
  }
  return p;
}
std::vector<std::string> split(const std::string& s, char sep) {
  std::vector<std::string> out; std::size_t i = 0;
  while (true) { std::size_t j = s.find(sep, i); if (j == std::string::npos) { out.push_back(s.substr(i)); break; } out.push_back(s.substr(i, j - i)); i = j + 1; }
  return out;
}
}  // namespace

int main(int argc, char** argv) {
  auto cli = vh::parse_cli(argc, argv);
  std::vector<Prog> threads;
  for (auto& t : split(cli.prog.at(0), '/')) threads.push_back(parse_prog(t));
  std::vector<Prog> bodies(MAXCB);
  if (cli.prog.size() > 1 && cli.prog[1] != "-")
    for (auto& b : split(cli.prog[1], '/')) {
      auto eq = b.find('=');
      if (eq == std::string::npos) { std::fprintf(stderr, "bad body %s\n", b.c_str()); return 2; }
      bodies.at(std::atoi(b.substr(0, eq).c_str())) = parse_prog(b.substr(eq + 1));
    }

  int mode = 0;
  if (cli.prog.size() > 2) mode = cli.prog[2] == "fused" ? 1 : cli.prog[2] == "adapter" ? 2 : cli.prog[2] == "adapter_dm" ? 3 : 0;
  auto make = [&]() -> std::vector<std::function<void()>> {
    auto sh = std::make_shared<Shared>();
    sh->mode = mode;
    sh->bodies = bodies;
    std::vector<std::function<void()>> th;
    for (auto& p : threads)
      th.push_back([sh, p] { sh->name_all(); run_prog(sh.get(), p); });
    return th;
  };

  // direct monitor: C03 evaluated on the implementation's own run
  auto monitor = [&](const dsched::Result& r) -> std::string {
    int execs[MAXCB] = {}, running[MAXCB], dret[MAXCB] = {}, regd[MAXCB] = {}, inl[MAXCB];
    int selfinl[16]; for (int& x : selfinl) x = -1;   // per thread: inline callback whose destructor runs inside itself
    for (int& x : inl) x = -1;
    for (int& x : running) x = -1;
    int rs0 = 0, rsall = 0, att = 0, us = 0, uret = 0; bool stopbit = false;
    for (auto& e : r.trace) {
      int t = -1, c = -1, v = -1; char buf[64];
      if (std::sscanf(e.c_str(), "t%d !inl %d", &t, &c) == 2) {
        inl[c] = t;
      } else if (std::sscanf(e.c_str(), "t%d !exec %d", &t, &c) == 2) {
        if (++execs[c] > 1) return "callback " + std::to_string(c) + " executed twice";
        if (dret[c]) return "callback " + std::to_string(c) + " executed after its deregistration returned";
        if (!stopbit) return "callback " + std::to_string(c) + " executed before stop was requested";
        running[c] = t;
      } else if (std::sscanf(e.c_str(), "t%d mark S.rlx %d", &t, &v) == 2) {
        if (v >= 20 && v < 30) running[v - 20] = -1;
        if (v >= 10 && v < 18 && t < 16 && running[v - 10] == t && inl[v - 10] == t) selfinl[t] = v - 10;
      } else if (std::sscanf(e.c_str(), "t%d !dret %d", &t, &c) == 2) {
        dret[c] = 1;
        if (t < 16 && selfinl[t] == c) selfinl[t] = -1;
        if (running[c] >= 0 && running[c] != t)
          return "deregistration of callback " + std::to_string(c) + " returned while it runs on thread " + std::to_string(running[c]);
      } else if (e.find(" !att") != std::string::npos) { ++att;
        if (e.find(" !att 0") != std::string::npos) return "attach handed out an unstoppable token for a stoppable upstream token";
      } else if (e.find(" !us ") != std::string::npos) { ++us;
      } else if (e.find(" !uret") != std::string::npos) { ++uret;
      } else if (std::sscanf(e.c_str(), "t%d !regd %d", &t, &c) == 2) {
        regd[c] = 1;
      } else if (std::sscanf(e.c_str(), "t%d !rs %d", &t, &v) == 2) {
        ++rsall; if (v == 0) ++rs0;
      } else if (std::sscanf(e.c_str(), "t%d cb%d.done %60s", &t, &c, buf) == 3) {
        if (dret[c]) return "callback " + std::to_string(c) + " accessed after its deregistration returned: " + e;
      } else if (std::sscanf(e.c_str(), "t%d src.state %60s", &t, buf) == 2) {
        if (t < 16 && selfinl[t] >= 0)
          return "destructor of callback " + std::to_string(selfinl[t]) + " called from inside its inline execution touched the source: " + e;
        // value written: S.<o> v | C.<o> a->b ok ; value read: L.<o> v
        int a = -1, b = -1; const char* rest = std::strchr(e.c_str() + e.find("src.state") + 10, ' ');
        bool nowstop = stopbit;
        if (buf[0] == 'S' && rest && std::sscanf(rest, " %d", &a) == 1) nowstop = a & 1;
        else if (buf[0] == 'C' && rest && std::sscanf(rest, " %d->%d", &a, &b) == 2) nowstop = (e.find(" ok") != std::string::npos ? b : a) & 1;
        else if (buf[0] == 'L' && rest && std::sscanf(rest, " %d", &a) == 1) nowstop = a & 1;
        if (stopbit && !nowstop) return "stop bit reverted: " + e;
        stopbit = nowstop;
      }
    }
    if (mode != 0) {
      // forwarding: attached and never detached, upstream stop requested => inner stop requested
      if (att > 0 && us > 0 && uret == 0 && !stopbit) return "upstream stop request was not forwarded to the inner source";
      if (rs0 > 1) return "request_stop returned false (first) " + std::to_string(rs0) + " times";
      if (stopbit)
        for (int c = 0; c < MAXCB; ++c)
          if (regd[c] && !dret[c] && execs[c] != 1 && (rs0 == 1 || (att > 0 && us > 0 && uret == 0)))
            return "callback " + std::to_string(c) + " still registered after the stop completed but never executed";
      return "";
    }
    if (rs0 != (rsall > 0 ? 1 : 0))
      return "request_stop returned false (first) " + std::to_string(rs0) + " times out of " + std::to_string(rsall) + " calls";
    // the run is complete: a callback that was constructed and never destroyed must have run if stop was requested
    if (rsall > 0)
      for (int c = 0; c < MAXCB; ++c)
        if (regd[c] && !dret[c] && execs[c] != 1)
          return "callback " + std::to_string(c) + " still registered after request_stop returned but never executed";
    return "";
  };
  return vh::drive(cli, make, monitor);
}
