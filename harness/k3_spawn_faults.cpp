// k3_spawn_faults — sequential fault-injection sweep over spawn_detached / spawn_future (C09:
// "for a throwing nest()/connect/allocation during spawn").  cfg plain17 (no scheduler shim).
//
// One case per input line:   <detached|future> <v2|v1|fv2|fv1> <v|e|d|a> <drop|await|fork> [lv]
//   scope   v2 / v1: the real scopes;  fv2 / fv1: a wrapper scope whose nest() is a fault point and
//           then forwards to the real scope
//   kind    how the spawned sender completes: value / error / done inline in start(), or 'a':
//           asynchronously (the driver completes it with a value after the spawn + post action)
//   [lv]    optional fifth word: the sender is handed to spawn_* as an LVALUE of a type whose copy constructor is a
//           fault point and whose move constructor is noexcept (real scopes only)
//   post    future: drop it / sync_wait it;  detached: ignored;  'fork' (detached only): run the
//           case in a forked child and report how the child ended (std::terminate expected for 'e')
// Fault points (each calls fp(); the k-th call of a run throws): the allocator's allocate ("alloc",
// std::bad_alloc), the wrapper scope's nest ("nest"), the sender's copy / move constructors ("copy",
// "move": this is how nest() of the REAL scopes throws) and the sender's connect ("connect").
// For k = 1, 2, ... the case is re-run on a fresh scope and allocator with the k-th fault point
// throwing, until a run meets fewer than k fault points (the clean run).  After every run:
//   noexc    the injected exception did not come out of the spawn call
//   leak     allocations != deallocations (counting + poisoning allocator)
//   scope    the scope's word is not back to its value before the call ("open, nothing outstanding")
//   join     a join() of the scope afterwards does not complete (only tried when scope is fine)
//   alive    sender copies / operation states constructed during the call are still alive
//   started  an operation was started although the spawn threw
//   result   (clean run) the future delivered something else than the operation's completion
// Output: one line   <case> | points=<where@k,...> | runs=<where@k=threw/allocs/deallocs/started,...> | OK
//                      or   ... | BAD <where>@<k>:<what>(detail);...
// (runs= is what tools/units/future.py compares with the SpawnFault model's prediction)
#include <unifex/spawn_detached.hpp>
#include <unifex/spawn_future.hpp>
#include <unifex/sync_wait.hpp>
#include <unifex/v1/async_scope.hpp>
#include <unifex/v2/async_scope.hpp>

#include <sys/wait.h>
#include <unistd.h>

#include <cstdio>
#include <cstring>
#include <functional>
#include <iostream>
#include <sstream>
#include <string>
#include <vector>

using namespace unifex;

namespace {

struct Env {
  int countdown = 0;            // > 0: the countdown-th fault point throws
  int points = 0;               // fault points met so far in this run
  const char* hit = nullptr;    // the fault point that threw
  int allocs = 0, deallocs = 0;
  int live_send = 0, live_op = 0, started = 0, completed = 0;
  std::function<void()> pending;   // kind 'a': completes the operation
  std::vector<std::pair<void*, std::size_t>> quarantine;
  std::vector<std::string> met;
};
Env E;

struct fault { const char* where; };
struct falloc : std::bad_alloc { const char* where = "alloc"; };

void fp(const char* where) {
  E.points++;
  E.met.push_back(where);
  if (E.countdown > 0 && E.points == E.countdown) {
    E.hit = where;
    if (std::strcmp(where, "alloc") == 0) throw falloc{};
    throw fault{where};
  }
}

template <typename T>
struct talloc {
  using value_type = T;
  talloc() noexcept = default;
  template <typename U> talloc(const talloc<U>&) noexcept {}
  T* allocate(std::size_t n) {
    fp("alloc");
    void* p = ::operator new(n * sizeof(T));
    std::memset(p, 0xA5, n * sizeof(T));
    E.allocs++;
    return (T*)p;
  }
  void deallocate(T* p, std::size_t n) noexcept {
    E.deallocs++;
    std::memset((void*)p, 0xEE, n * sizeof(T));
    E.quarantine.emplace_back((void*)p, n * sizeof(T));
  }
  template <typename U> friend bool operator==(const talloc&, const talloc<U>&) noexcept { return true; }
  template <typename U> friend bool operator!=(const talloc&, const talloc<U>&) noexcept { return false; }
};

template <typename R>
struct fop {
  R r;
  char kind;
  fop(R&& rr, char k) : r((R&&)rr), kind(k) { E.live_op++; }
  fop(fop&&) = delete;
  ~fop() { E.live_op--; }
  static void finish(fop* self, char k) {
    E.completed++;
    if (k == 'e') unifex::set_error(std::move(self->r), std::make_exception_ptr(fault{"op"}));
    else if (k == 'd') unifex::set_done(std::move(self->r));
    else unifex::set_value(std::move(self->r));
  }
  void start() noexcept {
    E.started++;
    if (kind == 'a') E.pending = [this] { finish(this, 'v'); };
    else finish(this, kind);
  }
};

// LV = false: copy and move constructors are both fault points (the sender is handed over as an rvalue);
// LV = true: the copy constructor is a fault point, the move constructor is noexcept and is none (the sender is
// handed over as an LVALUE: nest() of the real scopes must copy it, and every noexcept-specification on the way
// has to be computed for the copy, not for the move)
template <bool LV>
struct fsend_t {
  template <template <typename...> class Variant, template <typename...> class Tuple>
  using value_types = Variant<Tuple<>>;
  template <template <typename...> class Variant>
  using error_types = Variant<std::exception_ptr>;
  static constexpr bool sends_done = true;
  static constexpr blocking_kind blocking = blocking_kind::maybe;
  static constexpr bool is_always_scheduler_affine = false;
  char kind;
  explicit fsend_t(char k) : kind(k) { E.live_send++; }
  fsend_t(const fsend_t& o) : kind(o.kind) { fp("copy"); E.live_send++; }
  fsend_t(fsend_t&& o) noexcept(LV) : kind(o.kind) { if constexpr (!LV) fp("move"); E.live_send++; }
  ~fsend_t() { E.live_send--; }
  template <typename R>
  friend fop<remove_cvref_t<R>> tag_invoke(tag_t<unifex::connect>, fsend_t&& s, R&& r) {
    fp("connect");
    return fop<remove_cvref_t<R>>{(R&&)r, s.kind};
  }
  template <typename R>
  friend fop<remove_cvref_t<R>> tag_invoke(tag_t<unifex::connect>, const fsend_t& s, R&& r) {
    fp("connect");
    return fop<remove_cvref_t<R>>{(R&&)r, s.kind};
  }
};

// a scope whose nest() is a fault point
template <typename S>
struct flaky {
  S scope;
  template <typename Sender>
  friend auto tag_invoke(tag_t<unifex::nest>, Sender&& sender, flaky& self)
      -> decltype(unifex::nest((Sender&&)sender, self.scope)) {
    fp("nest");
    return unifex::nest((Sender&&)sender, self.scope);
  }
};

std::size_t word(v2::async_scope& s) { return s.opState_.load(std::memory_order_relaxed); }
std::size_t word(v1::async_scope& s) { return s.scope_.opState_.load(std::memory_order_relaxed); }
template <typename S> std::size_t word(flaky<S>& s) { return word(s.scope); }
void join(v2::async_scope& s) { sync_wait(s.join()); }
void join(v1::async_scope& s) { sync_wait(s.complete()); }
template <typename S> void join(flaky<S>& s) { join(s.scope); }

bool last_threw = false;

// one run of one case with the k-th fault point throwing (k = 0: none); returns the failures
template <typename Scope, bool LV = false>
std::string run_once(const std::string& fn, char kind, const std::string& post, int k) {
  using fsend = fsend_t<LV>;
  auto pass = [](fsend& x) -> std::conditional_t<LV, fsend&, fsend&&> { return static_cast<std::conditional_t<LV, fsend&, fsend&&>>(x); };
  for (auto& q : E.quarantine) ::operator delete(q.first);
  E = Env{};
  E.countdown = k;
  std::string bad;
  auto add = [&](const std::string& what, const std::string& detail) {
    bad += (bad.empty() ? "" : ",") + what + "(" + detail + ")";
  };
  {
    Scope scope;
    std::size_t w0 = word(scope);
    bool threw = false;
    char got = '?';
    {
      fsend s{kind};
      try {
        if (fn == "detached") {
          spawn_detached(pass(s), scope, talloc<std::byte>{});
          E.countdown = 0;
        } else {
          auto fut = spawn_future(pass(s), scope, talloc<std::byte>{});
          E.countdown = 0;
          if (post == "await") {
            if (E.pending) { auto f = std::move(E.pending); E.pending = nullptr; f(); }
            try {
              auto r = sync_wait(std::move(fut));
              got = r ? 'v' : 'd';
            } catch (const fault&) { got = 'e'; }
          }
          // else: ~future -> drop()
        }
      } catch (const falloc&) {
        threw = true;
      } catch (const fault&) {
        threw = true;
      }
      E.countdown = 0;
    }
    if (E.pending) { auto f = std::move(E.pending); E.pending = nullptr; f(); }
    if (E.hit && !threw) add("noexc", std::string("fault at ") + E.hit + " was swallowed");
    if (!E.hit && threw) add("noexc", "exception without an injected fault");
    if (E.allocs != E.deallocs)
      add("leak", "allocations=" + std::to_string(E.allocs) + " deallocations=" + std::to_string(E.deallocs));
    if (E.live_send != 0 || E.live_op != 0)
      add("alive", "senders=" + std::to_string(E.live_send) + " operations=" + std::to_string(E.live_op));
    if (threw && E.started != 0) add("started", "operations started=" + std::to_string(E.started));
    if (!threw && (E.started != 1 || E.completed != 1))
      add("result", "started=" + std::to_string(E.started) + " completed=" + std::to_string(E.completed));
    if (!threw && fn == "future" && post == "await") {
      char want = kind == 'a' ? 'v' : kind;
      if (got != want) add("result", std::string("future delivered ") + got + " for " + want);
    }
    last_threw = threw;
    std::size_t w1 = word(scope);
    if (w1 != w0) {
      add("scope", "word before=" + std::to_string(w0) + " after=" + std::to_string(w1));
      // joining would never complete; leave the scope alone
    } else {
      join(scope);
      if (word(scope) != 0) add("join", "word after join=" + std::to_string(word(scope)));
    }
  }
  return bad;
}

template <typename Scope, bool LV = false>
std::string sweep(const std::string& fn, char kind, const std::string& post) {
  std::string pts, bad, runs;
  for (int k = 1; k <= 64; ++k) {
    std::string b = run_once<Scope, LV>(fn, kind, post, k);
    std::string where = E.hit ? E.hit : "none";
    runs += (runs.empty() ? "" : ",") + where + "@" + std::to_string(k) + "=" + std::to_string((int)last_threw) + "/" +
            std::to_string(E.allocs) + "/" + std::to_string(E.deallocs) + "/" + std::to_string(E.started);
    if (!b.empty()) bad += (bad.empty() ? "" : ";") + where + "@" + std::to_string(k) + ":" + b;
    if (!E.hit) break;     // fewer than k fault points: this was the clean run
    pts += (pts.empty() ? "" : ",") + where + "@" + std::to_string(k);
  }
  return "points=" + pts + " | runs=" + runs + " | " + (bad.empty() ? "OK" : "BAD " + bad);
}

std::string dispatch(const std::string& fn, const std::string& sc, char kind, const std::string& post, bool lv) {
  if (lv) return sc == "v1" ? sweep<v1::async_scope, true>(fn, kind, post) : sweep<v2::async_scope, true>(fn, kind, post);
  if (sc == "v2") return sweep<v2::async_scope>(fn, kind, post);
  if (sc == "v1") return sweep<v1::async_scope>(fn, kind, post);
  if (sc == "fv2") return sweep<flaky<v2::async_scope>>(fn, kind, post);
  return sweep<flaky<v1::async_scope>>(fn, kind, post);
}

}  // namespace

int main() {
  std::string line;
  while (std::getline(std::cin, line)) {
    std::istringstream is(line);
    std::string fn, sc, kind, post, arg;
    is >> fn >> sc >> kind >> post >> arg;
    if (fn.empty()) { std::printf("\n"); continue; }
    std::string res;
    if (post == "fork") {
      // spawn_detached terminates the process only for an error completion
      std::fflush(stdout);
      pid_t pid = fork();
      if (pid == 0) {
        std::string b = sc == "v1" ? run_once<v1::async_scope>(fn, kind[0], "drop", 0)
                                   : run_once<v2::async_scope>(fn, kind[0], "drop", 0);
        _exit(b.empty() ? 0 : 1);
      }
      int st = 0;
      waitpid(pid, &st, 0);
      bool aborted = WIFSIGNALED(st) && WTERMSIG(st) == SIGABRT;
      bool clean = WIFEXITED(st) && WEXITSTATUS(st) == 0;
      bool want_abort = kind[0] == 'e';
      res = std::string("points= | runs= | ") +
            ((want_abort ? aborted : clean) ? "OK" : "BAD none@0:terminate(child " +
               std::string(aborted ? "aborted" : clean ? "exited 0" : "failed") + ")");
    } else {
      res = dispatch(fn, sc, kind[0], post, arg == "lv");
    }
    std::printf("%s %s %s %s%s | %s\n", fn.c_str(), sc.c_str(), kind.c_str(), post.c_str(), arg.empty() ? "" : (" " + arg).c_str(), res.c_str());
    std::fflush(stdout);
  }
  return 0;
}
