// K1 driver (C19, unit 1): the real unifex::cancellable<> / try_complete over a scriptable nested
// operation.
// program: <late|early> <sync|async|none> <stop|nostop|prestop>
//   late/early : StopsEarly = false / true
//   sync       : nested.start() calls try_complete and completes the receiver inside start()
//   async      : nested.start() arms a completion that virtual thread 1 ("thread A") delivers
//   none       : there is no natural completion (only stop() completes)
//   stop       : virtual thread 2 ("thread B") requests stop on the receiver's source at any time
//   prestop    : the source is stopped before the operation is constructed
// virtual threads: 0 = connect + start(); 1 = thread A; 2 = thread B; 3 = the receiver's owner:
// destroys the operation as soon as the receiver is completed and fills the storage with 0xAB
// (under ASan the storage is really freed), so that any late access is visible.
//
// The nested operation obeys the contract every real client of cancellable obeys
// (v2::async_mutex, v2::async_manual_reset_event, async_pass): its natural completion and its
// stop() first arbitrate on a word that lives OUTSIDE the operation ("n.slot": 1 armed, 2 taken by
// the completer, 3 removed by stop), and only the side that won touches the operation and calls
// try_complete(this); whoever gets `true` completes the receiver.
#include <unifex/cancellable.hpp>
#include "vh.hpp"
using namespace unifex;

namespace {

struct nctl {
  std::atomic<int> slot{0};
  char mode = 'a';
  bool armed = false;
  void* op = nullptr;
  void (*fire)(void*) = nullptr;
  int starts = 0, stops = 0;
};

// a scheduling point that touches nothing of the operation (an unnamed, untraced atomic): real
// stop() hooks read their members some time after the wrapper decided to call them
static std::atomic<int> g_probe{0};
// storage of the operation the receiver's owner has destroyed in this run (hooks entered on it
// must not dereference their members: they report and return)
static const char* g_dead_lo = nullptr;
static const char* g_dead_hi = nullptr;
static bool is_dead(const void* p) { auto* c = static_cast<const char*>(p); return g_dead_lo && c >= g_dead_lo && c < g_dead_hi; }

template <typename R>
struct nested_op {
  nctl* c;
  R r;
  using wrap_t = typename _cancellable::_op<nested_op>::stop_type;

  void start() noexcept {
    // name the stack-local flag of stop_type::start() (sync_complete_ was just set; in the
    // StopsEarly stop-instead-of-start path it is null and start() is not called at all)
    auto* w = reinterpret_cast<wrap_t*>(this);
    if (w->sync_complete_) dsched::name_range(w->sync_complete_, sizeof(std::atomic<bool>), "c.sync");
    nctl* cc = c;   // after a synchronous completion *this may be gone: no member access then
    cc->starts++;
    dsched::action("nested.start");
    if (cc->mode == 's') {
      finish('v');
    } else if (cc->mode == 'a') {
      cc->op = this;
      cc->fire = [](void* p) { static_cast<nested_op*>(p)->finish('v'); };
      cc->slot.store(1, std::memory_order_release);
      cc->armed = true;
    }
    dsched::action("nstart.ret");
  }
  void stop() noexcept {
    (void)g_probe.load(std::memory_order_relaxed);
    if (is_dead(this)) { dsched::action("nested.stop ON-DESTROYED-OP"); return; }
    c->stops++;
    dsched::action("nested.stop");
    if (c->mode == 'a') {
      int e = 1;
      if (!c->slot.compare_exchange_strong(e, 3, std::memory_order_acq_rel)) {
        if (e == 2) return;  // the completer owns the operation now
      }
    }
    finish('d');
  }
  void finish(char k) noexcept {
    dsched::action("tc.begin");
    if (unifex::try_complete(this)) {
      dsched::action("tc.win");
      if (k == 'v') unifex::set_value(std::move(r), 7);
      else unifex::set_done(std::move(r));
    } else {
      dsched::action("tc.lose");
    }
  }
};

struct nested_sender {
  template <template <typename...> class Variant, template <typename...> class Tuple>
  using value_types = Variant<Tuple<int>>;
  template <template <typename...> class Variant>
  using error_types = Variant<>;
  static constexpr bool sends_done = true;
  static constexpr blocking_kind blocking = blocking_kind::maybe;
  static constexpr bool is_always_scheduler_affine = false;
  nctl* c;
  template <typename R>
  friend nested_op<remove_cvref_t<R>> tag_invoke(unifex::tag_t<unifex::connect>, nested_sender&& s, R&& r) noexcept {
    return nested_op<remove_cvref_t<R>>{s.c, (R&&)r};
  }
};

template <bool Early>
std::vector<std::function<void()>> make_threads(char nmode, const std::string& stopmode) {
  using sender_t = cancellable<nested_sender, Early>;
  using op_t = decltype(unifex::connect(std::declval<sender_t>(), std::declval<vh::root_receiver<>>()));
  struct Shared {
    nctl ctl;
    inplace_stop_source ext;
    vh::root_state root;
    void* mem = nullptr;
    void* memaddr = nullptr;
    op_t* op = nullptr;
    bool constructed = false;
    bool destroyed = false;
    ~Shared() { if (mem) ::operator delete(mem, std::align_val_t(alignof(op_t))); }
  };
  auto sh = std::make_shared<Shared>();
  g_dead_lo = g_dead_hi = nullptr;
  sh->ctl.mode = nmode;
  std::vector<std::function<void()>> th;
  // 0: connect + start
  th.push_back([sh, stopmode] {
    dsched::name_range(&sh->ext.state_, 1, "ext.state");
    dsched::name_range(&sh->ctl.slot, sizeof(sh->ctl.slot), "n.slot");
    if (stopmode == "prestop") sh->ext.request_stop();
    sh->mem = ::operator new(sizeof(op_t), std::align_val_t(alignof(op_t)));
    std::memset(sh->mem, 0xAB, sizeof(op_t));
    sh->op = ::new (sh->mem) op_t(unifex::connect(
        sender_t{nested_sender{&sh->ctl}}, vh::root_receiver<>{&sh->root, sh->ext.get_token()}));
    dsched::name_range(&sh->op->state_, sizeof(sh->op->state_), "c.state");
    dsched::name_range(&sh->op->stop_, sizeof(sh->op->stop_), "c.cb");
    sh->constructed = true;
    unifex::start(*sh->op);
    dsched::action("start.returned");
  });
  // 1: thread A - the natural completion
  th.push_back([sh, nmode] {
    if (nmode != 'a') return;
    // (in StopsEarly mode nested.start() may never be called: then there is nothing to complete)
    dsched::block_until([&] { return sh->ctl.armed || sh->root.completions > 0; });
    if (!sh->ctl.armed) return;
    int e = 1;
    if (sh->ctl.slot.compare_exchange_strong(e, 2, std::memory_order_acq_rel)) sh->ctl.fire(sh->ctl.op);
  });
  // 2: thread B - the stop request
  th.push_back([sh, stopmode] {
    if (stopmode != "stop") return;
    dsched::block_until([&] { return sh->constructed; });
    sh->ext.request_stop();
  });
  // 3: the owner of the receiver destroys the operation once it completed
  th.push_back([sh] {
    dsched::block_until([&] { return sh->root.completions > 0; });
    sh->memaddr = sh->mem;
    sh->op->~op_t();
    std::memset(sh->mem, 0xAB, sizeof(op_t));
#if defined(__SANITIZE_ADDRESS__)
    ::operator delete(sh->mem, std::align_val_t(alignof(op_t)));
    sh->mem = nullptr;
#endif
    sh->destroyed = true;
    g_dead_lo = static_cast<const char*>(sh->memaddr); g_dead_hi = g_dead_lo + sizeof(op_t);
    dsched::action("op_destroyed");
  });
  return th;
}

}  // namespace

int main(int argc, char** argv) {
  auto cli = vh::parse_cli(argc, argv);
  bool early = cli.prog.at(0) == "early";
  char nmode = cli.prog.at(1)[0];
  std::string stopmode = cli.prog.size() > 2 ? cli.prog[2] : "nostop";
  auto make = [&]() { return early ? make_threads<true>(nmode, stopmode) : make_threads<false>(nmode, stopmode); };
  // direct monitor = the property on the implementation's own run.  The verdict starts with a tag
  // that tools/units/cancel.py puts into the violation key.
  auto monitor = [&](const dsched::Result& r) -> std::string {
    int roots = 0, stops = 0, starts = 0;
    bool in_nstart = false;               // thread 0 is inside nested.start()
    bool destroyed = false, completed = false, t0_returned = false;
    std::string bad;
    auto has = [](const std::string& e, const char* s) { return e.find(s) != std::string::npos; };
    for (auto& e : r.trace) {
      // thread 3 is the destroyer: ~stop_type() legitimately reads state_
      bool touches = e.rfind("t3 ", 0) != 0 && (has(e, " c.state ") || has(e, " c.cb") || has(e, "!nested."));
      if (has(e, "!root ")) { ++roots; completed = true; continue; }
      if (has(e, "!op_destroyed")) { destroyed = true; continue; }
      if (has(e, "!start.returned")) { t0_returned = true; continue; }
      const char* what = has(e, " c.state ") ? "STATE" : has(e, " c.cb") ? "CALLBACK" : "HOOK";
      if (touches && destroyed && bad.empty()) bad = std::string("USE-AFTER-DESTROY-") + what + ": " + e;
      if (touches && completed && !destroyed && bad.empty()) bad = std::string("LATE-ACCESS-") + what + ": " + e;
      if (has(e, " c.sync ") && t0_returned && bad.empty()) bad = "DANGLING-FLAG: " + e;
      if (has(e, "!nested.start")) { ++starts; in_nstart = true; }
      if (has(e, "!nstart.ret")) in_nstart = false;
      if (has(e, "!nested.stop")) {
        ++stops;
        if (completed && bad.empty()) bad = "STOP-HOOK-AFTER-COMPLETION: " + e;
        if (!early && starts == 0 && bad.empty()) bad = "STOP-HOOK-BEFORE-START: " + e;
        if (in_nstart && bad.empty()) bad = "STOP-HOOK-DURING-START: " + e;
      }
    }
    if (!bad.empty()) return bad;
    if (roots != 1) return "COMPLETIONS: root completions=" + std::to_string(roots);
    if (stops > 1) return "STOP-HOOK-TWICE: nested.stop calls=" + std::to_string(stops);
    if (starts > 1) return "START-TWICE: nested.start calls=" + std::to_string(starts);
    return "";
  };
  return vh::drive(cli, make, monitor);
}
