// K1 driver (C19, unit 4): the real unifex::canary / canary::watcher / canary::guard.
// program: <watched 0|1> <ask 0|1>
// virtual threads: 0 = owner of the watcher (start()): optionally watcher.alive(), uses the operation
// state under a truthy guard, releases the guard, destroys the watcher; 1 = destroys the canary
// (the operation state) at any time.  Both objects live in their own heap blocks which are filled
// with 0xAB after destruction (really freed under ASan) so that a late access is visible.
#include <unifex/canary.hpp>
#include "vh.hpp"
using namespace unifex;

namespace {
static std::atomic<int> g_probe{0};   // a scheduling point that touches nothing

struct Shared {
  void* cmem = nullptr; void* wmem = nullptr;
  canary* c = nullptr; canary::watcher* w = nullptr;
  bool ready = false, cgone = false, wgone = false;
  ~Shared() { if (cmem) ::operator delete(cmem); if (wmem) ::operator delete(wmem); }
};

std::vector<std::function<void()>> make_threads(bool watched, bool ask) {
  auto sh = std::make_shared<Shared>();
  std::vector<std::function<void()>> th;
  th.push_back([sh, watched, ask] {
    sh->cmem = ::operator new(sizeof(canary));
    sh->c = ::new (sh->cmem) canary();
    dsched::name_range(&sh->c->watcher_, sizeof(sh->c->watcher_), "k.cw");
    dsched::name_value((std::uint64_t)(std::uintptr_t)sh->c, "C");
    if (watched) {
      sh->wmem = ::operator new(sizeof(canary::watcher));
      sh->w = ::new (sh->wmem) canary::watcher(sh->c->watch());
      dsched::name_range(&sh->w->canary_, sizeof(sh->w->canary_), "k.wc");
      dsched::name_range(&sh->w->state_, sizeof(sh->w->state_), "k.ws");
      dsched::name_value((std::uint64_t)(std::uintptr_t)sh->w, "W");
    }
    dsched::action("ready");
    sh->ready = true;
    if (!watched) return;
    if (ask) {
      if (auto g = sh->w->alive()) {
        (void)g_probe.load(std::memory_order_relaxed);
        dsched::action(sh->cgone ? "use AFTER-DESTROY" : "use");
      }
    }
    sh->w->~watcher();
    std::memset(sh->wmem, 0xAB, sizeof(canary::watcher));
#if defined(__SANITIZE_ADDRESS__)
    ::operator delete(sh->wmem); sh->wmem = nullptr;
#endif
    sh->wgone = true;
    dsched::action("w_gone");
  });
  th.push_back([sh] {
    dsched::block_until([&] { return sh->ready; });
    sh->c->~canary();
    std::memset(sh->cmem, 0xAB, sizeof(canary));
#if defined(__SANITIZE_ADDRESS__)
    ::operator delete(sh->cmem); sh->cmem = nullptr;
#endif
    sh->cgone = true;
    dsched::action("c_gone");
  });
  return th;
}
}  // namespace

int main(int argc, char** argv) {
  auto cli = vh::parse_cli(argc, argv);
  bool watched = cli.prog.at(0) == "1", ask = cli.prog.size() > 1 && cli.prog[1] == "1";
  auto make = [&]() { return make_threads(watched, ask); };
  auto monitor = [&](const dsched::Result& r) -> std::string {
    bool cgone = false, wgone = false, ready = false, held = false;
    auto has = [](const std::string& e, const char* s) { return e.find(s) != std::string::npos; };
    for (auto& e : r.trace) {
      if (has(e, "!ready")) { ready = true; continue; }
      if (!ready) continue;
      if (has(e, "!c_gone")) { cgone = true; if (held) return "CANARY-DESTROYED-UNDER-GUARD: " + e; continue; }
      if (has(e, "!w_gone")) { wgone = true; continue; }
      if (has(e, "AFTER-DESTROY")) return "USE-AFTER-DESTROY: " + e;
      if (has(e, " k.cw ") && cgone) return "USE-AFTER-DESTROY: " + e;
      if ((has(e, " k.wc ") || has(e, " k.ws ")) && wgone) return "USE-AFTER-DESTROY: " + e;
      if (has(e, " k.ws C.") && has(e, " 0->1 ok")) held = true;
      if (has(e, " k.ws S.") && has(e, " 3")) held = false;
    }
    if (!cgone) return "DEADLOCK: canary destructor did not return";
    if (watched && !wgone) return "DEADLOCK: watcher destructor did not return";
    return "";
  };
  return vh::drive(cli, make, monitor);
}
