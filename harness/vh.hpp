// vh.hpp — common pieces of the K1 drivers: scriptable leaf sender, logging root receiver,
// explore/replay command line, trace output (one line per distinct trace).
#pragma once
#include <unifex/receiver_concepts.hpp>
#include <unifex/sender_concepts.hpp>
#include <unifex/get_stop_token.hpp>
#include <unifex/inplace_stop_token.hpp>
#include <unifex/manual_lifetime.hpp>
#include <unifex/blocking.hpp>

#include <cstdio>
#include <cstdlib>
#include <cstring>
#include <exception>
#include <functional>
#include <map>
#include <memory>
#include <optional>
#include <string>
#include <vector>

namespace vh {

struct err { int code; };

// ---------------------------------------------------------------------------------------------
// leaf: an asynchronous sender completed from outside.  kind: 'v' value(int), 'e' error, 'd' done
struct leaf_ctl {
  const char* name = "leaf";
  void* op = nullptr;
  void (*complete_fn)(void*, char, int) = nullptr;
  bool started = false;
  bool completed = false;
  bool stop_seen = false;       // the leaf's stop callback ran
  bool stop_at_start = false;   // token already stopped when the leaf was started
  int starts = 0;
  void wait_started() { dsched::block_until([this] { return started; }); }
  void complete(char kind, int v = 0) {
    wait_started();
    completed = true;
    complete_fn(op, kind, v);
  }
};

template <typename Receiver>
struct leaf_op {
  struct cb { leaf_ctl* c; void operator()() noexcept { c->stop_seen = true; dsched::action("%s.stop_seen", c->name); } };
  using token_t = unifex::stop_token_type_t<Receiver&>;
  using cb_t = typename token_t::template callback_type<cb>;
  leaf_ctl* ctl;
  Receiver r;
  unifex::manual_lifetime<cb_t> stopcb;
  bool cb_live = false;

  void start() noexcept {
    ctl->op = this;
    ctl->complete_fn = &do_complete;
    ctl->starts++;
    auto tok = unifex::get_stop_token(r);
    ctl->stop_at_start = tok.stop_requested();
    dsched::action("%s.start stop=%d", ctl->name, (int)ctl->stop_at_start);
    stopcb.construct(tok, cb{ctl});
    cb_live = true;
    ctl->started = true;
  }
  static void do_complete(void* p, char kind, int v) {
    auto* self = static_cast<leaf_op*>(p);
    if (self->cb_live) { self->stopcb.destruct(); self->cb_live = false; }
    dsched::action("%s.complete %c", self->ctl->name, kind);
    if (kind == 'v') unifex::set_value(std::move(self->r), (int)v);
    else if (kind == 'e') unifex::set_error(std::move(self->r), std::make_exception_ptr(err{v}));
    else unifex::set_done(std::move(self->r));
  }
};

struct leaf {
  template <template <typename...> class Variant, template <typename...> class Tuple>
  using value_types = Variant<Tuple<int>>;
  template <template <typename...> class Variant>
  using error_types = Variant<std::exception_ptr>;
  static constexpr bool sends_done = true;
  static constexpr unifex::blocking_kind blocking = unifex::blocking_kind::never;
  static constexpr bool is_always_scheduler_affine = false;
  leaf_ctl* ctl;
  template <typename R>
  friend leaf_op<unifex::remove_cvref_t<R>> tag_invoke(unifex::tag_t<unifex::connect>, const leaf& s, R&& r) {
    return leaf_op<unifex::remove_cvref_t<R>>{s.ctl, (R&&)r};
  }
};

// ---------------------------------------------------------------------------------------------
// root receiver: logs the completion; carries a stop token
struct root_state {
  int completions = 0;
  char kind = '?';
  int value = -1;
  bool started = false;
};

template <typename Token = unifex::inplace_stop_token>
struct root_receiver {
  root_state* st;
  Token tok;
  const char* name = "root";
  template <typename... V>
  void set_value(V&&... v) && noexcept {
    st->completions++; st->kind = 'v';
    if constexpr (sizeof...(V) == 1) { if constexpr ((std::is_convertible_v<V, int> && ...)) st->value = (int)(v, ...); }
    dsched::action("%s value", name);
  }
  template <typename E>
  void set_error(E&&) && noexcept { st->completions++; st->kind = 'e'; dsched::action("%s error", name); }
  void set_done() && noexcept { st->completions++; st->kind = 'd'; dsched::action("%s done", name); }
  friend Token tag_invoke(unifex::tag_t<unifex::get_stop_token>, const root_receiver& r) noexcept { return r.tok; }
};

// ---------------------------------------------------------------------------------------------
// command line:  <driver> <program...> (--explore <bound> <maxruns> [--random <seed> <n>] | --replay <decisions>)
struct Cli {
  std::vector<std::string> prog;
  bool replay = false;
  std::string decisions;
  int bound = 2;
  long maxruns = 100000;
  unsigned long seed = 0;
  long nrandom = 0;
  bool full = false;   // print every run, not only distinct traces
};
inline Cli parse_cli(int argc, char** argv) {
  Cli c;
  for (int i = 1; i < argc; ++i) {
    std::string a = argv[i];
    if (a == "--explore") { c.bound = std::atoi(argv[++i]); c.maxruns = std::atol(argv[++i]); }
    else if (a == "--random") { c.seed = std::strtoul(argv[++i], nullptr, 10); c.nrandom = std::atol(argv[++i]); }
    else if (a == "--replay") { c.replay = true; c.decisions = argv[++i]; }
    else if (a == "--full") c.full = true;
    else c.prog.push_back(a);
  }
  return c;
}

inline std::string join_trace(const dsched::Result& r) {
  std::string s;
  for (auto& e : r.trace) { if (!s.empty()) s += ";"; s += e; }
  return s;
}

// Runs the exploration (or a single replay) and prints, per distinct trace:
//   TRACE <count> <decisions of the first schedule producing it> | <verdict> | ev;ev;...
// verdict comes from `monitor(result)`: empty string = fine, otherwise a description of the
// direct-monitor failure (the property evaluated on the implementation's own run).
// Finally: STATS runs=<n> distinct=<k> max_steps=<m> truncated=<0|1>
inline int drive(const Cli& cli,
                 const std::function<std::vector<std::function<void()>>()>& make,
                 const std::function<std::string(const dsched::Result&)>& monitor) {
  dsched::on_fatal = [&](const dsched::Result& r) {
    std::printf("FATAL %s | %s | %s\n", r.fatal.c_str(), r.schedule().c_str(), join_trace(r).c_str());
  };
  if (cli.replay) {
    dsched::Options o;
    o.decisions = dsched::decisions_from_string(cli.decisions);
    auto r = dsched::run(make(), o);
    std::printf("TRACE 1 %s | %s | %s\n", cli.decisions.c_str(), monitor(r).c_str(), join_trace(r).c_str());
    std::printf("SCHEDULE %s\n", r.schedule().c_str());
    return 0;
  }
  std::map<std::string, std::pair<long, std::string>> seen;  // trace -> (count, first decisions)
  std::vector<std::string> order;
  long bad = 0;
  auto st = dsched::explore(make, [&](const dsched::Result& r, const dsched::Options& o) {
    std::string v = monitor(r);
    std::string key = v + " | " + join_trace(r);
    auto it = seen.find(key);
    if (it == seen.end()) { seen.emplace(key, std::make_pair(1L, dsched::decisions_to_string(o.decisions))); order.push_back(key); }
    else it->second.first++;
    if (!v.empty()) ++bad;
    return true;
  }, cli.bound, cli.maxruns, cli.seed, cli.nrandom);
  for (auto& k : order) std::printf("TRACE %ld %s | %s\n", seen[k].first, seen[k].second.c_str(), k.c_str());
  std::printf("STATS runs=%ld distinct=%zu max_steps=%ld truncated=%d monitor_failures=%ld\n",
              st.runs, seen.size(), st.max_steps, (int)st.truncated, bad);
  return 0;
}

}  // namespace vh
