// K3-style driver for C10 "every coroutine frame is destroyed exactly once", task<> OBJECT operations outside a run:
// k slots of std::optional<unifex::task<int>>; a line "<k> | N0 M0:1 D1 A0 ..." is executed on the real task<int>
// (construct, move-construct, move-assign onto a disengaged slot / a moved-from task / a task that still owns a
// not-yet-awaited coroutine, destroy without awaiting, await the survivor), all slots are dropped at the end, and the
// trace is printed in the format of the TaskBox model (ocaml handler "taskbox").  Every coroutine gets a frame tag
// and an instance-counted payload BY VALUE: both live in the coroutine frame from the call on.
#include "k2t.hpp"
#include <array>
#include <optional>

namespace {
struct payload {
  static inline int live = 0;
  payload() noexcept { ++live; }
  payload(const payload&) noexcept { ++live; }
  payload(payload&&) noexcept { ++live; }
  ~payload() { --live; }
};
unifex::task<int> make(k2t::frame_tag ft, payload) {
  k2t::local l{ft.n, 1};
  co_return ft.n;
}
constexpr int MAXK = 8;

std::string run_line(const std::string& line) {
  std::istringstream is(line);
  int k = 0; std::string bar;
  is >> k >> bar;
  if (k < 0 || k > MAXK) return "ERR k";
  std::vector<std::string> ops; std::string tok;
  while (is >> tok) ops.push_back(tok);
  k2t::LOGLEN = 0; k2t::LOGBUF[0] = 0; k2t::roots = 0; k2t::next_frame = 0;
  long base = k2t::live_blocks; int pbase = payload::live;
  {
    std::array<std::optional<unifex::task<int>>, MAXK> slots;
    unifex::inplace_stop_source src;
    for (auto& o : ops) {
      char c = o[0];
      int i = std::atoi(o.c_str() + 1), j = -1;
      auto colon = o.find(':');
      if (colon != std::string::npos) j = std::atoi(o.c_str() + colon + 1);
      if (c == 'N') {
        if (i >= k) { k2t::log("skip"); continue; }
        if (slots[i]) *slots[i] = make(k2t::frame_tag{}, payload{});
        else slots[i].emplace(make(k2t::frame_tag{}, payload{}));
      } else if (c == 'M') {
        if (i >= k || j < 0 || j >= k || i == j || !slots[i]) { k2t::log("skip"); continue; }
        if (slots[j]) *slots[j] = std::move(*slots[i]);
        else slots[j].emplace(std::move(*slots[i]));
      } else if (c == 'D') {
        if (i >= k) { k2t::log("skip"); continue; }
        slots[i].reset();
      } else if (c == 'A') {
        if (i >= k || !slots[i] || !slots[i]->coro_) { k2t::log("skip"); continue; }
        using op_t = unifex::connect_result_t<unifex::task<int>, k2t::root_receiver>;
        alignas(alignof(op_t) > 64 ? alignof(op_t) : 64) static unsigned char storage[sizeof(op_t) + 64];
        std::memset(storage, 0xAB, sizeof storage);
        op_t* op = ::new (static_cast<void*>(storage))
            op_t(unifex::connect(std::move(*slots[i]), k2t::root_receiver{k2t::token{src.get_token()}}));
        unifex::start(*op);
        op->~op_t();
      }
    }
    for (int i = 0; i < k; ++i) slots[i].reset();
  }
  long after = k2t::live_blocks - base;   // before any string is built
  std::string out(k2t::LOGBUF, k2t::LOGLEN);
  return out + " # live=" + std::to_string(after) + " payload=" + std::to_string(payload::live - pbase);
}
}  // namespace

int main() {
  std::string line;
  while (std::getline(std::cin, line)) { std::cout << run_line(line) << "\n"; std::cout.flush(); }
  return 0;
}
