// K3 driver for C06 (unit 2): the real trampoline_scheduler on a program read from stdin.
//   line:  tramp <depth> <tree>      tree ::= '(' ['!'] tree* ')'     ('!' = stop already requested)
// Operations are numbered in preorder.  When an operation completes, its receiver logs
//   <label>:<v|d>:<number of receiver frames on the stack>:<trampoline_state::recursionDepth_>
// and then connects and starts the operation's children, in order, on the same scheduler.
// Output: the log in execution order, the maximum nesting, and how many operations had completed
// when the outermost start() returned (must be all of them), in the format of the extracted
// model (ocaml handler "tramp").
#include <unifex/trampoline_scheduler.hpp>
#include <unifex/scheduler_concepts.hpp>
#include <unifex/sender_concepts.hpp>
#include <unifex/inplace_stop_token.hpp>
#include <unifex/manual_lifetime.hpp>
#include <cstdio>
#include <iostream>
#include <memory>
#include <sstream>
#include <string>
#include <vector>

using namespace unifex;

struct NodeRT;
struct Run {
  trampoline_scheduler sched;
  std::vector<std::unique_ptr<NodeRT>> nodes;   // preorder
  std::string log;
  int nest = 0, max_nest = 0, completed = 0;
  explicit Run(std::size_t d) : sched(d) {}
};

struct node_receiver {
  Run* run; NodeRT* node;
  void complete(char kind) noexcept;
  void set_value() && noexcept { complete('v'); }
  void set_done() && noexcept { complete('d'); }
  template <class E> void set_error(E&&) && noexcept { complete('e'); }
  friend inplace_stop_token tag_invoke(tag_t<get_stop_token>, const node_receiver& r) noexcept;
};

using op_t = connect_result_t<decltype(schedule(std::declval<trampoline_scheduler&>())), node_receiver>;

struct NodeRT {
  int label = 0;
  bool stopped = false;
  std::vector<NodeRT*> kids;
  inplace_stop_source src;
  manual_lifetime<op_t> op;
  bool made = false;
  ~NodeRT() { if (made) op.destruct(); }
};

inplace_stop_token tag_invoke(tag_t<get_stop_token>, const node_receiver& r) noexcept { return r.node->src.get_token(); }

static void start_node(Run* run, NodeRT* n) {
  n->op.construct_with([&] { return connect(schedule(run->sched), node_receiver{run, n}); });
  n->made = true;
  start(n->op.get());
}

void node_receiver::complete(char kind) noexcept {
  Run* r = run; NodeRT* n = node;
  ++r->nest;
  if (r->nest > r->max_nest) r->max_nest = r->nest;
  auto* st = trampoline_scheduler::trampoline_state::current_;
  long depth = st ? (long)st->recursionDepth_ : -1;
  if (!r->log.empty()) r->log += ",";
  r->log += std::to_string(n->label) + ":" + kind + ":" + std::to_string(r->nest) + ":" + std::to_string(depth);
  ++r->completed;
  for (NodeRT* k : n->kids) start_node(r, k);
  --r->nest;
}

static NodeRT* parse(Run& run, const std::string& s, size_t& pos) {
  // s[pos] == '('
  ++pos;
  auto up = std::make_unique<NodeRT>();
  NodeRT* n = up.get();
  n->label = (int)run.nodes.size();
  run.nodes.push_back(std::move(up));
  if (pos < s.size() && s[pos] == '!') { n->stopped = true; ++pos; }
  while (pos < s.size() && s[pos] == '(') n->kids.push_back(parse(run, s, pos));
  ++pos;  // ')'
  return n;
}

int main() {
  std::string line;
  while (std::getline(std::cin, line)) {
    std::istringstream is(line);
    std::string cmd, tree; long d;
    is >> cmd >> d >> tree;
    if (cmd != "tramp" || tree.empty() || tree[0] != '(') { std::cout << "ERR args\n"; continue; }
    Run run((std::size_t)d);
    size_t pos = 0;
    NodeRT* root = parse(run, tree, pos);
    for (auto& n : run.nodes) if (n->stopped) n->src.request_stop();
    start_node(&run, root);
    int at_return = run.completed;
    bool state_cleared = trampoline_scheduler::trampoline_state::current_ == nullptr;
    std::cout << run.log << " max=" << run.max_nest << " returned_after=" << at_return << "/" << run.nodes.size()
              << " cleared=" << (state_cleared ? 1 : 0) << "\n";
    std::cout.flush();
  }
}
