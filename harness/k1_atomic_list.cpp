// K1 driver: the real atomic_intrusive_list (include/unifex/detail/atomic_intrusive_list.hpp,
// source/atomic_intrusive_list.cpp) with a trivial node type.
// program:  <mode> <nn> <prog of thread 0> <prog of thread 1> ...
//   mode: plain  -> atomic_intrusive_list<Node, false> (what v2::async_mutex uses)
//         latch  -> atomic_intrusive_list<Node, true>  (what v2::async_manual_reset_event uses)
//         a suffix "+strict" makes the linearizability monitor include empty() (it is known not to be
//         linearizable; default: its answers are left out of the history);
//         a suffix "+keep" never destroys nodes (logic only);
//         a suffix "+locallife" treats a thread's private target list like the stack-local list of
//         async_manual_reset_event::set(): it dies when its thread has finished its program
//         ("!listdead h<l>"), and the monitor reports any later access to its head_ / sentinel_.self
//         (not part of the registered check: same defect class as the node case, reached through
//         try_remove of a drained node).
//   nn: number of nodes (<= 8).  prog: string over
//     B<d> push_back(n_d)          F<d> push_front(n_d) [plain] / push_front_unless_latched(n_d) [latch]
//     P    pop_front()             Q    pop_front() of this thread's private target list [latch]
//     R<d> try_remove(n_d)         D    latch_and_drain(private target list) [latch]
//     U    unlatch() [latch]       L    is_latched() [latch]         E  empty()
//     K    one store to a private atomic (kicks threads that dsched parked as spinning)
//     "-" = empty program.  Programs must not use B together with D (push_back on a latched list
//     dereferences sentinel_.self == nullptr; the library never does that).
// Interface preconditions are kept by the driver exactly as the model's dispatcher does: a node is
// pushed at most once (a second push is logged "!skip"; a push_front_unless_latched that answered
// false did not push; programs push a given node from one thread only), D needs an empty target list.
// Lifetime: every node lives in its own poisonable storage.  A node that a successful pop_front /
// try_remove handed back is destroyed and its storage overwritten with 0xDD at once - unless some
// thread's program still contains a try_remove of that node (whoever calls try_remove(x) keeps x
// alive): then the last such try_remove destroys it.  "!handback n<d>" / "!free n<d>" are logged.
// Every thread logs "!call <op>" before and "!ret <result>" after each operation.  The last thread
// to finish logs "!final <report>" computed from the raw memory.
// Direct monitor:
//   * the call/ret history is linearizable w.r.t. the sequential list (brute force search);
//   * no access to n<d>.self / n<d>.rest after "!handback n<d>" by a thread that is not itself
//     inside try_remove(n_d);
//   * at the end: every pushed node is exactly once in {shared chain} + {target chains} +
//     {handed back}, every self pointer names the link that holds its object, no lock bit is set.
#include <unifex/detail/atomic_intrusive_list.hpp>
#include "vh.hpp"
#include <set>
using namespace unifex;

namespace {
constexpr int MAXN = 8, MAXT = 4;

struct Node : atomic_intrusive_list_node { int id = 0; };

struct Cmd { char c; int d; };
using Prog = std::vector<Cmd>;

std::vector<Prog> parse(const std::vector<std::string>& ps) {
  std::vector<Prog> out;
  for (auto& s : ps) {
    Prog p;
    for (std::size_t i = 0; i < s.size(); ++i) {
      char c = s[i];
      if (c == '-') continue;
      if (c == 'B' || c == 'F' || c == 'R') { p.push_back({c, s.at(i + 1) - '0'}); ++i; }
      else p.push_back({c, -1});
    }
    out.push_back(p);
  }
  return out;
}

std::string cmd_str(const Cmd& c) { return c.d >= 0 ? std::string(1, c.c) + std::to_string(c.d) : std::string(1, c.c); }

template <bool Latch>
struct Shared {
  using list_t = atomic_intrusive_list<Node, Latch>;
  using impl_t = atomic_intrusive_list_impl<Latch>;
  // lists are never destroyed (a run may end with nodes still linked)
  alignas(64) unsigned char lbuf[1 + MAXT][sizeof(list_t)];
  alignas(64) unsigned char nbuf[MAXN][64];
  int nn = 0, nt = 0;
  bool keep = false;
  bool used[MAXN] = {}, pushed[MAXN] = {}, handed[MAXN] = {}, destroyed[MAXN] = {};
  int pins[MAXN] = {};          // try_remove(n) operations not yet finished, over all programs
  int finished = 0;
  std::atomic<int> kick{0};
  list_t& list(int l) { return *reinterpret_cast<list_t*>(lbuf[l]); }
  impl_t& impl(int l) { return (impl_t&)list(l); }
  Node* node(int i) { return reinterpret_cast<Node*>(nbuf[i]); }
  Shared(int nn_, const std::vector<Prog>& P, bool keep_) : nn(nn_), nt((int)P.size()), keep(keep_) {
    for (int l = 0; l <= nt; ++l) new (lbuf[l]) list_t();
    for (int i = 0; i < nn; ++i) { new (nbuf[i]) Node(); node(i)->id = i; }
    for (auto& p : P) for (auto& c : p) if (c.c == 'R' && c.d < nn) pins[c.d]++;
  }
  void names() {
    static std::string nm[MAXN][4], ln[1 + MAXT][6];
    for (int l = 0; l <= nt; ++l) {
      std::string L = std::to_string(l);
      ln[l][0] = "h" + L; ln[l][1] = "s" + L + ".self"; ln[l][2] = "x" + L + ".self";
      ln[l][3] = "&h" + L; ln[l][4] = "S" + L; ln[l][5] = "X" + L;
      auto& im = impl(l);
      dsched::name_range(&im.head_, sizeof(im.head_), ln[l][0].c_str());
      dsched::name_range(&im.sentinel_.self, sizeof(im.sentinel_.self), ln[l][1].c_str());
      dsched::name_value((std::uint64_t)(std::uintptr_t)&im.head_, ln[l][3].c_str());
      dsched::name_value((std::uint64_t)(std::uintptr_t)&im.sentinel_, ln[l][4].c_str());
      if constexpr (Latch) {
        dsched::name_range(&im.sentinel_latch_.self, sizeof(im.sentinel_latch_.self), ln[l][2].c_str());
        dsched::name_value((std::uint64_t)(std::uintptr_t)&im.sentinel_latch_, ln[l][5].c_str());
      }
    }
    for (int i = 0; i < nn; ++i) {
      std::string I = std::to_string(i);
      nm[i][0] = "n" + I + ".self"; nm[i][1] = "n" + I + ".rest"; nm[i][2] = "n" + I; nm[i][3] = "&n" + I + ".rest";
      Node* n = node(i);
      dsched::name_range(&n->self, sizeof(n->self), nm[i][0].c_str());
      dsched::name_range(&n->rest, sizeof(n->rest), nm[i][1].c_str());
      dsched::name_value((std::uint64_t)(std::uintptr_t)static_cast<atomic_intrusive_list_node*>(n), nm[i][2].c_str());
      dsched::name_value((std::uint64_t)(std::uintptr_t)&n->rest, nm[i][3].c_str());
    }
  }
  void destroy(int i) {
    if (keep || destroyed[i]) return;
    destroyed[i] = true;
    node(i)->~Node();
    std::memset(nbuf[i], 0xDD, sizeof nbuf[i]);
    dsched::action("free n%d", i);
  }
  void handback(int i) {
    dsched::action("handback n%d", i);
    handed[i] = true;
    if (pins[i] == 0) destroy(i);
  }
  int node_index(atomic_intrusive_list_node* p) {
    for (int i = 0; i < nn; ++i) if (static_cast<atomic_intrusive_list_node*>(node(i)) == p) return i;
    return -1;
  }
  // raw inspection at the end of the run
  std::string final_report() {
    std::string bad;
    auto add = [&](const std::string& m) { if (bad.empty()) bad = m; };
    int seen[MAXN] = {};
    std::string chains;
    for (int l = 0; l <= nt; ++l) {
      auto& im = impl(l);
      atomic_intrusive_list_link* lk = &im.head_;
      chains += "[";
      for (int guard = 0; guard <= nn + 1; ++guard) {
        std::uintptr_t w = lk->a_.load();
        if (w & 1) add("link left locked in list " + std::to_string(l));
        auto* p = reinterpret_cast<atomic_intrusive_list_node*>(w & ~std::uintptr_t(1));
        if (p == &im.sentinel_) {
          if (im.sentinel_.self.a_.load() != lk) add("sentinel.self of list " + std::to_string(l) + " is not the tail link");
          break;
        }
        if constexpr (Latch) {
          if (p == &im.sentinel_latch_) {
            if (lk != &im.head_) add("latch sentinel behind a node");
            if (im.sentinel_latch_.self.a_.load() != lk) add("latch.self is not &head");
            if (im.sentinel_.self.a_.load() != nullptr) add("latched but sentinel.self != null");
            chains += "X";
            break;
          }
        }
        int i = node_index(p);
        if (i < 0) { add("chain of list " + std::to_string(l) + " runs into a foreign pointer"); break; }
        if (destroyed[i] || handed[i]) { add("handed-back node n" + std::to_string(i) + " still linked"); break; }
        if (seen[i]++) { add("node n" + std::to_string(i) + " linked twice"); break; }
        if (p->self.a_.load() != lk) add("n" + std::to_string(i) + ".self does not name the link holding it");
        chains += std::to_string(i);
        lk = &p->rest;
      }
      chains += "]";
    }
    for (int i = 0; i < nn; ++i) {
      if (pushed[i] && !handed[i] && !seen[i]) add("node n" + std::to_string(i) + " lost: pushed, never returned, not linked");
      if (!pushed[i] && seen[i]) add("node n" + std::to_string(i) + " linked but never pushed");
      if (!destroyed[i] && !seen[i] && node(i)->self.a_.load() != nullptr) add("unlinked node n" + std::to_string(i) + " has self != null");
    }
    return (bad.empty() ? std::string("ok ") : "BAD " + bad + " ") + chains;
  }
};

template <bool Latch>
std::vector<std::function<void()>> make_threads(int nn, const std::vector<Prog>& P, bool keep) {
  auto sh = std::make_shared<Shared<Latch>>(nn, P, keep);
  std::vector<std::function<void()>> th;
  for (int t = 0; t < (int)P.size(); ++t) {
    th.push_back([sh, t, prog = P[t]] {
      sh->names();
      auto& M = sh->list(0);
      auto& T = sh->list(t + 1);
      for (auto& c : prog) {
        dsched::action("call %s", cmd_str(c).c_str());
        switch (c.c) {
          case 'B':
            if (c.d >= sh->nn || sh->used[c.d]) { dsched::action("skip"); break; }
            sh->used[c.d] = true; M.push_back(sh->node(c.d)); sh->pushed[c.d] = true; dsched::action("ret u"); break;
          case 'F':
            if (c.d >= sh->nn || sh->used[c.d]) { dsched::action("skip"); break; }
            sh->used[c.d] = true;
            if constexpr (Latch) { bool b = M.push_front_unless_latched(sh->node(c.d)); sh->pushed[c.d] = b; sh->used[c.d] = b; dsched::action("ret %d", (int)b); }
            else { M.push_front(sh->node(c.d)); sh->pushed[c.d] = true; dsched::action("ret 1"); }
            break;
          case 'P': case 'Q': {
            Node* n = (c.c == 'P' ? M : T).pop_front();
            if (!n) dsched::action("ret none");
            else { int i = sh->node_index(n); dsched::action("ret n%d", i); if (i >= 0) sh->handback(i); }
            break;
          }
          case 'R': {
            if (c.d >= sh->nn) { dsched::action("skip"); break; }
            bool b = M.try_remove(sh->node(c.d));
            dsched::action("ret %d", (int)b);
            --sh->pins[c.d];
            if (b) sh->handback(c.d);
            else if (sh->handed[c.d] && sh->pins[c.d] == 0) sh->destroy(c.d);
            break;
          }
          case 'E': { bool b = M.empty(); dsched::action("ret %d", (int)b); break; }
          case 'K': sh->kick.store(1, std::memory_order_relaxed); dsched::action("ret u"); break;
          case 'D':
            if constexpr (Latch) {
              auto& im = sh->impl(t + 1);
              if ((im.head_.a_.load() & ~std::uintptr_t(1)) != (std::uintptr_t)&im.sentinel_) { dsched::action("skip"); break; }
              M.latch_and_drain(T); dsched::action("ret u");
            }
            break;
          case 'U': if constexpr (Latch) { M.unlatch(); dsched::action("ret u"); } break;
          case 'L': if constexpr (Latch) { bool b = M.is_latched(); dsched::action("ret %d", (int)b); } break;
        }
      }
      if (Latch) dsched::action("listdead h%d", t + 1);
      if (++sh->finished == sh->nt) dsched::action("final %s", sh->final_report().c_str());
    });
  }
  return th;
}

// ---------------------------------------------------------------------------------------------
// linearizability: brute force over the call/ret history
struct HOp { int t; Cmd c; int call, ret; std::string res; };
struct Seq {
  std::vector<int> main; bool latched = false; std::vector<std::vector<int>> loc;
};
std::string apply(Seq& s, const HOp& o) {
  auto rm = [&](std::vector<int>& v, int x) { for (std::size_t i = 0; i < v.size(); ++i) if (v[i] == x) { v.erase(v.begin() + i); return true; } return false; };
  switch (o.c.c) {
    case 'B': s.main.push_back(o.c.d); return "u";
    case 'F': if (s.latched) return "0"; s.main.insert(s.main.begin(), o.c.d); return "1";
    case 'P': case 'Q': {
      auto& v = o.c.c == 'P' ? s.main : s.loc[o.t];
      if (v.empty()) return "none";
      int x = v.front(); v.erase(v.begin()); return "n" + std::to_string(x);
    }
    case 'R': {
      if (rm(s.main, o.c.d)) return "1";
      for (auto& v : s.loc) if (rm(v, o.c.d)) return "1";
      return "0";
    }
    case 'D': if (!s.latched) { s.loc[o.t] = s.main; s.main.clear(); s.latched = true; } return "u";
    case 'U': s.latched = false; return "u";
    case 'L': return s.latched ? "1" : "0";
    case 'E': return s.main.empty() ? "1" : "0";
  }
  return "?";
}
bool search(const std::vector<HOp>& H, std::vector<char>& done, int left, const Seq& s) {
  if (left == 0) return true;
  int minret = INT_MAX;
  for (std::size_t i = 0; i < H.size(); ++i) if (!done[i]) minret = std::min(minret, H[i].ret);
  for (std::size_t i = 0; i < H.size(); ++i) {
    if (done[i] || H[i].call > minret) continue;     // some other pending operation returned before this one was called
    Seq s2 = s;
    if (apply(s2, H[i]) != H[i].res) continue;
    done[i] = 1;
    if (search(H, done, left - 1, s2)) { done[i] = 0; return true; }
    done[i] = 0;
  }
  return false;
}

std::string monitor(const std::vector<Prog>& P, const dsched::Result& r, bool strict, bool locallife) {
  const int nt = (int)P.size();
  std::vector<HOp> H;
  std::vector<int> open(nt, -1);
  std::vector<Cmd> curc(nt, Cmd{0, -1});
  bool handed[MAXN] = {};
  bool listdead[2 + MAXT] = {};
  std::string verdict, final_line;
  auto bad = [&](const std::string& m) { if (verdict.empty()) verdict = m; };
  for (int idx = 0; idx < (int)r.trace.size(); ++idx) {
    const std::string& e = r.trace[idx];
    int t = std::atoi(e.c_str() + 1);
    std::size_t sp = e.find(' ');
    std::string rest = e.substr(sp + 1);
    if (t >= nt) { bad("foreign thread"); continue; }
    if (rest[0] == '!') {
      if (rest.compare(0, 6, "!call ") == 0) {
        std::string o = rest.substr(6);
        curc[t] = Cmd{o[0], o.size() > 1 ? o[1] - '0' : -1};
        open[t] = idx;
      } else if (rest.compare(0, 5, "!ret ") == 0) {
        if (open[t] < 0) { bad("ret without call"); continue; }
        H.push_back(HOp{t, curc[t], open[t], idx, rest.substr(5)});
        open[t] = -1; curc[t] = Cmd{0, -1};
      } else if (rest == "!skip") {
        open[t] = -1; curc[t] = Cmd{0, -1};
      } else if (rest.compare(0, 11, "!handback n") == 0) {
        handed[rest[11] - '0'] = true;
      } else if (rest.compare(0, 11, "!listdead h") == 0) {
        listdead[rest[11] - '0'] = true;
      } else if (rest.compare(0, 7, "!final ") == 0) {
        final_line = rest.substr(7);
      }
      continue;
    }
    if (locallife && (rest[0] == 'h' || rest[0] == 's') && std::isdigit((unsigned char)rest[1]) && listdead[rest[1] - '0'])
      bad("target list " + std::to_string(rest[1] - '0') + " touched after its owner returned: t" + std::to_string(t) + " (in " + cmd_str(curc[t]) + ") " +
          rest.substr(0, rest.find(' ', rest.find(' ') + 1)));
    if (rest[0] == 'n' && std::isdigit((unsigned char)rest[1]) && rest[2] == '.') {
      int i = rest[1] - '0';
      bool own = curc[t].c == 'R' && curc[t].d == i;
      if (handed[i] && !own)
        bad("node n" + std::to_string(i) + " touched after it was handed back: t" + std::to_string(t) + " (in " + cmd_str(curc[t]) + ") " +
            rest.substr(0, rest.find(' ', rest.find(' ') + 1)));
    }
  }
  for (int t = 0; t < nt; ++t) if (open[t] >= 0) bad("operation never returned");
  if (final_line.empty()) bad("no final report");
  else if (final_line.compare(0, 3, "ok ") != 0) bad("final state: " + final_line);
  std::vector<HOp> HH;
  for (auto& o : H) { if (o.c.c == 'K') continue; if (o.c.c == 'E' && !strict) continue; HH.push_back(o); }
  Seq s0; s0.loc.resize(nt);
  std::vector<char> done(HH.size(), 0);
  if (!search(HH, done, (int)HH.size(), s0)) {
    std::string h;
    for (auto& o : HH) h += " t" + std::to_string(o.t) + ":" + cmd_str(o.c) + "=" + o.res + "@" + std::to_string(o.call) + "-" + std::to_string(o.ret);
    bad("history not linearizable:" + h);
  }
  return verdict;
}
}  // namespace

int main(int argc, char** argv) {
  auto cli = vh::parse_cli(argc, argv);
  if (cli.prog.size() < 3) { std::printf("FATAL usage: <mode> <nn> <prog>...\n"); return 2; }
  std::string mode = cli.prog[0];
  bool strict = mode.find("+strict") != std::string::npos, keep = mode.find("+keep") != std::string::npos;
  bool locallife = mode.find("+locallife") != std::string::npos;
  bool latch = mode.compare(0, 5, "latch") == 0;
  int nn = std::atoi(cli.prog[1].c_str());
  std::vector<std::string> ps(cli.prog.begin() + 2, cli.prog.end());
  auto P = parse(ps);
  if (nn > MAXN || (int)P.size() > MAXT) { std::printf("FATAL too many nodes / threads\n"); return 2; }
  bool hasB = false, hasD = false, latchonly = false;
  for (auto& p : P) for (auto& c : p) { hasB |= c.c == 'B'; hasD |= c.c == 'D'; latchonly |= (c.c == 'D' || c.c == 'U' || c.c == 'L' || c.c == 'Q'); }
  if ((hasB && hasD) || (latchonly && !latch)) { std::printf("FATAL program outside the interface\n"); return 2; }
  auto make = [&]() { return latch ? make_threads<true>(nn, P, keep) : make_threads<false>(nn, P, keep); };
  return vh::drive(cli, make, [&](const dsched::Result& r) { return monitor(P, r, strict, locallife); });
}
