// K1 driver (C06, unit 3): the real unifex::atomic_intrusive_queue template, exercised directly.
//   program: <active|inactive> <counts: n1,n2,...> <script: string over D I M A F>
//     R dequeue_all_reversed (logs `!rbatch`, top of the stack first)
//     D dequeue_all   I try_mark_inactive   M try_mark_inactive_or_dequeue_all   A try_mark_active
//     F wait for every producer to finish, then try_mark_active + dequeue_all (final drain)
//   thread 0: the consumer runs the script; before D/I/M it sleeps while it is marked inactive
//             (it is woken by the producer whose enqueue() returned true, or by its own A; once
//             every producer has finished it reactivates itself with try_mark_active).
//   threads 1..k: producer p enqueues items p.0, p.1, ...; `!wake p.j` when enqueue returned true.
//             A count written `2o` makes that producer use enqueue_or_mark_active instead: `!direct p.j`
//             when it returned false (queue re-activated, item handed back to the caller).
// The consumer logs every queue it is handed as `!batch a,b,c` (front first).
#include <unifex/detail/atomic_intrusive_queue.hpp>
#include "vh.hpp"
using namespace unifex;

namespace {
constexpr int MAXP = 6, MAXI = 6;
struct Item { Item* next = nullptr; int p = 0, j = 0; };
using queue_t = atomic_intrusive_queue<Item, &Item::next>;

const char* intern(const std::string& s) {
  static std::set<std::string> pool;
  return pool.insert(s).first->c_str();
}

struct Shared {
  manual_lifetime<queue_t> q;
  Item items[MAXP][MAXI];
  bool asleep = false;        // the consumer marked itself inactive and has not been woken
  int producers_done = 0;
  bool constructed = false;
  ~Shared() { if (constructed) { (void)q.get().try_mark_active(); (void)q.get().dequeue_all_reversed().release(); q.destruct(); } }
};

std::vector<int> parse_counts(const std::string& s) {
  std::vector<int> v; std::stringstream ss(s); std::string t;
  while (std::getline(ss, t, ',')) if (!t.empty()) v.push_back(std::atoi(t.c_str()));
  return v;
}
std::string batch_str(intrusive_queue<Item, &Item::next> b) {
  std::string s;
  while (!b.empty()) { Item* it = b.pop_front(); if (!s.empty()) s += ","; s += std::to_string(it->p) + "." + std::to_string(it->j); }
  return s;
}
}  // namespace

int main(int argc, char** argv) {
  auto cli = vh::parse_cli(argc, argv);
  const bool active = cli.prog.at(0) == "active";
  const std::vector<int> counts = parse_counts(cli.prog.at(1));   // atoi ignores a trailing 'o'
  std::vector<bool> orm;
  { std::stringstream ss(cli.prog.at(1)); std::string t; while (std::getline(ss, t, ',')) if (!t.empty()) orm.push_back(t.back() == 'o'); }
  const std::string script = cli.prog.size() > 2 ? cli.prog[2] : "F";
  const int k = (int)counts.size();
  if (k >= MAXP) { std::printf("FATAL too many producers\n"); return 2; }
  for (int c : counts) if (c > MAXI) { std::printf("FATAL too many items\n"); return 2; }

  auto make = [&]() -> std::vector<std::function<void()>> {
    auto sh = std::make_shared<Shared>();
    sh->q.construct(active);
    sh->constructed = true;
    sh->asleep = !active;
    for (int p = 1; p <= k; ++p) for (int j = 0; j < counts[p - 1]; ++j) { sh->items[p][j].p = p; sh->items[p][j].j = j; }
    std::vector<std::function<void()>> th;
    th.push_back([sh, k, counts, script] {
      auto& q = sh->q.get();
      dsched::name_range(&q.head_, sizeof(q.head_), "q.head");
      dsched::name_value((std::uint64_t)(std::uintptr_t)&q.head_, "INACTIVE");
      for (int p = 1; p <= k; ++p) for (int j = 0; j < counts[p - 1]; ++j)
        dsched::name_value((std::uint64_t)(std::uintptr_t)&sh->items[p][j], intern("i" + std::to_string(p) + "." + std::to_string(j)));
      for (char op : script) {
        if (op == 'D' || op == 'I' || op == 'M' || op == 'R') {
          // asleep: wait for a producer's wake-up; when no producer is left, reactivate ourselves
          dsched::block_until([&] { return !sh->asleep || sh->producers_done == k; });
          if (sh->asleep && q.try_mark_active()) sh->asleep = false;
        }
        switch (op) {
          case 'D': dsched::action("batch %s", batch_str(q.dequeue_all()).c_str()); break;
          case 'R': {
            auto st = q.dequeue_all_reversed();
            std::string b;
            while (!st.empty()) { Item* it = st.pop_front(); if (!b.empty()) b += ","; b += std::to_string(it->p) + "." + std::to_string(it->j); }
            dsched::action("rbatch %s", b.c_str());
            break;
          }
          case 'I': if (q.try_mark_inactive()) sh->asleep = true; break;
          case 'M': {
            auto b = q.try_mark_inactive_or_dequeue_all();
            // an empty result means "marked inactive" (the queue is never empty after the exchange)
            if (b.empty()) sh->asleep = true;
            dsched::action("batch %s", batch_str(std::move(b)).c_str());
            break;
          }
          case 'A': if (q.try_mark_active()) sh->asleep = false; break;
          case 'F':
            dsched::block_until([&] { return sh->producers_done == k; });
            if (q.try_mark_active()) sh->asleep = false;
            dsched::action("batch %s", batch_str(q.dequeue_all()).c_str());
            return;   // the script ends with the final drain
        }
      }
    });
    for (int p = 1; p <= k; ++p)
      th.push_back([sh, p, n = counts[p - 1], o = (bool)orm[p - 1]] {
        auto& q = sh->q.get();
        for (int j = 0; j < n; ++j) {
          if (o) {
            if (!q.enqueue_or_mark_active(&sh->items[p][j])) { sh->asleep = false; dsched::action("direct %d.%d", p, j); }
          } else if (q.enqueue(&sh->items[p][j])) { sh->asleep = false; dsched::action("wake %d.%d", p, j); }
        }
        sh->producers_done++;
      });
    return th;
  };

  // direct monitor: nothing lost or duplicated, FIFO in the order of the successful CASes, and
  // exactly one enqueue() returns true per successful try_mark_inactive (unless try_mark_active won)
  auto monitor = [&](const dsched::Result& r) -> std::string {
    std::vector<std::string> enq, got;
    long marks = active ? 0 : 1, wakes = 0, actives = 0;
    std::string err;
    for (auto& e : r.trace) {
      auto sp = e.find(' ');
      int t = std::atoi(e.c_str() + 1);
      std::string rest = e.substr(sp + 1);
      if (rest.rfind("q.head C.", 0) == 0 && rest.find(" ok") != std::string::npos) {
        auto a = rest.find("->"); auto b = rest.find(' ', a);
        std::string from = rest.substr(rest.find(' ', 8) + 1, a - rest.find(' ', 8) - 1), to = rest.substr(a + 2, b - a - 2);
        if (to == "INACTIVE") { ++marks; if (marks - wakes - actives != 1) err += "marked inactive twice without a wake-up in between; "; }
        else if (to == "0") { if (from == "INACTIVE" && t == 0) ++actives; }
        else if (t >= 1) enq.push_back(to.substr(1));
      } else if (rest.rfind("!wake ", 0) == 0 || rest.rfind("!direct ", 0) == 0) {
        ++wakes;
        if (marks - wakes - actives != 0) err += "a producer was told the consumer was inactive although it was not; ";
        if (rest[1] == 'd') { enq.push_back(rest.substr(8)); got.push_back(rest.substr(8)); }
      } else if (rest.rfind("!batch", 0) == 0) {
        std::stringstream ss(rest.size() > 7 ? rest.substr(7) : ""); std::string it;
        while (std::getline(ss, it, ',')) if (!it.empty()) got.push_back(it);
      } else if (rest.rfind("!rbatch", 0) == 0) {   // a stack: newest first
        std::stringstream ss(rest.size() > 8 ? rest.substr(8) : ""); std::string it; std::vector<std::string> tmp;
        while (std::getline(ss, it, ',')) if (!it.empty()) tmp.push_back(it);
        got.insert(got.end(), tmp.rbegin(), tmp.rend());
      }
    }
    for (size_t i = 0; i < got.size(); ++i)
      if (i >= enq.size() || got[i] != enq[i]) { err += "batches are not the enqueue order at position " + std::to_string(i) + "; "; break; }
    if (!script.empty() && script.back() == 'F' && got.size() != enq.size())
      err += "delivered " + std::to_string(got.size()) + " of " + std::to_string(enq.size()) + " enqueued items; ";
    long total = 0; for (int c : counts) total += c;
    if ((long)enq.size() != total) err += "only " + std::to_string(enq.size()) + " of " + std::to_string(total) + " enqueues took effect; ";
    return err;
  };
  return vh::drive(cli, make, monitor);
}
