// K1 driver (C07, model EpollTimer): the schedule_at timers of the REAL io_epoll_context under dsched with
// a VIRTUAL clock: monotonic_clock::now() (clock_gettime) reads dsched's virtual clock, the timerfd is a
// virtual one-shot absolute timer (a real eventfd registered with the real epoll instance, made readable by
// this harness from the moment virtual now >= armed time), epoll_wait is yield-and-poll and, when it would
// sleep, lets dsched advance the virtual clock to the armed time if every other thread is blocked too.
//
// program:  <specs> <clock>
//   specs  comma separated, one per timer:  <due>:<L|R>:<N|P|S|B<j>>
//            due   due time in microseconds relative to the epoch (clock value when the run begins); may be < 0
//            L|R   started on the I/O thread, in index order, by one schedule() item that is queued before
//                  run() begins / started by its own thread at any time (start_remote)
//            N     never stopped        P  stop requested before the run begins (before start)
//            S     its own stopper thread calls request_stop() at any time (request_stop_remote)
//            B<j>  the receiver of timer j calls request_stop() on this timer's source from inside its
//                  completion, i.e. on the I/O thread (request_stop_local), possibly for a timer of the same
//                  ready batch
//   clock  '-' or a comma separated script run by its own thread: <n> advance the clock by n us,
//          w<i> wait until timer i completed
// Threads: 0 = I/O thread (context, pre-stops, run(), teardown); then per timer in index order its starter
// (R) and its stopper (S); then the clock script (if any); last the finisher, which requests stop on run()'s
// token once every timer completed.
//
// io_epoll_context.cpp and monotonic_clock.cpp are compiled into THIS translation unit with the syscall
// wrappers below (c14_sys.hpp for epoll_ctl / the eventfd); the archive's copies are never linked.
#include <sys/timerfd.h>
#include <sys/eventfd.h>
#include <time.h>
#define C14_NO_RENAME
#include "c14_sys.hpp"

namespace vt {
struct State {
  int tfd = -1;             // the descriptor standing for the timerfd (an eventfd)
  bool armed = false;       // one-shot absolute timer set and not yet expired+read
  bool fired = false;       // expiry already delivered to the eventfd
  std::int64_t at_ns = 0;
  std::int64_t epoch_ns = 0;
  bool in_run = false;      // the I/O thread is inside run()
  std::function<std::string()> heap_dump;
};
inline State& st() { static State s; return s; }
inline void reset() { st() = State{}; }
inline long rel_us(std::int64_t ns) { return (long)((ns - st().epoch_ns) / 1000); }
inline long now_us() { return rel_us(dsched::now_ns()); }
inline std::string hd() { return st().heap_dump ? st().heap_dump() : std::string("?"); }

// kernel side of the virtual timerfd: expiry
inline void fire_due() {
  auto& s = st();
  if (s.armed && !s.fired && dsched::now_ns() >= s.at_ns) {
    std::uint64_t one = 1;
    (void)!::write(s.tfd, &one, sizeof one);
    s.fired = true;
  }
}
inline int sys_timerfd_create(int, int) {
  int fd = ::eventfd(0, EFD_NONBLOCK | EFD_CLOEXEC);
  st().tfd = fd;
  return fd;
}
inline int sys_timerfd_settime(int fd, int flags, const itimerspec* nv, itimerspec*) {
  if (!dsched::active()) return 0;
  dsched::pre(nullptr, dsched::K_SYSCALL, 0);
  auto& s = st();
  std::uint64_t buf;
  while (::read(s.tfd, &buf, sizeof buf) > 0) {}    // settime discards a pending expiry
  s.fired = false;
  if (nv->it_value.tv_sec == 0 && nv->it_value.tv_nsec == 0) {
    s.armed = false;
    dsched::action("settime off heap=%s", hd().c_str());
  } else {
    if (nv->it_value.tv_sec < 0 || !(flags & TFD_TIMER_ABSTIME)) {
      dsched::action("settime EINVAL");
      errno = EINVAL;
      return -1;
    }
    s.armed = true;
    s.at_ns = (std::int64_t)nv->it_value.tv_sec * 1000000000LL + nv->it_value.tv_nsec;
    dsched::action("settime %ld heap=%s", rel_us(s.at_ns), hd().c_str());
  }
  return 0;
}
inline int sys_clock_gettime(clockid_t, timespec* ts) {
  bool log = dsched::active() && dsched::self() == 0 && st().in_run;
  if (log) dsched::pre(nullptr, dsched::K_CLOCK, 0);
  std::int64_t n = dsched::now_ns();
  ts->tv_sec = n / 1000000000LL;
  ts->tv_nsec = n % 1000000000LL;
  if (log) dsched::action("now %ld heap=%s", rel_us(n), hd().c_str());
  return 0;
}
inline ssize_t sys_read(int fd, void* buf, std::size_t n) {
  if (!dsched::active() || fd != st().tfd) return c14::sys_read(fd, buf, n);
  dsched::pre(nullptr, dsched::K_SYSCALL, 0);
  ssize_t rc = ::read(fd, buf, n);
  int e = rc < 0 ? errno : 0;
  if (rc == 8) { st().armed = false; st().fired = false; dsched::action("read timerfd"); }
  else dsched::action("read timerfd rc=%zd %s WOULD-BLOCK", rc, c14::ename(e));   // a real timerfd would block here
  errno = e;
  return rc;
}
inline int sys_epoll_wait(int epfd, epoll_event* evs, int maxev, int timeout) {
  if (!dsched::active()) return ::epoll_wait(epfd, evs, maxev, timeout);
  dsched::pre(nullptr, dsched::K_SYSCALL, 0);
  for (;;) {
    fire_due();
    int rc = ::epoll_wait(epfd, evs, maxev, 0);
    int e = rc < 0 ? errno : 0;
    if (rc < 0 && e == EINTR) continue;
    if (rc < 0) { dsched::action("epoll_wait -> rc=%d %s", rc, c14::ename(e)); errno = e; return rc; }
    if (rc > 0) {
      // epoll makes no promise about the order of the returned events: eventfd first, then the timer
      std::stable_sort(evs, evs + rc, [](const epoll_event& a, const epoll_event& b) {
        return (a.data.ptr == nullptr) > (b.data.ptr == nullptr);
      });
      std::string names;
      for (int i = 0; i < rc; ++i) { if (i) names += ","; names += c14::pname(evs[i].data.ptr); }
      dsched::action("epoll_wait -> %s", names.c_str());
      return rc;
    }
    if (timeout == 0) { dsched::action("epoll_wait -> none"); return 0; }
    auto& s = st();
    std::int64_t dl = (s.armed && !s.fired) ? s.at_ns : -1;
    bool woke = dsched::block_until([epfd] { fire_due(); return c14::epoll_ready(epfd); }, dl);
    if (!woke) dsched::action("jump %ld", now_us());   // every thread was blocked: the clock moved to the armed time
  }
}
}  // namespace vt

#define epoll_ctl c14::sys_epoll_ctl
#define epoll_wait vt::sys_epoll_wait
#define read(fd, buf, n) vt::sys_read(fd, buf, n)
#define write(fd, buf, n) c14::sys_write(fd, buf, n)
#define clock_gettime(c, ts) vt::sys_clock_gettime(c, ts)
#define timerfd_create(c, f) vt::sys_timerfd_create(c, f)
#define timerfd_settime(fd, fl, nv, ov) vt::sys_timerfd_settime(fd, fl, nv, ov)

#include <unifex/linux/io_epoll_context.hpp>
#include <unifex/../../source/linux/io_epoll_context.cpp>
#include <unifex/../../source/linux/monotonic_clock.cpp>
#include <unifex/scheduler_concepts.hpp>
#include <unifex/sender_concepts.hpp>
#include <unifex/inplace_stop_token.hpp>
#include "vh.hpp"
using namespace unifex;
using unifex::linuxos::io_epoll_context;
using unifex::linuxos::monotonic_clock;

namespace {
constexpr int MAXOPS = 6;
struct Spec { long due; bool local; char stop; int by; };

std::vector<Spec> parse_specs(const std::string& s) {
  std::vector<Spec> v;
  std::size_t i = 0;
  while (i < s.size()) {
    std::size_t e = s.find(',', i);
    if (e == std::string::npos) e = s.size();
    std::string t = s.substr(i, e - i);
    Spec sp{0, true, 'N', -1};
    char sm = 'L'; char km[16] = "N";
    if (std::sscanf(t.c_str(), "%ld:%c:%15s", &sp.due, &sm, km) != 3) { std::fprintf(stderr, "bad spec %s\n", t.c_str()); std::exit(2); }
    sp.local = sm == 'L';
    sp.stop = km[0];
    if (km[0] == 'B') sp.by = std::atoi(km + 1);
    v.push_back(sp);
    i = e + 1;
  }
  return v;
}

struct Shared;
struct trcv {
  Shared* sh; int i;
  void set_value() && noexcept;
  void set_done() && noexcept;
  template <typename E> void set_error(E&&) && noexcept;
  friend inplace_stop_token tag_invoke(tag_t<get_stop_token>, const trcv& r) noexcept;
};
struct starter_rcv {
  Shared* sh;
  void set_value() && noexcept;
  void set_done() && noexcept {}
  template <typename E> void set_error(E&&) && noexcept {}
};
using sched_t = decltype(std::declval<io_epoll_context&>().get_scheduler());
using sched_op_t = connect_result_t<decltype(unifex::schedule(std::declval<sched_t>())), starter_rcv>;
using timer_op_t = connect_result_t<decltype(unifex::schedule_at(std::declval<sched_t>(), std::declval<monotonic_clock::time_point>())), trcv>;

const char* N_state[MAXOPS] = {"op0.state", "op1.state", "op2.state", "op3.state", "op4.state", "op5.state"};
const char* N_enq[MAXOPS] = {"op0.enq", "op1.enq", "op2.enq", "op3.enq", "op4.enq", "op5.enq"};
const char* N_cbdone[MAXOPS] = {"op0.cbdone", "op1.cbdone", "op2.cbdone", "op3.cbdone", "op4.cbdone", "op5.cbdone"};
const char* N_op[MAXOPS] = {"op0", "op1", "op2", "op3", "op4", "op5"};
const char* N_src[MAXOPS] = {"src0", "src1", "src2", "src3", "src4", "src5"};

struct Shared {
  std::vector<Spec> specs;
  manual_lifetime<io_epoll_context> ctx;
  inplace_stop_source runStop;
  inplace_stop_source src[MAXOPS];
  manual_lifetime<timer_op_t> ops[MAXOPS];
  manual_lifetime<sched_op_t> starter;
  bool constructed[MAXOPS] = {};
  bool dead[MAXOPS] = {};          // completed: the library must not touch it any more
  int completions[MAXOPS] = {};
  bool ready = false, bad = false, ctx_alive = false;
  int others_done = 0, others = 0;
  int n() const { return (int)specs.size(); }
  bool all_completed() const { for (int i = 0; i < n(); ++i) if (completions[i] == 0) return false; return true; }

  io_epoll_context::operation_base* base(int i) { return static_cast<io_epoll_context::operation_base*>(&ops[i].get()); }
  int index_of(const void* p) {
    for (int i = 0; i < n(); ++i)
      if (constructed[i] && (const void*)base(i) == p) return i;
    return -1;
  }
  // timers_ from head_ following timerNext_ (bounded walk: a corrupted list may be cyclic)
  std::string heap_dump() {
    if (!ctx_alive) return "?";
    std::string s;
    int k = 0;
    for (auto* p = ctx.get().timers_.head_; p != nullptr && k < 2 * MAXOPS + 2; p = p->timerNext_, ++k) {
      int i = index_of(static_cast<io_epoll_context::operation_base*>(p));
      if (!s.empty()) s += ",";
      if (i < 0) { s += "?"; break; }
      s += std::to_string(i);
    }
    if (k >= 2 * MAXOPS + 2) s += ",CYCLE";
    return s.empty() ? "-" : s;
  }
  // "the context retains no reference to it afterwards": no completed operation in timers_ / localQueue_ / remoteQueue_
  void check_refs(const char* where) {
    if (!ctx_alive) return;
    auto& c = ctx.get();
    int k = 0;
    for (auto* p = c.timers_.head_; p != nullptr && k < 2 * MAXOPS + 2; p = p->timerNext_, ++k) {
      int i = index_of(static_cast<io_epoll_context::operation_base*>(p));
      if (i < 0) { dsched::action("BAD %s: timers_ holds an unknown pointer", where); bad = true; break; }
      if (dead[i]) { dsched::action("BAD %s: timers_ still holds completed timer %d", where, i); bad = true; break; }
    }
    k = 0;
    for (auto* p = c.localQueue_.head_; p != nullptr && k < 2 * MAXOPS + 4; p = p->next_, ++k) {
      int i = index_of(p);
      if (i >= 0 && dead[i]) { dsched::action("BAD %s: localQueue_ holds completed timer %d", where, i); bad = true; break; }
    }
  }
  void complete(int i, bool value);
};

// execute_ of a completed operation: if the context ever runs the operation again, say so instead of
// jumping through a null / stale pointer
void trap_execute(io_epoll_context::operation_base* p) noexcept;
Shared* g_sh = nullptr;
void trap_execute(io_epoll_context::operation_base* p) noexcept {
  int i = g_sh ? g_sh->index_of(p) : -1;
  dsched::action("BAD executed timer %d again after its completion", i);
  if (g_sh) g_sh->bad = true;
}

void Shared::complete(int i, bool value) {
  completions[i]++;
  dsched::action("%s %d %ld heap=%s", value ? "fire" : "done", i, vt::now_us(), heap_dump().c_str());
  dead[i] = true;
  base(i)->execute_ = &trap_execute;
  check_refs("at a completion");
  for (int k = 0; k < n(); ++k)
    if (specs[k].stop == 'B' && specs[k].by == i) {
      dsched::action("stop %d", k);
      src[k].request_stop();
      dsched::action("stopped %d", k);
    }
}
void trcv::set_value() && noexcept { sh->complete(i, true); }
void trcv::set_done() && noexcept { sh->complete(i, false); }
template <typename E> void trcv::set_error(E&&) && noexcept { dsched::action("BAD error completion of timer %d", i); sh->bad = true; sh->completions[i]++; }
inplace_stop_token tag_invoke(tag_t<get_stop_token>, const trcv& r) noexcept { return r.sh->src[r.i].get_token(); }

void start_op(Shared* sh, int i) {
  auto sched = sh->ctx.get().get_scheduler();
  std::int64_t at = vt::st().epoch_ns + sh->specs[i].due * 1000LL;
  auto tp = monotonic_clock::time_point::from_seconds_and_nanoseconds(at / 1000000000LL, at % 1000000000LL);
  sh->ops[i].construct_with([&] { return unifex::connect(unifex::schedule_at(sched, tp), trcv{sh, i}); });
  auto& op = sh->ops[i].get();
  dsched::name_range(&op.state_, sizeof(op.state_), N_state[i]);
  dsched::name_range(&op.enqueued_, sizeof(op.enqueued_), N_enq[i]);
  dsched::name_range(&op.stopCallback_.get().callbackCompleted_, sizeof(std::atomic<bool>), N_cbdone[i]);
  dsched::name_value((std::uint64_t)(std::uintptr_t)static_cast<io_epoll_context::operation_base*>(&op), N_op[i]);
  sh->constructed[i] = true;
  dsched::action("start %d", i);
  unifex::start(op);
  dsched::action("started %d", i);
}
void starter_rcv::set_value() && noexcept {
  dsched::action("starter");
  for (int i = 0; i < sh->n(); ++i)
    if (sh->specs[i].local) start_op(sh, i);
}
}  // namespace

static std::vector<std::function<void()>> make_threads(const std::vector<Spec>& specs, const std::string& clk) {
  c14::reset();
  vt::reset();
  auto sh = std::make_shared<Shared>();
  sh->specs = specs;
  g_sh = sh.get();
  std::vector<std::function<void()>> th;
  int nothers = 0;
  for (auto& sp : specs) nothers += (sp.local ? 0 : 1) + (sp.stop == 'S' ? 1 : 0);
  if (clk != "-") nothers++;
  nothers++;   // finisher
  sh->others = nothers;
  th.push_back([sh] {
    vt::st().epoch_ns = dsched::now_ns();
    vt::st().heap_dump = [p = sh.get()] { return p->heap_dump(); };
    for (int i = 0; i < sh->n(); ++i) dsched::name_range(&sh->src[i].state_, sizeof(sh->src[i].state_), N_src[i]);
    sh->ctx.construct();
    sh->ctx_alive = true;
    auto& ctx = sh->ctx.get();
    dsched::name_range(&ctx.remoteQueue_.head_, sizeof(ctx.remoteQueue_.head_), "rq.head");
    dsched::name_value((std::uint64_t)(std::uintptr_t)&ctx.remoteQueue_.head_, "INACTIVE");
    c14::name_fd(ctx.remoteQueueEventFd_.get(), "evfd");
    c14::name_fd(ctx.timerFd_.get(), "timerfd");
    c14::name_ptr(nullptr, "evfd");
    c14::name_ptr(ctx.timer_user_data(), "timer");
    for (int i = 0; i < sh->n(); ++i)
      if (sh->specs[i].stop == 'P') { dsched::action("stop %d", i); sh->src[i].request_stop(); dsched::action("stopped %d", i); }
    bool any_local = false;
    for (auto& sp : sh->specs) any_local |= sp.local;
    if (any_local) {
      sh->starter.construct_with([&] { return unifex::connect(unifex::schedule(ctx.get_scheduler()), starter_rcv{sh.get()}); });
      dsched::name_value((std::uint64_t)(std::uintptr_t)(io_epoll_context::operation_base*)(&sh->starter.get()), "STARTER");
      unifex::start(sh->starter.get());
    }
    sh->ready = true;
    vt::st().in_run = true;
    dsched::action("run begin");
    ctx.run(sh->runStop.get_token());
    vt::st().in_run = false;
    dsched::action("run returned");
    sh->check_refs("after run()");
    {
      int lqn = 0;
      for (auto* p = ctx.localQueue_.head_; p != nullptr && lqn < 64; p = p->next_) ++lqn;
      void* h = ctx.remoteQueue_.head_.load(std::memory_order_relaxed);
      bool rq_empty = h == nullptr || h == (void*)&ctx.remoteQueue_.head_;
      dsched::action("end heap=%s lq=%d rq=%d armed=%d", sh->heap_dump().c_str(), lqn, rq_empty ? 0 : 1, (int)(vt::st().armed && !vt::st().fired));
    }
    dsched::block_until([&] { return sh->others_done == sh->others; });
    sh->ctx_alive = false;
    sh->ctx.destruct();
  });
  for (int i = 0; i < (int)specs.size(); ++i) {
    if (!specs[i].local)
      th.push_back([sh, i] {
        dsched::block_until([&] { return sh->ready; });
        start_op(sh.get(), i);
        sh->others_done++;
      });
    if (specs[i].stop == 'S')
      th.push_back([sh, i] {
        dsched::block_until([&] { return sh->ready; });
        dsched::action("stop %d", i);
        sh->src[i].request_stop();
        dsched::action("stopped %d", i);
        sh->others_done++;
      });
  }
  if (clk != "-")
    th.push_back([sh, clk] {
      dsched::block_until([&] { return sh->ready; });
      std::size_t i = 0;
      while (i < clk.size()) {
        std::size_t e = clk.find(',', i);
        if (e == std::string::npos) e = clk.size();
        std::string t = clk.substr(i, e - i);
        if (t[0] == 'w') {
          int k = std::atoi(t.c_str() + 1);
          dsched::block_until([&] { return sh->completions[k] > 0 || sh->bad; });
        } else {
          long us = std::atol(t.c_str());
          dsched::pre(nullptr, dsched::K_CLOCK, 0);      // a schedule-visible step
          dsched::advance_clock(us * 1000L);
          dsched::action("clock %ld", vt::now_us());
        }
        i = e + 1;
      }
      sh->others_done++;
    });
  th.push_back([sh] {
    dsched::block_until([&] { return sh->ready && (sh->all_completed() || sh->bad); });
    dsched::action("finish");
    sh->runStop.request_stop();
    sh->others_done++;
  });
  return th;
}

int main(int argc, char** argv) {
  auto cli = vh::parse_cli(argc, argv);
  auto specs = parse_specs(cli.prog.at(0));
  std::string clk = cli.prog.size() > 1 ? cli.prog[1] : "-";
  if (specs.size() > (std::size_t)MAXOPS) { std::fprintf(stderr, "too many timers\n"); return 2; }
  auto make = [&] { return make_threads(specs, clk); };

  // Direct monitor (C07 evaluated on the implementation's own run, in virtual time):
  //  * once: every timer completes exactly once; the context never executes a completed timer again, never
  //    links an operation that is already linked (enqueued_ never exceeds 1), and holds no completed timer in
  //    timers_ / localQueue_ at any completion nor when run() returned (then everything is empty and the OS
  //    timer is not left armed for a timer that no longer exists);
  //  * never early: "fire i T" only at T >= due_i;
  //  * done only with a stop request; an operation started after request_stop() returned never gets a value;
  //  * order: timers_ is sorted by due time whenever it is shown; two timers that were both in timers_ at the
  //    same moment and both got a value got it in due-time order, equal due times in the order they had there;
  //  * cancel promptly: from the moment both start() and request_stop() have returned until the done, the
  //    context never sleeps until a deadline (no silent clock jump).
  auto monitor = [&](const dsched::Result& r) -> std::string {
    int n = (int)specs.size();
    std::vector<int> comp(n, 0);
    std::vector<char> kind(n, '?');
    std::vector<long> fin_idx(n, -1), start_idx(n, -1), started_idx(n, -1), stop_idx(n, -1), stopped_idx(n, -1), fin_t(n, 0);
    std::vector<std::vector<int>> dumps;
    std::vector<long> jumps;
    std::string endline;
    long idx = 0;
    auto parse_heap = [&](const std::string& a, std::vector<int>& out) -> bool {
      auto p = a.find("heap=");
      if (p == std::string::npos) return true;
      std::string h = a.substr(p + 5);
      auto sp = h.find(' ');
      if (sp != std::string::npos) h = h.substr(0, sp);
      if (h == "-" || h == "?") return true;
      std::size_t i = 0;
      while (i < h.size()) {
        std::size_t e = h.find(',', i);
        if (e == std::string::npos) e = h.size();
        std::string t = h.substr(i, e - i);
        if (t.empty() || !std::isdigit((unsigned char)t[0])) return false;
        out.push_back(std::atoi(t.c_str()));
        i = e + 1;
      }
      return true;
    };
    for (auto& e : r.trace) {
      ++idx;
      auto p = e.find('!');
      if (p == std::string::npos) {
        // enqueued_ of a timer: ++ must give 1, -- must give 0
        auto q = e.find(".enq A.");
        if (q != std::string::npos) {
          auto a = e.rfind("->");
          if (std::atol(e.c_str() + a + 2) > 1) return "TWICE-LINKED: " + e + " (the operation was enqueued while it was already enqueued)";
        }
        continue;
      }
      std::string a = e.substr(p + 1);
      if (a.compare(0, 4, "BAD ") == 0) return "RETAINED: " + a.substr(4);
      if (a.find("WOULD-BLOCK") != std::string::npos) return "TIMERFD: the context read the timerfd although it had not expired (" + a + ")";
      if (a.find("EINVAL") != std::string::npos) return "TIMERFD: " + a;
      char nm[32]; long x = 0, y = 0;
      int k = std::sscanf(a.c_str(), "%31s %ld %ld", nm, &x, &y);
      std::string name = nm;
      std::vector<int> hp;
      if (!parse_heap(a, hp)) return "HEAP: timers_ is corrupt at '" + a + "'";
      if (a.find("heap=") != std::string::npos && name != "end") {
        for (std::size_t j = 0; j + 1 < hp.size(); ++j)
          if (specs[hp[j]].due > specs[hp[j + 1]].due) return "ORDER: timers_ is not sorted at '" + a + "'";
        for (std::size_t j = 0; j < hp.size(); ++j)
          for (std::size_t l = j + 1; l < hp.size(); ++l)
            if (hp[j] == hp[l]) return "HEAP: timer " + std::to_string(hp[j]) + " is twice in timers_ at '" + a + "'";
        dumps.push_back(hp);
      }
      if (name == "jump") jumps.push_back(idx);
      else if (name == "end") endline = a;
      else if ((name == "start" || name == "started" || name == "stop" || name == "stopped" || name == "fire" || name == "done") && k >= 2 && x >= 0 && x < n) {
        if (name == "start") start_idx[x] = idx;
        else if (name == "started") started_idx[x] = idx;
        else if (name == "stop") stop_idx[x] = idx;
        else if (name == "stopped") stopped_idx[x] = idx;
        else {
          comp[x]++; kind[x] = name[0]; fin_idx[x] = idx; fin_t[x] = y;
          if (comp[x] > 1) return "ONCE: timer " + std::to_string(x) + " completed twice";
          if (start_idx[x] < 0) return "ONCE: timer " + std::to_string(x) + " completed before it was started";
          if (name == "fire" && y < specs[x].due)
            return "EARLY: timer " + std::to_string(x) + " got its value at " + std::to_string(y) + ", due " + std::to_string(specs[x].due);
          if (name == "done" && stop_idx[x] < 0) return "DONE-WITHOUT-STOP: timer " + std::to_string(x);
          if (name == "fire" && stopped_idx[x] >= 0 && stopped_idx[x] < start_idx[x])
            return "VALUE-AFTER-STOP: timer " + std::to_string(x) + " was started after request_stop() returned but got a value";
          for (int v : hp) if (v == x) return "RETAINED: timer " + std::to_string(x) + " is still in timers_ while it completes";
        }
      }
    }
    for (int i = 0; i < n; ++i) {
      if (comp[i] != 1) return "ONCE: timer " + std::to_string(i) + " completed " + std::to_string(comp[i]) + " times";
      if (stopped_idx[i] >= 0 && started_idx[i] >= 0) {
        long S = std::max(stopped_idx[i], started_idx[i]);
        for (long j : jumps)
          if (j > S && j < fin_idx[i]) return "NOT-PROMPT: the context slept until a deadline although timer " + std::to_string(i) + " was cancelled";
      }
    }
    for (auto& hp : dumps)
      for (std::size_t a = 0; a < hp.size(); ++a)
        for (std::size_t b = a + 1; b < hp.size(); ++b) {
          int i = hp[a], j = hp[b];      // i before j in timers_: due_i <= due_j, ties in insertion order
          if (kind[i] == 'f' && kind[j] == 'f' && fin_idx[j] < fin_idx[i])
            return "ORDER: timer " + std::to_string(j) + " (due " + std::to_string(specs[j].due) + ") got its value before timer " +
                   std::to_string(i) + " (due " + std::to_string(specs[i].due) + ") although " + std::to_string(i) + " was ahead of it in timers_";
        }
    if (endline.empty()) return "NORETURN: run() did not return";
    if (endline.find("heap=- lq=0 rq=0") == std::string::npos) return "RETAINED: after run(): " + endline;
    return "";
  };
  return vh::drive(cli, make, monitor);
}
