// K1 driver: the real timed_single_thread_context under dsched with the virtual steady_clock.
//
// program:  <ops> <clock>
//   ops    comma separated: a<ms> = schedule_after(ms), t<ms> = schedule_at(epoch + ms)   (epoch = clock
//          value when the run begins), followed by flags:
//            s  a separate thread calls request_stop() on this operation's stop source (any time)
//            p  the starting thread requests stop before it starts the operation
//            +  the operation is started from its own thread (otherwise thread 0 starts it, in order)
//   clock  comma separated clock script run by its own thread, '-' for none:
//            <ms>  advance the virtual clock by ms    k  cv_.notify_one() on the context (a spurious wake-up)
//            w<i>  wait until operation i completed
// Threads: 0 = constructs the context, starts the operations without '+', waits for all completions,
// destroys the context; 1 = clock script; then one per 's' and one per '+', in operation order;
// the context's own thread is spawned by the library (highest id).
// Time is in whole milliseconds; the model's clock unit is the millisecond.
#include <unifex/timed_single_thread_context.hpp>
#include <unifex/scheduler_concepts.hpp>
#include <unifex/sender_concepts.hpp>
#include <unifex/inplace_stop_token.hpp>
#include "vh.hpp"
using namespace unifex;
using namespace std::chrono;

namespace {
struct OpSpec { bool after; long ms; bool stopper, prestop, own; };

std::vector<OpSpec> parse_ops(const std::string& s) {
  std::vector<OpSpec> v;
  std::size_t i = 0;
  while (i < s.size()) {
    std::size_t e = s.find(',', i);
    if (e == std::string::npos) e = s.size();
    std::string t = s.substr(i, e - i);
    OpSpec o{t[0] == 'a', 0, false, false, false};
    std::size_t k = 1;
    bool neg = false;
    if (k < t.size() && t[k] == '-') { neg = true; ++k; }
    while (k < t.size() && std::isdigit((unsigned char)t[k])) { o.ms = o.ms * 10 + (t[k] - '0'); ++k; }
    if (neg) o.ms = -o.ms;
    for (; k < t.size(); ++k) { if (t[k] == 's') o.stopper = true; if (t[k] == 'p') o.prestop = true; if (t[k] == '+') o.own = true; }
    v.push_back(o);
    i = e + 1;
  }
  return v;
}

long now_ms() { return (long)(dsched::now_ns() / 1000000); }

struct Shared;
struct receiver {
  Shared* sh;
  int i;
  void set_value() && noexcept;
  void set_done() && noexcept;
  template <typename E> void set_error(E&&) && noexcept {}
  friend inplace_stop_token tag_invoke(tag_t<get_stop_token>, const receiver& r) noexcept;
};

using sched_t = decltype(std::declval<timed_single_thread_context&>().get_scheduler());
using after_op_t = connect_result_t<decltype(unifex::schedule_after(std::declval<sched_t>(), milliseconds(0))), receiver>;
using at_op_t = connect_result_t<decltype(unifex::schedule_at(std::declval<sched_t>(), timed_single_thread_context::clock_t::time_point{})), receiver>;

constexpr int MAXOPS = 8;
struct Shared {
  std::vector<OpSpec> ops;
  inplace_stop_source src[MAXOPS];
  manual_lifetime<timed_single_thread_context> ctx;
  manual_lifetime<after_op_t> aop[MAXOPS];
  manual_lifetime<at_op_t> top[MAXOPS];
  bool constructed[MAXOPS] = {};
  int completions[MAXOPS] = {};
  bool ready = false;
  long epoch_ms = 0;
  int clockword = 0;   // stands for the virtual clock in the trace
  int ncompleted() const { int n = 0; for (std::size_t i = 0; i < ops.size(); ++i) n += completions[i] > 0; return n; }
};

void receiver::set_value() && noexcept { sh->completions[i]++; dsched::action("fire %d %ld", i, now_ms()); }
void receiver::set_done() && noexcept { sh->completions[i]++; dsched::action("done %d %ld", i, now_ms()); }
inplace_stop_token tag_invoke(tag_t<get_stop_token>, const receiver& r) noexcept { return r.sh->src[r.i].get_token(); }

// names must outlive the run: keep them static
const char* src_names[MAXOPS] = {"src0", "src1", "src2", "src3", "src4", "src5", "src6", "src7"};
const char* cb_names[MAXOPS] = {"cb0", "cb1", "cb2", "cb3", "cb4", "cb5", "cb6", "cb7"};

void start_op(const std::shared_ptr<Shared>& sh, int i) {
  auto& spec = sh->ops[i];
  auto sched = sh->ctx.get().get_scheduler();
  if (spec.prestop) { dsched::action("stop %d", i); sh->src[i].request_stop(); dsched::action("stopped %d", i); }
  if (spec.after) {
    sh->aop[i].construct_with([&] { return unifex::connect(unifex::schedule_after(sched, milliseconds(spec.ms)), receiver{sh.get(), i}); });
    auto& op = sh->aop[i].get();
    dsched::name_range(&op.cancelCallback_.get().callbackCompleted_, sizeof(std::atomic<bool>), cb_names[i]);
    sh->constructed[i] = true;
    dsched::action("start %d", i);
    unifex::start(op);
  } else {
    auto tp = timed_single_thread_context::clock_t::time_point(milliseconds(sh->epoch_ms + spec.ms));
    sh->top[i].construct_with([&] { return unifex::connect(unifex::schedule_at(sched, tp), receiver{sh.get(), i}); });
    auto& op = sh->top[i].get();
    dsched::name_range(&op.cancelCallback_.get().callbackCompleted_, sizeof(std::atomic<bool>), cb_names[i]);
    sh->constructed[i] = true;
    dsched::action("start %d", i);
    unifex::start(op);
  }
  dsched::action("started %d", i);
}
}  // namespace

static std::vector<std::function<void()>> make_threads(const std::vector<OpSpec>& ops, const std::string& clk) {
  auto sh = std::make_shared<Shared>();
  sh->ops = ops;
  std::vector<std::function<void()>> th;
  // thread 0: context owner
  th.push_back([sh] {
    sh->epoch_ms = now_ms();
    for (std::size_t i = 0; i < sh->ops.size(); ++i) dsched::name_range(&sh->src[i].state_, 1, src_names[i]);
    dsched::name_range(&sh->clockword, sizeof(int), "clock");
    sh->ctx.construct();
    auto& ctx = sh->ctx.get();
    dsched::name_range(&ctx.mutex_, sizeof(ctx.mutex_), "mutex");
    dsched::name_range(&ctx.cv_, sizeof(ctx.cv_), "cv");
    dsched::name_range(&ctx.thread_, sizeof(ctx.thread_), "thread");
    dsched::action("ready %ld", sh->epoch_ms);
    sh->ready = true;
    for (std::size_t i = 0; i < sh->ops.size(); ++i)
      if (!sh->ops[i].own) start_op(sh, (int)i);
    dsched::block_until([&] { return sh->ncompleted() == (int)sh->ops.size(); });
    dsched::action("destroy");
    sh->ctx.destruct();
    dsched::action("destroyed");
  });
  // thread 1: clock script
  th.push_back([sh, clk] {
    dsched::block_until([&] { return sh->ready; });
    if (clk == "-") return;
    std::size_t i = 0;
    while (i < clk.size()) {
      std::size_t e = clk.find(',', i);
      if (e == std::string::npos) e = clk.size();
      std::string t = clk.substr(i, e - i);
      if (t[0] == 'k') {
        dsched::action("poke");
        sh->ctx.get().cv_.notify_one();
      } else if (t[0] == 'w') {
        int k = std::atoi(t.c_str() + 1);
        dsched::block_until([&] { return sh->completions[k] > 0; });
      } else {
        long ms = std::atol(t.c_str());
        // a schedule-visible step: yield, then advance
        dsched::pre(&sh->clockword, dsched::K_CLOCK, 0);
        long before = now_ms();
        dsched::advance_clock(ms * 1000000L);
        dsched::post(&sh->clockword, dsched::K_CLOCK, 0, (std::uint64_t)before, (std::uint64_t)now_ms(), true);
      }
      i = e + 1;
    }
  });
  for (std::size_t i = 0; i < ops.size(); ++i) {
    if (ops[i].stopper)
      th.push_back([sh, i] {
        dsched::block_until([&] { return sh->ready; });
        dsched::action("stop %d", (int)i);
        sh->src[i].request_stop();
        dsched::action("stopped %d", (int)i);
      });
    if (ops[i].own)
      th.push_back([sh, i] {
        dsched::block_until([&] { return sh->ready; });
        start_op(sh, (int)i);
      });
  }
  return th;
}

int main(int argc, char** argv) {
  auto cli = vh::parse_cli(argc, argv);
  auto ops = parse_ops(cli.prog.at(0));
  std::string clk = cli.prog.size() > 1 ? cli.prog[1] : "-";
  if (ops.size() > (std::size_t)MAXOPS) { std::fprintf(stderr, "too many operations\n"); return 2; }
  auto make = [&] { return make_threads(ops, clk); };

  // Direct monitor (C07 evaluated on the implementation's own run, in virtual time):
  //  * once: each operation completes exactly once;
  //  * never early: "fire i T" only at T >= the operation's original due time (schedule_after: the clock
  //    value at "start i" plus the delay; schedule_at: the given time point);
  //  * done only with a stop request; value never after request_stop() had returned;
  //  * cancel promptly: once both request_stop() ("stopped i") and start() ("started i") have returned and
  //    until i completes, the context never sleeps: the virtual clock never jumps silently (dsched moves
  //    the clock by itself only when every thread is blocked, i.e. when the timer thread sits in
  //    wait_until for a later deadline although the cancelled operation is already due);
  //  * order: un-stopped operations i, j whose start() both returned before either completed complete in
  //    due-time order; with equal due times in start order when both were started from thread 0.
  auto monitor = [&](const dsched::Result& r) -> std::string {
    std::size_t n = ops.size();
    std::vector<long> start_at(n, -1), due(n, -1), fin_at(n, -1);
    std::vector<long> start_idx(n, -1), ret_idx(n, -1), fin_idx(n, -1), stopped_idx(n, -1);
    std::vector<int> comp(n, 0);
    std::vector<char> kind(n, '?');
    std::vector<long> jumps;   // trace indices at which a silent clock jump became visible
    long epoch = 0, clock = 0, idx = 0;
    for (auto& e : r.trace) {
      ++idx;
      auto p = e.find('!');
      if (p == std::string::npos) {
        if (e.find(" clock CK") != std::string::npos) { auto a = e.rfind("->"); clock = std::atol(e.c_str() + a + 2); }
        continue;
      }
      char name[32]; long a = 0, b = 0;
      int k = std::sscanf(e.c_str() + p + 1, "%31s %ld %ld", name, &a, &b);
      std::string nm = name;
      if (nm == "ready") { epoch = a; clock = a; continue; }
      if (nm == "start" || nm == "started" || nm == "stopped" || nm == "fire" || nm == "done")
        if (k < 2 || a < 0 || a >= (long)n) return "bad event " + e;
      if (nm == "start") { start_idx[a] = idx; start_at[a] = clock; }
      else if (nm == "started") ret_idx[a] = idx;
      else if (nm == "stopped") stopped_idx[a] = idx;
      else if (nm == "fire" || nm == "done") {
        comp[a]++; kind[a] = nm[0]; fin_at[a] = b; fin_idx[a] = idx;
        if (b > clock) { jumps.push_back(idx); clock = b; }
        if (b < clock) return "clock went backwards at " + e;
      }
    }
    for (std::size_t i = 0; i < n; ++i) {
      std::string I = std::to_string(i);
      if (comp[i] != 1) return "operation " + I + " completed " + std::to_string(comp[i]) + " times";
      if (start_idx[i] < 0 || fin_idx[i] < start_idx[i]) return "operation " + I + " completed before it was started";
      due[i] = ops[i].after ? start_at[i] + ops[i].ms : epoch + ops[i].ms;
      if (kind[i] == 'f' && fin_at[i] < due[i])
        return "operation " + I + " fired early: at " + std::to_string(fin_at[i]) + " due " + std::to_string(due[i]);
      bool stoppable = ops[i].stopper || ops[i].prestop;
      if (!stoppable && kind[i] != 'f') return "operation " + I + " done without a stop request";
      if (stopped_idx[i] >= 0 && stopped_idx[i] < start_idx[i] && kind[i] != 'd')
        return "operation " + I + " started after request_stop returned but completed with value";
      if (stopped_idx[i] >= 0 && ret_idx[i] >= 0) {
        long S = std::max(stopped_idx[i], ret_idx[i]);
        for (long j : jumps)
          if (j > S && j <= fin_idx[i])
            return "cancelled operation " + I + " was not prompt: the context slept until a later deadline";
      }
    }
    for (std::size_t i = 0; i < n; ++i)
      for (std::size_t j = 0; j < n; ++j) {
        if (i == j || ops[i].stopper || ops[i].prestop || ops[j].stopper || ops[j].prestop) continue;
        if (ret_idx[i] < 0 || ret_idx[j] < 0) continue;
        long first = std::min(fin_idx[i], fin_idx[j]);
        if (!(ret_idx[i] < first && ret_idx[j] < first)) continue;
        bool i_first = due[i] < due[j] || (due[i] == due[j] && !ops[i].own && !ops[j].own && i < j);
        if (i_first && fin_idx[j] < fin_idx[i])
          return "order: operation " + std::to_string(j) + " (due " + std::to_string(due[j]) + ") completed before " +
                 std::to_string(i) + " (due " + std::to_string(due[i]) + ")";
      }
    return "";
  };
  return vh::drive(cli, make, monitor);
}
