#pragma GCC optimize("O0")  // reads of members of destroyed op-states must really go to the poisoned storage
// K1 driver for the concurrent half of C13, unit type_erase: the completion / cancellation election of
// the next-operation of the real unifex::type_erase<int>(source) (include/unifex/type_erased_stream.hpp:
// next_op_base::refCount_, next_sender::_op::type::{stopCallback_, request_stop}, _next_receiver) over the
// scripted source stream of k1_stream_common.hpp, consumed by a consumer that does what reduce_stream
// does inline in each completion (te::consumer = sc::consumer + get_scheduler on its receivers, which
// the virtual get_scheduler() of type_erased_stream's receiver wrappers needs in order to compile).
//
// program:  <script> <stop|nostop> [cerr]
//   script   how thread A completes the successive next() operations of the SOURCE stream:
//            v = value (100, 101, ...), d = done, e = error (code 7); when the script is used up: d.
//            (the scripted source ignores stop requests: an abandoned next() stays outstanding until A
//            completes it; "-" = empty script)
//   stop     thread C requests stop on the consumer's stop source at any time
//   cerr     the source's cleanup() completes with an error (code 9) instead of done
// threads: 0 = the first start_next() of the consumer; 1 = A (completes the source's next()s per the
// script while the consumer keeps asking, then the source's cleanup()); 2 = C; 3 = finaliser (blocked
// until the consumer finished and the others are done).  Every later step of the consumer runs inline
// on the thread that completes its next()/cleanup().
//
// Named locations: te.ref = refCount_, te.src = stopSource_.state_, cb.completed = callbackCompleted_ of
// stopCallback_ -- all three inside the consumer's next-op, which always lives in the same storage
// (consumer::nbuf), so the ranges are named once, before the first construction (the constructor of the
// op already registers the stop callback) -- and ext.state = the consumer's stop source.
#include <unifex/type_erased_stream.hpp>
#include <unifex/inline_scheduler.hpp>
#include "k1_stream_common.hpp"
#if defined(__SANITIZE_ADDRESS__)
#include <sanitizer/asan_interface.h>
#define TE_POISON(p, n) ASAN_POISON_MEMORY_REGION(p, n)
#define TE_UNPOISON(p, n) ASAN_UNPOISON_MEMORY_REGION(p, n)
#else
#define TE_POISON(p, n) ((void)0)
#define TE_UNPOISON(p, n) ((void)0)
#endif
using namespace unifex;

namespace te {

// sc::consumer with receivers that also answer get_scheduler (copied, not edited: the header is shared)
template <typename Stream, typename Hooks, typename Token = unifex::inplace_stop_token>
struct consumer {
  struct next_rcv {
    consumer* c;
    void set_value(int v) && noexcept { c->on_next('v', v); }
    void set_done() && noexcept { c->on_next('d', 0); }
    void set_error(std::exception_ptr e) && noexcept { c->on_next('e', sc::code_of(e)); }
    friend Token tag_invoke(unifex::tag_t<unifex::get_stop_token>, const next_rcv& r) noexcept { return r.c->tok; }
    friend unifex::inline_scheduler tag_invoke(unifex::tag_t<unifex::get_scheduler>, const next_rcv&) noexcept { return {}; }
  };
  struct cleanup_rcv {
    consumer* c;
    void set_done() && noexcept { c->on_cleanup('d', 0); }
    void set_error(std::exception_ptr e) && noexcept { c->on_cleanup('e', sc::code_of(e)); }
    friend unifex::unstoppable_token tag_invoke(unifex::tag_t<unifex::get_stop_token>, const cleanup_rcv&) noexcept { return {}; }
    friend unifex::inline_scheduler tag_invoke(unifex::tag_t<unifex::get_scheduler>, const cleanup_rcv&) noexcept { return {}; }
  };
  using next_op_t = unifex::next_operation_t<Stream, next_rcv>;
  using cleanup_op_t = unifex::cleanup_operation_t<Stream, cleanup_rcv>;

  Stream& s;
  Token tok;
  alignas(next_op_t) unsigned char nbuf[sizeof(next_op_t)];
  alignas(cleanup_op_t) unsigned char cbuf[sizeof(cleanup_op_t)];
  bool next_live = false, cleanup_live = false;
  int cur_completions = 0, cleanup_completions = 0;

  consumer(Stream& strm, Token t) : s(strm), tok(t) {
    std::memset(nbuf, 0xEE, sizeof nbuf); std::memset(cbuf, 0xEE, sizeof cbuf);
  }
  next_op_t& nop() { return *reinterpret_cast<next_op_t*>(nbuf); }
  cleanup_op_t& cop() { return *reinterpret_cast<cleanup_op_t*>(cbuf); }

  void start_next() {
    if (next_live || cleanup_live) sc::viol("consumer starts next() with an op alive");
    dsched::action("cons.next.ctor");
    Hooks::unpoison_next(nbuf, sizeof nbuf);
    ::new ((void*)nbuf) next_op_t(unifex::connect(unifex::next(s), next_rcv{this}));
    next_live = true; cur_completions = 0; sc::G->cons_nexts++;
    Hooks::name_next(nop());
    unifex::start(nop());
  }
  void start_cleanup() {
    if (next_live || cleanup_live) sc::viol("consumer starts cleanup() with an op alive");
    dsched::action("cons.cleanup.ctor");
    ::new ((void*)cbuf) cleanup_op_t(unifex::connect(unifex::cleanup(s), cleanup_rcv{this}));
    cleanup_live = true;
    Hooks::name_cleanup(cop());
    unifex::start(cop());
  }
  // completion of the consumer's next(): what reduce_stream's next receiver does
  void on_next(char kind, int v) {
    if (kind == 'v') dsched::action("cons.next v %d", v);
    else if (kind == 'e') dsched::action("cons.next e %d", v);
    else dsched::action("cons.next d");
    if (!next_live) { sc::viol("next() completed with no next-op alive"); return; }
    if (++cur_completions > 1) { sc::viol("next() completed twice"); return; }
    sc::G->cons_last = kind;
    if (kind == 'v') sc::G->cons_values++;
    nop().~next_op_t();
    next_live = false;
    dsched::action("cons.next.dtor");
    Hooks::poison_next(nbuf, sizeof nbuf);
    if (kind == 'v') start_next(); else start_cleanup();
  }
  void on_cleanup(char kind, int v) {
    if (kind == 'e') dsched::action("cons.cleanup e %d", v); else dsched::action("cons.cleanup d");
    if (!cleanup_live) { sc::viol("cleanup() completed with no cleanup-op alive"); return; }
    if (++cleanup_completions > 1) { sc::viol("cleanup() completed twice"); return; }
    cop().~cleanup_op_t();
    cleanup_live = false;
    dsched::action("cons.cleanup.dtor");
    Hooks::poison_cleanup(cbuf, sizeof cbuf);
    Hooks::on_finished();
    dsched::action("cons.finished");
    sc::G->cons_finished = true;
  }
};

}  // namespace te

namespace {

using src_t = sc::src_stream<sc::src_tag>;
using stream_t = decltype(type_erase<int>(std::declval<src_t>()));

struct Shared;
Shared* S = nullptr;

struct hooks : sc::default_hooks {
  static void unpoison_next(void* p, std::size_t n) { TE_UNPOISON(p, n); }
  static void poison_next(void* p, std::size_t n) { std::memset(p, 0xEE, n); TE_POISON(p, n); }
  static void on_finished();
};
using consumer_t = te::consumer<stream_t, hooks>;

struct Shared : sc::Run {
  inplace_stop_source ext;
  manual_lifetime<stream_t> strm;
  bool strm_live = false;
  manual_lifetime<consumer_t> cons;
  bool cons_live = false;
  bool done[3] = {false, false, false};
  ~Shared() {
    if (cons_live) { TE_UNPOISON(cons.get().nbuf, sizeof(cons.get().nbuf)); cons.destruct(); }
    if (strm_live) strm.destruct();
    if (S == this) S = nullptr;
  }
};

void hooks::on_finished() {
  // the owner of the stream may destroy it as soon as cleanup() completed: the concrete stream (with the
  // union of the wrapped next / cleanup op) is heap allocated and really freed here
  S->strm.destruct();
  S->strm_live = false;
  dsched::action("stream.destroyed");
}

std::vector<std::function<void()>> make_threads(const std::string& script, bool stop, bool cerr) {
  auto sh = std::make_shared<Shared>();
  sc::G = sh.get(); S = sh.get();
  std::vector<std::function<void()>> th;
  // 0: construct the stream, first next()
  th.push_back([sh] {
    sh->strm.construct_with([] { return type_erase<int>(src_t{}); });
    sh->strm_live = true;
    dsched::name_range(&sh->ext.state_, sizeof(sh->ext.state_), "ext.state");
    sh->cons.construct(sh->strm.get(), sh->ext.get_token());
    sh->cons_live = true;
    // the next-op always lives in cons.nbuf: name its atomics before the first construction
    auto* op = reinterpret_cast<consumer_t::next_op_t*>(sh->cons.get().nbuf);
    dsched::name_range(&op->refCount_, sizeof(op->refCount_), "te.ref");
    dsched::name_range(&op->stopSource_.state_, sizeof(op->stopSource_.state_), "te.src");
    dsched::name_range(&op->stopCallback_.callbackCompleted_, sizeof(op->stopCallback_.callbackCompleted_), "cb.completed");
    sh->cons.get().start_next();
    sh->done[0] = true;
  });
  // 1: A
  th.push_back([sh, script, cerr] {
    std::size_t i = 0;
    for (;;) {
      dsched::block_until([&] { return sh->nctl[0].outstanding || sh->cctl[0].outstanding || sh->cons_finished; });
      if (sh->nctl[0].outstanding) {
        char k = i < script.size() ? script[i] : 'd';
        sh->nctl[0].complete(k, k == 'v' ? 100 + (int)i : 7);
        ++i;
      } else if (sh->cctl[0].outstanding) {
        if (cerr) sh->cctl[0].complete('e', 9); else sh->cctl[0].complete('d');
      } else {
        break;
      }
    }
    sh->done[1] = true;
  });
  // 2: C
  th.push_back([sh, stop] {
    if (stop) {
      sh->ext.request_stop();
      dsched::action("stop.returned");
    }
    sh->done[2] = true;
  });
  // 3: finaliser
  th.push_back([sh] {
    dsched::block_until([&] { return sh->cons_finished && sh->done[0] && sh->done[1] && sh->done[2]; });
    dsched::action("end viols=%d nexts=%d values=%d last=%c", sh->viols, sh->cons_nexts, sh->cons_values, sh->cons_last);
  });
  return th;
}

bool starts_with(const std::string& s, const char* p) { return s.rfind(p, 0) == 0; }

}  // namespace

int main(int argc, char** argv) {
  auto cli = vh::parse_cli(argc, argv);
  std::string script = cli.prog.at(0);
  if (script == "-") script = "";
  bool stop = cli.prog.size() > 1 && cli.prog[1] == "stop";
  bool cerr = cli.prog.size() > 2 && cli.prog[2] == "cerr";
  auto make = [&] { return make_threads(script, stop, cerr); };
  // Direct monitor: the property evaluated on the implementation's own run.  The verdict starts with a
  // tag; the props module turns it into the violation key.
  auto monitor = [&](const dsched::Result& r) -> std::string {
    sc::scan sc_(r);
    if (!sc_.first_bad.empty()) return "BAD: operation on storage holding no live op-state: " + sc_.first_bad;
    if (!sc_.first_viol.empty()) return "VIOL: " + sc_.first_viol;
    for (auto nm : {"src.next", "src.cleanup"}) { auto b = sc_.balanced(nm); if (!b.empty()) return "OPS: " + b; }
    if (sc_.count("cons.next.ctor") != sc_.count("cons.next.dtor") || sc_.count("cons.cleanup.ctor") != 1 || sc_.count("cons.cleanup.dtor") != 1)
      return "OPS: consumer op-states not constructed/destroyed once each";
    auto vo = sc_.values_ok(); if (!vo.empty()) return "VALUES: " + vo;
    bool op_alive = false;        // between !cons.next.ctor and !cons.next.dtor
    bool open = false;            // the current next() has not completed yet
    bool saw_end = false;         // a next() completed with done / error
    bool src_alive = false, src_out = false, cleanup_started = false, cleanup_done = false, destroyed = false;
    bool won = false, fwd_set = false, fwd_end = false;   // this round: callback took a reference / forwarded stop
    int won_tid = -1, completions = 0, last_src_v = -1, src_starts = 0;
    std::string cleanup_res;
    char src_kind = '?';          // how the source's next() of this round completed
    bool src_sub_last = false, cb_sub_last = false, src_sub_seen = false, cb_sub_seen = false;
    for (auto& e : r.trace) {
      int tid = std::atoi(e.c_str() + 1);
      auto sp = e.find(' ');
      std::string rest = e.substr(sp + 1);
      bool te_access = starts_with(rest, "te.ref") || starts_with(rest, "te.src") || starts_with(rest, "cb.completed");
      if (te_access && !op_alive) return "UAF: the consumer's next-op was accessed while destroyed: " + e;
      if (rest == "!stream.destroyed") destroyed = true;
      else if (destroyed && (starts_with(rest, "!src.") || te_access)) return "UAF: the stream was used after it was destroyed: " + e;
      if (rest == "!cons.next.ctor") {
        if (open || op_alive) return "NEXT: next() started before the previous one completed";
        if (saw_end) return "NEXT: next() started after done / error";
        open = true; op_alive = true; completions = 0; won = fwd_set = fwd_end = false; won_tid = -1;
        src_kind = '?'; src_sub_last = cb_sub_last = src_sub_seen = cb_sub_seen = false;
      } else if (rest == "!cons.next.dtor") {
        op_alive = false;
      } else if (starts_with(rest, "!cons.next ")) {
        if (!open || ++completions > 1) return "NEXT: next() completed twice or without being started: " + e;
        open = false;
        if (src_alive) return "UNION: next() completed while the wrapped next-op is still alive: " + e;
        if (src_kind == '?') return "NEXT: next() completed before the source's next() completed: " + e;
        char k = rest[11];
        if (k != 'v') saw_end = true;
        if (cb_sub_last) {
          if (k != 'd') return "ELECT: the stop callback was the last to complete but next() completed with: " + e;
          if (tid != won_tid) return "ELECT: done not delivered by the thread running the stop callback: " + e;
          if (!fwd_end) return "FWD: done delivered before request_stop was forwarded to the adapter's stop source: " + e;
        } else if (src_sub_last) {
          if (k != src_kind) return std::string("ELECT: the source completed last with ") + src_kind + " but next() completed with: " + e;
          if (k == 'v' && std::atoi(rest.c_str() + 13) != last_src_v) return "VALUES: delivered value differs from the one the source just produced: " + e;
        } else return "ELECT: next() completed although nobody brought refCount_ to 0: " + e;
      } else if (starts_with(rest, "te.ref A.")) {
        // request_stop: fetch_add; old value 0 = the result was already delivered
        int old = std::atoi(rest.c_str() + rest.rfind(' ') + 1);
        if (old < 0 || old > 1) return "REF: refCount_ out of range at fetch_add: " + e;
        if (won) return "REF: two callbacks on one next-op: " + e;
        if (old != 0) { won = true; won_tid = tid; } else if (open) return "REF: fetch_add read 0 although next() has not completed: " + e;
      } else if (starts_with(rest, "te.ref U.")) {
        int old = std::atoi(rest.c_str() + rest.rfind(' ') + 1);
        if (old < 1 || old > 2) return "REF: refCount_ out of range at fetch_sub: " + e;
        // the callback's complete() is the first fetch_sub of its thread after it forwarded the stop request
        bool by_cb = won && tid == won_tid && fwd_end && !cb_sub_seen;
        if (by_cb) cb_sub_seen = true;
        else if (src_kind == '?' || src_sub_seen) return "REF: complete() called by neither the source's completion nor the callback: " + e;
        else src_sub_seen = true;
        if (old == 1) {
          if (cb_sub_last || src_sub_last) return "REF: two last callers: " + e;
          if (by_cb) cb_sub_last = true; else src_sub_last = true;
        }
      } else if (starts_with(rest, "te.src C.") && rest.find(" ok") != std::string::npos) {
        if (!won || tid != won_tid) return "FWD: stopSource_.request_stop() by a thread whose fetch_add saw 0: " + e;
        fwd_set = true;
      } else if (starts_with(rest, "te.src S.")) {
        if (!fwd_set) return "FWD: unexpected store to stopSource_: " + e;
        fwd_end = true;
      } else if (rest == "!src.next.ctor") {
        if (src_alive) return "UNION: wrapped next-op constructed over a live one";
        src_alive = true;
      } else if (rest == "!src.next.start") { src_out = true; ++src_starts; }
      else if (starts_with(rest, "!src.next.complete ")) {
        src_out = false; src_kind = rest[19];
        if (src_kind == 'v') last_src_v = std::atoi(rest.c_str() + 21);
        if (!open) return "NEXT: the source's next() completed with no consumer next() open: " + e;
      } else if (rest == "!src.next.dtor") { src_alive = false; }
      else if (rest == "!src.cleanup.ctor") {
        if (src_alive) return "UNION: wrapped cleanup-op constructed while the wrapped next-op is alive (shared storage)";
      } else if (rest == "!src.cleanup.start") {
        if (src_out) return "CLEANUP: cleanup(source) started while next(source) is outstanding";
        if (open || op_alive) return "CLEANUP: cleanup started before the last next() completed and was destroyed";
        if (cleanup_started) return "CLEANUP: cleanup(source) started twice";
        if (!saw_end) return "CLEANUP: cleanup started although the last next() delivered a value";
        cleanup_started = true;
      } else if (starts_with(rest, "!src.cleanup.complete")) { cleanup_done = true; cleanup_res = rest.substr(22); }
      else if (starts_with(rest, "!cons.cleanup ") ) {
        if (!cleanup_done) return "CLEANUP: cleanup() completed before cleanup(source) completed";
        if (rest.substr(14) != cleanup_res) return "CLEANUP: cleanup() completed with '" + rest.substr(14) + "' but cleanup(source) with '" + cleanup_res + "'";
        if (sc_.index("src.cleanup.dtor") < 0) return "CLEANUP: wrapped cleanup-op never destroyed";
      } else if (rest == "!cons.finished") {
        if (!destroyed) return "END: finished without the stream being destroyed";
      }
    }
    if (open || op_alive) return "NEXT: the last next() never completed";
    if (!destroyed || !sc_.count("cons.finished")) return "END: the consumer never finished";
    if (!cleanup_started) return "CLEANUP: cleanup(source) never started";
    if (sc_.count("src.next.start") != sc_.count("src.next.ctor")) return "OPS: a constructed next(source) op was never started";
    if (sc_.count("src.next.start") != sc_.count("cons.next.ctor")) return "OPS: consumer next-ops and source next-ops differ in number";
    return "";
  };
  return vh::drive(cli, make, monitor);
}
