(* C10, the stop-request thunk of task<> (task.hpp _sr_thunk_promise_base): the join of the deferred stop
   request with the task's completion - "exactly one resumes the continuation".  Model Proto/SrThunkDefs.v. *)
From Coq Require Import ZArith List Bool.
From V Require Import Base.Sched Proto.SrThunkDefs Proto.SrThunkProofs.
Import ListNotations.
Import SrThunk.

Theorem C10_srthunk_exactly_one_resumer : forall (k : nat) (sched : list nat),
  let s := fst (run step sched (init k, [])) in
  (length (resumed s) <= 1)%nat /\ (quiescent s = true -> length (resumed s) = 1%nat).
Proof. exact exactly_one_resumer. Qed.
Print Assumptions C10_srthunk_exactly_one_resumer.

(* never before the task completed, nor before a started deferred stop request ran *)
Theorem C10_srthunk_not_resumed_early : forall (k : nat) (sched : list nat),
  let s := fst (run step sched (init k, [])) in
  resumed s <> [] -> cp_done s = true /\ (cb s = CbIdle \/ (cb s = CbDone /\ ds_done s = true)).
Proof. exact not_resumed_early. Qed.
Print Assumptions C10_srthunk_not_resumed_early.

(* the "fetch_add read zero" branch of the callback is dead: the callback is deregistered before the completion
   decrements *)
Theorem C10_srthunk_bail_unreachable : forall (k : nat) (sched : list nat), cb (fst (run step sched (init k, []))) <> CbBail.
Proof. exact bail_unreachable. Qed.
Print Assumptions C10_srthunk_bail_unreachable.

Theorem C10_srthunk_trace_roots : forall (k : nat) (sched : list nat),
  let c := run step sched (init k, []) in
  length (filter is_root (snd c)) = length (resumed (fst c)).
Proof. exact trace_roots. Qed.
Print Assumptions C10_srthunk_trace_roots.

(* whoever resumes, what is resumed is the continuation for the body's OWN result (k = 0 value, 1 error, 2 done): a
   deferred stop request that finishes last resumes whoToContinue_ as the completion left it, never "done" of its own *)
Theorem C10_srthunk_resumes_own_result : forall (k : nat) (sched : list nat),
  Forall (fun e => match e with ERoot x => x = Some k | _ => True end) (snd (run step sched (init k, []))).
Proof. exact resumes_own_result. Qed.
Print Assumptions C10_srthunk_resumes_own_result.

(* callback first, completion next (does not resume), deferred stop last (resumes) *)
Example ex_stop_then_complete :
  let c := run step [0; 0; 2; 1]%nat (init 0%nat, []) in
  snd c = [ERc false 1 2; EEnq; ERc true 2 1; ERc true 1 0; ERoot (Some 0%nat)] /\ resumed (fst c) = [1%nat] /\ quiescent (fst c) = true.
Proof. vm_compute. repeat split; reflexivity. Qed.
(* completion first: the callback is deregistered and never runs *)
Example ex_complete_first :
  let c := run step [2; 0; 1]%nat (init 2%nat, []) in
  snd c = [ERc true 1 0; ERoot (Some 2%nat)] /\ resumed (fst c) = [2%nat] /\ quiescent (fst c) = true.
Proof. vm_compute. repeat split; reflexivity. Qed.
(* the completion is blocked while the callback is between its fetch_add and its return *)
Example ex_blocked :
  step 2%nat (fst (run step [0]%nat (init 0%nat, []))) = None.
Proof. vm_compute. reflexivity. Qed.
