From Coq Require Import ZArith List Bool.
From V Require Import Base.Sched Proto.RefElectDefs Proto.RefElectProofs.
Import ListNotations.
Import RefElect.

Theorem C01_refelect_at_most_once : forall (outs : list outcome) (sched : list nat),
  let c := run step sched (init outs, []) in
  let s := fst c in
  (length (delivered s) <= 1)%nat.
Proof. exact at_most_once. Qed.
Print Assumptions C01_refelect_at_most_once.

Theorem C01_refelect_trace_roots : forall (outs : list outcome) (sched : list nat),
  let c := run step sched (init outs, []) in
  let s := fst c in
  let tr := snd c in
  length (filter is_root tr) = length (delivered s) /\ roots tr = rev (delivered s).
Proof. exact trace_roots. Qed.
Print Assumptions C01_refelect_trace_roots.

Theorem C01_refelect_no_lost : forall (outs : list outcome) (sched : list nat),
  let c := run step sched (init outs, []) in
  let s := fst c in
  quiescent s = true -> outs <> [] -> length (delivered s) = 1%nat.
Proof. exact no_lost. Qed.
Print Assumptions C01_refelect_no_lost.

Theorem C01_refelect_not_before : forall (outs : list outcome) (sched : list nat),
  let c := run step sched (init outs, []) in
  let s := fst c in
  delivered s <> [] -> Forall (fun p => p = KObs \/ p = KLoad \/ p = KFin) (kids s).
Proof. exact not_before. Qed.
Print Assumptions C01_refelect_not_before.

Theorem C01_refelect_result : forall (outs : list outcome) (sched : list nat),
  let c := run step sched (init outs, []) in
  let s := fst c in
  forall o, delivered s = [o] ->
    (o = ODone /\ stopped s = true) \/
    (o = OVal /\ Forall (fun x => x = OVal) outs) \/
    (o <> OVal /\ first s = Some o /\ In o outs /\ o <> OVal).
Proof. exact result. Qed.
Print Assumptions C01_refelect_result.

(* strengthening of result: [first] is the outcome of the first child to exchange *)
Theorem C01_refelect_result_first_exchanger :
  forall (outs : list outcome) (sched1 : list nat) (t : nat) (sched2 : list nat)
         (s' : st) (evs : list ev) (o : outcome),
  let c1 := run step sched1 (init outs, []) in
  step t (fst c1) = Some (s', evs) -> In (EDoeX false) evs ->
  let s := fst (run step (sched1 ++ t :: sched2) (init outs, [])) in
  delivered s = [o] ->
  (o = ODone /\ stopped s = true) \/ nth_error outs t = Some o.
Proof. exact result_first_exchanger. Qed.
Print Assumptions C01_refelect_result_first_exchanger.

Theorem C01_refelect_first_exchange_wins :
  forall (outs : list outcome) (sched1 : list nat) (t : nat) (s' : st) (evs : list ev),
  let c1 := run step sched1 (init outs, []) in
  step t (fst c1) = Some (s', evs) -> In (EDoeX false) evs ->
  doex (snd c1) = [] /\
  exists o, nth_error outs t = Some o /\ o <> OVal /\
    forall sched2, first (fst (run step sched2 (s', snd c1 ++ evs))) = Some o.
Proof. exact first_exchange_wins. Qed.
Print Assumptions C01_refelect_first_exchange_wins.

Theorem C01_refelect_progress : forall (outs : list outcome) (sched : list nat),
  let c := run step sched (init outs, []) in
  let s := fst c in
  quiescent s = false -> exists t, step t s <> None.
Proof. exact progress. Qed.
Print Assumptions C01_refelect_progress.

Theorem C01_refelect_rc_nonneg : forall (outs : list outcome) (sched : list nat),
  let c := run step sched (init outs, []) in
  let s := fst c in
  (0 <= rc s)%Z.
Proof. exact rc_nonneg. Qed.
Print Assumptions C01_refelect_rc_nonneg.

Theorem C01_refelect_inv_reachable : forall (outs : list outcome) (sched : list nat),
  Inv outs (fst (run step sched (init outs, []))).
Proof. exact inv_reachable. Qed.
Print Assumptions C01_refelect_inv_reachable.

Theorem C01_refelect_zero_hits : forall (outs : list outcome) (sched : list nat),
  let c := run step sched (init outs, []) in
  let s := fst c in
  let tr := snd c in
  length (filter is_zero_hit tr) = (nE s + cbE (cb s) + length (delivered s))%nat /\
  (length (filter is_zero_hit tr) <= 1)%nat.
Proof. exact zero_hits. Qed.
Print Assumptions C01_refelect_zero_hits.

(* threads 0,1,2 = children, 3 = the stop callback, 4 = the external stop requester.
   External stop, callback takes its count (3 -> 4), all three children finish (the error child
   wins the exchange) leaving the count at 1 with the callback mid-flight (CSub); the callback's
   fetch_sub hits zero, it reads stop_requested() = true and completes the receiver with done. *)
Example C01_refelect_example_cb_delivers_done :
  let outs := [OVal; OErr; ODone] in
  let mid := run step [4; 3; 0; 1; 1; 2; 2] (init outs, []) in
  let c := run step [4; 3; 0; 1; 1; 2; 2; 3; 3] (init outs, []) in
  (kids (fst mid) = [KFin; KFin; KFin] /\ cb (fst mid) = CSub /\ rc (fst mid) = 1%Z /\
   delivered (fst mid) = [] /\ quiescent (fst mid) = false) /\
  (quiescent (fst c) = true /\ delivered (fst c) = [ODone] /\ stopped (fst c) = true /\
   cb (fst c) = CFin /\ rc (fst c) = 0%Z /\ first (fst c) = Some OErr /\
   snd c = [EExtSet; ERc false 3 4; ERc true 4 3; EDoeX false; ERc true 3 2; EDoeX true;
            ERc true 2 1; ERc true 1 0; EExtObs true; ERoot ODone]).
Proof. vm_compute. repeat split; reflexivity. Qed.

(* same, but the external stop lands between the callback's stop_requested() read and its
   doneOrError_ load: the callback thread completes the receiver with the error of child 1,
   the first child to exchange *)
Example C01_refelect_example_cb_delivers_error :
  let outs := [OVal; OErr; ODone] in
  let mid := run step [3; 0; 1; 1; 2; 2] (init outs, []) in
  let c := run step [3; 0; 1; 1; 2; 2; 3; 3; 4; 3] (init outs, []) in
  (kids (fst mid) = [KFin; KFin; KFin] /\ cb (fst mid) = CSub /\ rc (fst mid) = 1%Z /\
   delivered (fst mid) = [] /\ quiescent (fst mid) = false) /\
  (quiescent (fst c) = true /\ delivered (fst c) = [OErr] /\ stopped (fst c) = true /\
   cb (fst c) = CFin /\ rc (fst c) = 0%Z /\ first (fst c) = Some OErr /\
   snd c = [ERc false 3 4; ERc true 4 3; EDoeX false; ERc true 3 2; EDoeX true;
            ERc true 2 1; ERc true 1 0; EExtObs false; EExtSet; EDoeL true; ERoot OErr]).
Proof. vm_compute. repeat split; reflexivity. Qed.

(* the bail-out: the callback runs after the election; it adds 1 to a zero count and returns;
   the count stays 1 for ever (this is why the invariant has a second disjunct for rc) *)
Example C01_refelect_example_bail_out :
  let c := run step [0; 0; 0; 1; 1] (init [OVal], []) in
  quiescent (fst c) = true /\ delivered (fst c) = [OVal] /\ cb (fst c) = CFin /\
  rc (fst c) = 1%Z.
Proof. vm_compute. repeat split; reflexivity. Qed.
