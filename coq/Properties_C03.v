(* C03 — stop-token protocol (inplace_stop_source / inplace_stop_token / inplace_stop_callback).
   Model: Proto/StopSourceDefs.v; proofs: Proto/StopSourceProofs.v.  Every theorem quantifies over
   all thread programs [progs], all callback bodies [bods] (programs too: re-entrancy is inside
   the quantifier), hence over all numbers of threads and callbacks, and over all schedules.
   Client discipline (a callback id is registered at most once, destroyed at most once and only
   after its constructor returned) is enforced by the model: a violating instruction blocks. *)
From Coq Require Import List Bool Arith.
From V Require Import Base.Sched Proto.StopSourceDefs Proto.StopSourceProofs.
Import ListNotations.
Import StopSource.

(* exactly one request_stop is the first: at most one call returns false, at most one call ever
   takes the winning first step (the 0->3 acquisition), that happens iff stop is requested, only
   the winner returns false, any returned call implies stop, and once every thread has finished
   with stop requested exactly one call has returned false *)
Theorem C03_first_unique : forall (progs bods : list prog) (sched : list nat),
  let c := run step sched (init progs bods, []) in
  let s := fst c in let tr := snd c in
  cnt is_rsfalse tr <= 1 /\ cnt is_acq03 tr <= 1 /\
  (cnt is_acq03 tr = 1 <-> stop s = true) /\
  (forall t, In (t, ERsRet false) tr -> In (t, EAcq true 0 3) tr) /\
  (forall t b, In (t, ERsRet b) tr -> stop s = true) /\
  ((forall t, finished s t = true) -> stop s = true -> cnt is_rsfalse tr = 1).
Proof. exact first_unique. Qed.
Print Assumptions C03_first_unique.

Theorem C03_stop_monotone : forall (progs bods : list prog) (sched1 sched2 : list nat),
  stop (fst (run step sched1 (init progs bods, []))) = true ->
  stop (fst (run step (sched1 ++ sched2) (init progs bods, []))) = true.
Proof. exact stop_monotone. Qed.
Print Assumptions C03_stop_monotone.

(* what stop_requested() returns: true iff a request_stop took its first step before *)
Theorem C03_stop_observed : forall (progs bods : list prog) (sched : list nat) pre t b v post,
  snd (run step sched (init progs bods, [])) = pre ++ (t, EObs b v) :: post ->
  (Nat.odd v = true <-> cnt is_acq03 pre = 1).
Proof. exact stop_observed. Qed.
Print Assumptions C03_stop_observed.

Theorem C03_cb_at_most_once : forall (progs bods : list prog) (sched : list nat) (c : nat),
  cnt (is_exec c) (snd (run step sched (init progs bods, []))) <= 1.
Proof. exact cb_at_most_once. Qed.
Print Assumptions C03_cb_at_most_once.

(* a callback has run iff request_stop dequeued it while it was registered or its registration
   found stop requested; never without a stop request *)
Theorem C03_cb_iff : forall (progs bods : list prog) (sched : list nat) (c : nat),
  let cf := run step sched (init progs bods, []) in
  let s := fst cf in let tr := snd cf in
  (cnt (is_exec c) tr = 1 <-> (cst (cbs s c) = CPopped \/ cst (cbs s c) = CInl)) /\
  (cnt (is_exec c) tr = 0 <-> (cst (cbs s c) = CNew \/ cst (cbs s c) = CReg \/
                               cst (cbs s c) = CLinked \/ cst (cbs s c) = CUnlinked)) /\
  (cnt (is_exec c) tr = 1 -> stop s = true).
Proof. exact cb_iff. Qed.
Print Assumptions C03_cb_iff.

(* ... and it is entered by the notifying thread right after unlocking, or inline by the
   registering thread right after its registration observed the stop bit *)
Theorem C03_exec_context : forall (progs bods : list prog) (sched : list nat) pre t c post,
  snd (run step sched (init progs bods, [])) = pre ++ (t, EExec c) :: post ->
  exists pre0 e, pre = pre0 ++ [e] /\ fst e = t /\
    (snd e = ERel 1 \/ exists v, snd e = EObs false v /\ Nat.odd v = true).
Proof. exact exec_context. Qed.
Print Assumptions C03_exec_context.

(* no registered callback is skipped: once the first request_stop returned the list is empty *)
Theorem C03_cb_complete : forall (progs bods : list prog) (sched : list nat),
  let cf := run step sched (init progs bods, []) in
  let s := fst cf in let tr := snd cf in
  (cnt is_rsfalse tr = 1 -> lst s = [] /\ forall c, cst (cbs s c) <> CLinked) /\
  ((forall t, finished s t = true) -> stop s = true -> forall c, cst (cbs s c) <> CLinked).
Proof. exact cb_complete. Qed.
Print Assumptions C03_cb_complete.

(* after the destructor of c returned on t: no event touches c (no execution, no
   callbackCompleted_ store/load, no second destruction), no earlier destruction of c returned,
   and c is not executing on any other thread (entries = exits per other thread) *)
Theorem C03_dereg_quiescent : forall (progs bods : list prog) (sched : list nat) pre t c post,
  snd (run step sched (init progs bods, [])) = pre ++ (t, EDeregRet c) :: post ->
  (forall e, In e post -> touches c (snd e) = false) /\
  (forall e, In e pre -> snd e <> EDeregRet c) /\
  (forall t', t' <> t -> cnt (is_exec_by t' c) pre = cnt (is_end_by t' c) pre).
Proof. exact dereg_quiescent. Qed.
Print Assumptions C03_dereg_quiescent.

Theorem C03_self_dereg_nonblocking : forall (progs bods : list prog) (sched : list nat),
  let s := fst (run step sched (init progs bods, [])) in
  (forall t c, notifier s = Some t -> ~ In (FDeregWait c) (thr s t)) /\
  (forall t c k, In (FRun (Some c) k) (thr s t) -> cst (cbs s c) = CPopped -> notifier s = Some t) /\
  (forall t c old rest, thr s t = FDeregCS c old :: rest -> notifier s = Some t ->
     cst (cbs s c) <> CLinked ->
     exists s', step t s = Some (s', [(t, ERel (word false old)); (t, EDeregRet c)]) /\ thr s' t = rest).
Proof. exact self_dereg_nonblocking. Qed.
Print Assumptions C03_self_dereg_nonblocking.

(* self-destruction from inside the INLINE execution (registration after the stop), on any thread:
   returns at once without touching the source *)
Theorem C03_inline_self_dereg_nonblocking : forall (progs bods : list prog) (sched : list nat),
  let s := fst (run step sched (init progs bods, [])) in
  forall t c k oc k' rest,
    In (FRun (Some c) k) (thr s t) -> cst (cbs s c) = CInl -> dst (cbs s c) = DNone ->
    thr s t = FRun oc (IDereg c :: k') :: rest ->
    exists s', step t s = Some (s', [(t, EDeregBegin c); (t, EDeregRet c)]) /\
               thr s' t = FRun oc k' :: rest /\ locked s' = locked s /\ lst s' = lst s.
Proof. exact inline_self_dereg_nonblocking. Qed.
Print Assumptions C03_inline_self_dereg_nonblocking.

Theorem C03_no_dangling : forall (progs bods : list prog) (sched : list nat) (c t : nat),
  let s := fst (run step sched (init progs bods, [])) in
  dst (cbs s c) = DDone t -> ~ In c (lst s).
Proof. exact no_dangling. Qed.
Print Assumptions C03_no_dangling.

Theorem C03_dereg_ret_destroyed : forall (progs bods : list prog) (sched : list nat) (c t : nat),
  let cf := run step sched (init progs bods, []) in
  In (t, EDeregRet c) (snd cf) -> dst (cbs (fst cf) c) = DDone t.
Proof. exact dereg_ret_destroyed. Qed.
Print Assumptions C03_dereg_ret_destroyed.

(* the protocol never deadlocks: if no thread can move and none waits for the client
   discipline (constructor not returned yet / id reused / second destruction), all have finished *)
Theorem C03_deadlock_free : forall (progs bods : list prog) (sched : list nat),
  let s := fst (run step sched (init progs bods, [])) in
  (forall t, step t s = None) -> (forall t, client_wait s t = false) ->
  forall t, finished s t = true.
Proof. exact deadlock_free. Qed.
Print Assumptions C03_deadlock_free.

(* well-formed client programs (every callback id constructed at most once and destroyed at most
   once in the whole program text, thread programs and callback bodies) never run into the
   model's discipline guards other than "the constructor has not returned yet": a registration
   always finds a fresh id and a destruction is never a second destruction.  So for them the
   theorems above speak about exactly the executions of the unguarded protocol. *)
Theorem C03_wf_guards : forall (progs bods : list prog) (sched : list nat), wf progs bods ->
  let s := fst (run step sched (init progs bods, [])) in
  forall t oc k rest c,
    (thr s t = FRun oc (IReg c :: k) :: rest -> cst (cbs s c) = CNew) /\
    (thr s t = FRun oc (IDereg c :: k) :: rest -> dst (cbs s c) = DNone).
Proof. exact wf_guards. Qed.
Print Assumptions C03_wf_guards.

(* well-formedness is decidable *)
Theorem C03_wfb_wf : forall (progs bods : list prog), wfb progs bods = true -> wf progs bods.
Proof. exact wfb_wf. Qed.
Print Assumptions C03_wfb_wf.

(* the whole inductive invariant holds in every reachable configuration *)
Theorem C03_inv_reachable : forall (progs bods : list prog) (sched : list nat),
  InvX (run step sched (init progs bods, [])).
Proof. exact InvX_run. Qed.
Print Assumptions C03_inv_reachable.

(* ------------------------------------------------------------------------------------------ *)
(* the hypotheses are met by concrete, non-trivial runs                                       *)

(* thread 0 registers callback 0; thread 1 waits for that and requests stop; the callback
   destroys its own registration from inside (re-entrant remove_callback on the notifying
   thread): no callbackCompleted_ store, request_stop returns false *)
Example C03_example_self_dereg :
  let progs := [[IReg 0]; [IWait 0; IReqStop]] in
  let bods := [[IDereg 0]] in
  let c := run step [0; 0; 1; 1; 1; 1; 1; 1; 1; 1; 1] (init progs bods, []) in
  finished (fst c) 0 = true /\ finished (fst c) 1 = true /\
  cb_summary (fst c) 0 = (CPopped, XEnded, DDone 1, false) /\
  snd c = [(0, EAcq true 0 2); (0, ERel 0); (1, EWaitReg 0); (1, EAcq true 0 3);
           (1, ERel 1); (1, EExec 0); (1, EDeregBegin 0); (1, EAcq false 1 3);
           (1, ERel 1); (1, EDeregRet 0); (1, EEnd 0); (1, EAcq false 1 3);
           (1, ERel 1); (1, ERsRet false)].
Proof. vm_compute. repeat split; reflexivity. Qed.

(* a third thread destroys the callback while it is running on the notifying thread: the
   destructor blocks (the model step is disabled) until callbackCompleted_ is stored; two
   request_stop callers, exactly one returns false *)
Example C03_example_racing_dereg :
  let progs := [[IReg 0]; [IWait 0; IReqStop]; [IWait 0; IDereg 0; IReqStop]] in
  let bods := [[IStopReq]] in
  let mid := run step [0; 0; 1; 1; 1; 2; 2; 2; 2] (init progs bods, []) in
  let c := run step [0; 0; 1; 1; 1; 2; 2; 2; 2; 2; 1; 1; 1; 2; 2; 1; 1] (init progs bods, []) in
  step 2 (fst mid) = None /\ client_wait (fst mid) 2 = false /\
  thr (fst mid) 2 = [FDeregWait 0; FRun None [IReqStop]] /\
  finished (fst c) 0 = true /\ finished (fst c) 1 = true /\ finished (fst c) 2 = true /\
  cb_summary (fst c) 0 = (CPopped, XEnded, DDone 2, true) /\
  cnt is_rsfalse (snd c) = 1 /\
  snd c = [(0, EAcq true 0 2); (0, ERel 0); (1, EWaitReg 0); (1, EAcq true 0 3);
           (1, ERel 1); (1, EExec 0); (2, EWaitReg 0); (2, EDeregBegin 0); (2, EAcq false 1 3);
           (2, ERel 1); (1, EObs true 1); (1, EEnd 0); (1, EDone 0);
           (2, EWait 0); (2, EDeregRet 0); (2, EObs false 1); (2, ERsRet true);
           (1, EAcq false 1 3); (1, ERel 1); (1, ERsRet false)].
Proof. vm_compute. repeat split; reflexivity. Qed.

(* registration after the stop: the callback runs inline on the registering thread, its body
   registers and destroys a second callback (nested inline execution) *)
Example C03_example_inline :
  let progs := [[IReqStop; IReg 0; IDereg 0]] in
  let bods := [[IReg 1; IDereg 1]; [IReqStop]] in
  let c := run step [0; 0; 0; 0; 0; 0; 0; 0; 0] (init progs bods, []) in
  finished (fst c) 0 = true /\
  cb_summary (fst c) 0 = (CInl, XEnded, DDone 0, false) /\
  cb_summary (fst c) 1 = (CInl, XEnded, DDone 0, false) /\
  snd c = [(0, EAcq true 0 3); (0, ERel 1); (0, ERsRet false);
           (0, EObs false 1); (0, EExec 0); (0, EObs false 1); (0, EExec 1);
           (0, EObs false 1); (0, ERsRet true); (0, EEnd 1);
           (0, EDeregBegin 1); (0, EDeregRet 1); (0, EEnd 0);
           (0, EDeregBegin 0); (0, EDeregRet 0)].
Proof. vm_compute. repeat split; reflexivity. Qed.

(* the programs the K1 tie runs are well-formed, e.g. the largest quick one *)
Example C03_example_wf :
  wf [[IReg 0; IReg 1; IReg 2]; [IWait 2; IReqStop; IDereg 2]; [IWait 2; IDereg 1]]
     [[]; [IStopReq]; [IDereg 0]].
Proof. apply wfb_wf. vm_compute. reflexivity. Qed.

(* thread 1 requests stop; thread 0 then registers callback 0, which runs inline on thread 0 (not
   the notifying thread) and destroys its own registration from inside: no access to the source *)
Example C03_example_inline_self_dereg :
  let progs := [[IReg 0]; [IReqStop]] in
  let bods := [[IDereg 0; IStopReq]] in
  let c := run step [1; 1; 0; 0; 0; 0] (init progs bods, []) in
  finished (fst c) 0 = true /\ finished (fst c) 1 = true /\
  cb_summary (fst c) 0 = (CInl, XEnded, DDone 0, false) /\
  snd c = [(1, EAcq true 0 3); (1, ERel 1); (1, ERsRet false);
           (0, EObs false 1); (0, EExec 0); (0, EDeregBegin 0); (0, EDeregRet 0);
           (0, EObs true 1); (0, EEnd 0)].
Proof. vm_compute. repeat split; reflexivity. Qed.
