From Coq Require Import List Bool Arith.
From V Require Import Base.Sched Proto.StopSourceDefs Proto.StopSourceProofs.
