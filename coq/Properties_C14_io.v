(* C14, second sentence: "Each async read/write completes exactly once with the number of bytes
   actually transferred, with the OS error, or with done if its stop token fired - in which case the
   context keeps no reference to the operation or its buffer, so later activity on the same descriptor
   affects only later operations" -- for one read/write operation of io_epoll_context (model
   Proto/IoCancelDefs.v): read or write, started on or off the I/O thread, stop requested before the
   start / at any time / never by any number of threads, descriptor ready before / at any time /
   never, syscall succeeding or failing with any errno, all schedules.

   The theorems C14_io_* hold for the FIXED variant (init's parameter fixed = true: the code with
   out/C14/fix_epoll_all.diff applied); for the code as written (fixed = false) the same statements
   are refuted by the *_refuted theorems, each with a witness schedule that is replayed on the real
   code by harness/k1_epoll_io.cpp (findings 6, 8 and 15).  tools/units/io.py MODEL_VARIANT names
   the variant the K1 tie currently compares the real code with.

   PARTIAL: the kernel (epoll registration set, level-triggered readiness, readv/writev results) is
   assumed to behave as modelled; the proofs are by exhaustive exploration, inside Coq, of the
   finite transition system of the operation's state (see the header of Proto/IoCancelProofs.v). *)
From Coq Require Import List Bool Arith.
From V Require Import Base.Sched Proto.IoCancelDefs Proto.IoCancelProofs.
Import ListNotations.
Import IoCancel.

(* exactly once, safety half: never twice *)
Theorem C14_io_at_most_once : forall p nstop (sched : list nat), fixed p = true ->
  let c := co (fst (run step sched (init p nstop, []))) in
  length (completed c) <= 1.
Proof. exact io_at_most_once. Qed.
Print Assumptions C14_io_at_most_once.

(* exactly once, progress half: when no thread can move the operation has completed, or it is
   legitimately parked: registered with epoll, descriptor not ready, no stop requested, nothing
   consumed (sane: a descriptor whose syscall says EAGAIN can be polled) *)
Theorem C14_io_completes : forall p nstop (sched : list nat), fixed p = true -> sane p = true ->
  let s := fst (run step sched (init p nstop, [])) in
  (forall t, step t s = None) ->
  completed (co s) <> [] \/ (parked_ok (co s) = true /\ xfer (co s) = 0).
Proof. exact io_completes. Qed.
Print Assumptions C14_io_completes.

(* with the true result: value iff the bytes were transferred (at most once; never transferred and
   then dropped), the error is the errno of the failing syscall, done only after a stop request and
   without having consumed anything *)
Theorem C14_io_true_result : forall p nstop (sched : list nat), fixed p = true ->
  let c := co (fst (run step sched (init p nstop, []))) in
  xfer c <= 1 /\
  match completed c with
  | [] => True
  | [RValue] => xfer c = 1
  | [RError k] => xfer c = 0 /\ fail p = Some k
  | [RDone] => xfer c = 0 /\ stopped c = true
  | _ => False
  end.
Proof. exact io_true_result. Qed.
Print Assumptions C14_io_true_result.

(* no stale state: at the operation's completion, and ever after, no epoll registration mentions it,
   neither of its queue items is queued anywhere, no thread is inside its code and its stop callback
   is neither registered nor running *)
Theorem C14_io_no_stale_registration : forall p nstop (sched : list nat), fixed p = true ->
  let c := co (fst (run step sched (init p nstop, []))) in
  completed c <> [] ->
  reg c = false /\ batch c = [] /\ localq c = [] /\ remoteq c = [] /\ cenq c = 0 /\ denq c = 0 /\
  io c = IIdle /\ runner c = RNone /\ starter c = TFin /\ cb c <> CbReg /\ cb c <> CbRunning.
Proof. exact no_stale_registration. Qed.
Print Assumptions C14_io_no_stale_registration.

(* nothing touches the operation after its completion; epoll_wait never hands back the pointer of a
   completed operation or of a completion that was already consumed; no null execute_ is called *)
Theorem C14_io_nothing_touches_after_completion : forall p nstop (sched : list nat), fixed p = true ->
  let c := co (fst (run step sched (init p nstop, []))) in
  uaf c = false /\ stale c = false /\ crashed c = false.
Proof. exact nothing_touches_after_completion. Qed.
Print Assumptions C14_io_nothing_touches_after_completion.

(* ---- the code as written --------------------------------------------------------------------- *)
(* finding 6 *)
Theorem C14_io_no_stale_registration_refuted :
  exists p nstop sched, fixed p = false /\
    let c := co (fst (run step sched (init p nstop, []))) in
    completed c = [RDone] /\ reg c = true.
Proof. exact no_stale_registration_refuted. Qed.
Print Assumptions C14_io_no_stale_registration_refuted.

Theorem C14_io_no_stale_registration_refuted_race :
  exists p sched, fixed p = false /\ pre p = false /\
    let c := co (fst (run step sched (init p 1, []))) in
    completed c = [RDone] /\ reg c = true.
Proof. exact no_stale_registration_refuted_race. Qed.
Print Assumptions C14_io_no_stale_registration_refuted_race.

Theorem C14_io_nothing_touches_refuted_stale :
  exists p nstop sched, fixed p = false /\
    let c := co (fst (run step sched (init p nstop, []))) in
    completed c = [RDone] /\ stale c = true.
Proof. exact nothing_touches_refuted_stale. Qed.
Print Assumptions C14_io_nothing_touches_refuted_stale.

(* finding 8 *)
Theorem C14_io_completes_refuted :
  exists p nstop sched, fixed p = false /\ sane p = true /\
    let s := fst (run step sched (init p nstop, [])) in
    (forall t, step t s = None) /\ completed (co s) = [] /\ parked_ok (co s) = false /\ errs (co s) = [KOther].
Proof. exact io_completes_refuted. Qed.
Print Assumptions C14_io_completes_refuted.

Theorem C14_io_true_result_refuted :
  exists p nstop sched, fixed p = false /\
    let c := co (fst (run step sched (init p nstop, []))) in
    fail p = Some KOther /\ completed c = [RError KPerm].
Proof. exact io_true_result_refuted. Qed.
Print Assumptions C14_io_true_result_refuted.

(* finding 15 *)
Theorem C14_io_nothing_touches_refuted_late_store :
  exists p sched, fixed p = false /\
    let c := co (fst (run step sched (init p 1, []))) in
    completed c = [RDone] /\ uaf c = true.
Proof. exact nothing_touches_refuted_late_store. Qed.
Print Assumptions C14_io_nothing_touches_refuted_late_store.

(* ---- the hypotheses are met by non-trivial runs -------------------------------------------------- *)
(* fixed code, remote start, a stopper racing with readiness: the read parks, the peer makes the
   descriptor ready, the completion is delivered, the stopper cancels while it is queued: done *)
Example C14_io_example_cancel_vs_readiness :
  let p := {| fixed := true; is_write := false; remote := true; pre := false; ready0 := false;
              fail := None; pollable := true |} in
  let c := co (fst (run step [3;3;1;0;0;0;0;4;2;0;5;5;5;5;5;5;0;0;0;0;1;0;0;0;0;0] (init p 1, []))) in
  completed c = [RDone] /\ reg c = false /\ uaf c = false /\ xfer c = 0 /\ ready c = true.
Proof. vm_compute. auto. Qed.

(* the reachable state space that the theorems quantify over is not trivial *)
Example C14_io_example_state_space :
  length (reach_set {| fixed := true; is_write := false; remote := true; pre := false; ready0 := false;
                       fail := None; pollable := true |}) = 143.
Proof. vm_compute. reflexivity. Qed.
