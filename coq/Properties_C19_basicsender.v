(* C19, unit 5: create_basic_sender (Proto/BasicSenderDefs.v, BasicSenderProofs.v).
   Threads: 0 = start() (may run the stop callback inline), 1 = the first callback on thread A
   (safe or unsafe), 2 = a second SAFE callback arriving at any time after the start event,
   3 = the stop request on thread B with the stop callback, 4 = destruction of the operation by the
   receiver's owner once completed.  Parameters: first (how the value completion arrives: FSync in
   the start event, FInl the start event calls its own safe callback, FSafe / FUnsafe from thread
   1, FNone never), second (thread 2 exists; ignored when first = FUnsafe, see has_second),
   breq (the body event that calls set_value also calls request_stop() on the operation's own stop
   source: BNo never, BValStop right after the set_value, BStopVal right before it: the stop
   callback then runs re-entrantly on the same thread under the recursive mutex), restop (the stop
   event calls request_stop() again).  5 * 2 * 3 * 2 = 60 parameter values, every theorem below is
   for all of them and all schedules. *)
From Coq Require Import List Bool Arith.
From V Require Import Base.Sched Proto.BasicSenderDefs Proto.BasicSenderProofs.
Import ListNotations.
Import BasicSender.

Theorem C19_basicsender_one_completer : forall (p : params) (sched : list nat),
  let s := fst (run (step p) sched (init p, [])) in
  length (completions s) <= 1 /\
  (quiescent p s = true ->
     length (completions s) = 1 /\ destroyed s = true /\ p0 s = B0Fin /\ p3 s = S3Fin /\
     md s = 0 /\ refs s = 0).
Proof. exact one_completer. Qed.
Print Assumptions C19_basicsender_one_completer.

(* every event reaches the user's body at most once, the stop event only after the start event;
   in particular a callback that arrives after the operation finished does not reach the body *)
Theorem C19_basicsender_body_events : forall (p : params) (sched : list nat),
  let s := fst (run (step p) sched (init p, [])) in
  nstart s <= 1 /\ ncallback s <= 1 /\ nstop s <= 1 /\ (nstop s = 0 \/ nstart s = 1).
Proof. exact body_events. Qed.
Print Assumptions C19_basicsender_body_events.

Theorem C19_basicsender_side_conditions : forall (p : params) (sched : list nat),
  let s := fst (run (step p) sched (init p, [])) in
  (freed s = true -> cb s <> CbReg /\ cb s <> CbRun /\ own s = false) /\
  (forall o, completions s = [o] -> res s = Some o) /\
  (res s = Some ODone -> src s = true).
Proof. exact completion_side_conditions. Qed.
Print Assumptions C19_basicsender_side_conditions.

(* the stop event is dispatched at most once and only to an operation that was started and has not
   finished (badstop counts the stop events dispatched in a phase other than started: before the
   start event, or after a set_value / set_done already finished the operation - the latter is what
   a re-entrant stop request from inside a body event would do if _stop_callback did not test
   finished() under the lock) *)
Theorem C19_basicsender_stop_dispatch : forall (p : params) (sched : list nat),
  let s := fst (run (step p) sched (init p, [])) in
  nstop s <= 1 /\ badstop s = 0 /\ (nstop s = 0 \/ nstart s = 1).
Proof. exact stop_dispatch. Qed.
Print Assumptions C19_basicsender_stop_dispatch.

(* a completion signal already chosen is never overridden: calls is the append-only list of the
   body's set_value / set_done calls (first_call = the oldest); the deferred result is the first
   one, and the single completion of the receiver is that one *)
Theorem C19_basicsender_first_decision_wins : forall (p : params) (sched : list nat),
  let s := fst (run (step p) sched (init p, [])) in
  length (completions s) <= 1 /\
  (forall o, first_call s = Some o -> res s = Some o) /\
  (forall o o', first_call s = Some o -> completions s = [o'] -> o' = o).
Proof. exact first_decision_wins. Qed.
Print Assumptions C19_basicsender_first_decision_wins.

(* quiet_after_completion / "late safe callbacks become no-ops".  FULL STATEMENT:
     forall p sched, late (fst (run (step p) sched (init p, []))) = 0.
   It is FALSE (next theorem) whenever a safe callback can be in flight while another thread
   completes the operation; proved here for the remaining parameter values: no safe callback
   besides one the start event calls itself, or completion by the start event itself (then a
   later safe callback finds the weak_ptr expired and touches nothing). *)
Theorem C19_basicsender_quiet_after_completion_partial : forall (p : params) (sched : list nat),
  racy p = false -> late (fst (run (step p) sched (init p, []))) = 0.
Proof. exact quiet_after_completion_cond. Qed.
Print Assumptions C19_basicsender_quiet_after_completion_partial.

(* a safe callback takes its strong reference (weak_.lock() succeeds: the operation has not
   finished yet), another thread finishes and completes the receiver, and the callback then locks
   the mutex of the operation: the last two events of the witness run are the completion of the
   receiver and that lock *)
Theorem C19_basicsender_quiet_after_completion_refuted : forall p : params, racy p = true ->
  let c := run (step p) (witness p) (init p, []) in
  late (fst c) = 1 /\ length (completions (fst c)) = 1 /\
  exists o, firstn 2 (rev (snd c)) = [ELock 0 1; ERoot o].
Proof. exact quiet_after_completion_refuted. Qed.
Print Assumptions C19_basicsender_quiet_after_completion_refuted.

Theorem C19_basicsender_invariant : forall (p : params) (sched : list nat),
  P_all p (fst (run (step p) sched (init p, []))) = true.
Proof. exact P_all_reachable. Qed.
Print Assumptions C19_basicsender_invariant.

(* the start event calls its own safe callback (recursion): the nested callback_impl finishes the
   operation but is not the outermost lock holder, so start_impl completes after it returned; a
   second safe callback arriving later finds the cell expired and does nothing *)
Example C19_basicsender_example_recursion :
  let p := {| first := FInl; second := true; breq := BNo; restop := false |} in
  let c := run (step p) [0; 0; 0; 0; 0; 0; 0; 0; 0; 2; 2; 4] (init p, []) in
  quiescent p (fst c) = false /\ step p 3 (fst c) <> None /\
  completions (fst c) = [OVal] /\ late (fst c) = 0 /\ ncallback (fst c) = 1 /\
  snd c = [EReg false; ELock 0 1; EBStart; ELock 1 2; EBCallback; EUnlock 2 1; EUnlock 1 0;
           EDereg; ERoot OVal; ECall 2; ERet 2; EDestroyed].
Proof. vm_compute. repeat split; try reflexivity; discriminate. Qed.

(* stop before start: the stop callback runs inline in its registration, marks stopped_early;
   start_impl skips the start event and completes with done *)
Example C19_basicsender_example_stop_before_start :
  let p := {| first := FSafe; second := false; breq := BNo; restop := false |} in
  let c := run (step p) [3; 0; 0; 0; 0; 0; 0; 4] (init p, []) in
  quiescent p (fst c) = true /\ completions (fst c) = [ODone] /\ nstart (fst c) = 0 /\
  nstop (fst c) = 0 /\
  snd c = [ESet; EReg true; ELock 0 1; EUnlock 1 0; ELock 0 1; EUnlock 1 0; ERoot ODone;
           EDestroyed].
Proof. vm_compute. repeat split; reflexivity. Qed.

(* the callback event on thread 1 calls set_value and then request_stop() on the operation's own
   source: the stop callback runs inline (lock 1->2), finds the operation finished and returns
   without dispatching the stop event; the outermost frame delivers the value; the later request
   of thread 3 is a no-op *)
Example C19_basicsender_example_value_then_nested_stop :
  let p := {| first := FSafe; second := false; breq := BValStop; restop := false |} in
  let c := run (step p) ([0; 0; 0; 0] ++ repeat 1 12 ++ [4; 3]) (init p, []) in
  quiescent p (fst c) = true /\ completions (fst c) = [OVal] /\ nstop (fst c) = 0 /\
  calls (fst c) = [OVal] /\ late (fst c) = 0 /\
  snd c = [EReg false; ELock 0 1; EBStart; EUnlock 1 0; ECall 1; ELock 0 1; EBCallback; ESet;
           ELock 1 2; EUnlock 2 1; ECbS; EUnlock 1 0; EDereg; ERoot OVal; ERet 1; EDestroyed;
           ESetNo].
Proof. vm_compute. repeat split; reflexivity. Qed.

(* the start event calls its own safe callback, whose event calls request_stop() and then
   set_value: the stop event is dispatched at recursion depth 3 to a started, unfinished operation
   and chooses done; the later set_value is ignored; start_impl, the outermost frame, delivers
   done after both nested frames returned *)
Example C19_basicsender_example_nested_stop_then_value :
  let p := {| first := FInl; second := false; breq := BStopVal; restop := true |} in
  let c := run (step p) (repeat 0 17 ++ [4; 3]) (init p, []) in
  quiescent p (fst c) = true /\ completions (fst c) = [ODone] /\ nstop (fst c) = 1 /\
  badstop (fst c) = 0 /\ calls (fst c) = [OVal; ODone] /\ first_call (fst c) = Some ODone /\
  snd c = [EReg false; ELock 0 1; EBStart; ELock 1 2; EBCallback; ESet; ELock 2 3; EBStop; ESetNo;
           EUnlock 3 2; ECbS; EUnlock 2 1; EUnlock 1 0; EDereg; ERoot ODone; EDestroyed; ESetNo].
Proof. vm_compute. repeat split; reflexivity. Qed.
