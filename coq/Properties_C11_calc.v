(* C11 (static-traits half) over the sender calculus: the sender traits the C++ headers declare for a
   sender expression (mirrored formula by formula in Calc/TraitsDefs.v and compared with the real
   compile-time values by tools/k2traits.py) are sound w.r.t. the operational model Calc/CalcDefs.v
   (itself tied to the real algorithms by the K2 differential).  Affinity: mirrored and compared only. *)
From Coq Require Import ZArith List Bool.
From V Require Import Calc.CalcDefs Calc.TraitsDefs Calc.TraitsProofs.
Import ListNotations.
Import Calc CalcTraits.

(* sends_done = false: no run ever completes the root receiver with done *)
Theorem C11_calc_sends_done :
  forall e, sends_done_of e = false ->
  forall pre script o n, In (XRoot o n) (r_tr (exec e pre script)) -> o <> ODone.
Proof. exact sends_done_sound. Qed.
Print Assumptions C11_calc_sends_done.

(* ... node level: start(), a stop request and an external leaf completion (from states satisfying the
   invariant ok_st, which start establishes and all three preserve: CF_all) *)
Theorem C11_calc_sends_done_start :
  forall e, sends_done_of e = false ->
  forall en st tr o, start e en = (st, tr, Some o) -> o <> ODone.
Proof. exact sends_done_sound_start. Qed.
Print Assumptions C11_calc_sends_done_start.

Theorem C11_calc_sends_done_stop :
  forall e, sends_done_of e = false ->
  forall st st' tr o, ok_st e st -> stop e st = (st', tr, Some o) -> o <> ODone.
Proof. exact sends_done_sound_stop. Qed.
Print Assumptions C11_calc_sends_done_stop.

Theorem C11_calc_sends_done_leafev :
  forall e, sends_done_of e = false ->
  forall st id oc st' tr o hit, ok_st e st -> leafev e st id oc = ((st', tr, Some o), hit) -> o <> ODone.
Proof. exact sends_done_sound_leafev. Qed.
Print Assumptions C11_calc_sends_done_leafev.

Theorem C11_calc_invariant :
  forall e,
  (forall en st tr r, start e en = (st, tr, r) -> ok_st e st /\ (sends_done_of e = false -> nd r)) /\
  (forall st st' tr r, ok_st e st -> stop e st = (st', tr, r) ->
                       ok_st e st' /\ (sends_done_of e = false -> nd r)) /\
  (forall st id oc st' tr r hit, ok_st e st -> leafev e st id oc = ((st', tr, r), hit) ->
                                 ok_st e st' /\ (sends_done_of e = false -> nd r)).
Proof. exact CF_all. Qed.
Print Assumptions C11_calc_invariant.

(* blocking = always_inline (or always): the operation completes inside start() *)
Theorem C11_calc_blocking_inline :
  forall e, blocking_of e = BAlwaysInline \/ blocking_of e = BAlways ->
  forall en, exists st tr o, start e en = (st, tr, Some o).
Proof. exact blocking_inline_sound. Qed.
Print Assumptions C11_calc_blocking_inline.

(* blocking = never: the operation does not complete inside start() *)
Theorem C11_calc_blocking_never :
  forall e, blocking_of e = BNever -> forall en st tr r, start e en = (st, tr, r) -> r = None.
Proof. exact blocking_never_sound. Qed.
Print Assumptions C11_calc_blocking_never.

(* the emitted expressions only ever declare always_inline or maybe ... *)
Theorem C11_calc_blocking_range :
  forall e, blocking_of e = BAlwaysInline \/ blocking_of e = BMaybe.
Proof. exact blocking_range. Qed.
Print Assumptions C11_calc_blocking_range.

(* ... so the propagation of never through the headers' formulas is proved for the generalisation in
   which the harness leaves [Leaf id] with [nv id] declare never (all combinators unchanged) *)
Theorem C11_calc_blocking_inline_gen :
  forall nv e, inl_kind (blockingN nv e) = true ->
  forall en, exists st tr o, start e en = (st, tr, Some o).
Proof. exact blocking_inline_soundN. Qed.
Print Assumptions C11_calc_blocking_inline_gen.

Theorem C11_calc_blocking_never_gen :
  forall nv e, blockingN nv e = BNever -> forall en st tr r, start e en = (st, tr, r) -> r = None.
Proof. exact blocking_never_soundN. Qed.
Print Assumptions C11_calc_blocking_never_gen.

Theorem C11_calc_blocking_never_stop_gen :
  forall nv e, blockingN nv e = BNever ->
  forall en st tr r, start e en = (st, tr, r) ->
  forall st' tr' r', stop e st = (st', tr', r') -> r' = None.
Proof. exact blocking_never_stop_soundN. Qed.
Print Assumptions C11_calc_blocking_never_stop_gen.

Theorem C11_calc_gen_instance : forall e, traits_ofN (fun _ => false) e = traits_of e.
Proof. exact traits_ofN_base. Qed.
Print Assumptions C11_calc_gen_instance.

(* run-time blocking() as mirrored equals the static value on every emitted expression *)
Theorem C11_calc_rt_blocking :
  forall e, rt_blocking_of e = blocking_of e.
Proof. exact rt_blocking_static. Qed.
Print Assumptions C11_calc_rt_blocking.

(* hypotheses are met by concrete non-trivial expressions *)
Example C11_calc_ex_inline :
  let e := Bin BWhenAll (Bin BLetE (JustErr 5) (Var 0)) (Un UDoneOpt JustDone) in
  blocking_of e = BAlwaysInline /\
  r_tr (exec e false []) = [XRoot (OVal (combine 5 (-1))) 0].
Proof. vm_compute. split; reflexivity. Qed.

Example C11_calc_ex_sends_done :
  let e := Bin BLetD (LeafN 0) (Un (UUponDone (FAdd 1)) (Leaf 1)) in
  sends_done_of e = false /\
  r_tr (exec e false [EvStop; EvLeaf 1 ODone]) =
    [XT (TLeafStart 0 false true 0 0); XT (TLeafStop 0); XT (TLeafStart 1 true true 0 0);
     XT (TLeafStop 1); XT (TCall (FAdd 1) 0); XRoot (OVal 1) 0].
Proof. vm_compute. split; reflexivity. Qed.

Example C11_calc_ex_never :
  let nv := fun id => Nat.eqb id 0 in
  let e := Bin BWhenAll JustDone (Bin BStopWhen (LeafN 1) (Leaf 0)) in   (* the never-declaring child is started last *)
  blockingN nv e = BNever /\
  r_roots (exec e false [EvStop]) = O /\ r_roots (exec e false [EvStop; EvLeaf 0 (OVal 1)]) = 1%nat.
Proof. vm_compute. repeat split. Qed.
