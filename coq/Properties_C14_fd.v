(* C14, last sentence: "Descriptors, mappings and kernel registrations are released exactly once" --
   for the owner types safe_file_descriptor and mmap_region (model Proto/FdOwnerDefs.v): any number of
   objects, every sequence of construct / default-construct / move-construct / move-assign (also to
   itself) / close() / destroy, interleaved with opens by somebody else; the kernel reuses the lowest
   free number (reuse = true, descriptors) or never reuses one (reuse = false, mappings compared by
   allocation).  Tie: K3, harness/k3_fdowner.cpp runs the same sequences on the real types with the
   process' close()/munmap() interposed. *)
From Coq Require Import List Bool Arith.
From V Require Import Proto.FdOwnerDefs Proto.FdOwnerProofs.
Import ListNotations.
Import FdOwner.

(* never a descriptor it does not own: every close hits an open number whose resource was handed to
   an object (never EBADF = a number after it was closed, never somebody else's = a number after it
   was closed and reused); what belongs to somebody else stays open *)
Theorem C14_fd_never_foreign_close : forall reuse ops,
  let s := run_ops true reuse ops in
  Forall (good_close (owned s)) (log s) /\
  (forall id, In id (others s) -> In id (map snd (tbl s)) /\ ~ In id (closed_ids (log s))).
Proof. exact never_foreign_close. Qed.
Print Assumptions C14_fd_never_foreign_close.

Theorem C14_fd_closed_at_most_once : forall reuse ops,
  NoDup (closed_ids (log (run_ops true reuse ops))).
Proof. exact closed_at_most_once. Qed.
Print Assumptions C14_fd_closed_at_most_once.

(* valid() <=> owns *)
Theorem C14_fd_valid_iff_owns : forall reuse ops,
  let s := run_ops true reuse ops in
  (forall i n, field s i = Some n ->
     (exists id, In (n, id) (tbl s) /\ In id (owned s)) /\ forall j, field s j = Some n -> j = i) /\
  (forall n id, In (n, id) (tbl s) -> In id (owned s) -> exists i, field s i = Some n).
Proof. exact valid_iff_owns. Qed.
Print Assumptions C14_fd_valid_iff_owns.

(* exactly once: with every object gone (or empty) everything ever owned has been closed *)
Theorem C14_fd_all_released : forall reuse ops,
  let s := run_ops true reuse ops in
  (forall i, field s i = None) -> forall id, In id (owned s) -> In id (closed_ids (log s)).
Proof. exact all_released. Qed.
Print Assumptions C14_fd_all_released.

(* a close() that does not reset fd_ (the seeded variant) is refuted: the destructor closes the
   number again - EBADF, or somebody else's descriptor if the number was reused *)
Theorem C14_fd_never_foreign_close_refuted :
  exists ops, let s := run_ops false true ops in
    exists n id, In (EClose n (Some id)) (log s) /\ In id (others s) /\ ~ In id (map snd (tbl s)).
Proof. exact never_foreign_close_refuted. Qed.
Print Assumptions C14_fd_never_foreign_close_refuted.

Theorem C14_fd_closed_number_not_open_refuted :
  exists ops, In (EClose 3 None) (log (run_ops false true ops)).
Proof. exact closed_number_not_open_refuted. Qed.
Print Assumptions C14_fd_closed_number_not_open_refuted.

(* a non-trivial run: numbers are reused, a move-assignment closes the target's old descriptor *)
Example C14_fd_example :
  log (run_ops true true [ONew 0; ONew 1; OClose 0; OOther; ONew 2; OMoveAssign 1 2; OMoveCtor 3 1; ODestroy 3]) =
  [EOpen 3; EOpen 4; EClose 3 (Some 3); EOpen 3; EOpen 5; EClose 4 (Some 4); EClose 5 (Some 6)].
Proof. vm_compute. reflexivity. Qed.
