(* C10, task<> objects outside a run: construct / move-construct / move-assign (onto a disengaged slot, a moved-from
   task, a task still owning a not-yet-awaited coroutine) / destroy without awaiting / await the survivor.
   Model Calc/TaskBoxDefs.v; tie: harness/k3_taskbox.cpp over the real unifex::task<int>. *)
From Coq Require Import List Arith.
From V Require Import Calc.TaskBoxDefs Calc.TaskBoxProofs.
Import ListNotations.
Import TaskBox.

(* by the time every task object is gone, each created coroutine frame (with the argument copies living in it) has
   been destroyed exactly once; no frame number is created twice *)
Theorem C10_taskbox_frames_destroyed_exactly_once : forall (k : nat) (ops : list op) (n : nat),
  destroyed n (exec k ops) = created n (exec k ops) /\ created n (exec k ops) <= 1.
Proof. exact frames_destroyed_exactly_once. Qed.
Print Assumptions C10_taskbox_frames_destroyed_exactly_once.

(* at every point: a created frame is owned by exactly one task object or has been destroyed exactly once, never
   both (no dangling owner, no leak); its body ran at most once and only in a frame the await then destroyed *)
Theorem C10_taskbox_frames_owned_or_destroyed : forall (k : nat) (ops : list op) (n : nat),
  let c := run_ops k ops in
  destroyed n (snd c) + holders n (slots (fst c)) = created n (snd c) /\
  bodies n (snd c) <= destroyed n (snd c) /\ destroyed n (snd c) <= 1.
Proof. exact frames_owned_or_destroyed. Qed.
Print Assumptions C10_taskbox_frames_owned_or_destroyed.

(* the seeded scenario: replace a pending task twice, await the survivor *)
Example ex_replace_pending :
  exec 1 [ONew 0; ONew 0; ONew 0; OAwait 0] =
  [BFrame 0; BFrame 1; BDestroyed 0; BFrame 2; BDestroyed 1; BBody 2; BDestroyed 2; BRoot 2].
Proof. vm_compute. reflexivity. Qed.
(* moves between slots, a drop without awaiting, the rest goes with the slots *)
Example ex_moves :
  exec 3 [ONew 0; ONew 1; OMove 0 1; OMove 1 2; ONew 0; ODrop 2; OAwait 1] =
  [BFrame 0; BFrame 1; BDestroyed 1; BFrame 2; BDestroyed 0; BSkip; BDestroyed 2].
Proof. vm_compute. reflexivity. Qed.
