(* C13 (concurrent half, part 3) -- type_erase: the completion / cancellation election of the next
   operation of type_erased_stream, the hand-over to cleanup through the union of the wrapped
   next / cleanup operations, and the lifetime of the operation states.
   Model: Proto/TypeEraseNextDefs.v (module TypeEraseNext), proofs: Proto/TypeEraseNextProofs.v.
   The model is cyclic: a schedule of any length runs any number of next() rounds; how the source
   completes each round (value / done / error) is chosen by the schedule (thread ids 1 / 3 / 4),
   5 completes the source's cleanup, 0 makes the consumer's first start_next, 2 requests stop on
   the consumer's stop source (has_stop).  final p sched = the state after running sched from
   init p.  Per-round ghost facts (rd): ndel = completions of the current next(), src_res = how
   the source completed, cb_won = the stop callback's fetch_add read non-zero, cb_first / cb_last =
   the callback's complete was not / was the last one, fwd = it finished
   stopSource_.request_stop(), delivered = the result of the current next(). *)
From Coq Require Import List Bool Arith.
From V Require Import Base.Sched Proto.TypeEraseNextDefs Proto.TypeEraseNextProofs.
Import ListNotations.
Import TypeEraseNext.

(* every schedule stays inside the (finite, computed, closed) reachable set *)
Theorem C13_te_reach_complete : forall (p : params) (sched : list nat) (tr : list ev),
  In (fst (run step sched (init p, tr))) (reach p).
Proof. intros p. exact (reach_inv p (reach p) (reach_closed p)). Qed.
Print Assumptions C13_te_reach_complete.

(* each next() of the consumer completes at most once; at quiescence the last one completed
   exactly once, with done or error, and cleanup finished *)
Theorem C13_te_next_completes_once : forall (p : params) (sched : list nat),
  let s := final p sched in
  ndel (rd s) <= 1 /\ dup (fl s) = false /\
  (delivered (rd s) <> None <-> ndel (rd s) = 1) /\
  (quiescent s = true ->
     ndel (rd s) = 1 /\ finished (g s) = true /\
     (delivered (rd s) = Some RDone \/ delivered (rd s) = Some RErr)).
Proof. exact next_completes_once. Qed.
Print Assumptions C13_te_next_completes_once.

(* trace form: the completions of next() in the trace are its constructions minus the open one *)
Theorem C13_te_trace_rounds : forall (p : params) (sched : list nat),
  let c := run step sched (init p, []) in
  count is_next_ctor (snd c) = count is_next_done (snd c) + b2n (round_open (fst c)).
Proof. exact trace_rounds. Qed.
Print Assumptions C13_te_trace_rounds.

(* the result: DONE exactly when the stop callback took a reference (fetch_add read non-zero) and
   its complete was the last; otherwise (the callback did not run, found the count 0, or finished
   its set_done before the source completed) the source's own result *)
Theorem C13_te_election_result : forall (p : params) (sched : list nat),
  let s := final p sched in
  (forall r, delivered (rd s) = Some r ->
     exists k, src_res (rd s) = Some k /\ r = if cb_last (rd s) then RDone else res_of k) /\
  (delivered (rd s) = None -> cb_last (rd s) = false) /\
  (cb_last (rd s) = true -> cb_won (rd s) = true /\ cb_first (rd s) = false) /\
  (cb_first (rd s) = true -> cb_won (rd s) = true) /\
  (delivered (rd s) <> None -> cb_won (rd s) = true -> cb_first (rd s) = false -> cb_last (rd s) = true) /\
  (cb_won (rd s) = true -> ext_stop (m s) = true).
Proof. exact election_result. Qed.
Print Assumptions C13_te_election_result.

(* never a value after done / error *)
Theorem C13_te_no_value_after_done : forall (p : params) (sched : list nat),
  let s := final p sched in
  vad (fl s) = false /\
  (ended (fl s) = true ->
     ndel (rd s) = 1 /\ (delivered (rd s) = Some RDone \/ delivered (rd s) = Some RErr)).
Proof. exact no_value_after_done. Qed.
Print Assumptions C13_te_no_value_after_done.

(* no element delivered twice, none invented: values produced = delivered + dropped (a stop
   callback held a reference when the source completed) + at most one in flight *)
Theorem C13_te_trace_values : forall (p : params) (sched : list nat),
  let c := run step sched (init p, []) in
  count is_src_value (snd c) =
  count is_cons_value (snd c) + count is_drop (snd c) + b2n (pending (fst c)).
Proof. exact trace_values. Qed.
Print Assumptions C13_te_trace_values.

(* every started next() of the source completes once; at most one is outstanding *)
Theorem C13_te_trace_source : forall (p : params) (sched : list nat),
  let c := run step sched (init p, []) in
  count is_src_start (snd c) = count is_src_complete (snd c) + b2n (src_out (g (fst c))).
Proof. exact trace_source. Qed.
Print Assumptions C13_te_trace_source.

(* a winning stop request is forwarded to the adapter's stop source before done is delivered *)
Theorem C13_te_stop_forwarded_before_done : forall (p : params) (sched : list nat),
  let s := final p sched in
  nofwd (fl s) = false /\
  (cb_last (rd s) = true -> fwd (rd s) = true /\ te_stop (m s) = true) /\
  (cb_first (rd s) = true -> fwd (rd s) = true) /\
  (fwd (rd s) = true -> cb_won (rd s) = true /\ te_stop (m s) = true) /\
  (te_stop (m s) = true -> cb_won (rd s) = true /\ ext_stop (m s) = true).
Proof. exact stop_forwarded_before_done. Qed.
Print Assumptions C13_te_stop_forwarded_before_done.

(* a next() completes only after the wrapped next-op was destroyed (type_erase is not "done at
   once": the abandoned next() of the source is awaited by the next-op itself); the union never
   holds two members *)
Theorem C13_te_delivery_after_wrapped_next_destroyed : forall (p : params) (sched : list nat),
  let s := final p sched in
  early (fl s) = false /\ clash (fl s) = false /\
  (delivered (rd s) <> None -> src_alive (g s) = false /\ src_out (g s) = false) /\
  (src_alive (g s) = true -> clw_alive (g s) = false /\ nx_alive (g s) = true /\ ndel (rd s) = 0).
Proof. exact delivery_after_wrapped_next_destroyed. Qed.
Print Assumptions C13_te_delivery_after_wrapped_next_destroyed.

(* cleanup only after the last next() completed and was destroyed; finished only after the wrapped
   cleanup-op completed and was destroyed; the stream is freed only then *)
Theorem C13_te_cleanup_after_last_next : forall (p : params) (sched : list nat),
  let s := final p sched in
  (cl_started (g s) = true ->
     ended (fl s) = true /\ ndel (rd s) = 1 /\ nx_alive (g s) = false /\ src_alive (g s) = false /\
     src_out (g s) = false) /\
  (finished (g s) = true ->
     cl_started (g s) = true /\ cl_alive (g s) = false /\ clw_alive (g s) = false /\ cl_out (g s) = false) /\
  (stream_freed (g s) = finished (g s)) /\
  (ended (fl s) = true -> nx_alive (g s) = false -> cl_started (g s) = true) /\
  (cb_linked (m s) = true -> nx_alive (g s) = true).
Proof. exact cleanup_after_last_next. Qed.
Print Assumptions C13_te_cleanup_after_last_next.

(* cleanup is started at most once, the consumer finishes at most once (trace form) *)
Theorem C13_te_trace_cleanup_once : forall (p : params) (sched : list nat),
  let c := run step sched (init p, []) in
  count is_cleanup_start (snd c) = b2n (cl_started (g (fst c))) /\
  count is_finished (snd c) = b2n (finished (g (fst c))).
Proof. exact trace_cleanup_once. Qed.
Print Assumptions C13_te_trace_cleanup_once.

(* no step touches a destroyed op-state or the freed stream; no excluded branch is taken *)
Theorem C13_te_no_use_after_destruction : forall (p : params) (sched : list nat),
  let s := final p sched in uaf (fl s) = false /\ bad (fl s) = false.
Proof. exact no_use_after_destruction. Qed.
Print Assumptions C13_te_no_use_after_destruction.

Theorem C13_te_refcount_range : forall (p : params) (sched : list nat),
  let s := final p sched in
  ref (m s) <= 2 /\
  (nx_alive (g s) = true -> ndel (rd s) = 0 -> src_res (rd s) = None ->
     ref (m s) = if cb_won (rd s) && negb (cb_first (rd s)) then 2 else 1).
Proof. exact refcount_range. Qed.
Print Assumptions C13_te_refcount_range.

Theorem C13_te_progress : forall (p : params) (sched : list nat),
  let s := final p sched in quiescent s = false -> exists t, step t s <> None.
Proof. exact progress. Qed.
Print Assumptions C13_te_progress.

(* the core election alone, parametric: for ANY number n of concurrent stop callbacks on one
   next-op (the code registers one) and every schedule the result is delivered at most once,
   refCount_ stays within 0 .. n+1, and it has been delivered exactly once when the source's
   completion and all callbacks have run (hand-written invariant, Proto/TypeEraseNextProofs.v
   module Elect; model TypeEraseElect in Proto/TypeEraseNextDefs.v) *)
Theorem C13_te_elect_once_any_number_of_callbacks : forall (n : nat) (sched : list nat),
  let s := fst (run TypeEraseElect.step sched (TypeEraseElect.init n, [])) in
  TypeEraseElect.deliveries s <= 1 /\ TypeEraseElect.rc s <= n + 1 /\
  (TypeEraseElect.quiescent s = true -> TypeEraseElect.deliveries s = 1).
Proof. exact Elect.elect_once. Qed.
Print Assumptions C13_te_elect_once_any_number_of_callbacks.

(* ------------------------------------------------------------------------------------------ *)
(* the hypotheses are met by concrete, non-trivial runs                                       *)

Definition p_stop : params := {| has_stop := true |}.
Definition p_nostop : params := {| has_stop := false |}.

(* the callback takes a reference, the source completes with a value (dropped), the callback's
   complete is the last: done is delivered on thread C, which also starts cleanup *)
Definition sched_cb_last : list nat := [0;0;0; 2;2;2; 1;1; 2;2;2;2;2;2;2; 5].
Example ex_callback_last_delivers_done :
  let c := run step sched_cb_last (init p_stop, []) in
  quiescent (fst c) = true /\ delivered (rd (fst c)) = Some RDone /\ src_res (rd (fst c)) = Some KV /\
  cb_last (rd (fst c)) = true /\ count is_drop (snd c) = 1 /\ count is_cons_value (snd c) = 0.
Proof. vm_compute. repeat split. Qed.

(* the callback finishes its set_done first: the source's value is delivered; the next next-op is
   constructed with stop already requested (the callback runs inline in the constructor), the
   source then completes with done *)
Definition sched_cb_first : list nat :=
  [0;0;0; 2;2;2;2;2;2;2;2;2; 1;1;1;1;1; 1;1;1;1;1; 3;3; 5].
Example ex_callback_first_value_delivered :
  let c := run step sched_cb_first (init p_stop, []) in
  quiescent (fst c) = true /\ delivered (rd (fst c)) = Some RDone /\ src_res (rd (fst c)) = Some KD /\
  cb_first (rd (fst c)) = true /\ cb_last (rd (fst c)) = false /\
  count is_cons_value (snd c) = 1 /\ count is_drop (snd c) = 0 /\ count is_next_ctor (snd c) = 2.
Proof. vm_compute. repeat split. Qed.

(* no stop: a value round, then the source's error is delivered, then cleanup *)
Definition sched_value_error : list nat := [0;0;0; 1;1;1;1;1;1; 4;4;4;4; 5].
Example ex_value_then_error :
  let c := run step sched_value_error (init p_nostop, []) in
  quiescent (fst c) = true /\ delivered (rd (fst c)) = Some RErr /\
  count is_cons_value (snd c) = 1 /\ count is_next_ctor (snd c) = 2 /\
  count is_cleanup_start (snd c) = 1 /\ count is_finished (snd c) = 1.
Proof. vm_compute. repeat split. Qed.

(* three callbacks: the source completes first (not last), the callbacks release in turn, the last
   one delivers; a fourth callback arriving afterwards reads 0 and leaves *)
Example ex_elect_four_callbacks :
  let s := fst (run TypeEraseElect.step [1;2;3; 0; 1;2;3; 4] (TypeEraseElect.init 4, [])) in
  TypeEraseElect.quiescent s = true /\ TypeEraseElect.deliveries s = 1 /\ TypeEraseElect.bailed s = 1 /\
  TypeEraseElect.rc s = 1.
Proof. vm_compute. repeat split. Qed.
