(* Extraction of the executable models to OCaml (ocaml/model.ml).  ExtrOcamlBasic only:
   bool, option, list, prod, unit, sumbool map to OCaml's; Z/N/positive/nat stay inductives.
   No Extract Constant / Extract Inductive directives beyond those of ExtrOcamlBasic.
   Edited through tools/coqadd.py (keeps the (*END*) marker last). *)
From Coq Require Import Extraction ExtrOcamlBasic ZArith.
From V Require Import Arith.FindIfDefs.
From V Require Import Proto.RefElectDefs.
Extraction Blacklist List String Int.
Cd "../ocaml".
Extraction "model.ml"
  Z.add Z.mul Z.opp Z.div Z.modulo Z.quot Z.rem Z.of_nat Z.to_nat
  find_par find_par_w find_seq bulk_indices
  RefElect.step RefElect.init RefElect.delivered RefElect.quiescent
  (*END*).
Cd "../coq".
