(* Extraction of the executable models to OCaml (ocaml/model.ml).  ExtrOcamlBasic only:
   bool, option, list, prod, unit, sumbool map to OCaml's; Z/N/positive/nat stay inductives.
   No Extract Constant / Extract Inductive directives beyond those of ExtrOcamlBasic.
   Edited through tools/coqadd.py (keeps the (*END*) marker last). *)
From Coq Require Import Extraction ExtrOcamlBasic ZArith.
From V Require Import Arith.FindIfDefs.
From V Require Import Proto.RefElectDefs.
From V Require Import Arith.MonoClockDefs.
From V Require Import Arith.SortedInsertDefs.
From V Require Import Proto.EventLoopDefs.
From V Require Import Proto.ScopeDefs.
From V Require Import Calc.CalcDefs.
From V Require Import Proto.MutexV1Defs.
From V Require Import Proto.StopSourceDefs.
From V Require Import Proto.TimerQueueDefs.
From V Require Import Proto.AsyncPassDefs.
From V Require Import Proto.EventV1Defs.
From V Require Import Proto.DetachOnCancelDefs.
From V Require Import Proto.MutexV2Defs.
From V Require Import Proto.CancellableDefs.
From V Require Import Proto.TrampolineDefs.
From V Require Import Calc.TraitsDefs.
From V Require Import Proto.AtomicQueueDefs.
From V Require Import Proto.StopOnRequestDefs.
From V Require Import Proto.AutoResetDefs.
From V Require Import Proto.CanaryDefs.
From V Require Import Proto.AnyBoxDefs.
From V Require Import Calc.StreamDefs.
From V Require Import Proto.FutureDefs.
From V Require Import Calc.TaskDefs.
From V Require Import Proto.UnsafeLoopDefs.
From V Require Import Proto.BasicSenderDefs.
From V Require Import Proto.ThreadPoolDefs.
From V Require Import Proto.NewThreadDefs.
From V Require Import Proto.SrThunkDefs.
From V Require Import Proto.RemoteQueueDefs.
From V Require Import Proto.TypeEraseNextDefs.
From V Require Import Proto.AsyncStackDefs.
From V Require Import Proto.TakeUntilDefs.
From V Require Import Proto.StopImmediatelyDefs.
From V Require Import Proto.IoCancelDefs.
From V Require Import Calc.Calc2Defs.
From V Require Import Proto.UringOpDefs.
From V Require Import Proto.AtomicListDefs.
From V Require Import Proto.FdOwnerDefs.
From V Require Import Calc.TaskBoxDefs.
From V Require Import Proto.EventV2Defs.
From V Require Import Arith.PolicyDefs.
From V Require Import Calc.TraitsMultiDefs.
From V Require Import Proto.RegElectDefs.
From V Require Import Proto.EpollTimerDefs.
Extraction Blacklist List String Int.
Cd "../ocaml".
Extraction "model.ml"
  Z.add Z.mul Z.opp Z.div Z.modulo Z.quot Z.rem Z.of_nat Z.to_nat
  find_par find_par_w find_seq bulk_indices
  RefElect.step RefElect.init RefElect.delivered RefElect.quiescent
  normalize
  from_s_ns
  add_dur
  sub_dur
  diff
  lt
  eqb
  le
  value
  canonicalb
  sec
  ns
  insert_timed
  heap_insert
  heap_pop
  heap_remove
  requeue
  insert_all
  sorted_dueb
  neqb
  gt
  ge
  heap_top
  EventLoop.step
  EventLoop.init
  EventLoop.final
  EventLoop.executed_items
  Scope.step
  Scope.init
  Scope.quiescent
  Scope.joins_over
  Scope.someone_setting
  Scope.joined
  Scope.sps
  Scope.jns
  Scope.evt
  Scope.w
  Scope.stopped
  Calc.exec
  Calc.r_tr
  Calc.r_roots
  MutexV1.step
  MutexV1.init
  MutexV1.quiescent
  MutexV1.holders
  MutexV1.waiting
  StopSource.step
  StopSource.init
  StopSource.finished
  StopSource.cb_summary
  TimerQueue.step
  TimerQueue.init
  TimerQueue.completions
  TimerQueue.queue_ids
  TimerQueue.quiescent
  TimerQueue.now
  AsyncPass.step
  AsyncPass.init
  AsyncPass.all_done
  AsyncPass.delivered
  AsyncPass.tres
  AsyncPass.w
  AsyncPass.aborted
  AsyncPass.slot
  AsyncPass.nthr
  AsyncPass.kd
  EventV1.step
  EventV1.init
  EventV1.quiescent
  EventV1.top
  EventV1.resumed
  EventV1.stk
  DetachOnCancel.step
  DetachOnCancel.init
  DetachOnCancel.quiescent
  MutexV2.step
  MutexV2.init
  MutexV2.quiescent
  MutexV2.tokens
  Cancellable.step
  Cancellable.init
  Cancellable.completions
  Cancellable.late
  Cancellable.hooks
  Cancellable.hook_bad
  Cancellable.dangling
  Cancellable.quiescent
  Cancellable.destroyed
  Tramp.eval
  Tramp.finished
  Tramp.max_nest
  CalcTraits.blocking_of
  CalcTraits.sends_done_of
  CalcTraits.affine_of
  AtomicQueue.step
  AtomicQueue.init
  AtomicQueue.final
  StopOnRequest.step
  StopOnRequest.init
  StopOnRequest.quiescent
  StopOnRequest.completions
  StopOnRequest.freed
  StopOnRequest.destroyed
  StopOnRequest.late
  StopOnRequest.badtd
  StopOnRequest.cbs
  AutoReset.step
  AutoReset.init
  AutoReset.quiescent
  AutoReset.pcs
  AutoReset.results
  AutoReset.s3v
  AutoReset.ev
  AutoReset.mtx
  Canary.step
  Canary.init
  Canary.late
  Canary.blocked_unheld
  Canary.quiescent
  Canary.guard
  AnyBox.step
  AnyBox.init
  AnyBox.finish
  AnyBox.exec
  AnyBox.run
  SCalc.exec
  SCalc.x_tr
  SCalc.x_roots
  SCalc.fixed
  SCalc.as_written
  Future.step
  Future.init
  Future.quiescent
  Future.expected
  TCalc.exec
  TCalc.r_tr
  TCalc.r_cfg
  TCalc.monitor
  TCalc.mon_first_bad
  TCalc.m0
  TCalc.roots
  UnsafeLoop.step
  UnsafeLoop.init
  UnsafeLoop.completions
  UnsafeLoop.queue_ids
  UnsafeLoop.crashed
  UnsafeLoop.now
  UnsafeLoop.inloop
  CalcTraits.rt_blocking_of
  BasicSender.step
  BasicSender.init
  BasicSender.completions
  BasicSender.late
  BasicSender.destroyed
  ThreadPool.step
  ThreadPool.init
  ThreadPool.final
  ThreadPool.queued
  NewThread.step
  NewThread.init
  NewThread.final
  SrThunk.step
  SrThunk.init
  SrThunk.resumed
  SrThunk.quiescent
  RemoteQueue.step
  RemoteQueue.init
  RemoteQueue.executed
  RemoteQueue.returned
  RemoteQueue.blocked
  TypeEraseNext.step
  TypeEraseNext.init
  TypeEraseNext.quiescent
  AsyncStack.step
  AsyncStack.init
  AsyncStack.quiescent
  AsyncStack.chain
  AsyncStack.anc
  AsyncStack.root_chain
  AsyncStack.gen
  TakeUntil.step
  TakeUntil.init
  TakeUntil.quiescent
  StopImmediately.step
  StopImmediately.init
  StopImmediately.quiescent
  IoCancel.step
  IoCancel.init
  IoCancel.crashed
  IoCancel.parked_ok
  Calc2.exec
  Calc2.run_start
  Calc2.run_ev
  Calc2.run_end
  Calc2.r_tr
  Calc2.r_roots
  Calc2.via
  Calc2.on
  Calc2.wsa_via
  Calc2.just_from
  Calc2.defer
  UringOp.step
  UringOp.init
  UringOp.parked_ok
  UringOp.spinning
  SpawnFault.run
  AtomicList.step
  AtomicList.init
  AtomicList.quiescent
  AtomicList.chain_of
  FdOwner.run_ops
  FdOwner.field
  TaskBox.exec
  EventV2.step
  EventV2.init
  EventV2.quiescent
  EventV2.stuck
  Calc.run_start
  Calc.run_ev
  Policy.chain
  Policy.sched_vectorised
  BasicSender.calls
  BasicSender.nstop
  BasicSender.badstop
  TraitsMulti.tr_let_value
  TraitsMulti.rt_let_value
  TraitsMulti.tr_let_error
  TraitsMulti.rt_let_error
  TraitsMulti.tr_when_all
  TraitsMulti.rt_when_all
  TraitsMulti.tr_variant
  TraitsMulti.rt_variant
  TraitsMulti.tr_sequence_n
  TraitsMulti.rt_sequence_n
  TraitsMulti.let_value_obs
  TraitsMulti.let_error_obs
  TraitsMulti.when_all_obs
  TraitsMulti.variant_obs
  TraitsMulti.sequence_obs
  TraitsMulti.sound_obs
  TraitsMulti.sound_beh
  RegElect.step
  RegElect.init
  RegElect.delivered
  RegElect.quiescent
  RegElect.late
  RegElect.badreg
  RegElect.destroyed
  RegElect.own
  RegElect.cbk
  RegElect.registered
  TraitsMulti.tr_stop_when
  TraitsMulti.rt_stop_when
  TraitsMulti.stop_when_obs
  EpollTimer.step
  EpollTimer.init
  EpollTimer.completions
  EpollTimer.ids
  EpollTimer.io_blocked
  EpollTimer.quiescent
  EpollTimer.all_done
  SCalc.via_stream
  SCalc.typed_via_stream
  SCalc.on_stream
  SCalc.delay
  (*END*).
Cd "../coq".
