From Coq Require Import ZArith List Bool.
From V Require Import Arith.FindIfDefs Arith.FindIfProofs.
Import ListNotations.
Local Open Scope Z_scope.

Theorem C17_chunks_partition : forall n, 0 <= n ->
  let k := num_chunks n in
  1 <= k /\ cbegin n 0 = 0 /\ cend n (k - 1) = n /\
  forall i, 0 <= i < k ->
    0 <= cbegin n i <= cend n i /\ cend n i <= n /\
    (i < k - 1 -> cend n i = cbegin n (i + 1)).
Proof. exact chunks_partition. Qed.
Print Assumptions C17_chunks_partition.

Theorem C17_concat_chunks : forall n, 0 <= n ->
  concat (map (chunk n) (zrange 0 (num_chunks n))) = zrange 0 n.
Proof. exact concat_chunks. Qed.
Print Assumptions C17_concat_chunks.

Theorem C17_find_par_spec : forall pred n, 0 <= n ->
  let (r, visited) := find_par pred n in
  Forall (fun x => 0 <= x < n) visited /\ NoDup visited /\
  ((r = n /\ forall x, 0 <= x < n -> pred x = false) \/
   (0 <= r < n /\ pred r = true /\ forall x, 0 <= x < r -> pred x = false)).
Proof. exact find_par_spec. Qed.
Print Assumptions C17_find_par_spec.

Theorem C17_find_seq_spec : forall pred n, 0 <= n ->
  let (r, visited) := find_seq pred n in
  Forall (fun x => 0 <= x < n) visited /\ NoDup visited /\
  ((r = n /\ forall x, 0 <= x < n -> pred x = false) \/
   (0 <= r < n /\ pred r = true /\ forall x, 0 <= x < r -> pred x = false)).
Proof. exact find_seq_spec. Qed.
Print Assumptions C17_find_seq_spec.

Theorem C17_find_par_seq : forall pred n, 0 <= n ->
  fst (find_par pred n) = fst (find_seq pred n) /\ inc_in 0 n (snd (find_par pred n)).
Proof. exact find_par_seq. Qed.
Print Assumptions C17_find_par_seq.

Theorem C17_chunks_w_refuted :
  exists n i, 0 <= n /\ 0 <= i < num_chunks n /\ n < cend_w n i.
Proof. exact chunks_w_refuted. Qed.
Print Assumptions C17_chunks_w_refuted.

Theorem C17_chunks_w_refuted_general : forall q r,
  5 <= q -> 0 <= r -> q + r < 31 -> r < 32 ->
  let n := 32 * q + r in
  exists i, 0 <= i < num_chunks n - 1 /\ n < cend_w n i.
Proof. exact chunks_w_refuted_general. Qed.
Print Assumptions C17_chunks_w_refuted_general.

Theorem C17_bulk_run_prefix : forall A body count (a : A), 0 <= count -> forall stop0,
  let '(v, _, t) := bulk_run body count a stop0 in
  exists m, 0 <= m <= count /\ v = zrange 0 m /\
            (t = TValue -> m = count) /\ (t = TDone -> m mod 16 = 0).
Proof. exact bulk_run_prefix. Qed.
Print Assumptions C17_bulk_run_prefix.

Theorem C17_bulk_indices_spec : forall count, 0 <= count ->
  bulk_indices count None = (zrange 0 count, TValue) /\
  forall k, 0 <= k ->
    (16 * k < count -> bulk_indices count (Some k) = (zrange 0 (16 * k), TDone)) /\
    (count <= 16 * k -> bulk_indices count (Some k) = (zrange 0 count, TValue)).
Proof. exact bulk_indices_spec. Qed.
Print Assumptions C17_bulk_indices_spec.

(* the hypotheses are satisfiable and the objects non-trivial on concrete inputs *)
Example C17_ex_find_par :
  num_chunks 200 = 32 /\ chunk_size 200 = 7 /\ chunk 200 28 = [196; 197; 198; 199] /\
  chunk 200 29 = [] /\
  find_par (fun x => 150 <=? x) 200 =
    (150, zrange 0 151 ++ [154; 161; 168; 175; 182; 189; 196]) /\
  find_seq (fun x => 150 <=? x) 200 = (150, zrange 0 151).
Proof. vm_compute. repeat split. Qed.

Example C17_ex_bulk :
  bulk_indices 40 (Some 2) = (zrange 0 32, TDone) /\
  bulk_indices 40 (Some 3) = (zrange 0 40, TValue) /\
  bulk_indices 40 None = (zrange 0 40, TValue) /\
  fst (find_par_w (fun _ => false) 160) = 160 /\
  nth 185 (snd (find_par_w (fun _ => false) 160)) 0 = 185.
Proof. vm_compute. repeat split. Qed.

(* ---- execution policies: bulk_transform's intersection, for stacks of any depth ------- *)
From V Require Import Arith.PolicyDefs Arith.PolicyProofs.

Theorem C17_policy_chain_exact : forall ps b,
  Policy.allows_par (Policy.chain ps b) =
    Policy.allows_par (Policy.bottom_pol b) && forallb Policy.allows_par ps /\
  Policy.allows_unseq (Policy.chain ps b) =
    Policy.allows_unseq (Policy.bottom_pol b) && forallb Policy.allows_unseq ps.
Proof. intros ps b. split; [exact (chain_par ps b) | exact (chain_unseq ps b)]. Qed.
Print Assumptions C17_policy_chain_exact.

Theorem C17_policy_never_exceeds : forall ps b,
  (Policy.allows_par (Policy.chain ps b) = true ->
     Policy.allows_par (Policy.bottom_pol b) = true /\
     forall p, In p ps -> Policy.allows_par p = true) /\
  (Policy.allows_unseq (Policy.chain ps b) = true ->
     Policy.allows_unseq (Policy.bottom_pol b) = true /\
     forall p, In p ps -> Policy.allows_unseq p = true).
Proof. exact chain_never_exceeds. Qed.
Print Assumptions C17_policy_never_exceeds.

Example C17_ex_policy :
  Policy.chain [Policy.ParUnseq; Policy.Par] (Policy.BPol Policy.ParUnseq) = Policy.Par /\
  Policy.chain [Policy.Unseq] (Policy.BPol Policy.Par) = Policy.Seq /\
  Policy.chain [Policy.Unseq; Policy.ParUnseq] Policy.BJoin = Policy.Unseq /\
  Policy.chain [Policy.ParUnseq] Policy.BNone = Policy.Seq.
Proof. vm_compute. repeat split. Qed.
