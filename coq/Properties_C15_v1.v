(* C15, v1::async_mutex: theorems about the MutexV1 model (Proto/MutexV1Defs.v), for every number
   of lockers nl, every number of try_lock threads nt and every schedule. *)
From Coq Require Import List Bool Arith.
From V Require Import Base.Sched Proto.MutexV1Defs Proto.MutexV1Proofs.
Import ListNotations.
Import MutexV1.

(* Mutual exclusion (states): at most one thread is between the completion of its lock
   (set_value of async_lock / try_lock() = true) and the end of its unlock(); head_ holds the
   inactive sentinel exactly when there is no such thread. *)
Theorem C15_v1_mutex_state : forall (nl nt : nat) (sched : list nat),
  let s := fst (run step sched (init nl nt, [])) in
  holders s <= 1 /\ (holders s = 0 <-> w s = None).
Proof. exact mutex_state. Qed.
Print Assumptions C15_v1_mutex_state.

(* Mutual exclusion (traces): scanning the acquire/release events never meets an acquire while
   somebody is inside its critical section, nor a release by somebody who is not the holder. *)
Theorem C15_v1_mutex_trace : forall (nl nt : nat) (sched : list nat),
  let tr := snd (run step sched (init nl nt, [])) in
  exists h, scan tr = Some h.
Proof. exact mutex_trace. Qed.
Print Assumptions C15_v1_mutex_trace.

(* No lost waiter (invariant): the suspended lockers are exactly the members of the stack in head_
   and of pendingQueue_, each once; when the mutex is unlocked nobody is suspended. *)
Theorem C15_v1_no_lost_waiter : forall (nl nt : nat) (sched : list nat),
  let s := fst (run step sched (init nl nt, [])) in
  (forall t, nth_error (pcs s) t = Some PWait <-> In t (stack s ++ pend s)) /\
  NoDup (stack s ++ pend s) /\
  (w s = None -> waiting s = 0 /\ pend s = []).
Proof. exact no_lost_waiter. Qed.
Print Assumptions C15_v1_no_lost_waiter.

(* Each lock operation / try_lock completes with the mutex at most once. *)
Theorem C15_v1_each_once : forall (nl nt : nat) (sched : list nat),
  let tr := snd (run step sched (init nl nt, [])) in
  NoDup (acquirers tr).
Proof. exact each_once. Qed.
Print Assumptions C15_v1_each_once.

(* At quiescence (every thread returned) the mutex is unlocked and empty and every locker was
   served exactly once. *)
Theorem C15_v1_served_at_quiescence : forall (nl nt : nat) (sched : list nat),
  let c := run step sched (init nl nt, []) in
  quiescent (fst c) = true ->
  w (fst c) = None /\ pend (fst c) = [] /\
  forall i, i < nl -> count_occ Nat.eq_dec (acquirers (snd c)) i = 1.
Proof. exact served_at_quiescence. Qed.
Print Assumptions C15_v1_served_at_quiescence.

(* No deadlock: a reachable state that is not quiescent has a thread that can move ... *)
Theorem C15_v1_progress : forall (nl nt : nat) (sched : list nat),
  let s := fst (run step sched (init nl nt, [])) in
  quiescent s = false -> exists t, step t s <> None.
Proof. exact progress. Qed.
Print Assumptions C15_v1_progress.

(* ... and no livelock: no schedule makes more than (nl+nt+1)(7nl+5nt) moves (a strictly
   decreasing measure; the CAS retry loops are lock-free).  Hence every maximal run ends quiescent,
   i.e. if every holder unlocks, every started lock operation completes. *)
Theorem C15_v1_bounded_steps : forall (nl nt : nat) (sched : list nat),
  effective sched (init nl nt) <= (nl + nt + 1) * (7 * nl + 5 * nt).
Proof. exact bounded_steps. Qed.
Print Assumptions C15_v1_bounded_steps.

Theorem C15_v1_can_finish : forall (nl nt : nat) (sched : list nat),
  exists ext, quiescent (fst (run step (sched ++ ext) (init nl nt, []))) = true.
Proof. exact can_finish. Qed.
Print Assumptions C15_v1_can_finish.

(* FIFO, precisely what holds for v1: the lockers whose enqueue CAS (old -> this, old <> inactive)
   succeeded are resumed by unlock() in exactly the order of those CASes; the ones not yet resumed
   are pendingQueue_ followed by the reversed stack.  A locker (or try_lock) that finds the mutex
   inactive acquires it without queueing, so it can overtake suspended lockers only in the sense
   that it was never behind them: the mutex was free. *)
Theorem C15_v1_fifo : forall (nl nt : nat) (sched : list nat),
  let c := run step sched (init nl nt, []) in
  enqueued (snd c) = handoffs (snd c) ++ pend (fst c) ++ rev (stack (fst c)).
Proof. exact fifo. Qed.
Print Assumptions C15_v1_fifo.

(* the full state invariant *)
Theorem C15_v1_inv_reachable : forall (nl nt : nat) (sched : list nat),
  Inv nl nt (fst (run step sched (init nl nt, []))).
Proof. exact inv_reachable. Qed.
Print Assumptions C15_v1_inv_reachable.

(* threads 0,1,2 lock, thread 3 calls try_lock.  0 acquires inline, 1 then 2 enqueue (stack
   2,1), try_lock fails, 0 unlocks: sees the stack, exchanges, reverses to 1,2, resumes 1 and
   leaves 2 in pendingQueue_; 1 unlocks by popping pendingQueue_ (no atomic access); 2 unlocks
   with load + CAS nullptr -> inactive. *)
Example C15_v1_example_fifo_batch :
  let sched := [0;0; 1;1; 2;2; 3; 0;0;0; 1;1; 2;2;2] in
  let mid := run step [0;0; 1;1; 2;2; 3; 0;0;0] (init 3 1, []) in
  let c := run step sched (init 3 1, []) in
  (w (fst mid) = Some [] /\ pend (fst mid) = [2] /\
   pcs (fst mid) = [PDone; PHeld; PWait; PFailed] /\ holders (fst mid) = 1) /\
  (quiescent (fst c) = true /\ w (fst c) = None /\
   acquirers (snd c) = [0; 1; 2] /\ enqueued (snd c) = [1; 2] /\ handoffs (snd c) = [1; 2] /\
   scan (snd c) = Some None /\ effective sched (init 3 1) = 15 /\
   snd c = [ELd WInact; ECasLock WInact WNull true; EAcquire 0 false;
            ELd WNull; ECasLock WNull (WPtr 1) true;
            ELd (WPtr 1); ECasLock (WPtr 1) (WPtr 2) true;
            ECasTry (WPtr 2) false; ETryFail 3;
            ERelease 0; ELd (WPtr 2); EXchg (WPtr 2); EAcquire 1 true;
            ERelease 1; EAcquire 2 true;
            ERelease 2; ELd WNull; ECasUnl WNull true]).
Proof. vm_compute. repeat split; reflexivity. Qed.

(* the window in unlock(): 0 loads nullptr, 1 enqueues, 0's CAS nullptr -> inactive fails, it
   falls through to the exchange and resumes 1.  Meanwhile locker 2 loaded the inactive value
   before 0 acquired: its first CAS fails (stale), the retry enqueues. *)
Example C15_v1_example_unlock_window :
  let sched := [2; 0;0; 0;0; 1;1; 0; 2;2; 0; 1;1; 2;2;2] in
  let c := run step sched (init 3 0, []) in
  quiescent (fst c) = true /\ acquirers (snd c) = [0; 1; 2] /\ enqueued (snd c) = [1; 2] /\
  snd c = [ELd WInact;
           ELd WInact; ECasLock WInact WNull true; EAcquire 0 false;
           ERelease 0; ELd WNull;
           ELd WNull; ECasLock WNull (WPtr 1) true;
           ECasUnl (WPtr 1) false;
           ECasLock (WPtr 1) WNull false; ECasLock (WPtr 1) (WPtr 2) true;
           EXchg (WPtr 2); EAcquire 1 true;
           ERelease 1; EAcquire 2 true;
           ERelease 2; ELd WNull; ECasUnl WNull true].
Proof. vm_compute. repeat split; reflexivity. Qed.
