(* C19, unit 4: canary / canary::watcher / canary::guard (Proto/CanaryDefs.v, CanaryProofs.v).
   Threads: 0 = the watcher's owner (optional alive(), use of the operation state under a truthy
   guard, guard release, ~watcher), 1 = ~canary (destruction of the operation state) at any time.
   Parameters: watched (a watcher is attached), ask (thread 0 calls alive()). *)
From Coq Require Import List Bool Arith.
From V Require Import Base.Sched Proto.CanaryDefs Proto.CanaryProofs.
Import ListNotations.
Import Canary.

Theorem C19_canary_never_used_after_destruction : forall (p : params) (sched : list nat),
  late (fst (run (step p) sched (init p, []))) = 0.
Proof. exact never_used_after_destruction. Qed.
Print Assumptions C19_canary_never_used_after_destruction.

(* a truthy guard keeps the canary alive (its destructor does not return); alive() reports "dead"
   only when ~canary has marked the watcher, and is truthy exactly when it had not yet done so at
   that moment (amk = the value of marked when alive() executed) *)
Theorem C19_canary_dead_iff_destroyed : forall (p : params) (sched : list nat),
  let s := fst (run (step p) sched (init p, [])) in
  (held s = true -> cgone s = false) /\ (guard s = Some false -> marked s = true) /\
  (forall g, guard s = Some g -> g = negb (amk s)).
Proof. exact guard_protects_and_dead_means_destroyed. Qed.
Print Assumptions C19_canary_dead_iff_destroyed.

(* whenever ~canary sits in its wait on the guard word (canary.hpp:207) a guard is held *)
Theorem C19_canary_destructor_blocks_only_while_guard_held :
  forall (p : params) (sched : list nat),
  blocked_unheld (fst (run (step p) sched (init p, []))) = false.
Proof. exact destructor_blocks_only_while_guard_held. Qed.
Print Assumptions C19_canary_destructor_blocks_only_while_guard_held.

Theorem C19_canary_no_deadlock : forall (p : params) (sched : list nat),
  let s := fst (run (step p) sched (init p, [])) in
  quiescent p s = true -> pw s = WFin /\ pc s = CFin /\ cw s = PNull.
Proof. exact no_deadlock. Qed.
Print Assumptions C19_canary_no_deadlock.

(* the two destructors lock their own pointers at the same time (the deadlock case): the canary
   yields - unlocks watcher_ and waits until the watcher has cleared it *)
Example C19_canary_example_deadlock_yield :
  let p := {| watched := true; ask := false |} in
  let mid := run (step p) [1; 1; 0; 0; 1; 1] (init p, []) in
  let c := run (step p) [1; 1; 0; 0; 1; 1; 0; 1; 0] (init p, []) in
  (pc (fst mid) = C2Spin /\ step p 1 (fst mid) = None) /\
  quiescent p (fst c) = true /\ late (fst c) = 0 /\ marked (fst c) = false /\
  snd c = [ECwL 2; ECwC 2 3 true; EWcL 2; EWcC 2 3 true; EWcC 3 3 false; ECwS 2;
           ECwC 2 0 true; ECwLa 0; ECGone; EWcS 0; EWGone].
Proof. vm_compute. repeat split; reflexivity. Qed.

(* a guard is held when ~canary arrives: it marks the watcher dead and waits (its step is
   disabled) until the guard is released *)
Example C19_canary_example_guard_blocks :
  let p := {| watched := true; ask := true |} in
  let mid := run (step p) [0; 1; 1; 1; 1] (init p, []) in
  let c := run (step p) [0; 1; 1; 1; 1; 0; 0; 1; 1; 1; 0] (init p, []) in
  (pc (fst mid) = C4Spin /\ step p 1 (fst mid) = None /\ held (fst mid) = true /\
   blocked_unheld (fst mid) = false) /\
  quiescent p (fst c) = true /\ late (fst c) = 0 /\ guard (fst c) = Some true /\
  snd c = [EWsC 0 1 true; ECwL 2; ECwC 2 3 true; EWcC 2 3 true; EWsX 1 2; EUse; EWsS 3;
           EWsL 3; EWcS 0; ECwS 0; ECGone; EWcL 0; EWGone].
Proof. vm_compute. repeat split; reflexivity. Qed.
