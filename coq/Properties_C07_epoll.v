(* C07, io_epoll_context timers (model Proto/EpollTimerDefs.v, tie: K1 lock-step harness/k1_epoll_timers.cpp +
   tools/units/epoll_timers.py on the real io_epoll_context with a virtual clock / virtual timerfd).

   STATUS: PARTIAL.  Proved (all sizes, all states satisfying the per-operation phase invariant OK of
   Proto/EpollTimerProofs.v): every step of a starter thread and of a remote stopper thread, and
   execute_pending_local taking an operation off the ready batch, preserve that invariant and never perform
   an action the list abstraction cannot express (bad: an operation linked twice, a timer removed that is not
   in the heap, a null execute_, a state_ flag added twice).
   NOT proved yet (full statements, for all specs and all schedules sched, c := run step sched (init specs, [])):
     exactly_once      ncomp (ops (fst c) i) <= 1  and  = number of EFire/EDone i events in snd c;
                       quiescent (fst c) = true -> i < nops -> stop requested or due reached -> ncomp = 1
     never_early       In (EFire i t h) (snd c) -> o_due (ops (fst c) i) <= t
     order             sorted_due (heap (fst c)), ties in heap-insertion order (hseq), update_timers pops only
                       the head and only when due <= now, the EFire ids form a sublist of pops (fst c)
     no_reference      ncomp (ops s i) = 1 -> i not in heap / lq / pend / rq / todo-starts, enq = 0, fn = FnNull,
                       the stopper is not inside the callback;  bad (fst c) = false
     stop_after_elapsed  (request_stop_local on a reaped timer) completes once with done, heap untouched
     cancel_prompt + progress   quiescent (fst c) = true -> every operation is completed or (not stopped, in
                       the heap, timerfd armed at c with now < c <= due(head) + 1)
   The Examples below show these on concrete runs of the model (including the C07c-seed1 scenario); the
   lock-step tie and the driver's monitor check them on the implementation for every explored schedule. *)
From Coq Require Import ZArith List Bool.
From V Require Import Base.Sched Arith.SortedInsertDefs Proto.EpollTimerDefs Proto.EpollTimerProofs.
Import ListNotations.
Import EpollTimer.
Local Open Scope Z_scope.

Theorem C07_epoll_starter_step_preserves_partial : forall s i s' evs,
  InvQ s -> OK (ipc s) s -> step_start i s = Some (s', evs) -> OK (ipc s') s'.
Proof. exact start_pres. Qed.
Print Assumptions C07_epoll_starter_step_preserves_partial.

Theorem C07_epoll_stopper_step_preserves_partial : forall s i s' evs,
  InvQ s -> OK (ipc s) s -> step_stop i s = Some (s', evs) -> OK (ipc s') s'.
Proof. exact stop_pres. Qed.
Print Assumptions C07_epoll_stopper_step_preserves_partial.

Theorem C07_epoll_pop_preserves_partial : forall s0 i r,
  pend s0 = Op i :: r -> OK PCrash s0 ->
  OK (ipc (exec_op (set_pend s0 r) i)) (exec_op (set_pend s0 r) i).
Proof. exact exec_op_ok. Qed.
Print Assumptions C07_epoll_pop_preserves_partial.

(* ---- concrete runs (thread ids, n timers: 0 I/O thread, 1..n starters, n+1..2n stoppers, 2n+k clock +k) ---- *)
Definition io (k : nat) : list nat := repeat 0%nat k.
Definition comps (c : st * list ev) : list ev := filter is_completion (snd c).

(* the C07c-seed1 scenario: A, B, C share one due time; A's set_value requests stop on B, which update_timers
   has already reaped: A value, B done (once), C value, in that order; nothing left anywhere *)
Example C07_epoll_ex_stop_after_elapsed :
  let c := run step (io 12 ++ [16%nat] ++ io 40) (init [(10, SLocal, KNone); (10, SLocal, KBy 0); (10, SLocal, KNone)], []) in
  comps c = [EFire 0 10 []; EDone 1 10 []; EFire 2 10 []] /\
  completions (fst c) = [1; 1; 1]%nat /\ heap (fst c) = [] /\ lq (fst c) = [] /\ pend (fst c) = [] /\ rq (fst c) = [] /\
  bad (fst c) = false /\ quiescent (fst c) = true.
Proof. vm_compute. repeat split; reflexivity. Qed.

(* order: dues 30, 10, 10 fire as 10, 10 (submission order), 30, never before their due time *)
Example C07_epoll_ex_order :
  let c := run step (io 12 ++ [16%nat] ++ io 30 ++ [26%nat] ++ io 30) (init [(30, SLocal, KNone); (10, SLocal, KNone); (10, SLocal, KNone)], []) in
  comps c = [EFire 1 10 [0%nat]; EFire 2 10 [0%nat]; EFire 0 30 []] /\ pops (fst c) = [1; 2; 0]%nat /\ all_done (fst c) = true.
Proof. vm_compute. repeat split; reflexivity. Qed.

(* stop before start (local and remote start): done at once, the timer never enters the heap *)
Example C07_epoll_ex_prestopped :
  let c := run step (io 3 ++ [2%nat; 2%nat] ++ io 30) (init [(500, SLocal, KPre); (500, SRemote, KPre)], []) in
  map (fun e => match e with EDone i t _ => Some (i, t) | _ => None end) (comps c) = [Some (0%nat, 0); Some (1%nat, 0)] /\
  pops (fst c) = [] /\ all_done (fst c) = true /\ bad (fst c) = false.
Proof. vm_compute. repeat split; reflexivity. Qed.

(* remote cancel of a far timer: done without any clock advance (prompt), heap empty afterwards *)
Example C07_epoll_ex_remote_cancel :
  let c := run step ([1%nat; 1%nat] ++ io 12 ++ [2%nat; 2%nat; 2%nat; 2%nat; 2%nat] ++ io 20) (init [(500, SRemote, KRemote)], []) in
  comps c = [EDone 0 0 []] /\ now (fst c) = 0 /\ heap (fst c) = [] /\ bad (fst c) = false /\ quiescent (fst c) = true.
Proof. vm_compute. repeat split; reflexivity. Qed.

(* remote cancel racing the expiry: the stopper sets cancel_pending after update_timers set timer_elapsed: the
   queued completion waits for the callback and delivers done, once *)
Example C07_epoll_ex_cancel_vs_expiry :
  let c := run step ([1%nat; 1%nat] ++ io 12 ++ [12%nat] ++ io 4 ++ [2%nat] ++ io 3 ++ [2%nat; 2%nat; 2%nat] ++ io 20) (init [(10, SRemote, KRemote)], []) in
  comps c = [EDone 0 10 []] /\ completions (fst c) = [1%nat] /\ bad (fst c) = false.
Proof. vm_compute. repeat split; reflexivity. Qed.
