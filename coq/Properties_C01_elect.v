(* C01 for the completion election of when_all_range and stop_when (model Proto/RegElectDefs.v, tied to the
   real algorithms by harness/k1_when_all_range.cpp, harness/k1_stop_when.cpp): for both variants v, ALL lists of
   child outcomes (any n, including n = 0), both stop modes and ALL schedules. *)
From Coq Require Import ZArith List Bool.
From V Require Import Base.Sched Proto.RegElectDefs Proto.RegElectProofs Proto.RegElectThms.
Import ListNotations.
Import RegElect.

Theorem C01_regelect_at_most_once :
  forall (v : variant) (outs : list outcome) (req pre : bool) (sched : list nat),
  let s := fst (run step sched (init v outs req pre, [])) in
  (length (delivered s) <= 1)%nat.
Proof. exact at_most_once. Qed.
Print Assumptions C01_regelect_at_most_once.

(* exactly once at quiescence (and the operation has been destroyed by the owner) *)
Theorem C01_regelect_no_lost :
  forall (v : variant) (outs : list outcome) (req pre : bool) (sched : list nat),
  let s := fst (run step sched (init v outs req pre, [])) in
  quiescent s = true -> nkids s <> 0%nat \/ var s = VRange ->
  length (delivered s) = 1%nat /\ destroyed s = true.
Proof. exact no_lost. Qed.
Print Assumptions C01_regelect_no_lost.

(* never before every child has executed its final fetch_sub, nor while the callback holds a count *)
Theorem C01_regelect_not_before :
  forall (v : variant) (outs : list outcome) (req pre : bool) (sched : list nat),
  let s := fst (run step sched (init v outs req pre, [])) in
  delivered s <> [] -> Forall (fun p => actv p = false) (kids s) /\ cbA (cb s) = 0%nat.
Proof. exact not_before. Qed.
Print Assumptions C01_regelect_not_before.

(* never before start() has started every child *)
Theorem C01_regelect_not_before_started :
  forall (v : variant) (outs : list outcome) (req pre : bool) (sched : list nat),
  let s := fst (run step sched (init v outs req pre, [])) in
  delivered s <> [] -> forall i p, nth_error (kids s) i = Some p -> started s i = true.
Proof. exact not_before_started. Qed.
Print Assumptions C01_regelect_not_before_started.

Theorem C01_regelect_rc_nonneg :
  forall (v : variant) (outs : list outcome) (req pre : bool) (sched : list nat),
  let s := fst (run step sched (init v outs req pre, [])) in
  (0 <= rc s)%Z.
Proof. exact rc_nonneg. Qed.
Print Assumptions C01_regelect_rc_nonneg.

Theorem C01_regelect_inv_reachable :
  forall (v : variant) (outs : list outcome) (req pre : bool) (sched : list nat),
  Inv (fst (run step sched (init v outs req pre, []))).
Proof. exact inv_reachable. Qed.
Print Assumptions C01_regelect_inv_reachable.

(* when_all_range, children [value; error], threads 0,1 = children, 2 = start(), 3 = requester, 4 = owner.
   The requester's callback takes its count (2 -> 3), forwards the stop, gives it back (3 -> 2); child 1 wins
   the exchange; child 0 is elected, must WAIT for the callback to be marked completed, delivers the error. *)
Example C01_regelect_example_range :
  let c := run step [2; 2; 2; 3; 3; 3; 3; 1; 1; 1; 0; 0; 3; 0; 0; 4] (init VRange [OVal; OErr] true false, []) in
  quiescent (fst c) = true /\ delivered (fst c) = [OErr] /\ cbk (fst c) = BJoined /\ own (fst c) = true /\
  late (fst c) = 0%nat /\ badreg (fst c) = 0%nat.
Proof. vm_compute. repeat split; reflexivity. Qed.

(* when_all_range with no child: start() completes at once, no callback is ever constructed *)
Example C01_regelect_example_range0 :
  let c := run step [0; 1; 2] (init VRange [] true false, []) in
  quiescent (fst c) = true /\ delivered (fst c) = [OVal] /\ cbk (fst c) = BNew.
Proof. vm_compute. repeat split; reflexivity. Qed.

(* stop_when [source = value; trigger = done], stop requested before start: the callback runs inline *)
Example C01_regelect_example_stop_when :
  let c := run step [2; 2; 2; 2; 2; 2; 1; 1; 0; 0; 0; 4] (init VStopWhen [OVal; ODone] false true, []) in
  quiescent (fst c) = true /\ delivered (fst c) = [OVal] /\ cbk (fst c) = BInline /\ own (fst c) = true.
Proof. vm_compute. repeat split; reflexivity. Qed.
