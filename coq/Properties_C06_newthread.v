(* C06, unit 5: new_thread_context (model Proto/NewThreadDefs.v).
   Thread ids for p starters and m operations: 0 owner (constructs, later destroys the context),
   1..p starters, p+1..p+m the operations' threads (fixed numbering 1.0, 1.1, ..., 2.0, ...),
   p+m+1 spurious wake-ups of the destructor's cv_.wait. *)
From Coq Require Import List Bool Arith.
From V Require Import Base.Sched Proto.NewThreadDefs Proto.NewThreadProofs.
Import ListNotations.
Import NewThread.

(* Each operation completes at most once, with set_done exactly when its stop token was requested
   before, and only operations of the program complete. *)
Theorem C06_newthread_at_most_once :
  forall (counts : list nat) (stops : list item) (sched : list nat),
  let tr := snd (run step sched (init counts stops, [])) in
  NoDup (map fst (runs tr)) /\
  (forall it b, In (it, b) (runs tr) -> b = mem it stops) /\
  (forall it b, In (it, b) (runs tr) -> exists x n, fst it = S x /\ nth_error counts x = Some n /\ snd it < n).
Proof. exact at_most_once. Qed.
Print Assumptions C06_newthread_at_most_once.

(* Completion happens on the operation's own new thread. *)
Theorem C06_newthread_completion_on_own_thread :
  forall (counts : list nat) (stops : list item) (sched1 : list nat)
         (t : nat) (s' : st) (evs : list ev) (it : item) (b : bool),
  let s := fst (run step sched1 (init counts stops, [])) in
  step t s = Some (s', evs) -> In (ERun it b) evs ->
  exists i, t = S (nstart s + i) /\ nth_error (threads s) i = Some (it, TRun) /\ b = mem it stops.
Proof. exact completion_on_own_thread. Qed.
Print Assumptions C06_newthread_completion_on_own_thread.

Theorem C06_newthread_count_accounting :
  forall (counts : list nat) (stops : list item) (sched : list nat),
  let s := fst (run step sched (init counts stops, [])) in
  count s = b2n (is_osub (owner s)) + nactive (threads s).
Proof. exact count_accounting. Qed.
Print Assumptions C06_newthread_count_accounting.

(* The destructor joins every thread the context created: it passes its wait only when
   activeThreadCount_ is zero, at which point every operation's thread has left retire_thread's
   critical section and only has to join its predecessor and exit; threadToJoin_.join() returns
   when the last retired thread, hence (through the chain of joins) every thread, has exited. *)
Theorem C06_newthread_destructor_waits_for_all :
  forall (counts : list nat) (stops : list item) (sched : list nat),
  let s := fst (run step sched (init counts stops, [])) in
  (owner s = OJoin \/ owner s = OUnlock \/ owner s = ODone) ->
  count s = 0 /\ (forall i it pc, nth_error (threads s) i = Some (it, pc) -> pc = TAfter) /\
  all_retired_finished s = true.
Proof. exact destructor_waits_for_all. Qed.
Print Assumptions C06_newthread_destructor_waits_for_all.

Theorem C06_newthread_exactly_once_at_the_end :
  forall (counts : list nat) (stops : list item) (sched : list nat),
  let c := run step sched (init counts stops, []) in
  final (fst c) = true ->
  NoDup (map fst (runs (snd c))) /\ NoDup (retired (fst c)) /\
  forall x n j, nth_error counts x = Some n -> j < n ->
    In (S x, j) (map fst (runs (snd c))) /\ In (S x, j) (retired (fst c)).
Proof. exact exactly_once_final. Qed.
Print Assumptions C06_newthread_exactly_once_at_the_end.

Theorem C06_newthread_no_lost_wakeup :
  forall (counts : list nat) (stops : list item) (sched : list nat),
  let s := fst (run step sched (init counts stops, [])) in
  owner s = OBlocked false ->
  count s <> 0 \/ exists i it, nth_error (threads s) i = Some (it, RNotify) /\ cmtx s = Some (S (nstart s + i)).
Proof. exact no_lost_wakeup. Qed.
Print Assumptions C06_newthread_no_lost_wakeup.

Theorem C06_newthread_mutex_owner :
  forall (counts : list nat) (stops : list item) (sched : list nat),
  let s := fst (run step sched (init counts stops, [])) in
  (owner_holds (owner s) = true -> cmtx s = Some 0) /\
  (forall i it pc, nth_error (threads s) i = Some (it, pc) -> holds_c pc = true -> cmtx s = Some (S (nstart s + i))).
Proof. exact mutex_owner. Qed.
Print Assumptions C06_newthread_mutex_owner.

(* one starter, two operations (threads: 0 owner, 1 starter, 2 3 the operations' threads); 1.1 has
   its stop token requested.  The destructor starts waiting while both threads run; thread 2
   retires first (count 2 -> 1), thread 3 second (1 -> 0, notifies); the destructor wakes, sees 0,
   joins, unlocks. *)
Example C06_newthread_example :
  let c := run step [1; 1; 1; 1; 1; 1; 0; 0; 0; 0; 2; 2; 2; 2; 2; 2; 3; 3; 3; 3; 3; 3; 3; 0; 0; 0; 0]
               (init [2] [(1, 1)], []) in
  final (fst c) = true /\ completed (fst c) = [((1, 0), false); ((1, 1), true)] /\
  retired (fst c) = [(1, 0); (1, 1)] /\ count (fst c) = 0.
Proof. vm_compute. repeat split; reflexivity. Qed.
