(* C10 - coroutine tasks: co_await maps results, cleanup actions always run (LIFO, once, before the
   parent), frames and locals destroyed exactly once, stop reaches the awaited leaf.
   Model: Calc/TaskDefs.v (TCalc); proofs: Calc/TaskProofs.v.  Partial below the model: frame
   allocation, symmetric transfer, compiler generated coroutine code. *)
From Coq Require Import ZArith List Bool.
From V Require Import Calc.TaskDefs Calc.TaskProofs.
Import ListNotations.
Import TCalc.
Local Open Scope Z_scope.

(* every trace of every coroutine body under every script (leaf outcomes at every suspension point,
   a stop request at any point, before or after anything) satisfies the executable property monitor:
   per frame, tracked locals are constructed/destroyed as a stack and none is left when the frame goes;
   registered cleanup actions run most-recently-registered first, each exactly once and to the end,
   nothing is registered after the first ran; the frame is destroyed exactly once, after its locals and
   cleanups; whenever anything happens in a frame, every frame inside it has no cleanup pending or
   running; the root receiver is completed at most once, with every cleanup of every frame over (and
   every frame destroyed when it is a value or an error); nothing but destruction happens after it; a
   stoppable leaf starts with stopped = (stop was requested before), sees a stop request arriving while
   it is pending at once; leaves inside cleanup actions are shielded *)
Theorem C10_all_traces_accepted : forall (body : coexpr) (prestopped : bool) (script : list sev),
  monitor (r_tr (exec body prestopped script)) = true.
Proof. exact exec_monitored. Qed.
Print Assumptions C10_all_traces_accepted.

Theorem C10_await_maps_value : forall n a k env scope trys cls below st nx,
  run_body n (CAwait (AJust a) k) env scope trys cls below st nx
  = run_body n k (arg_val a env :: env) scope trys cls below st nx /\
  run_body n (CAwait (AAwJust a) k) env scope trys cls below st nx
  = run_body n k (arg_val a env :: env) scope trys cls below st nx.
Proof. exact await_value. Qed.
Print Assumptions C10_await_maps_value.

Theorem C10_await_maps_error : forall n x k env scope trys cls below st nx,
  run_body n (CAwait (AErr x) k) env scope trys cls below st nx
  = run_body n (CThrow x) env scope trys cls below st nx /\
  run_body n (CAwait (AAwErr x) k) env scope trys cls below st nx
  = run_body n (CThrow x) env scope trys cls below st nx.
Proof. exact await_error. Qed.
Print Assumptions C10_await_maps_error.

Theorem C10_await_maps_done : forall n k env scope trys cls below st nx,
  run_body n (CAwait ADone k) env scope trys cls below st nx
  = let (g, tr) := unwind_done [] (mkframe n scope trys cls env k :: below) in RGlob g nx tr.
Proof. exact await_done. Qed.
Print Assumptions C10_await_maps_done.

Theorem C10_async_error_is_throw : forall p rest x st nx,
  resume (p :: rest) (OErr x) st nx
  = resume (mkframe (f_n p) (f_scope p) (f_trys p) (f_cleanups p) (f_env p) (CThrow x) :: rest) (OVal 0) st nx.
Proof. exact resume_error_is_throw. Qed.
Print Assumptions C10_async_error_is_throw.

Theorem C10_async_done_unwinds : forall stack st nx,
  resume stack ODone st nx =
  match stack with
  | [] => (GRootDone [], nx, [TRoot ODone])
  | _ => let (g, tr) := unwind_done [] stack in (g, nx, tr)
  end.
Proof. exact resume_done_unwinds. Qed.
Print Assumptions C10_async_done_unwinds.

(* ---- concrete non-trivial runs ---------------------------------------------------------------------- *)
Definition c1 := {| c_id := 1; c_leaf := None |}.
Definition c2 := {| c_id := 2; c_leaf := Some 5%nat |}.
Definition c3 := {| c_id := 3; c_leaf := None |}.
Definition inner := CLocal 3 (CAtExit c3 (CAwait (ALeaf LReactive 1) (CLocal 4 (CRet (AVar 0 0))))).
Definition outer :=
  CLocal 1 (CAtExit c1 (CAtExit c2 (CAwait (ALeaf LPlain 0) (CLocal 2 (CAwait (ATask inner) (CRet (AVar 0 0))))))).

(* return path: locals, then cleanups most recent first (one of them suspends), then the frame *)
Example ex_value :
  r_tr (exec outer false [EvLeaf 0 (OVal 3); EvLeaf 1 (OVal 4); EvLeaf 5 (OVal 0)]) =
  [TFrame 0; TLocalCtor 0 1; TCleanupReg 0 1; TCleanupReg 0 2; TLeafStart 0 false true; TLeafDone 0 (OVal 3);
   TLocalCtor 0 2; TFrame 1; TLocalCtor 1 3; TCleanupReg 1 3; TLeafStart 1 false true; TLeafDone 1 (OVal 4);
   TLocalCtor 1 4; TLocalDtor 1 4; TLocalDtor 1 3; TCleanupRun 1 3; TCleanupEnd 1 3; TFrameDestroyed 1;
   TLocalDtor 0 2; TLocalDtor 0 1; TCleanupRun 0 2; TLeafStart 5 false false; TLeafDone 5 (OVal 0);
   TCleanupEnd 0 2; TCleanupRun 0 1; TCleanupEnd 0 1; TFrameDestroyed 0; TRoot (OVal 4); TOpDtor].
Proof. vm_compute. reflexivity. Qed.

(* stop while the inner task awaits a stop-reactive leaf: done path - cleanups of both frames first,
   root done, the frames and their locals go with the operation state *)
Example ex_stop_done :
  r_tr (exec outer false [EvLeaf 0 (OVal 3); EvStop; EvLeaf 5 (OVal 0)]) =
  [TFrame 0; TLocalCtor 0 1; TCleanupReg 0 1; TCleanupReg 0 2; TLeafStart 0 false true; TLeafDone 0 (OVal 3);
   TLocalCtor 0 2; TFrame 1; TLocalCtor 1 3; TCleanupReg 1 3; TLeafStart 1 false true; TStopReq;
   TLeafStopSeen 1; TLeafDone 1 ODone; TCleanupRun 1 3; TCleanupEnd 1 3; TCleanupRun 0 2;
   TLeafStart 5 false false; TLeafDone 5 (OVal 0); TCleanupEnd 0 2; TCleanupRun 0 1; TCleanupEnd 0 1;
   TRoot ODone; TOpDtor; TLocalDtor 1 3; TFrameDestroyed 1; TLocalDtor 0 2; TLocalDtor 0 1; TFrameDestroyed 0].
Proof. vm_compute. reflexivity. Qed.

(* exception from the child caught by the parent's try block *)
Example ex_catch :
  r_tr (exec (CTry (CLocal 1 (CAwait (ATask (CAtExit c1 (CAwait (ALeaf LPlain 0) (CThrow 7)))) (CRet (AVar 0 0))))
                   (CRet (AVar 0 1))) false [EvLeaf 0 (OVal 1)]) =
  [TFrame 0; TLocalCtor 0 1; TFrame 1; TCleanupReg 1 1; TLeafStart 0 false true; TLeafDone 0 (OVal 1);
   TCleanupRun 1 1; TCleanupEnd 1 1; TFrameDestroyed 1; TLocalDtor 0 1; TFrameDestroyed 0; TRoot (OVal 8); TOpDtor].
Proof. vm_compute. reflexivity. Qed.

(* the monitor is not vacuous: it rejects a trace in which a cleanup action is skipped, one in which the
   order is not LIFO, and one in which the parent continues before the child's cleanup finished *)
Example ex_monitor_rejects_skipped_cleanup :
  monitor [TFrame 0; TCleanupReg 0 1; TFrameDestroyed 0; TRoot (OVal 0); TOpDtor] = false.
Proof. vm_compute. reflexivity. Qed.
Example ex_monitor_rejects_fifo :
  monitor [TFrame 0; TCleanupReg 0 1; TCleanupReg 0 2; TCleanupRun 0 1; TCleanupEnd 0 1; TCleanupRun 0 2;
           TCleanupEnd 0 2; TFrameDestroyed 0; TRoot (OVal 0); TOpDtor] = false.
Proof. vm_compute. reflexivity. Qed.
Example ex_monitor_rejects_parent_first :
  monitor [TFrame 0; TFrame 1; TCleanupReg 1 1; TLocalCtor 0 9] = false.
Proof. vm_compute. reflexivity. Qed.
