(* C10 - coroutine tasks: co_await maps results, cleanup actions always run (LIFO, once, before the
   parent), frames and locals destroyed exactly once, stop reaches the awaited leaf.
   Model: Calc/TaskDefs.v (TCalc); proofs: Calc/TaskProofs.v.  Partial below the model: frame
   allocation, symmetric transfer, compiler generated coroutine code. *)
From Coq Require Import ZArith List Bool Arith.
From V Require Import Calc.TaskDefs Calc.TaskProofs.
Import ListNotations.
Import TCalc.
Local Open Scope Z_scope.

(* every trace of every coroutine body under every script (leaf outcomes at every suspension point,
   a stop request at any point, before or after anything) satisfies the executable property monitor:
   per frame, tracked locals are constructed/destroyed as a stack and none is left when the frame goes;
   registered cleanup actions run most-recently-registered first, each exactly once and to the end,
   nothing is registered after the first ran; the frame is destroyed exactly once, after its locals and
   cleanups; whenever anything happens in a frame, every frame inside it has no cleanup pending or
   running; the root receiver is completed at most once, with every cleanup of every frame over (and
   every frame destroyed when it is a value or an error); nothing but destruction happens after it; a
   stoppable leaf starts with stopped = (stop was requested before), sees a stop request arriving while
   it is pending at once; leaves inside cleanup actions are shielded *)
Theorem C10_all_traces_accepted : forall (body : coexpr) (prestopped : bool) (script : list sev),
  monitor (r_tr (exec body prestopped script)) = true.
Proof. exact exec_monitored. Qed.
Print Assumptions C10_all_traces_accepted.

(* ---- results: co_await maps value / error / done; a task completes with its co_return value, its escaped
   exception, or done; round trips change nothing ------------------------------------------------------------- *)

(* ADEQUACY: for every body, every script (leaf completions in any order, duplicates, a stop request anywhere),
   the outcome the root receiver gets is [eval rho body []], the obvious recursive reading of the body, for every
   oracle rho agreeing with the leaf completions that happened in the run. *)
Theorem C10_task_result : forall (rho : nat -> outcome) (body : coexpr) (prestopped : bool) (script : list sev),
  let tr := r_tr (exec body prestopped script) in
  (forall id o, In (TLeafDone id o) tr -> rho id = o) ->
  forall o, In (TRoot o) tr -> o = eval rho body [].
Proof. exact adequacy. Qed.
Print Assumptions C10_task_result.

(* ... where co_await returns the value, rethrows the error at that point, ends the coroutine on done *)
Theorem C10_await_maps_result : forall rho s k env,
  eval rho (CAwait s k) env =
  match aw_eval rho s env with
  | OVal v => eval rho k (v :: env)
  | OErr x => eval rho (CThrow x) env
  | ODone => ODone
  end.
Proof. exact eval_await. Qed.
Print Assumptions C10_await_maps_result.

(* ... a task awaited as a sender gives its body's result: co_return value, escaped exception *)
Theorem C10_task_as_sender : forall rho b env a x,
  aw_eval rho (ATask b) env = eval rho b env /\
  eval rho (CRet a) env = OVal (arg_val a env) /\
  eval rho (CThrow x) env = OErr x.
Proof. exact eval_task. Qed.
Print Assumptions C10_task_as_sender.

(* ... and awaitable -> as_sender -> connect_awaitable -> await_transform, or sender -> task -> sender, change
   nothing *)
Theorem C10_roundtrip : forall rho s env a x,
  aw_eval rho (AAwJust a) env = aw_eval rho (AJust a) env /\
  aw_eval rho (AAwErr x) env = aw_eval rho (AErr x) env /\
  aw_eval rho (ATask (CAwait s (CRet (AVar 0 0)))) env = aw_eval rho s env.
Proof. exact eval_roundtrip. Qed.
Print Assumptions C10_roundtrip.

(* the same facts as equations of the operational machine, in every context *)
Theorem C10_await_maps_value : forall n a k env scope trys cls below st nx,
  run_body n (CAwait (AJust a) k) env scope trys cls below st nx
  = run_body n k (arg_val a env :: env) scope trys cls below st nx /\
  run_body n (CAwait (AAwJust a) k) env scope trys cls below st nx
  = run_body n k (arg_val a env :: env) scope trys cls below st nx.
Proof. exact await_value. Qed.
Print Assumptions C10_await_maps_value.

Theorem C10_await_maps_error : forall n x k env scope trys cls below st nx,
  run_body n (CAwait (AErr x) k) env scope trys cls below st nx
  = run_body n (CThrow x) env scope trys cls below st nx /\
  run_body n (CAwait (AAwErr x) k) env scope trys cls below st nx
  = run_body n (CThrow x) env scope trys cls below st nx.
Proof. exact await_error. Qed.
Print Assumptions C10_await_maps_error.

Theorem C10_await_maps_done : forall n k env scope trys cls below st nx,
  run_body n (CAwait ADone k) env scope trys cls below st nx
  = let (g, tr) := unwind_done [] (mkframe n scope trys cls env k :: below) in RGlob g nx tr.
Proof. exact await_done. Qed.
Print Assumptions C10_await_maps_done.

Theorem C10_async_error_is_throw : forall p rest x st nx,
  resume (p :: rest) (OErr x) st nx
  = resume (mkframe (f_n p) (f_scope p) (f_trys p) (f_cleanups p) (f_env p) (CThrow x) :: rest) (OVal 0) st nx.
Proof. exact resume_error_is_throw. Qed.
Print Assumptions C10_async_error_is_throw.

Theorem C10_async_done_unwinds : forall stack st nx,
  resume stack ODone st nx =
  match stack with
  | [] => (GRootDone [], nx, [TRoot ODone])
  | _ => let (g, tr) := unwind_done [] stack in (g, nx, tr)
  end.
Proof. exact resume_done_unwinds. Qed.
Print Assumptions C10_async_done_unwinds.

(* ---- cleanup actions, locals, frames, stop: consequences of acceptance by the monitor, stated on the trace ----
   regs/runs/ends n tr: the cleanup actions registered / started / finished in frame n, in trace order;
   ctors/dtors_of n tr: locals constructed / destroyed in frame n; created/destroyed n tr: number of TFrame n /
   TFrameDestroyed n events; noterm: no cleanup action was completed with error/done by the script (that is
   std::terminate by design). *)
Theorem C10_cleanups_lifo_once_before_parent : forall body ps script,
  let tr := r_tr (exec body ps script) in
  noterm tr ->
  ((exists o, In (TRoot o) tr) -> forall n, runs n tr = rev (regs n tr) /\ ends n tr = runs n tr) /\
  (forall tr1 o tr2, tr = tr1 ++ TRoot o :: tr2 -> forall n, runs n tr1 = rev (regs n tr1) /\ ends n tr1 = runs n tr1) /\
  (forall tr1 n tr2, tr = tr1 ++ TFrameDestroyed n :: tr2 -> runs n tr1 = rev (regs n tr1) /\ ends n tr1 = runs n tr1) /\
  (forall tr1 e tr2 n, tr = tr1 ++ e :: tr2 -> ftag e = Some n -> is_frame_ev e = false ->
     forall k, (n < k)%nat -> runs k tr1 = rev (regs k tr1) /\ ends k tr1 = runs k tr1).
Proof. exact cleanups_lifo_once_before_parent. Qed.
Print Assumptions C10_cleanups_lifo_once_before_parent.

Theorem C10_locals_destroyed_once : forall body ps script,
  let tr := r_tr (exec body ps script) in
  noterm tr ->
  ((exists o, In (TRoot o) tr) -> forall n i, occ i (dtors_of n tr) = occ i (ctors n tr)) /\
  (forall tr1 n tr2, tr = tr1 ++ TFrameDestroyed n :: tr2 -> forall i, occ i (dtors_of n tr1) = occ i (ctors n tr1)).
Proof. exact locals_destroyed_once. Qed.
Print Assumptions C10_locals_destroyed_once.

Theorem C10_frames_destroyed_once : forall body ps script,
  let tr := r_tr (exec body ps script) in
  noterm tr ->
  (forall n, (destroyed n tr <= created n tr)%nat /\ (created n tr <= 1)%nat) /\
  ((exists o, In (TRoot o) tr) -> forall n, destroyed n tr = created n tr).
Proof. exact frames_destroyed_once. Qed.
Print Assumptions C10_frames_destroyed_once.

Theorem C10_stop_reaches_current_await : forall body ps script id kd seen stack,
  let rs := fold_left run_ev script (run_start body ps) in
  r_stopped rs = true -> r_cfg rs = GSusp (SLeaf id kd seen) stack ->
  (kd = LPlain /\ seen = true) \/ kd = LAw.
Proof. exact stop_reaches_current_await. Qed.
Print Assumptions C10_stop_reaches_current_await.

Theorem C10_stop_reaches_leaves : forall body ps script,
  let tr := r_tr (exec body ps script) in
  noterm tr ->
  (forall tr1 id st sp tr2, tr = tr1 ++ TLeafStart id st sp :: tr2 -> st = sp && existsb is_stop tr1) /\
  (forall tr1 id tr2 e tr3, tr = tr1 ++ TLeafStart id false true :: tr2 ++ TStopReq :: e :: tr3 ->
     Forall (fun x => x = TSkip) tr2 -> e = TLeafStopSeen id).
Proof. exact stop_reaches_leaves. Qed.
Print Assumptions C10_stop_reaches_leaves.

Theorem C10_root_at_most_once : forall body ps script, (roots (r_tr (exec body ps script)) <= 1)%nat.
Proof. exact root_at_most_once. Qed.
Print Assumptions C10_root_at_most_once.

(* the same consequences hold for ANY trace the monitor accepts - in particular for every implementation trace on
   which the K2 tie reports the extracted monitor's verdict "ok" *)
Theorem C10_accepted_lifecycles : forall tr,
  monitor tr = true -> (exists o, In (TRoot o) tr) -> noterm tr ->
  forall n,
    runs n tr = rev (regs n tr) /\ ends n tr = runs n tr /\
    destroyed n tr = created n tr /\ (created n tr <= 1)%nat /\
    (forall i, occ i (dtors_of n tr) = occ i (ctors n tr)).
Proof. exact accepted_lifecycles. Qed.
Print Assumptions C10_accepted_lifecycles.

(* ---- concrete non-trivial runs ---------------------------------------------------------------------- *)
Definition c1 := {| c_id := 1; c_leaf := None |}.
Definition c2 := {| c_id := 2; c_leaf := Some 5%nat |}.
Definition c3 := {| c_id := 3; c_leaf := None |}.
Definition inner := CLocal 3 (CAtExit c3 (CAwait (ALeaf LReactive 1) (CLocal 4 (CRet (AVar 0 0))))).
Definition outer :=
  CLocal 1 (CAtExit c1 (CAtExit c2 (CAwait (ALeaf LPlain 0) (CLocal 2 (CAwait (ATask inner) (CRet (AVar 0 0))))))).

(* return path: locals, then cleanups most recent first (one of them suspends), then the frame *)
Example ex_value :
  r_tr (exec outer false [EvLeaf 0 (OVal 3); EvLeaf 1 (OVal 4); EvLeaf 5 (OVal 0)]) =
  [TFrame 0; TLocalCtor 0 1; TCleanupReg 0 1; TCleanupReg 0 2; TLeafStart 0 false true; TLeafDone 0 (OVal 3);
   TLocalCtor 0 2; TFrame 1; TLocalCtor 1 3; TCleanupReg 1 3; TLeafStart 1 false true; TLeafDone 1 (OVal 4);
   TLocalCtor 1 4; TLocalDtor 1 4; TLocalDtor 1 3; TCleanupRun 1 3; TCleanupEnd 1 3; TFrameDestroyed 1;
   TLocalDtor 0 2; TLocalDtor 0 1; TCleanupRun 0 2; TLeafStart 5 false false; TLeafDone 5 (OVal 0);
   TCleanupEnd 0 2; TCleanupRun 0 1; TCleanupEnd 0 1; TFrameDestroyed 0; TRoot (OVal 4); TOpDtor].
Proof. vm_compute. reflexivity. Qed.

(* stop while the inner task awaits a stop-reactive leaf: done path - cleanups of both frames first,
   root done, the frames and their locals go with the operation state *)
Example ex_stop_done :
  r_tr (exec outer false [EvLeaf 0 (OVal 3); EvStop; EvLeaf 5 (OVal 0)]) =
  [TFrame 0; TLocalCtor 0 1; TCleanupReg 0 1; TCleanupReg 0 2; TLeafStart 0 false true; TLeafDone 0 (OVal 3);
   TLocalCtor 0 2; TFrame 1; TLocalCtor 1 3; TCleanupReg 1 3; TLeafStart 1 false true; TStopReq;
   TLeafStopSeen 1; TLeafDone 1 ODone; TCleanupRun 1 3; TCleanupEnd 1 3; TCleanupRun 0 2;
   TLeafStart 5 false false; TLeafDone 5 (OVal 0); TCleanupEnd 0 2; TCleanupRun 0 1; TCleanupEnd 0 1;
   TRoot ODone; TOpDtor; TLocalDtor 1 3; TFrameDestroyed 1; TLocalDtor 0 2; TLocalDtor 0 1; TFrameDestroyed 0].
Proof. vm_compute. reflexivity. Qed.

(* exception from the child caught by the parent's try block *)
Example ex_catch :
  r_tr (exec (CTry (CLocal 1 (CAwait (ATask (CAtExit c1 (CAwait (ALeaf LPlain 0) (CThrow 7)))) (CRet (AVar 0 0))))
                   (CRet (AVar 0 1))) false [EvLeaf 0 (OVal 1)]) =
  [TFrame 0; TLocalCtor 0 1; TFrame 1; TCleanupReg 1 1; TLeafStart 0 false true; TLeafDone 0 (OVal 1);
   TCleanupRun 1 1; TCleanupEnd 1 1; TFrameDestroyed 1; TLocalDtor 0 1; TFrameDestroyed 0; TRoot (OVal 8); TOpDtor].
Proof. vm_compute. reflexivity. Qed.

(* the monitor is not vacuous: it rejects a trace in which a cleanup action is skipped, one in which the
   order is not LIFO, and one in which the parent continues before the child's cleanup finished *)
Example ex_monitor_rejects_skipped_cleanup :
  monitor [TFrame 0; TCleanupReg 0 1; TFrameDestroyed 0; TRoot (OVal 0); TOpDtor] = false.
Proof. vm_compute. reflexivity. Qed.
Example ex_monitor_rejects_fifo :
  monitor [TFrame 0; TCleanupReg 0 1; TCleanupReg 0 2; TCleanupRun 0 1; TCleanupEnd 0 1; TCleanupRun 0 2;
           TCleanupEnd 0 2; TFrameDestroyed 0; TRoot (OVal 0); TOpDtor] = false.
Proof. vm_compute. reflexivity. Qed.
Example ex_monitor_rejects_parent_first :
  monitor [TFrame 0; TFrame 1; TCleanupReg 1 1; TLocalCtor 0 9] = false.
Proof. vm_compute. reflexivity. Qed.

(* the hypotheses of the corollaries are met by the runs above *)
Example ex_hyps_value :
  let tr := r_tr (exec outer false [EvLeaf 0 (OVal 3); EvLeaf 1 (OVal 4); EvLeaf 5 (OVal 0)]) in
  existsb (fun e => match e with TTerminate => true | _ => false end) tr = false /\
  roots tr = 1%nat /\ regs 0 tr = [1; 2]%nat /\ runs 0 tr = [2; 1]%nat /\ ends 0 tr = [2; 1]%nat /\
  created 1 tr = 1%nat /\ destroyed 1 tr = 1%nat /\ ctors 0 tr = [1; 2]%nat /\ dtors_of 0 tr = [2; 1]%nat.
Proof. vm_compute. repeat split; reflexivity. Qed.

(* adequacy instantiated: leaf 0 -> 3, leaf 1 -> done (because of the stop request), cleanup leaf 5 -> 0 *)
Example ex_eval :
  eval (fun id => match id with 0%nat => OVal 3 | 1%nat => ODone | _ => OVal 0 end) outer [] = ODone /\
  eval (fun id => match id with 0%nat => OVal 3 | 1%nat => OVal 4 | _ => OVal 0 end) outer [] = OVal 4.
Proof. vm_compute. split; reflexivity. Qed.
