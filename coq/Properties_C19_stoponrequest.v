(* C19, unit stop_on_request: the election "first stop callback completes" of
   include/unifex/stop_on_request.hpp, model Proto/StopOnRequestDefs.v.
   Threads: 0 = start(), i+1 = requester of source i (0 = the receiver's token, 1..n = the tokens
   given to stop_on_request), n+2 = the owner of the receiver. *)
From Coq Require Import List Bool Arith.
From V Require Import Base.Sched Proto.StopOnRequestDefs Proto.StopOnRequestProofs.
Import ListNotations.
Import StopOnRequest.

Theorem C19_stoponrequest_one_completer :
  forall (n : nat) (req pre : nat -> bool) (sched : list nat),
  let c := run step sched (init n req pre, []) in
  let s := fst c in
  completions s <= 1 /\
  (quiescent s = true -> any_stop n req pre = true -> completions s = 1) /\
  (any_stop n req pre = false -> completions s = 0).
Proof. exact one_completer. Qed.
Print Assumptions C19_stoponrequest_one_completer.

Theorem C19_stoponrequest_completed_only_after_stop :
  forall (n : nat) (req pre : nat -> bool) (sched : list nat),
  let c := run step sched (init n req pre, []) in
  let s := fst c in
  let tr := snd c in
  length (filter is_root tr) = completions s /\
  (completions s <> 0 ->
   exists i, i <= n /\ stp s i = true /\ (req i = true \/ pre i = true)).
Proof. exact completed_only_after_stop. Qed.
Print Assumptions C19_stoponrequest_completed_only_after_stop.

Theorem C19_stoponrequest_callbacks_torn_down_before_completion :
  forall (n : nat) (req pre : nat -> bool) (sched : list nat),
  let c := run step sched (init n req pre, []) in
  let s := fst c in
  badtd s = 0 /\
  forall t s' evs, step t s = Some (s', evs) -> In ERoot evs ->
    forall k, k <= n -> torn (cb s k) = true /\ cb s k <> BExec /\ cb s k <> BReg.
Proof. exact callbacks_torn_down_before_completion. Qed.
Print Assumptions C19_stoponrequest_callbacks_torn_down_before_completion.

Theorem C19_stoponrequest_quiet_after_completion :
  forall (n : nat) (req pre : nat -> bool) (sched : list nat),
  let c := run step sched (init n req pre, []) in
  let s := fst c in
  late s = 0 /\
  (freed s = true <-> completions s = 1) /\
  (completions s <> 0 ->
     sp s = SFin /\ freed s = true /\ cbs s = ATLEAST /\
     forall j, j <= nsrc s -> torn (cb s j) = true /\ (rq s j = RSet \/ rq s j = RFin)) /\
  (freed s = true -> forall t s' evs, step t s = Some (s', evs) ->
     (t = S (S n) /\ evs = [EDestroy]) \/
     (exists i, i <= n /\ t = S i /\ evs = [ESet i] /\ torn (cb s i) = true /\
                cb s' = cb s /\ cbs s' = cbs s)).
Proof. exact quiet_after_completion. Qed.
Print Assumptions C19_stoponrequest_quiet_after_completion.

Theorem C19_stoponrequest_progress :
  forall (n : nat) (req pre : nat -> bool) (sched : list nat),
  let c := run step sched (init n req pre, []) in
  let s := fst c in
  quiescent s = false -> exists t, step t s <> None.
Proof. exact progress. Qed.
Print Assumptions C19_stoponrequest_progress.

Theorem C19_stoponrequest_inv_reachable :
  forall (n : nat) (req pre : nat -> bool) (sched : list nat),
  Inv n req pre (fst (run step sched (init n req pre, []))).
Proof. exact inv_reachable. Qed.
Print Assumptions C19_stoponrequest_inv_reachable.

Definition all_of (_ : nat) : bool := true.
Definition none_of (_ : nat) : bool := false.
Definition only (k i : nat) : bool := Nat.eqb i k.

(* n = 1, both sources requested.  Requester 0 claims callback 0 while start() is still
   constructing (its exchange reads INIT), start()'s CAS fails and start() completes: it unlinks
   callback 1 and must WAIT for callback 0, which is still executing on thread 1; it is blocked
   (step 0 = None) until thread 1 stores callbackCompleted_.  The late request on source 1 finds no
   callback any more. *)
Example C19_stoponrequest_example_start_completes_and_waits :
  let mid := run step [0; 1; 0; 1; 0; 0; 0] (init 1 all_of none_of, []) in
  let c := run step [0; 1; 0; 1; 0; 0; 0; 0; 1; 0; 0; 3; 2] (init 1 all_of none_of, []) in
  (snd mid = [EReg 0 false; ESet 0; EReg 1 false; EXchg INIT; ECas ATLEAST; EDereg 1 false;
              EDereg 0 true] /\
   step 0 (fst mid) = None /\ step 1 (fst mid) <> None /\ quiescent (fst mid) = false /\
   completions (fst mid) = 0) /\
  (snd c = [EReg 0 false; ESet 0; EReg 1 false; EXchg INIT; ECas ATLEAST; EDereg 1 false;
            EDereg 0 true; ECbDone 0; EWait 0; ERoot; EDestroy; ESet 1] /\
   completions (fst c) = 1 /\ late (fst c) = 0 /\ badtd (fst c) = 0 /\ quiescent (fst c) = true /\
   cb (fst c) 0 = BJoined /\ cb (fst c) 1 = BUnlinked).
Proof. vm_compute. repeat split; try reflexivity. discriminate. Qed.

(* n = 1: start() arms the state; requester 1's callback reads ALL_CONSTRUCTED_NOT_CALLED and
   completes from inside its own execution: its own callback is removed during the callback
   (no callbackCompleted_ store afterwards: the thread goes straight to RFin), callback 0 is
   unlinked; the request on source 0 arrives after the operation has been destroyed and touches
   nothing of it. *)
Example C19_stoponrequest_example_callback_completes :
  let c := run step [0; 0; 0; 2; 2; 2; 2; 2; 3; 1] (init 1 all_of none_of, []) in
  snd c = [EReg 0 false; EReg 1 false; ECas INIT; ESet 1; EXchg ALLC; EDereg 1 true;
           EDereg 0 false; ERoot; EDestroy; ESet 0] /\
  completions (fst c) = 1 /\ late (fst c) = 0 /\ badtd (fst c) = 0 /\ quiescent (fst c) = true /\
  cb (fst c) 0 = BUnlinked /\ cb (fst c) 1 = BRemoved /\ rq (fst c) 1 = RFin.
Proof. vm_compute. repeat split; reflexivity. Qed.

(* n = 2, the receiver's source already stopped before start(): callback 0 runs inline (exchange
   reads INIT), the CAS fails, start() completes inline; nothing is requested afterwards. *)
Example C19_stoponrequest_example_prestopped :
  let c := run step [0; 0; 0; 0; 0; 0; 0; 0; 4] (init 2 none_of (only 0), []) in
  snd c = [EReg 0 true; EXchg INIT; EReg 1 false; EReg 2 false; ECas ATLEAST; EDereg 1 false;
           EDereg 2 false; ERoot; EDestroy] /\
  completions (fst c) = 1 /\ late (fst c) = 0 /\ quiescent (fst c) = true /\
  cb (fst c) 0 = BInline.
Proof. vm_compute. repeat split; reflexivity. Qed.

(* nothing is ever stopped: the operation stays pending for ever *)
Example C19_stoponrequest_example_never_stopped :
  let c := run step [0; 0; 0; 0; 1; 2; 3; 4; 0] (init 2 none_of none_of, []) in
  snd c = [EReg 0 false; EReg 1 false; EReg 2 false; ECas INIT] /\
  completions (fst c) = 0 /\ quiescent (fst c) = true /\ cbs (fst c) = ALLC.
Proof. vm_compute. repeat split; reflexivity. Qed.
