From Coq Require Import List Bool Arith.
From V Require Import Base.Sched Proto.DetachOnCancelDefs Proto.DetachOnCancelProofs.
Import ListNotations.
Import DetachOnCancel.

(* threads: 0 = start(), 1 = thread A (the child's completion), 2 = thread B (request_stop on the
   receiver's stop source, runs the stop callback), 3 = thread D (the receiver's owner destroys
   the parent operation).  [valid p]: a child that completes only on seeing the stop (inline), or
   only after the receiver completed (hold), is run with a stop request. *)

Theorem C19_detach_one_completer : forall (p : params) (sched : list nat),
  let s := fst (run step sched (init p, [])) in
  length (delivered s) <= 1 /\
  (valid p = true -> quiescent s = true -> length (delivered s) = 1).
Proof. exact one_completer. Qed.
Print Assumptions C19_detach_one_completer.

Theorem C19_detach_result : forall (p : params) (sched : list nat),
  let s := fst (run step sched (init p, [])) in
  forall o t, In (o, t) (delivered s) ->
    (t = 1 /\ o = p_out p /\ wp s = true) \/
    (t <> 1 /\ t = cbt s /\ o = ODone /\ wp s = false).
Proof. exact result. Qed.
Print Assumptions C19_detach_result.

Theorem C19_detach_done_at_once : forall (p : params) (sched : list nat),
  let s := fst (run step sched (init p, [])) in
  cb_won s = true ->
  (exists s' evs, step (cbt s) s = Some (s', evs)) /\
  delivered s = [] /\
  delivered (fst (run step (repeat (cbt s) 4) (s, []))) = [(ODone, cbt s)].
Proof. exact done_at_once. Qed.
Print Assumptions C19_detach_done_at_once.

Theorem C19_detach_child_freed_exactly_once : forall (p : params) (sched : list nat),
  let s := fst (run step sched (init p, [])) in
  freed s <= 1 /\
  (valid p = true -> quiescent s = true -> freed s = 1 /\ opd s = true /\ owned s = false).
Proof. exact child_freed_exactly_once. Qed.
Print Assumptions C19_detach_child_freed_exactly_once.

Theorem C19_detach_never_used_after_free : forall (p : params) (sched : list nat),
  let s := fst (run step sched (init p, [])) in
  late s = 0 /\ underflow s = false /\ wc s <= 2.
Proof. exact never_used_after_free. Qed.
Print Assumptions C19_detach_never_used_after_free.

Theorem C19_detach_callback_torn_down_before_completion : forall (p : params) (sched : list nat),
  let s := fst (run step sched (init p, [])) in
  cbdtor s <= 1 /\ (delivered s <> [] -> torn_down s = true).
Proof. exact callback_torn_down_before_completion. Qed.
Print Assumptions C19_detach_callback_torn_down_before_completion.

Theorem C19_detach_quiescent_is_final : forall (p : params) (sched : list nat),
  let s := fst (run step sched (init p, [])) in
  valid p = true -> quiescent s = true ->
  p0 s = T0Fin /\ (pa s = AFin \/ p_inl p = true) /\ pb s = BFin /\
  (cb s = CIdle \/ cb s = CFin) /\ opd s = true.
Proof. exact quiescent_is_final. Qed.
Print Assumptions C19_detach_quiescent_is_final.

Definition mk v m i h := {| p_out := v; p_stop := m; p_inl := i; p_hold := h |}.

(* done at once while the child is still running: the callback on thread B wins the CAS and
   completes the receiver with done; thread A (the child's completion) has not moved, nothing is
   freed yet, the heap state was released to the child.  Then D destroys the parent operation
   (frees nothing) and only afterwards the child completes on A and deletes the heap state. *)
Example C19_detach_example_done_while_child_runs :
  let mid := run step [0; 0; 2; 2; 2; 2; 2; 2] (init (mk OVal Stop false true), []) in
  let c := run step [0; 0; 2; 2; 2; 2; 2; 2; 3; 1] (init (mk OVal Stop false true), []) in
  (delivered (fst mid) = [(ODone, 2)] /\ pa (fst mid) = AGet GSub /\ freed (fst mid) = 0 /\
   owned (fst mid) = false /\ reg (fst mid) = RRemoved /\ quiescent (fst mid) = false /\
   snd mid = [EExtReg false; ESrcReg false; EExtSet; EWLoad true 1; EWCas true 1 true; ESrcSet;
              EWSub false 2; EExtDereg; ERoot ODone]) /\
  (quiescent (fst c) = true /\ delivered (fst c) = [(ODone, 2)] /\ freed (fst c) = 1 /\
   opd (fst c) = true /\ late (fst c) = 0 /\
   snd c = snd mid ++ [EOpDestroyed; EWSub false 1; EChildDestroyed]).
Proof. vm_compute. repeat split; reflexivity. Qed.

(* the child wins while the callback is executing on B: A's deregistration has to wait (the third
   scheduling of thread 1 is a blocked step) until B stored callbackCompleted_; the parent's
   destructor frees the heap state *)
Example C19_detach_example_dereg_waits_for_callback :
  let blocked := run step [0; 0; 2; 1; 1] (init (mk OErr Stop false false), []) in
  let c := run step [0; 0; 2; 1; 1; 1; 2; 2; 1; 3] (init (mk OErr Stop false false), []) in
  (pa (fst blocked) = AGet GWait /\ step 1 (fst blocked) = None /\ reg (fst blocked) = RExec) /\
  (quiescent (fst c) = true /\ delivered (fst c) = [(OErr, 1)] /\ freed (fst c) = 1 /\
   reg (fst c) = RCompleted /\ late (fst c) = 0 /\
   snd c = [EExtReg false; ESrcReg false; EExtSet; EWSub true 1; EExtDereg; EWLoad true 0;
            ECbDone; ECbWait; ERoot OErr; EChildDestroyed; EOpDestroyed]).
Proof. vm_compute. repeat split; reflexivity. Qed.

(* stop requested before start: request_stop runs inline inside the callback's constructor and
   completes the receiver before the child is even started; D destroys the parent operation; start()
   then starts the child on the released heap state, the child sees the stop, completes inside its
   start() and deletes the heap state *)
Example C19_detach_example_prestop_inline :
  let c := run step [0; 0; 0; 0; 0; 3; 0; 0] (init (mk OVal PreStop true false), []) in
  quiescent (fst c) = true /\ delivered (fst c) = [(ODone, 0)] /\ freed (fst c) = 1 /\
  reg (fst c) = RInline /\ late (fst c) = 0 /\
  snd c = [EExtReg true; EWLoad true 1; EWCas true 1 true; ESrcSet; EWSub false 2; ERoot ODone;
           EOpDestroyed; ESrcReg true; EWSub false 1; EChildDestroyed].
Proof. vm_compute. repeat split; reflexivity. Qed.

(* the child completes with done inside stopSource_.request_stop(): its try_get_op loses (2 -> 1),
   the callback's own fetch_sub reads 1 and the callback frees the heap state itself (reset) *)
Example C19_detach_example_child_completes_inside_request_stop :
  let c := run step [0; 0; 2; 2; 2; 2; 2; 2; 2; 3] (init (mk ODone Stop true false), []) in
  quiescent (fst c) = true /\ delivered (fst c) = [(ODone, 2)] /\ freed (fst c) = 1 /\
  snd c = [EExtReg false; ESrcReg false; EExtSet; EWLoad true 1; EWCas true 1 true; ESrcSet;
           EWSub false 2; EWSub false 1; EExtDereg; EChildDestroyed; ERoot ODone; EOpDestroyed].
Proof. vm_compute. repeat split; reflexivity. Qed.

(* the hypotheses of the quiescence statements are met non-trivially, and [valid] is needed: a
   held child without any stop request never completes (nobody can move, nothing delivered) *)
Example C19_detach_example_valid_needed :
  let c := run step [0; 0] (init (mk OVal NoStop false true), []) in
  quiescent (fst c) = true /\ delivered (fst c) = [] /\ valid (mk OVal NoStop false true) = false.
Proof. vm_compute. repeat split; reflexivity. Qed.
