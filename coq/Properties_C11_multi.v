(* C11 (static-traits half), n-ary trait formulas: let_value with n value signatures, let_error with n
   error types, when_all with n children, n-ary sequence, variant_sender<S...>.

   Model: Calc/TraitsMultiDefs.v (mirrors of the header formulas over LISTS + operational semantics over
   component senders); proofs: Calc/TraitsMultiProofs.v.  Every theorem quantifies over ALL lists of
   components (any n), all behaviours picked from them, all start contexts.

   [X_run args t c o] (TraitsMultiProofs.v) reads: every component is sound (its declared traits hold
   for each of its behaviours), t is the combinator's sender_traits as the headers compute them from
   the components' declared traits, and o is an observation the combinator's semantics produces when
   started on context c for some choice of component behaviours (and completion order / thrown flag). *)
From Coq Require Import List Bool Arith.
From V Require Import Calc.TraitsDefs Calc.TraitsMultiDefs Calc.TraitsMultiProofs.
Import ListNotations.
Import CalcTraits TraitsMulti.

(* ---- let_value ------------------------------------------------------------------------------- *)
Theorem C11_multi_let_value_always_inline : forall p succs t c o,
  let_value_run p succs t c o -> t_blocking t = BAlwaysInline -> o_time o = TInline.
Proof. exact let_value_always_inline_sound. Qed.
Print Assumptions C11_multi_let_value_always_inline.
Theorem C11_multi_let_value_always : forall p succs t c o,
  let_value_run p succs t c o -> t_blocking t = BAlways -> o_time o <> TAsync.
Proof. exact let_value_always_sound. Qed.
Print Assumptions C11_multi_let_value_always.
Theorem C11_multi_let_value_never : forall p succs t c o,
  let_value_run p succs t c o -> t_blocking t = BNever -> o_time o <> TInline.
Proof. exact let_value_never_sound. Qed.
Print Assumptions C11_multi_let_value_never.
Theorem C11_multi_let_value_sends_done : forall p succs t c o,
  let_value_run p succs t c o -> t_sends_done t = false -> o_out o <> ODone.
Proof. exact let_value_sends_done_sound. Qed.
Print Assumptions C11_multi_let_value_sends_done.
Theorem C11_multi_let_value_affine : forall p succs t c o,
  let_value_run p succs t c o -> t_affine t = true -> o_ctx o = c.
Proof. exact let_value_affine_sound. Qed.
Print Assumptions C11_multi_let_value_affine.

(* ---- let_error ------------------------------------------------------------------------------- *)
Theorem C11_multi_let_error_always_inline : forall src finals t c o,
  let_error_run src finals t c o -> t_blocking t = BAlwaysInline -> o_time o = TInline.
Proof. exact let_error_always_inline_sound. Qed.
Print Assumptions C11_multi_let_error_always_inline.
Theorem C11_multi_let_error_always : forall src finals t c o,
  let_error_run src finals t c o -> t_blocking t = BAlways -> o_time o <> TAsync.
Proof. exact let_error_always_sound. Qed.
Print Assumptions C11_multi_let_error_always.
Theorem C11_multi_let_error_never : forall src finals t c o,
  let_error_run src finals t c o -> t_blocking t = BNever -> o_time o <> TInline.
Proof. exact let_error_never_sound. Qed.
Print Assumptions C11_multi_let_error_never.
Theorem C11_multi_let_error_sends_done : forall src finals t c o,
  let_error_run src finals t c o -> t_sends_done t = false -> o_out o <> ODone.
Proof. exact let_error_sends_done_sound. Qed.
Print Assumptions C11_multi_let_error_sends_done.
Theorem C11_multi_let_error_affine : forall src finals t c o,
  let_error_run src finals t c o -> t_affine t = true -> o_ctx o = c.
Proof. exact let_error_affine_sound. Qed.
Print Assumptions C11_multi_let_error_affine.

(* ---- when_all (REPAIRED blocking formula: never only carries over from the child started last) ---- *)
Theorem C11_multi_when_all_always_inline : forall cs t c o,
  when_all_run cs t c o -> t_blocking t = BAlwaysInline -> o_time o = TInline.
Proof. exact when_all_always_inline_sound. Qed.
Print Assumptions C11_multi_when_all_always_inline.
Theorem C11_multi_when_all_always : forall cs t c o,
  when_all_run cs t c o -> t_blocking t = BAlways -> o_time o <> TAsync.
Proof. exact when_all_always_sound. Qed.
Print Assumptions C11_multi_when_all_always.
Theorem C11_multi_when_all_never : forall cs t c o,
  when_all_run cs t c o -> t_blocking t = BNever -> o_time o <> TInline.
Proof. exact when_all_never_sound. Qed.
Print Assumptions C11_multi_when_all_never.
Theorem C11_multi_when_all_sends_done : forall cs t c o,
  when_all_run cs t c o -> t_sends_done t = false -> o_out o <> ODone.
Proof. exact when_all_sends_done_sound. Qed.
Print Assumptions C11_multi_when_all_sends_done.
Theorem C11_multi_when_all_affine : forall cs t c o,
  when_all_run cs t c o -> t_affine t = true -> o_ctx o = c.
Proof. exact when_all_affine_sound. Qed.
Print Assumptions C11_multi_when_all_affine.
(* the formula AS FOUND (when_all.hpp compute_blocking = max_element over the children): the statement
     forall cs t c o, when_all_asfound_run cs t c o -> t_blocking t = BNever -> o_time o <> TInline
   is FALSE: *)
Theorem C11_multi_when_all_asfound_never_refuted :
  exists cs t c o, when_all_asfound_run cs t c o /\ t_blocking t = BNever /\ o_time o = TInline.
Proof. exact when_all_asfound_never_refuted. Qed.
Print Assumptions C11_multi_when_all_asfound_never_refuted.
(* what held for it: never is sound when the child that is started last declares it *)
Theorem C11_multi_when_all_asfound_never_partial : forall cs t c o lastc,
  when_all_asfound_run cs t c o ->
  nth_error cs (length cs - 1) = Some lastc -> t_blocking (declared lastc) = BNever ->
  o_time o <> TInline.
Proof. exact when_all_asfound_never_sound_partial. Qed.
Print Assumptions C11_multi_when_all_asfound_never_partial.
(* and the repair changes no trait unless never was claimed *)
Theorem C11_multi_when_all_repair_conservative : forall l t0,
  tr_when_all_asfound l = Some t0 -> t_blocking t0 <> BNever -> tr_when_all l = Some t0.
Proof. exact when_all_repair_conservative. Qed.
Print Assumptions C11_multi_when_all_repair_conservative.

(* ---- stop_when (REPAIRED blocking formula, same defect and same repair as when_all) ------------- *)
Theorem C11_multi_stop_when_always_inline : forall src trg t c o,
  stop_when_run src trg t c o -> t_blocking t = BAlwaysInline -> o_time o = TInline.
Proof. exact stop_when_always_inline_sound. Qed.
Print Assumptions C11_multi_stop_when_always_inline.
Theorem C11_multi_stop_when_always : forall src trg t c o,
  stop_when_run src trg t c o -> t_blocking t = BAlways -> o_time o <> TAsync.
Proof. exact stop_when_always_sound. Qed.
Print Assumptions C11_multi_stop_when_always.
Theorem C11_multi_stop_when_never : forall src trg t c o,
  stop_when_run src trg t c o -> t_blocking t = BNever -> o_time o <> TInline.
Proof. exact stop_when_never_sound. Qed.
Print Assumptions C11_multi_stop_when_never.
Theorem C11_multi_stop_when_sends_done : forall src trg t c o,
  stop_when_run src trg t c o -> t_sends_done t = false -> o_out o <> ODone.
Proof. exact stop_when_sends_done_sound. Qed.
Print Assumptions C11_multi_stop_when_sends_done.
Theorem C11_multi_stop_when_affine : forall src trg t c o,
  stop_when_run src trg t c o -> t_affine t = true -> o_ctx o = c.
Proof. exact stop_when_affine_sound. Qed.
Print Assumptions C11_multi_stop_when_affine.
(* AS FOUND (stop_when.hpp: blocking = max(source, trigger)) *)
Theorem C11_multi_stop_when_asfound_never_refuted :
  exists src trg t c o, stop_when_asfound_run src trg t c o /\ t_blocking t = BNever /\ o_time o = TInline.
Proof. exact stop_when_asfound_never_refuted. Qed.
Print Assumptions C11_multi_stop_when_asfound_never_refuted.

(* ---- variant_sender -------------------------------------------------------------------------- *)
Theorem C11_multi_variant_always_inline : forall cs t c o,
  variant_run cs t c o -> t_blocking t = BAlwaysInline -> o_time o = TInline.
Proof. exact variant_always_inline_sound. Qed.
Print Assumptions C11_multi_variant_always_inline.
Theorem C11_multi_variant_always : forall cs t c o,
  variant_run cs t c o -> t_blocking t = BAlways -> o_time o <> TAsync.
Proof. exact variant_always_sound. Qed.
Print Assumptions C11_multi_variant_always.
Theorem C11_multi_variant_never : forall cs t c o,
  variant_run cs t c o -> t_blocking t = BNever -> o_time o <> TInline.
Proof. exact variant_never_sound. Qed.
Print Assumptions C11_multi_variant_never.
Theorem C11_multi_variant_sends_done : forall cs t c o,
  variant_run cs t c o -> t_sends_done t = false -> o_out o <> ODone.
Proof. exact variant_sends_done_sound. Qed.
Print Assumptions C11_multi_variant_sends_done.
Theorem C11_multi_variant_affine : forall cs t c o,
  variant_run cs t c o -> t_affine t = true -> o_ctx o = c.
Proof. exact variant_affine_sound. Qed.
Print Assumptions C11_multi_variant_affine.

(* ---- sequence (n-ary) ------------------------------------------------------------------------ *)
Theorem C11_multi_sequence_always_inline : forall first rest t c o,
  sequence_run first rest t c o -> t_blocking t = BAlwaysInline -> o_time o = TInline.
Proof. exact sequence_always_inline_sound. Qed.
Print Assumptions C11_multi_sequence_always_inline.
Theorem C11_multi_sequence_always : forall first rest t c o,
  sequence_run first rest t c o -> t_blocking t = BAlways -> o_time o <> TAsync.
Proof. exact sequence_always_sound. Qed.
Print Assumptions C11_multi_sequence_always.
Theorem C11_multi_sequence_never : forall first rest t c o,
  sequence_run first rest t c o -> t_blocking t = BNever -> o_time o <> TInline.
Proof. exact sequence_never_sound. Qed.
Print Assumptions C11_multi_sequence_never.
Theorem C11_multi_sequence_sends_done : forall first rest t c o,
  sequence_run first rest t c o -> t_sends_done t = false -> o_out o <> ODone.
Proof. exact sequence_sends_done_sound. Qed.
Print Assumptions C11_multi_sequence_sends_done.
Theorem C11_multi_sequence_affine : forall first rest t c o,
  sequence_run first rest t c o -> t_affine t = true -> o_ctx o = c.
Proof. exact sequence_affine_sound. Qed.
Print Assumptions C11_multi_sequence_affine.

(* ---- the n-ary mirrors extend the unary/binary mirrors of Calc/TraitsDefs.v ------------------- *)
Theorem C11_multi_let_value_agrees : forall p s, tr_let_value p [s] = Some (CalcTraits.tr_let_value p s).
Proof. exact let_value_agrees_binary. Qed.
Print Assumptions C11_multi_let_value_agrees.
Theorem C11_multi_let_error_agrees : forall p s, tr_let_error p [s] = Some (CalcTraits.tr_let_error p s).
Proof. exact let_error_agrees_binary. Qed.
Print Assumptions C11_multi_let_error_agrees.
Theorem C11_multi_when_all_agrees : forall a b, tr_when_all [a; b] = Some (CalcTraits.tr_when_all a b).
Proof. exact when_all_agrees_binary. Qed.
Print Assumptions C11_multi_when_all_agrees.
Theorem C11_multi_stop_when_agrees : forall a b, tr_stop_when a b = CalcTraits.tr_stop_when a b.
Proof. exact stop_when_agrees_binary. Qed.
Print Assumptions C11_multi_stop_when_agrees.

(* ---- the seeded formula (affinity as a disjunction over the successors) is unsound ------------ *)
Theorem C11_multi_let_value_disjunction_unsound :
  exists p succs t c pb sbs o,
    sound_comp p = true /\ forallb sound_comp succs = true /\
    tr_let_value_disj (declared p) (map declared succs) = Some t /\
    In pb (behs p) /\ picks succs sbs /\ let_value_obs c pb sbs false = Some o /\
    t_affine t = true /\ o_ctx o <> c.
Proof. exact let_value_disjunction_unsound. Qed.
Print Assumptions C11_multi_let_value_disjunction_unsound.

(* ---- the hypotheses are satisfiable by non-trivial runs ---------------------------------------- *)
Definition af_inline (outs : list outcome) : comp :=
  {| declared := {| t_blocking := BAlwaysInline; t_sends_done := false; t_affine := true |};
     behs := map (fun o => {| b_time := TInline; b_out := o; b_ctx := None |}) outs |}.
Definition af_async : comp :=
  {| declared := {| t_blocking := BNever; t_sends_done := true; t_affine := true |};
     behs := [ {| b_time := TAsync; b_out := OVal 5; b_ctx := None |};
               {| b_time := TSync; b_out := ODone; b_ctx := None |} ] |}.

(* three value signatures, three different successor types, branch 2 taken: declared affine and never
   not claimed (maybe), completes asynchronously on the start context *)
Example let_value_run_three_signatures :
  exists t o, let_value_run (af_inline [OVal 0; OVal 1; OVal 2])
                            [af_inline [OVal 7]; foreign_succ; af_async] t 4 o /\
              t_affine t = false /\ t_blocking t = BMaybe /\ t_sends_done t = true /\
              o = {| o_time := TAsync; o_out := OVal 5; o_ctx := 4 |}.
Proof.
  do 2 eexists. split.
  {
  split; [reflexivity|]. split; [reflexivity|]. split; [reflexivity|].
  exists {| b_time := TInline; b_out := OVal 2; b_ctx := None |},
         [ {| b_time := TInline; b_out := OVal 7; b_ctx := None |};
           {| b_time := TAsync; b_out := OVal 0; b_ctx := Some 7 |};
           {| b_time := TAsync; b_out := OVal 5; b_ctx := None |} ], false.
  split; [right; right; left; reflexivity|]. split; [|reflexivity].
  repeat (constructor; [left; reflexivity|]). constructor. }
  repeat split.
Qed.

Example let_value_run_affine :
  exists t o, let_value_run (af_inline [OVal 0; OVal 1]) [af_inline [OVal 7]; af_async] t 4 o /\
              t_affine t = true /\ o_ctx o = 4 /\ o_time o = TAsync.
Proof.
  do 2 eexists. split.
  {
  split; [reflexivity|]. split; [reflexivity|]. split; [reflexivity|].
  exists {| b_time := TInline; b_out := OVal 1; b_ctx := None |},
         [ {| b_time := TInline; b_out := OVal 7; b_ctx := None |};
           {| b_time := TAsync; b_out := OVal 5; b_ctx := None |} ], false.
  split; [right; left; reflexivity|]. split; [|reflexivity].
  repeat (constructor; [left; reflexivity|]). constructor. }
  repeat split.
Qed.

(* when_all of three children, the never-declaring one in the middle: the repaired formula claims maybe *)
Example when_all_run_three :
  exists t o, when_all_run [af_inline [OVal 0]; af_async; af_inline [OErr 3]] t 4 o /\
              t_blocking t = BMaybe /\ t_affine t = true /\
              o = {| o_time := TAsync; o_out := OErr 3; o_ctx := 4 |}.
Proof.
  do 2 eexists. split.
  {
  split; [reflexivity|]. split; [reflexivity|].
  exists [ {| b_time := TInline; b_out := OVal 0; b_ctx := None |};
           {| b_time := TAsync; b_out := OVal 5; b_ctx := None |};
           {| b_time := TInline; b_out := OErr 3; b_ctx := None |} ], [0; 2; 1].
  split; [|vm_compute; reflexivity].
  repeat (constructor; [left; reflexivity|]). constructor. }
  repeat split.
Qed.

(* the never-declaring child started last: never is claimed and holds *)
Example when_all_run_never_last :
  exists t o, when_all_run [af_inline [OVal 0]; af_async] t 4 o /\
              t_blocking t = BNever /\ o = {| o_time := TSync; o_out := ODone; o_ctx := 4 |}.
Proof.
  do 2 eexists. split.
  {
  split; [reflexivity|]. split; [reflexivity|].
  exists [ {| b_time := TInline; b_out := OVal 0; b_ctx := None |};
           {| b_time := TSync; b_out := ODone; b_ctx := None |} ], [0; 1].
  split; [|vm_compute; reflexivity].
  constructor; [left; reflexivity|]. constructor; [right; left; reflexivity|]. constructor. }
  repeat split.
Qed.

Example stop_when_run_never_trigger :
  exists t o, stop_when_run (af_inline [OVal 3]) af_async t 4 o /\
              t_blocking t = BNever /\ t_affine t = true /\
              o = {| o_time := TAsync; o_out := OVal 3; o_ctx := 4 |}.
Proof.
  do 2 eexists. split.
  {
  split; [reflexivity|]. split; [reflexivity|]. split; [reflexivity|].
  exists {| b_time := TInline; b_out := OVal 3; b_ctx := None |},
         {| b_time := TAsync; b_out := OVal 5; b_ctx := None |}, [0; 1].
  split; [left; reflexivity|]. split; [left; reflexivity|]. vm_compute. reflexivity. }
  repeat split.
Qed.

Example sequence_run_three :
  exists t o, sequence_run (af_inline [OVal 0]) [af_async; af_inline [OVal 9]] t 4 o /\
              t_blocking t = BMaybe /\ t_affine t = true /\ t_sends_done t = true /\
              o = {| o_time := TAsync; o_out := OVal 9; o_ctx := 4 |}.
Proof.
  do 2 eexists. split.
  {
  split; [reflexivity|]. split; [reflexivity|]. split; [reflexivity|].
  exists {| b_time := TInline; b_out := OVal 0; b_ctx := None |},
         [ {| b_time := TAsync; b_out := OVal 5; b_ctx := None |};
           {| b_time := TInline; b_out := OVal 9; b_ctx := None |} ].
  split; [left; reflexivity|]. split; [|reflexivity].
  repeat (constructor; [left; reflexivity|]). constructor. }
  repeat split.
Qed.
