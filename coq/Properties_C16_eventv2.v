(* C16, v2::async_manual_reset_event with cancellable waiters: theorems about the EventV2 model
   (Proto/EventV2Defs.v).  First parameter of init: false = include/unifex/cancellable.hpp as it is in the
   tree, true = the repair proposed for the cancellable findings (start_done bit); second: the event starts set.

   Two kinds of statements (see Proto/EventV2Proofs.v):
   * `..._partial` with explicit `progs` : for ALL thread programs over Set | Reset | Ready | Wait w | Stop w
     and ALL schedules (parts of the full property that have a parametric proof);
   * statements over `In i instances`: PER INSTANCE - for each of the 10 fixed thread-program sets of
     `instances` (<= 2 waiters, one or two setters, a resetter, stop requesters, ready; both variants of
     cancellable) and ALL schedules, by a kernel-checked complete reachable-set invariant. *)
From Coq Require Import List Bool Arith.
From V Require Import Base.Sched Proto.EventV2Defs Proto.EventV2Proofs.
Import ListNotations.
Import EventV2.

(* ---- all programs, all schedules ---------------------------------------------------------------------- *)

(* Every wait is completed at most once. *)
Theorem C16_eventv2_each_once_partial : forall (fx sig0 : bool) (progs : list (list cmd)) (sched : list nat),
  let s := fst (run step sched (init fx sig0 progs, [])) in
  forall k, length (o_res (getop s k)) <= 1.
Proof. exact each_once_partial. Qed.
Print Assumptions C16_eventv2_each_once_partial.

(* No stranded wait, at every moment: a latched (set) event has no waiter on its list - a wait racing with
   set() is either drained by it or finds the latch. *)
Theorem C16_eventv2_no_waiter_on_latched_event_partial :
  forall (fx sig0 : bool) (progs : list (list cmd)) (sched : list nat),
  let s := fst (run step sched (init fx sig0 progs, [])) in
  latched s = true -> evl s = [].
Proof. exact no_waiter_on_latched_event_partial. Qed.
Print Assumptions C16_eventv2_no_waiter_on_latched_event_partial.

(* The lock bit of the head word has exactly one holder of the right kind (a push between claim and publish;
   a set() or reset() between lock and unlock), a push that is going to publish saw the event unlatched, and
   a set() that is going to latch holds an empty list. *)
Theorem C16_eventv2_latch_inv : forall (fx sig0 : bool) (progs : list (list cmd)) (sched : list nat),
  LatchInv (fst (run step sched (init fx sig0 progs, []))).
Proof. exact latch_inv_reachable. Qed.
Print Assumptions C16_eventv2_latch_inv.

(* reset() only affects later waits: both steps of reset() leave the waiter list, every wait operation and
   every setter's local list untouched (they change the latch and the lock bit of the head word only). *)
Theorem C16_eventv2_reset_later_only_partial : forall t s s' evs th,
  nth_error (thr s) t = Some th -> (pc th = AResetAcq \/ pc th = AResetRel) -> kont th = KCmd ->
  step t s = Some (s', evs) ->
  evl s' = evl s /\ ops s' = ops s /\ map loc (thr s') = map loc (thr s) /\
  late_state s' = late_state s /\ late_self s' = late_self s /\ late_other s' = late_other s.
Proof. exact reset_later_only_partial. Qed.
Print Assumptions C16_eventv2_reset_later_only_partial.

(* quiet_after_completion is FALSE for cancellable.hpp as it is (KNOWN_FINDINGS event_v2/touched-after-completion/
   state:O and self:L): after the receiver of a wait has been completed by set() on another thread,
   stop_type::start() still executes state_.fetch_or(started) (w1_sched), resp. calls the nested stop() whose
   try_remove reads the list node (w2_sched).  The schedules are the projections of the failing runs of the
   real code: k1_event_v2 `0 W0 S X0 K` --replay 0:3,1:2,2:3,12:1 and 0:3,1:2,2:3,13:1. *)
Theorem C16_eventv2_quiet_after_completion_refuted :
  (exists progs sched, let s := fst (run step sched (init false false progs, [])) in
     0 < late_state s + late_self s) /\
  (let c := run step w1_sched (init false false refute_progs, []) in
   late_state (fst c) = 1 /\ late_self (fst c) = 0 /\ o_res (getop (fst c) 0) = [OValue] /\ quiescent (fst c) = true /\
   firstn 4 (rev (snd c)) = [ESyncLd 0 true; ECsOr 0 5 7; EPopNone; EValue 0]) /\
  (let c := run step w2_sched (init false false refute_progs, []) in
   late_state (fst c) = 0 /\ late_self (fst c) = 1 /\ o_res (getop (fst c) 0) = [OValue] /\ quiescent (fst c) = true /\
   firstn 3 (rev (snd c)) = [ERemove 0 false; EPopNone; EValue 0]).
Proof. exact quiet_after_completion_refuted. Qed.
Print Assumptions C16_eventv2_quiet_after_completion_refuted.

(* ---- per instance (In i instances), all schedules -------------------------------------------------------- *)

(* Each wait completes at most once; with set_value only if a set() drained it and popped it from its local
   list or its own push found the event latched; with set_done only if its stop callback removed it from the
   list after a stop request; a removed (cancelled) wait is never signalled. *)
Theorem C16_eventv2_value_iff_set_done_iff_removed : forall fx i, In i instances -> forall sched k,
  let s := fst (run step sched (init fx (i_sig0 i) (i_progs i), [])) in
  k < length (ops s) ->
  let o := getop s k in
  length (o_res o) <= 1 /\
  (o_res o = [OValue] -> o_how o = Some HLatched \/ o_how o = Some HDrained) /\
  (o_res o = [ODone] -> o_how o = Some HRemoved /\ o_req o = true) /\
  (o_how o = Some HRemoved -> o_res o = [] \/ o_res o = [ODone]).
Proof. exact each_wait_once_value_iff_set_done_iff_removed. Qed.
Print Assumptions C16_eventv2_value_iff_set_done_iff_removed.

(* A wait started while the event is set completes with value inside start(), without another set(). *)
Theorem C16_eventv2_wait_on_set_event_completes_at_once : forall fx i, In i instances -> forall sched k,
  let s := fst (run step sched (init fx (i_sig0 i) (i_progs i), [])) in
  k < length (ops s) ->
  let o := getop s k in
  o_how o = Some HLatched -> o_ret o = true -> o_res o = [OValue].
Proof. exact wait_on_set_event_completes_at_once. Qed.
Print Assumptions C16_eventv2_wait_on_set_event_completes_at_once.

(* Progress: as long as some thread has not finished its program some thread can move (no deadlock: every
   spin - head lock, stack flag of start(), callback deregistration, start_done - has its releaser). *)
Theorem C16_eventv2_progress : forall fx i, In i instances -> forall sched,
  let s := fst (run step sched (init fx (i_sig0 i) (i_progs i), [])) in
  quiescent s = false -> exists t, step t s <> None.
Proof. exact progress. Qed.
Print Assumptions C16_eventv2_progress.

(* Exactly once, no stranded wait, no lost completion: when every thread has run its whole program, every wait
   that left the list has been completed exactly once (value if drained or latched, done if removed) and every
   other started wait is still on the list of an event that is NOT set and whose stop was NOT requested; no
   drained waiter is left on a setter's local list and the head lock is free. *)
Theorem C16_eventv2_exactly_once_at_quiescence : forall fx i, In i instances -> forall sched,
  let s := fst (run step sched (init fx (i_sig0 i) (i_progs i), [])) in
  quiescent s = true ->
  hl s = HFree /\ (forall th, In th (thr s) -> loc th = []) /\
  forall k, k < length (ops s) ->
    let o := getop s k in
    match o_how o with
    | Some HRemoved => o_res o = [ODone]
    | Some _ => o_res o = [OValue]
    | None => o_res o = [] /\ (o_ret o = true -> In k (evl s) /\ o_req o = false /\ latched s = false)
    end.
Proof. exact exactly_once_at_quiescence. Qed.
Print Assumptions C16_eventv2_exactly_once_at_quiescence.

(* quiet_after_completion, partial: after the receiver of a wait has been completed no thread accesses the
   operation (state word, list node at the granularity of try_remove's answer, stop callback object)
   - for the repaired cancellable on every instance, and for the code as it is on the instances whose set()
   cannot race a start() (i_quiet: the setter is the thread that started the waits).  The stop callback
   object is never touched late in either variant.  MISSING for the full statement: the code as it is when
   set() runs on another thread than start() - there it is false (C16_eventv2_quiet_after_completion_refuted);
   the link words of the list (atomic_intrusive_list try_lock_checking, finding event_v2/.../rest:[CL]) are
   below this model's granularity (model AtomicList, property C15). *)
Theorem C16_eventv2_quiet_after_completion_partial : forall fx i, In i instances -> forall sched,
  let s := fst (run step sched (init fx (i_sig0 i) (i_progs i), [])) in
  (fx = true \/ i_quiet i = true -> late_state s = 0 /\ late_self s = 0 /\ late_other s = 0) /\
  late_other s = 0.
Proof.
  intros fx i Hi sched. cbv zeta. split.
  - exact (quiet_after_completion_partial fx i Hi sched).
  - exact (callback_quiet fx i Hi sched).
Qed.
Print Assumptions C16_eventv2_quiet_after_completion_partial.

(* ---- the hypotheses are met by concrete runs ------------------------------------------------------------- *)

(* waiters 0 and 1, set() by thread 2, reset() by thread 3, stop of waiter 1 by thread 4 (an instance): the
   stop callback removes waiter 1 from the setter's local list after the drain, waiter 0 is resumed *)
Example C16_eventv2_example_cancel_after_drain :
  let i := {| i_sig0 := false; i_progs := [[CWait 0]; [CWait 1]; [CSet]; [CReset]; [CStop 1]]; i_quiet := false |} in
  let sched := [0;0;0;0;0; 1;1;1;1;1; 2;2;2; 4;4;4;4;4;4;4; 2;2;2;2;2; 2; 3;3] in
  let c := run step sched (init false false (i_progs i), []) in
  In i instances /\ quiescent (fst c) = true /\ latched (fst c) = false /\
  o_res (getop (fst c) 0) = [OValue] /\ o_how (getop (fst c) 0) = Some HDrained /\
  o_res (getop (fst c) 1) = [ODone] /\ o_how (getop (fst c) 1) = Some HRemoved /\
  late_state (fst c) + late_self (fst c) + late_other (fst c) = 0.
Proof. vm_compute. repeat split; auto 10. Qed.

(* the event starts set: wait 0 completes inside start(); reset(); wait 1 then stays on the list *)
Example C16_eventv2_example_set_then_reset :
  let progs := [[CWait 0; CReady]; [CReset; CWait 1]; [CStop 0]; [CSet]] in
  let sched := [0;0;0;0;0;0;0;0; 1;1; 1;1;1;1;1; 0; 2] in
  let s := fst (run step sched (init false true progs, [])) in
  o_how (getop s 0) = Some HLatched /\ o_res (getop s 0) = [OValue] /\ o_ret (getop s 0) = true /\
  latched s = false /\ evl s = [1] /\ o_res (getop s 1) = [] /\ o_ret (getop s 1) = true.
Proof. vm_compute. repeat split. Qed.

(* the two refuting schedules on the repaired cancellable: set()'s try_complete waits for start_done *)
Example C16_eventv2_example_repaired_same_schedules :
  (let s := fst (run step (w1_sched ++ [1;1;1;1]) (init true false refute_progs, [])) in
   late_state s + late_self s + late_other s = 0 /\ o_res (getop s 0) = [OValue] /\ quiescent s = true) /\
  (let s := fst (run step (w2_sched ++ [0;0;1;1;1;1]) (init true false refute_progs, [])) in
   late_state s + late_self s + late_other s = 0 /\ o_res (getop s 0) = [OValue] /\ quiescent s = true).
Proof. exact repaired_same_schedules. Qed.
