(* C06, unit 3: atomic_intrusive_queue (model Proto/AtomicQueueDefs.v).
   Thread 0 = the consumer (a script of operations), threads 1..k = producers calling enqueue(). *)
From Coq Require Import List Bool Arith.
From V Require Import Base.Sched Proto.AtomicQueueDefs Proto.AtomicQueueProofs.
Import ListNotations.
Import AtomicQueue.

(* dequeue_all / dequeue_all_reversed / try_mark_inactive_or_dequeue_all lose nothing, duplicate
   nothing and restore FIFO: the batches handed to the consumer (a stack from dequeue_all_reversed
   read backwards; an item handed back by enqueue_or_mark_active as a batch of one), concatenated,
   followed by what still hangs off head_ (oldest first), are the items in the order of their
   successful enqueue / enqueue_or_mark_active CAS.  [kinds] says which producers call
   enqueue_or_mark_active instead of enqueue. *)
Theorem C06_queue_fifo_no_loss_no_dup :
  forall (a0 : bool) (counts : list nat) (kinds : list bool) (ops : list cop) (sched : list nat),
  let c := run step sched (init a0 counts kinds ops, []) in
  enqs (snd c) = batches (snd c) ++ rev (stack (fst c)) /\ NoDup (enqs (snd c)).
Proof. exact fifo_no_loss. Qed.
Print Assumptions C06_queue_fifo_no_loss_no_dup.

Theorem C06_queue_batches_nodup :
  forall (a0 : bool) (counts : list nat) (kinds : list bool) (ops : list cop) (sched : list nat),
  NoDup (batches (snd (run step sched (init a0 counts kinds ops, [])))).
Proof. exact batches_nodup. Qed.
Print Assumptions C06_queue_batches_nodup.

(* enqueue() returns "consumer was inactive" to exactly one producer between two successful
   try_mark_inactive (the consumer's own try_mark_active counts as the wake-up when it wins):
   in every reachable configuration
     #successful try_mark_inactive (+1 if constructed inactive)
       = #enqueue returned true + #successful try_mark_active (+1 if inactive now).
   As this holds after every step of every schedule, the successful marks and the wake-ups
   alternate strictly. *)
Theorem C06_queue_enqueue_inactive_unique :
  forall (a0 : bool) (counts : list nat) (kinds : list bool) (ops : list cop) (sched : list nat),
  let c := run step sched (init a0 counts kinds ops, []) in
  n_marks (snd c) + b2n (negb a0) =
  n_wakes (snd c) + n_actives (snd c) + b2n (inactive (fst c)).
Proof. exact enqueue_inactive_unique. Qed.
Print Assumptions C06_queue_enqueue_inactive_unique.

(* enqueue() returns true exactly when its CAS replaced the inactive marker; that CAS re-activates
   the queue *)
Theorem C06_queue_wake_iff_cas_from_inactive :
  forall (a0 : bool) (counts : list nat) (kinds : list bool) (ops : list cop) (sched1 : list nat)
         (t : nat) (s' : st) (evs : list ev) (it : item),
  let c1 := run step sched1 (init a0 counts kinds ops, []) in
  step t (fst c1) = Some (s', evs) ->
  (In (EWake it) evs <-> In (EEnqCas PInactive it true) evs) /\
  (In (EWake it) evs -> inactive (fst c1) = true /\ inactive s' = false /\ t = fst it /\
                        evs = [EEnqCas PInactive it true; EWake it]).
Proof. exact wake_iff_cas_from_inactive. Qed.
Print Assumptions C06_queue_wake_iff_cas_from_inactive.

(* the same for enqueue_or_mark_active (what v1 async_mutex uses): it returns false -- the item is
   handed straight back to the caller, which now owns the re-activated, empty queue -- exactly when
   its CAS replaced the inactive marker.  In the theorems above such an item counts as a batch of
   one (it is linearised at that CAS, where the chain is empty) and as a wake-up. *)
Theorem C06_queue_direct_iff_cas_from_inactive :
  forall (a0 : bool) (counts : list nat) (kinds : list bool) (ops : list cop) (sched1 : list nat)
         (t : nat) (s' : st) (evs : list ev) (it : item),
  let c1 := run step sched1 (init a0 counts kinds ops, []) in
  step t (fst c1) = Some (s', evs) ->
  (In (EDirect it) evs <-> In (EOrmCas PInactive it true true) evs) /\
  (In (EDirect it) evs -> inactive (fst c1) = true /\ inactive s' = false /\ t = fst it /\
                          evs = [EOrmCas PInactive it true true; EDirect it]).
Proof. exact direct_iff_cas_from_inactive. Qed.
Print Assumptions C06_queue_direct_iff_cas_from_inactive.

Theorem C06_queue_inactive_means_empty :
  forall (a0 : bool) (counts : list nat) (kinds : list bool) (ops : list cop) (sched : list nat),
  let s := fst (run step sched (init a0 counts kinds ops, [])) in
  inactive s = true -> stack s = [] /\ cons s = CStart.
Proof. exact inactive_empty. Qed.
Print Assumptions C06_queue_inactive_means_empty.

(* with a consumer script that ends in the final drain (wait for the producers, try_mark_active,
   dequeue_all): when everything has finished every item of every producer has been handed to the
   consumer exactly once, in the order of the successful CASes, and head_ is nullptr *)
Theorem C06_queue_final_all_delivered :
  forall (a0 : bool) (counts : list nat) (kinds : list bool) (pre : list cop) (sched : list nat),
  let c := run step sched (init a0 counts kinds (pre ++ [OpFinal]), []) in
  final (fst c) = true ->
  batches (snd c) = enqs (snd c) /\ NoDup (batches (snd c)) /\ stack (fst c) = [] /\
  forall i n j, nth_error counts i = Some n -> j < n -> In (S i, j) (batches (snd c)).
Proof. exact final_all_delivered. Qed.
Print Assumptions C06_queue_final_all_delivered.

Theorem C06_queue_inv_reachable :
  forall (a0 : bool) (counts : list nat) (kinds : list bool) (ops : list cop) (sched : list nat),
  Inv a0 (fst (run step sched (init a0 counts kinds ops, []))).
Proof. exact inv_reachable. Qed.
Print Assumptions C06_queue_inv_reachable.

(* consumer script M M F, producers with 2 and 1 items: the consumer marks itself inactive;
   producer 1's first enqueue replaces the marker (returns true), its second does not; the consumer
   takes the batch [1.0; 1.1] (FIFO restored); producer 2 enqueues; the final drain finds the queue
   active (try_mark_active fails) and takes [2.0] *)
Example C06_queue_example :
  let c := run step [0; 0; 1; 1; 1; 1; 0; 0; 2; 2; 0; 0; 0] (init true [2; 1] [] [OpInactiveOrDeq; OpInactiveOrDeq; OpFinal], []) in
  final (fst c) = true /\ delivered (fst c) = [(1, 0); (1, 1); (2, 0)] /\
  marks (fst c) = 1 /\ wakes (fst c) = 1 /\ actives (fst c) = 0 /\
  snd c = [ELoad PNull; EMarkInactive PNull true; EBatch [];
           ELoad PInactive; EEnqCas PInactive (1, 0) true; EWake (1, 0);
           ELoad (PItem (1, 0)); EEnqCas (PItem (1, 0)) (1, 1) true;
           ELoad (PItem (1, 1)); EXchg (PItem (1, 1)); EBatch [(1, 0); (1, 1)];
           ELoad PNull; EEnqCas PNull (2, 0) true;
           EMarkActive (PItem (2, 0)) false; ELoad (PItem (2, 0)); EXchg (PItem (2, 0)); EBatch [(2, 0)]].
Proof. vm_compute. repeat split; reflexivity. Qed.

(* two producers race on the inactive marker: both load it, producer 2's CAS wins and is the one
   told to wake the consumer; producer 1's CAS fails, retries on top of 2.0 and is told nothing *)
Example C06_queue_example_race_on_marker :
  let c := run step [1; 2; 2; 1; 1] (init false [1; 1] [] [OpFinal], []) in
  snd c = [ELoad PInactive; ELoad PInactive; EEnqCas PInactive (2, 0) true; EWake (2, 0);
           EEnqCas (PItem (2, 0)) (1, 0) false; EEnqCas (PItem (2, 0)) (1, 0) true] /\
  wakes (fst c) = 1 /\ stack (fst c) = [(1, 0); (2, 0)] /\ inactive (fst c) = false.
Proof. vm_compute. repeat split; reflexivity. Qed.

(* producer 1 uses enqueue_or_mark_active on an inactive queue: its first item replaces the marker
   and is handed back (EDirect), its second is linked in; the consumer takes it with
   dequeue_all_reversed *)
Example C06_queue_example_or_mark_active :
  let c := run step [1; 1; 1; 1; 0; 0] (init false [2] [true] [OpDeqRev; OpFinal], []) in
  snd c = [ELoad PInactive; EOrmCas PInactive (1, 0) true true; EDirect (1, 0);
           ELoad PNull; EOrmCas PNull (1, 1) false true;
           ELoad (PItem (1, 1)); EXchg (PItem (1, 1)); EBatchRev [(1, 1)]] /\
  delivered (fst c) = [(1, 0); (1, 1)] /\ wakes (fst c) = 1 /\ inactive (fst c) = false.
Proof. vm_compute. repeat split; reflexivity. Qed.
