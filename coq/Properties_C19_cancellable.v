(* C19, unit 1: cancellable<> / try_complete (Proto/CancellableDefs.v, Proto/CancellableProofs.v).
   Threads of the model: 0 = start() (including a synchronous completion inside nested.start(), the
   stop callback run inline by the registration and nested.stop() called from start()),
   1 = the completion on thread A, 2 = the stop request on thread B with the stop callback,
   3 = the destruction of the operation by the receiver's owner once the receiver completed.
   Parameters: early = StopsEarly; nm = what nested.start() does (NSync: completes inside start();
   NAsync: hands the completion to thread A; NNone: only stop() completes);
   fx = false: cancellable.hpp as it is in the tree, fx = true: with the proposed start_done repair. *)
From Coq Require Import List Bool Arith.
From V Require Import Base.Sched Proto.CancellableDefs Proto.CancellableProofs.
Import ListNotations.
Import Cancellable.

(* one_completer: at most one completion in every state of every schedule; exactly one when no
   thread can move any more (so: no deadlock, no lost completion), and then the operation has been
   destroyed, start() and the stop request have returned *)
Theorem C19_cancellable_one_completer : forall (p : params) (sched : list nat),
  let s := fst (run (step p) sched (init p, [])) in
  length (completions s) <= 1 /\
  (quiescent p s = true ->
     length (completions s) = 1 /\ destroyed s = true /\ p0 s = S0Fin /\ pB s = B2Fin /\
     (pA s = A1Fin \/ slot s = SIdle)).
Proof. exact one_completer. Qed.
Print Assumptions C19_cancellable_one_completer.

(* the user's stop hook runs at most once and only after nested.start() returned - or, in
   StopsEarly mode, instead of it (hook_bad is set by any other hook call) *)
Theorem C19_cancellable_stop_hook : forall (p : params) (sched : list nat),
  let s := fst (run (step p) sched (init p, [])) in
  hooks s <= 1 /\ hook_bad s = false.
Proof. exact stop_hook_once_only_if_started. Qed.
Print Assumptions C19_cancellable_stop_hook.

(* done is delivered only after a stop request; when the receiver is completed the stop callback
   is no longer registered and not running on another thread; the stack flag of start() is never
   written after start() returned *)
Theorem C19_cancellable_side_conditions : forall (p : params) (sched : list nat),
  let s := fst (run (step p) sched (init p, [])) in
  (forall r, completions s = ODone :: r -> src s = true) /\
  (freed s = true -> cb s <> CbReg /\ cb s <> CbRun) /\
  dangling s = 0.
Proof. exact completion_side_conditions. Qed.
Print Assumptions C19_cancellable_side_conditions.

(* a by-product: with a nested operation that obeys the contract (natural completion and stop()
   arbitrate on their own word first, like every client in the library) the `completed` test of
   try_complete is never contended: no call returns false *)
Theorem C19_cancellable_try_complete_never_loses : forall (p : params) (sched : list nat),
  lost (fst (run (step p) sched (init p, []))) = 0.
Proof. exact try_complete_never_loses. Qed.
Print Assumptions C19_cancellable_try_complete_never_loses.

(* quiet_after_completion.  FULL STATEMENT (wanted for fx = false, the tree):
     forall p sched, late (fst (run (step p) sched (init p, []))) = 0.
   It is FALSE for the code as it is when the completion is handed to another thread (next
   theorem); proved here: for the repaired protocol in all modes, and for the code as it is in
   the modes where the nested operation completes synchronously or only through stop(). *)
Theorem C19_cancellable_quiet_after_completion_partial : forall (p : params) (sched : list nat),
  let s := fst (run (step p) sched (init p, [])) in
  fx p = true \/ nm p <> NAsync -> late s = 0.
Proof. exact quiet_after_completion_cond. Qed.
Print Assumptions C19_cancellable_quiet_after_completion_partial.

(* the code as it is (fx = false), StopsEarly or not, completion on thread A: two schedules after
   which a member of the operation is accessed although the receiver has been completed:
   W1 the access is stop_type::start()'s state_.fetch_or(started) (cancellable.hpp:95),
   W2 it is nested.stop() called from start() (cancellable.hpp:97). *)
Theorem C19_cancellable_quiet_after_completion_refuted : forall e : bool,
  let p := {| early := e; nm := NAsync; fx := false |} in
  (exists sched, 0 < late (fst (run (step p) sched (init p, [])))) /\
  (let c := run (step p) (w1_sched e) (init p, []) in
   late (fst c) = 1 /\ completions (fst c) = [OVal] /\
   firstn 2 (rev (snd c)) = [EStOr 4 6; ERoot OVal]) /\
  (let c := run (step p) (w2_sched e) (init p, []) in
   late (fst c) = 1 /\ completions (fst c) = [OVal] /\ hooks (fst c) = 1 /\
   firstn 2 (rev (snd c)) = [ENStop; ERoot OVal]).
Proof. exact quiet_after_completion_refuted. Qed.
Print Assumptions C19_cancellable_quiet_after_completion_refuted.

(* the reachable-set certificate itself: every state of every run satisfies the decidable
   predicate P_all (all of the above plus: start_done is never set by the code as it is) *)
Theorem C19_cancellable_invariant : forall (p : params) (sched : list nat),
  P_all p (fst (run (step p) sched (init p, []))) = true.
Proof. exact P_all_reachable. Qed.
Print Assumptions C19_cancellable_invariant.

(* ---- the hypotheses are met by concrete non-trivial runs ---------------------------------- *)

(* as is, completion during start(): try_complete inside nested.start() stores the stack flag;
   the stop request arrives meanwhile, its callback sees `completed` and does not call the hook;
   cleanup waits for the callback (DEREG, then the callbackCompleted_ load); the receiver is
   completed, the owner destroys the operation, start() reads its flag and returns without
   touching a member *)
Example C19_cancellable_example_sync :
  let p := {| early := false; nm := NSync; fx := false |} in
  let c := run (step p) [0; 0; 0; 0; 2; 2; 0; 2; 0; 0; 3; 0] (init p, []) in
  quiescent p (fst c) = true /\ completions (fst c) = [OVal] /\ hooks (fst c) = 0 /\
  late (fst c) = 0 /\ destroyed (fst c) = true /\
  snd c = [EReg false; ENStart; EStOr 0 4; ESyncS; ESet; EStOr 4 5; EDereg; ECbS; ECbL;
           ERoot OVal; EStL 5; EDestroyed; ESyncL true].
Proof. vm_compute. repeat split; reflexivity. Qed.

(* as is, stop before start (the callback runs inline in its constructor), nothing else
   completes: start()'s fetch_or(started) returns `stopped`, start() calls the hook, the hook wins
   try_complete and delivers done *)
Example C19_cancellable_example_stop_before_start :
  let p := {| early := false; nm := NNone; fx := false |} in
  let c := run (step p) [2; 0; 0; 0; 0; 0; 0; 0; 0; 3] (init p, []) in
  quiescent p (fst c) = true /\ completions (fst c) = [ODone] /\ hooks (fst c) = 1 /\
  hook_bad (fst c) = false /\ late (fst c) = 0 /\
  snd c = [ESet; EReg true; EStOr 0 1; ENStart; ESyncL false; EStOr 1 3; ENStop; EStOr 3 7;
           ERoot ODone; EStL 7; EDestroyed].
Proof. vm_compute. repeat split; reflexivity. Qed.

(* StopsEarly, stop before start: nested.stop() INSTEAD of nested.start() *)
Example C19_cancellable_example_stops_early :
  let p := {| early := true; nm := NAsync; fx := false |} in
  let c := run (step p) [2; 0; 0; 0; 0; 0; 0; 0; 3] (init p, []) in
  quiescent p (fst c) = true /\ completions (fst c) = [ODone] /\ hooks (fst c) = 1 /\
  hook_bad (fst c) = false /\ nst (fst c) = NS0 /\
  snd c = [ESet; EReg true; EStOr 0 1; EStL 1; ENStop; ESlotC 0 3 false; EStOr 1 5;
           ERoot ODone; EStL 5; EDestroyed].
Proof. vm_compute. repeat split; reflexivity. Qed.

(* repaired protocol, the schedule of W1: thread A wins try_complete before start() set `started`
   and now WAITS (its next step is disabled) until start() has executed fetch_or(started) and
   fetch_or(start_done); only then is the receiver completed: late = 0 *)
Example C19_cancellable_example_fixed_w1 :
  let p := {| early := false; nm := NAsync; fx := true |} in
  let mid := run (step p) [0; 0; 0; 0; 1; 1] (init p, []) in
  let c := run (step p) [0; 0; 0; 0; 1; 1; 0; 0; 1; 1; 1; 3] (init p, []) in
  (pA (fst mid) = A1Tc TWaitSD /\ step p 1 (fst mid) = None) /\
  quiescent p (fst c) = false /\ step p 2 (fst c) <> None /\
  completions (fst c) = [OVal] /\ late (fst c) = 0 /\ p0 (fst c) = S0Fin /\
  snd c = [EReg false; ENStart; ESlotS; ESyncL false; ESlotC 1 2 true; EStOr 0 4;
           EStOr 4 6; EStOr 6 22; EStL 22; EDereg; ERoot OVal; EStL 22; EDestroyed].
Proof. vm_compute. repeat split; try reflexivity; discriminate. Qed.
