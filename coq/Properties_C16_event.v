(* C16, event half: v1::async_manual_reset_event (model Proto/EventV1Defs.v).
   Every theorem: for all initial flags, all thread programs over set / reset / ready / wait w
   (any number of threads and waiters, each waiter id started at most once = NoDup of the ids
   in the programs) and ALL schedules. *)
From Coq Require Import List Bool Arith.
From V Require Import Base.Sched Proto.EventV1Defs Proto.EventV1Proofs.
Import ListNotations.
Import EventV1.

(* the state invariant: the waiters linked from state_ through the next_ fields are exactly the
   auxiliary list stk (empty when signalled); a thread between load and CAS has written its
   next_ and its expected value is not `this`; a setter's cursor heads a well-formed chain (never
   `this`, never dangling); every waiter id is in exactly one class *)
Theorem C16_event_invariant : forall (sig0 : bool) (progs : list (list cmd)) (sched : list nat),
  NoDup (all_waits progs) ->
  Inv (all_waits progs) (fst (run step sched (init sig0 progs, []))).
Proof. exact inv_reachable. Qed.
Print Assumptions C16_event_invariant.

Theorem C16_event_classification : forall (sig0 : bool) (progs : list (list cmd)) (sched : list nat),
  NoDup (all_waits progs) ->
  let s := fst (run step sched (init sig0 progs, [])) in
  forall w,
    cnt w (future s) + cnt w (inflight s) + cnt w (pending s) + cnt w (stk s) + cnt w (resumed s)
    = if in_dec Nat.eq_dec w (all_waits progs) then 1 else 0.
Proof. exact classification. Qed.
Print Assumptions C16_event_classification.

(* each waiter is resumed at most once; the trace shows exactly these resumptions *)
Theorem C16_event_each_waiter_once : forall (sig0 : bool) (progs : list (list cmd)) (sched : list nat),
  NoDup (all_waits progs) ->
  let c := run step sched (init sig0 progs, []) in
  NoDup (resumed (fst c)) /\ resumes (snd c) = rev (resumed (fst c)).
Proof. exact each_waiter_once. Qed.
Print Assumptions C16_event_each_waiter_once.

(* the event is a linearizable flag: every load / exchange / CAS in the trace returns
   `signalled` iff the last set() exchange is not followed by a reset() CAS that succeeded (or
   the initial value), a waiter is pushed only onto a non-signalled event, reset succeeds iff
   signalled, ready() answers the flag; and the final word agrees *)
Theorem C16_event_flag_history : forall (sig0 : bool) (progs : list (list cmd)) (sched : list nat),
  NoDup (all_waits progs) ->
  let c := run step sched (init sig0 progs, []) in
  hist_ok sig0 (snd c) = true /\ is_sig (top (fst c)) = sig_of sig0 (snd c).
Proof. exact flag_history. Qed.
Print Assumptions C16_event_flag_history.

(* state = signalled => no waiter on the stack; otherwise the stack is the next_ chain; the
   waiters on it are exactly those whose push succeeded with no set() exchange since, and none
   of them has been resumed *)
Theorem C16_event_stack_shape : forall (sig0 : bool) (progs : list (list cmd)) (sched : list nat),
  NoDup (all_waits progs) ->
  let c := run step sched (init sig0 progs, []) in
  let s := fst c in
  (top s = PSig -> stk s = []) /\
  (top s <> PSig -> linked (nxt s) (top s) (stk s)) /\
  (forall w, In w (stk s) <-> wst_of w (snd c) = WPushed) /\
  (forall w, In w (stk s) -> ~ In w (resumed s)).
Proof. exact stack_shape. Qed.
Print Assumptions C16_event_stack_shape.

(* a wait completes iff the event is or becomes set: resumed only if the waiter itself read
   `signalled` (at its load or at a failed CAS) or a set() exchange took the stack while it was
   on it; reading `signalled` resumes without another set(); a waiter taken by a set() is resumed
   or still owed by that setter (whatever reset() does meanwhile) *)
Theorem C16_event_wait_iff_set : forall (sig0 : bool) (progs : list (list cmd)) (sched : list nat),
  NoDup (all_waits progs) ->
  let c := run step sched (init sig0 progs, []) in
  let s := fst c in
  forall w,
    (In w (resumed s) -> wst_of w (snd c) = WObs \/ wst_of w (snd c) = WTaken) /\
    (wst_of w (snd c) = WObs -> In w (resumed s)) /\
    (wst_of w (snd c) = WTaken -> In w (resumed s) \/ In w (pending s)).
Proof. exact wait_iff_set. Qed.
Print Assumptions C16_event_wait_iff_set.

(* when every thread has run its program: every waiter was resumed or is still on the stack;
   every waiter taken by a set() was resumed; if the event ends signalled, all were resumed *)
Theorem C16_event_no_stranded_wait : forall (sig0 : bool) (progs : list (list cmd)) (sched : list nat),
  NoDup (all_waits progs) ->
  let c := run step sched (init sig0 progs, []) in
  let s := fst c in
  quiescent s = true ->
  (forall w, In w (all_waits progs) -> In w (resumed s) \/ In w (stk s)) /\
  (forall w, wst_of w (snd c) = WTaken -> In w (resumed s)) /\
  (is_sig (top s) = true -> forall w, In w (all_waits progs) -> In w (resumed s)).
Proof. exact no_stranded_wait. Qed.
Print Assumptions C16_event_no_stranded_wait.

(* no reachable state is stuck before quiescence (in particular set() never follows `this`) *)
Theorem C16_event_progress : forall (sig0 : bool) (progs : list (list cmd)) (sched : list nat),
  NoDup (all_waits progs) ->
  let s := fst (run step sched (init sig0 progs, [])) in
  quiescent s = false -> exists t, step t s <> None.
Proof. exact progress. Qed.
Print Assumptions C16_event_progress.

(* reset only affects later waits: its step changes the flag word and nothing else *)
Theorem C16_event_reset_only_flag : forall t s s' evs p ok,
  step t s = Some (s', evs) -> In (EResetCas p ok) evs ->
  resumed s' = resumed s /\ stk s' = stk s /\ nxt s' = nxt s /\
  pending s' = pending s /\ inflight s' = inflight s /\
  (top s' = if ok then PNull else top s).
Proof. exact reset_only_flag. Qed.
Print Assumptions C16_event_reset_only_flag.

(* the auxiliary lists (stk, the list carried by PPop) never influence a step *)
Theorem C16_event_aux_erasable : forall t s,
  erase_res (step t (erase s)) = erase_res (step t s).
Proof. exact step_erase. Qed.
Print Assumptions C16_event_aux_erasable.

(* threads: 0 = W0, 1 = W1, 2 = set, 3 = W2, 4 = reset.
   w0 pushes; w1 loads (sees w0) ; set exchanges (takes [w0]); w1's CAS fails on `signalled`
   and resumes itself; reset wins; w2 then pushes onto the reset event and stays; the setter
   still resumes w0 after the reset. *)
Example C16_event_example_race :
  let progs := [[CWait 0]; [CWait 1]; [CSet]; [CWait 2]; [CReset]] in
  let c := run step [0; 0; 1; 2; 1; 4; 3; 3; 2] (init false progs, []) in
  NoDup (all_waits progs) /\
  quiescent (fst c) = true /\ resumed (fst c) = [0; 1] /\ stk (fst c) = [2] /\
  top (fst c) = POp 2 /\
  wst_of 0 (snd c) = WTaken /\ wst_of 1 (snd c) = WObs /\ wst_of 2 (snd c) = WPushed /\
  snd c = [EWaitLoad 0 PNull; EWaitCas 0 PNull true; EWaitLoad 1 (POp 0); ESetX (POp 0);
           EWaitCas 1 PSig false; EResume 1; EResetCas PSig true;
           EWaitLoad 2 PNull; EWaitCas 2 PNull true; EResume 0].
Proof.
  split.
  - cbn. repeat constructor; cbn; intuition congruence.
  - vm_compute. repeat split; reflexivity.
Qed.

(* two waiters on the stack, popped in LIFO order by one set; a second set finds `signalled` *)
Example C16_event_example_two_pops :
  let progs := [[CWait 0]; [CWait 1]; [CSet; CReady]; [CSet]] in
  let mid := run step [0; 0; 1; 1; 2; 3] (init false progs, []) in
  let c := run step [0; 0; 1; 1; 2; 3; 2; 2; 2] (init false progs, []) in
  (pending (fst mid) = [1; 0] /\ resumed (fst mid) = [] /\ top (fst mid) = PSig /\ stk (fst mid) = []) /\
  quiescent (fst c) = true /\ resumed (fst c) = [0; 1] /\
  snd c = [EWaitLoad 0 PNull; EWaitCas 0 PNull true; EWaitLoad 1 (POp 0); EWaitCas 1 (POp 0) true;
           ESetX (POp 1); ESetX PSig; EResume 1; EResume 0; EReadyLoad PSig; EReady true].
Proof. vm_compute. repeat split; reflexivity. Qed.
