(* C16, event half: v1::async_manual_reset_event (model Proto/EventV1Defs.v).
   Every theorem: for all initial flags, all thread programs over set / reset / ready / wait w
   (any number of threads and waiters, each waiter id started at most once = NoDup of the ids
   in the programs) and ALL schedules. *)
From Coq Require Import List Bool Arith.
From V Require Import Base.Sched Proto.EventV1Defs Proto.EventV1Proofs.
From V Require Proto.AutoResetDefs Proto.AutoResetProofs.
Import ListNotations.
Import EventV1.

(* the state invariant: the waiters linked from state_ through the next_ fields are exactly the
   auxiliary list stk (empty when signalled); a thread between load and CAS has written its
   next_ and its expected value is not `this`; a setter's cursor heads a well-formed chain (never
   `this`, never dangling); every waiter id is in exactly one class *)
Theorem C16_event_invariant : forall (sig0 : bool) (progs : list (list cmd)) (sched : list nat),
  NoDup (all_waits progs) ->
  Inv (all_waits progs) (fst (run step sched (init sig0 progs, []))).
Proof. exact inv_reachable. Qed.
Print Assumptions C16_event_invariant.

Theorem C16_event_classification : forall (sig0 : bool) (progs : list (list cmd)) (sched : list nat),
  NoDup (all_waits progs) ->
  let s := fst (run step sched (init sig0 progs, [])) in
  forall w,
    cnt w (future s) + cnt w (inflight s) + cnt w (pending s) + cnt w (stk s) + cnt w (resumed s)
    = if in_dec Nat.eq_dec w (all_waits progs) then 1 else 0.
Proof. exact classification. Qed.
Print Assumptions C16_event_classification.

(* each waiter is resumed at most once; the trace shows exactly these resumptions *)
Theorem C16_event_each_waiter_once : forall (sig0 : bool) (progs : list (list cmd)) (sched : list nat),
  NoDup (all_waits progs) ->
  let c := run step sched (init sig0 progs, []) in
  NoDup (resumed (fst c)) /\ resumes (snd c) = rev (resumed (fst c)).
Proof. exact each_waiter_once. Qed.
Print Assumptions C16_event_each_waiter_once.

(* the event is a linearizable flag: every load / exchange / CAS in the trace returns
   `signalled` iff the last set() exchange is not followed by a reset() CAS that succeeded (or
   the initial value), a waiter is pushed only onto a non-signalled event, reset succeeds iff
   signalled, ready() answers the flag; and the final word agrees *)
Theorem C16_event_flag_history : forall (sig0 : bool) (progs : list (list cmd)) (sched : list nat),
  NoDup (all_waits progs) ->
  let c := run step sched (init sig0 progs, []) in
  hist_ok sig0 (snd c) = true /\ is_sig (top (fst c)) = sig_of sig0 (snd c).
Proof. exact flag_history. Qed.
Print Assumptions C16_event_flag_history.

(* state = signalled => no waiter on the stack; otherwise the stack is the next_ chain; the
   waiters on it are exactly those whose push succeeded with no set() exchange since, and none
   of them has been resumed *)
Theorem C16_event_stack_shape : forall (sig0 : bool) (progs : list (list cmd)) (sched : list nat),
  NoDup (all_waits progs) ->
  let c := run step sched (init sig0 progs, []) in
  let s := fst c in
  (top s = PSig -> stk s = []) /\
  (top s <> PSig -> linked (nxt s) (top s) (stk s)) /\
  (forall w, In w (stk s) <-> wst_of w (snd c) = WPushed) /\
  (forall w, In w (stk s) -> ~ In w (resumed s)).
Proof. exact stack_shape. Qed.
Print Assumptions C16_event_stack_shape.

(* a wait completes iff the event is or becomes set: resumed only if the waiter itself read
   `signalled` (at its load or at a failed CAS) or a set() exchange took the stack while it was
   on it; reading `signalled` resumes without another set(); a waiter taken by a set() is resumed
   or still owed by that setter (whatever reset() does meanwhile) *)
Theorem C16_event_wait_iff_set : forall (sig0 : bool) (progs : list (list cmd)) (sched : list nat),
  NoDup (all_waits progs) ->
  let c := run step sched (init sig0 progs, []) in
  let s := fst c in
  forall w,
    (In w (resumed s) -> wst_of w (snd c) = WObs \/ wst_of w (snd c) = WTaken) /\
    (wst_of w (snd c) = WObs -> In w (resumed s)) /\
    (wst_of w (snd c) = WTaken -> In w (resumed s) \/ In w (pending s)).
Proof. exact wait_iff_set. Qed.
Print Assumptions C16_event_wait_iff_set.

(* when every thread has run its program: every waiter was resumed or is still on the stack;
   every waiter taken by a set() was resumed; if the event ends signalled, all were resumed *)
Theorem C16_event_no_stranded_wait : forall (sig0 : bool) (progs : list (list cmd)) (sched : list nat),
  NoDup (all_waits progs) ->
  let c := run step sched (init sig0 progs, []) in
  let s := fst c in
  quiescent s = true ->
  (forall w, In w (all_waits progs) -> In w (resumed s) \/ In w (stk s)) /\
  (forall w, wst_of w (snd c) = WTaken -> In w (resumed s)) /\
  (is_sig (top s) = true -> forall w, In w (all_waits progs) -> In w (resumed s)).
Proof. exact no_stranded_wait. Qed.
Print Assumptions C16_event_no_stranded_wait.

(* no reachable state is stuck before quiescence (in particular set() never follows `this`) *)
Theorem C16_event_progress : forall (sig0 : bool) (progs : list (list cmd)) (sched : list nat),
  NoDup (all_waits progs) ->
  let s := fst (run step sched (init sig0 progs, [])) in
  quiescent s = false -> exists t, step t s <> None.
Proof. exact progress. Qed.
Print Assumptions C16_event_progress.

(* reset only affects later waits: its step changes the flag word and nothing else *)
Theorem C16_event_reset_only_flag : forall t s s' evs p ok,
  step t s = Some (s', evs) -> In (EResetCas p ok) evs ->
  resumed s' = resumed s /\ stk s' = stk s /\ nxt s' = nxt s /\
  pending s' = pending s /\ inflight s' = inflight s /\
  (top s' = if ok then PNull else top s).
Proof. exact reset_only_flag. Qed.
Print Assumptions C16_event_reset_only_flag.

(* the auxiliary lists (stk, the list carried by PPop) never influence a step *)
Theorem C16_event_aux_erasable : forall t s,
  erase_res (step t (erase s)) = erase_res (step t s).
Proof. exact step_erase. Qed.
Print Assumptions C16_event_aux_erasable.

(* threads: 0 = W0, 1 = W1, 2 = set, 3 = W2, 4 = reset.
   w0 pushes; w1 loads (sees w0) ; set exchanges (takes [w0]); w1's CAS fails on `signalled`
   and resumes itself; reset wins; w2 then pushes onto the reset event and stays; the setter
   still resumes w0 after the reset. *)
Example C16_event_example_race :
  let progs := [[CWait 0]; [CWait 1]; [CSet]; [CWait 2]; [CReset]] in
  let c := run step [0; 0; 1; 2; 1; 4; 3; 3; 2] (init false progs, []) in
  NoDup (all_waits progs) /\
  quiescent (fst c) = true /\ resumed (fst c) = [0; 1] /\ stk (fst c) = [2] /\
  top (fst c) = POp 2 /\
  wst_of 0 (snd c) = WTaken /\ wst_of 1 (snd c) = WObs /\ wst_of 2 (snd c) = WPushed /\
  snd c = [EWaitLoad 0 PNull; EWaitCas 0 PNull true; EWaitLoad 1 (POp 0); ESetX (POp 0);
           EWaitCas 1 PSig false; EResume 1; EResetCas PSig true;
           EWaitLoad 2 PNull; EWaitCas 2 PNull true; EResume 0].
Proof.
  split.
  - cbn. repeat constructor; cbn; intuition congruence.
  - vm_compute. repeat split; reflexivity.
Qed.

(* two waiters on the stack, popped in LIFO order by one set; a second set finds `signalled` *)
Example C16_event_example_two_pops :
  let progs := [[CWait 0]; [CWait 1]; [CSet; CReady]; [CSet]] in
  let mid := run step [0; 0; 1; 1; 2; 3] (init false progs, []) in
  let c := run step [0; 0; 1; 1; 2; 3; 2; 2; 2] (init false progs, []) in
  (pending (fst mid) = [1; 0] /\ resumed (fst mid) = [] /\ top (fst mid) = PSig /\ stk (fst mid) = []) /\
  quiescent (fst c) = true /\ resumed (fst c) = [0; 1] /\
  snd c = [EWaitLoad 0 PNull; EWaitCas 0 PNull true; EWaitLoad 1 (POp 0); EWaitCas 1 (POp 0) true;
           ESetX (POp 1); ESetX PSig; EResume 1; EResume 0; EReadyLoad PSig; EReady true].
Proof. vm_compute. repeat split; reflexivity. Qed.

(* ========================================================================================== *)
(* async_auto_reset_event (model Proto/AutoResetDefs.v, over the embedded EventV1).
   For all initial states, all thread programs over set / set_done / next w (any number of
   producers and consumers, NoDup of the next ids) and ALL schedules. *)
Module AutoResetProps.
Import AutoResetDefs.AutoReset AutoResetProofs.

(* the invariant: at most one thread holds the mutex and it is the one mtx names; a successful
   try_reset in flight implies state_ = UNSET; the embedded event satisfies its own invariant
   Inv1; each thread's program counter matches what its event thread is doing; the header's
   "event_ ready iff state_ is SET or DONE" holds whenever no thread is between its state_ write
   and the matching event_ operation *)
Theorem C16_autoreset_invariant : forall (ready0 : bool) (progs : list (list cmd)) (sched : list nat),
  NoDup (all_nexts progs) ->
  AInv ready0 (all_nexts progs) (fst (run step sched (init ready0 progs, []))).
Proof. exact ainv_reachable. Qed.
Print Assumptions C16_autoreset_invariant.

(* each set() is handed to at most one next(): the nexts completed with value never outnumber
   the UNSET -> SET transitions (plus one if constructed ready), which never outnumber the set()
   calls of the programs *)
Theorem C16_autoreset_set_consumed_at_most_once :
  forall (ready0 : bool) (progs : list (list cmd)) (sched : list nat),
  NoDup (all_nexts progs) ->
  let s := fst (run step sched (init ready0 progs, [])) in
  trues (results s) <= b2n ready0 + effs s /\ effs s <= total_sets progs.
Proof. exact set_consumed_at_most_once. Qed.
Print Assumptions C16_autoreset_set_consumed_at_most_once.

Theorem C16_autoreset_next_completes_once :
  forall (ready0 : bool) (progs : list (list cmd)) (sched : list nat),
  NoDup (all_nexts progs) ->
  let c := run step sched (init ready0 progs, []) in
  NoDup (map fst (results (fst c))) /\
  (forall w, In w (map fst (results (fst c))) -> In w (all_nexts progs)) /\
  nexts (snd c) = rev (results (fst c)).
Proof. exact next_completes_once. Qed.
Print Assumptions C16_autoreset_next_completes_once.

(* DONE is permanent ... *)
Theorem C16_autoreset_done_absorbing :
  forall (ready0 : bool) (progs : list (list cmd)) (sched1 sched2 : list nat),
  s3v (fst (run step sched1 (init ready0 progs, []))) = Done ->
  s3v (fst (run step (sched1 ++ sched2) (init ready0 progs, []))) = Done.
Proof. exact done_absorbing. Qed.
Print Assumptions C16_autoreset_done_absorbing.

(* ... and from then on every next that completes completes with done *)
Theorem C16_autoreset_done_next_is_done :
  forall (ready0 : bool) (progs : list (list cmd)) (sched : list nat),
  NoDup (all_nexts progs) ->
  let s := fst (run step sched (init ready0 progs, [])) in
  forall t s' evs w b,
    s3v s = Done -> step t s = Some (s', evs) -> In (ENext w b) evs -> b = false.
Proof. exact done_next_is_done. Qed.
Print Assumptions C16_autoreset_done_next_is_done.

(* at most one thread inside a critical section; with the mutex free, event_ is ready iff
   state_ is SET or DONE *)
Theorem C16_autoreset_mutex_and_flag :
  forall (ready0 : bool) (progs : list (list cmd)) (sched : list nat),
  NoDup (all_nexts progs) ->
  let s := fst (run step sched (init ready0 progs, [])) in
  pcount holds (thr s) <= 1 /\
  (mtx s = None -> (EventV1.is_sig (EventV1.top (ev s)) = true <-> s3v s <> Unset)).
Proof. exact mutex_and_flag. Qed.
Print Assumptions C16_autoreset_mutex_and_flag.

(* no lost wake-up, no deadlock: in a state where no thread can move, every thread has finished
   its program except nexts suspended on the stack of an UNSET event with the mutex free; in
   particular after set_done (or an unconsumed set) nobody is left waiting *)
Theorem C16_autoreset_only_unset_blocks :
  forall (ready0 : bool) (progs : list (list cmd)) (sched : list nat),
  NoDup (all_nexts progs) ->
  let s := fst (run step sched (init ready0 progs, [])) in
  (forall t, step t s = None) ->
  mtx s = None /\
  forall t th, nth_error (thr s) t = Some th ->
    th_fin th = true \/
    exists w, apc th = ASusp w /\ In w (EventV1.stk (ev s)) /\ ~ In w (EventV1.resumed (ev s)) /\
              s3v s = Unset.
Proof. exact only_unset_blocks. Qed.
Print Assumptions C16_autoreset_only_unset_blocks.

(* with a single consumer (all next commands in one thread's program, i.e. nexts issued one after
   the other) a next completes with done only if the event is DONE: no spurious end of stream *)
Theorem C16_autoreset_single_consumer_done_only_if_done :
  forall (ready0 : bool) (progs : list (list cmd)) (sched : list nat),
  NoDup (all_nexts progs) -> consumers progs <= 1 ->
  let s := fst (run step sched (init ready0 progs, [])) in
  forall w, In (w, false) (results s) -> s3v s = Done.
Proof. exact single_consumer_done_only_if_done. Qed.
Print Assumptions C16_autoreset_single_consumer_done_only_if_done.

(* REFUTED for two or more concurrent consumers: "a next completes with done only if the event
   is DONE".  Witness: two nexts waiting, one set(): both are resumed, the first try_reset wins
   (value), the second finds UNSET and its next-sender completes with done; set_done() is never
   called and the event ends UNSET.  Reproduced on the real code:
   k1_auto_reset 0 N0 N1 S --replay -   (default schedule). *)
Theorem C16_autoreset_spurious_done_refuted :
  exists progs sched,
    NoDup (all_nexts progs) /\ no_set_done progs = true /\
    let s := fst (run step sched (init false progs, [])) in
    In (1, false) (results s) /\ s3v s = Unset /\ quiescent s = true.
Proof. exact spurious_done_refuted. Qed.
Print Assumptions C16_autoreset_spurious_done_refuted.

(* consumer (thread 0) runs two nexts, thread 1 calls set(), thread 2 set_done(): next 0 waits, is
   resumed by the set and consumes it (value, state back to UNSET); next 1 waits, is resumed by
   set_done and completes done *)
Example C16_autoreset_example :
  let progs := [[ANext 0; ANext 1]; [ASet]; [ASetDone]] in
  let c := run step [0; 0; 1; 1; 1; 1; 0; 0; 0; 0; 0; 2; 2; 2; 2; 0; 0] (init false progs, []) in
  results (fst c) = [(1, false); (0, true)] /\ s3v (fst c) = Done /\ quiescent (fst c) = true /\
  effs (fst c) = 1.
Proof. vm_compute. repeat split; reflexivity. Qed.
End AutoResetProps.
