(* C14, first sentence: "work scheduled from any thread runs on the thread inside run() and is never
   lost, including when it is submitted while the loop is blocked waiting or deciding to block;
   run(stop_token) returns after stop is requested" -- for the remote-queue / eventfd wake-up
   protocol shared by io_epoll_context and io_uring_context (model Proto/RemoteQueueDefs.v: any
   number of producers with any number of items each, any number of stoppers, stop requested before
   or during run(), all schedules).  Kernel behaviour (eventfd counter, level-triggered epoll) is
   assumed as modelled.  Tie: K1 lock-step, harness/k1_epoll_rq.cpp on the real io_epoll_context. *)
From Coq Require Import List Bool Arith.
From V Require Import Base.Sched Proto.RemoteQueueDefs Proto.RemoteQueueProofs.
Import ListNotations.
Import RemoteQueue.

(* no lost wake-up: while the I/O thread sleeps in epoll_wait on an unreadable eventfd, either the
   queue is marked inactive and empty (the next enqueue is told to wake it) or a producer that was
   told so is between its enqueue and its write(eventfd) *)
Theorem C14_rq_no_lost_wakeup : forall counts nstop pre (sched : list nat),
  let s := fst (run step sched (init counts nstop pre, [])) in
  blocked s = true ->
  (inactive s = true /\ stack s = []) \/
  (exists i p, nth_error (prods s) i = Some p /\ at_write p = true).
Proof. exact no_lost_wakeup. Qed.
Print Assumptions C14_rq_no_lost_wakeup.

(* at most one wake-up is owed or pending at any time: the eventfd counter never exceeds 1 *)
Theorem C14_rq_eventfd_bounded : forall counts nstop pre (sched : list nat),
  let s := fst (run step sched (init counts nstop pre, [])) in
  tokens s + efd s <= 1.
Proof. exact eventfd_bounded. Qed.
Print Assumptions C14_rq_eventfd_bounded.

(* each item runs at most once, in the order of the enqueues: the items run so far are a
   duplicate-free prefix of the items enqueued so far ... *)
Theorem C14_rq_each_item_once_in_order : forall counts nstop pre (sched : list nat),
  let c := run step sched (init counts nstop pre, []) in
  NoDup (exec_items (snd c)) /\
  exists queued, filter is_work (enq (fst c)) = exec_items (snd c) ++ queued.
Proof. exact each_item_once_in_order. Qed.
Print Assumptions C14_rq_each_item_once_in_order.

(* ... and only the I/O thread (thread 0) runs them *)
Theorem C14_rq_exec_only_on_io_thread : forall counts nstop pre (sched : list nat) t s' evs it,
  let s := fst (run step sched (init counts nstop pre, [])) in
  step t s = Some (s', evs) -> In (EExec it) evs -> t = 0.
Proof. exact exec_only_on_io_thread. Qed.
Print Assumptions C14_rq_exec_only_on_io_thread.

(* run() returns only after a stop request, and everything enqueued before the stop operation has
   run by then *)
Theorem C14_rq_run_returns_only_after_stop : forall counts nstop pre (sched : list nat),
  let s := fst (run step sched (init counts nstop pre, [])) in
  returned s = true ->
  stopped s = true /\
  exists before after, enq s = before ++ IStop :: after /\
    forall it, In it before -> is_work it = true -> In it (executed s).
Proof. exact run_returns_only_after_stop. Qed.
Print Assumptions C14_rq_run_returns_only_after_stop.

(* never lost: when no thread can move, every producer has finished and either run() has returned
   or the I/O thread sleeps with the queue marked inactive, EVERYTHING ever enqueued executed and no
   stop requested *)
Theorem C14_rq_no_stuck : forall counts nstop pre (sched : list nat),
  let s := fst (run step sched (init counts nstop pre, [])) in
  (forall t, step t s = None) ->
  (forall i p, nth_error (prods s) i = Some p -> prod_done p = true \/ (pk p = KProd /\ pp p = PSet)) /\
  (returned s = true \/
   (blocked s = true /\ inactive s = true /\ stopped s = false /\
    filter is_work (enq s) = executed s /\ stack s = [] /\ pending s = [])).
Proof. exact no_stuck. Qed.
Print Assumptions C14_rq_no_stuck.

(* run(stop_token) returns after stop is requested *)
Theorem C14_rq_run_returns_after_stop : forall counts nstop pre (sched : list nat),
  let s := fst (run step sched (init counts nstop pre, [])) in
  stopped s = true -> (forall t, step t s = None) -> returned s = true.
Proof. exact run_returns_after_stop. Qed.
Print Assumptions C14_rq_run_returns_after_stop.

(* the hypotheses are met: two producers with two items each and a stopper; a schedule in which an
   item is submitted while the loop has marked itself inactive and sleeps, and the stop arrives
   while it sleeps again *)
Example C14_rq_example_run :
  let c := run step [0;0;0;1;1;1;0;0;0;0;0;2;2;1;1;0;0;0;0;0;0;2;2;2;0;0;0;0;0;0;0;3;3;3;3;0;0;0;0;0]
               (init [2;2] 1 false, []) in
  returned (fst c) = true /\
  exec_items (snd c) = [IWork 1 0; IWork 2 0; IWork 1 1; IWork 2 1] /\
  enq (fst c) = [IWork 1 0; IWork 2 0; IWork 1 1; IWork 2 1; IStop] /\
  In EWaitRet (snd c).
Proof. vm_compute. repeat split; auto 20. Qed.
