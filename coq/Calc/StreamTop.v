(* The consumer (reduce_stream / for_each) over ANY stream satisfying [spec]: the run-level invariant
   and what it gives about traces.  StreamProofs.v instantiates it with every pipeline. *)
From Coq Require Import ZArith List Bool Arith Lia.
From V Require Import Calc.StreamDefs Calc.StreamSpec Calc.StreamInv.
Import ListNotations.
Import SCalc.
Local Open Scope Z_scope.

(* ---- projections and concatenation ------------------------------------------------------------------- *)
Lemma flat_map_app' {A B} (f : A -> list B) l1 l2 : flat_map f (l1 ++ l2) = flat_map f l1 ++ flat_map f l2.
Proof. induction l1; simpl; auto. rewrite IHl1, app_assoc. reflexivity. Qed.

Lemma tevs_app a b : tevs (a ++ b) = tevs a ++ tevs b. Proof. apply flat_map_app'. Qed.
Lemma feeds_app a b : feeds (a ++ b) = feeds a ++ feeds b. Proof. apply flat_map_app'. Qed.
Lemma roots_app a b : roots (a ++ b) = roots a ++ roots b. Proof. apply flat_map_app'. Qed.
Lemma src_hist_app a b id : src_hist (a ++ b) id = src_hist a id ++ src_hist b id. Proof. apply flat_map_app'. Qed.
Lemma tevs_XT l : tevs (map XT l) = l. Proof. induction l; simpl; auto. f_equal; auto. Qed.
Lemma feeds_XT l : feeds (map XT l) = []. Proof. induction l; simpl; auto. Qed.
Lemma roots_XT l : roots (map XT l) = []. Proof. induction l; simpl; auto. Qed.

Definition step_c (c : cons) (acc x : Z) : Z + Z := snd (feed c acc x).

Lemma fold_until_snoc : forall c l a x,
  fold_until c a (l ++ [x]) = match fold_until c a l with inl acc => step_c c acc x | inr e => inr e end.
Proof.
  intros c. induction l; intros a0 x; simpl.
  - unfold step_c. destruct c; simpl.
    + destruct (rfn_apply f a0 x); auto.
    + destruct (fn_apply g x); auto.
  - destruct c; simpl.
    + destruct (rfn_apply f a0 a); auto.
    + destruct (fn_apply g a); auto.
Qed.

Lemma feed_ev : forall c acc x, exists a, fst (feed c acc x) = [XFeed a x].
Proof. intros [i f|g] acc x; simpl; eauto. Qed.

Lemma vc_snoc_val : forall h v, has_term h = false -> vc (h ++ [OVal v]) = vc h ++ [v].
Proof. intros. rewrite vc_app_noterm; auto. Qed.
Lemma vc_snoc_term : forall h o, is_val o = false -> vc (h ++ [o]) = vc h.
Proof.
  intros h o Ho. destruct (has_term h) eqn:E.
  - apply vc_app_term; auto.
  - rewrite vc_app_noterm; auto. destruct o; simpl in *; try congruence; apply app_nil_r.
Qed.
Lemma has_term_snoc_val : forall h v, has_term (h ++ [OVal v]) = has_term h.
Proof. intros. rewrite has_term_app. simpl. apply orb_false_r. Qed.
Lemma has_term_snoc_term : forall h o, is_val o = false -> has_term (h ++ [o]) = true.
Proof. intros. rewrite has_term_app. destruct o; simpl in *; try congruence; apply orb_true_r. Qed.

Section Top.
Variables (c : cons) (I : ops) (G : sst -> Prop) (ms : sst -> nat -> monst) (ids : list nat).
Hypothesis S : spec I G ms ids.

Let L := sp_laws _ _ _ _ S.
Let fold (tr : list xev) := fold_until c (cons_init c) (feeds tr).

(* the trace is in step with stream state st *)
Definition sync (tr : list xev) (st : sst) : Prop :=
  G st /\ (forall id, mrun id m0 (tevs tr) = Some (ms st id)) /\ only_ids ids (tevs tr).

(* the root completed: once, after all cleanups, with the fold of exactly the elements fed *)
Definition fin (tr : list xev) (st : sst) : Prop :=
  exists a o b, tr = a ++ XRoot o :: b /\ roots a = [] /\ roots b = [] /\ feeds b = [] /\
    (forall id, exists m, mrun id m0 (tevs a) = Some m /\ mquiet m) /\
    prefix (feeds a) (vc (hist_of st)) /\
    (forall v, o = OVal v -> fold_until c (cons_init c) (feeds a) = inl v /\
                             has_term (hist_of st) = true /\ feeds a = vc (hist_of st)).

Definition PH (ph : cphase) (tr : list xev) (acc : Z) (nroots : nat) (st : sst) : Prop :=
  match ph with
  | CNexting => roots tr = [] /\ nroots = 0%nat /\ feeds tr = vc (hist_of st) /\ has_term (hist_of st) = false /\
                fold tr = inl acc
  | CCleaning pend => roots tr = [] /\ nroots = 0%nat /\ prefix (feeds tr) (vc (hist_of st)) /\
                (forall a, pend = OVal a -> fold tr = inl a /\ has_term (hist_of st) = true /\ feeds tr = vc (hist_of st))
  | CFinished => nroots = 1%nat /\ fin tr st
  end.

Definition ph_mode (ph : cphase) : pmode :=
  match ph with CNexting => PBusy | CCleaning _ => PCleaning | CFinished => PCleaned end.

Definition RI (rs : rstate) : Prop :=
  sync (x_tr rs) (x_st rs) /\ PH (x_ph rs) (x_tr rs) (x_acc rs) (x_roots rs) (x_st rs) /\
  pm_of (x_st rs) = ph_mode (x_ph rs).

(* the result r of an entry point, as the consumer in phase ph can meet it *)
Definition rshape (ph : cphase) (r : res) : Prop :=
  match ph with
  | CNexting => (r_out r = None /\ pm_of (r_st r) = PBusy) \/
                (exists o, r_out r = Some (KN, o) /\ pm_of (r_st r) = if is_val o then PIdle else PEnded)
  | CCleaning _ => (r_out r = None /\ pm_of (r_st r) = PCleaning) \/
                   (exists o, r_out r = Some (KC, o) /\ pm_of (r_st r) = PCleaned)
  | CFinished => r_out r = None /\ pm_of (r_st r) = PCleaned
  end.

Lemma sync_absorb : forall tr st r, sync tr st -> ok G ms ids st r -> sync (tr ++ map XT (r_ev r)) (r_st r).
Proof.
  intros tr st r (HG & Hm & Hi) (HG' & Hm' & Hi'). split; [auto|split].
  - intros id. rewrite tevs_app, tevs_XT. eapply mrun_app_some; eauto.
  - rewrite tevs_app, tevs_XT. apply only_ids_app; auto.
Qed.

Lemma sync_push_noid : forall tr st evs, sync tr st -> tevs evs = [] -> sync (tr ++ evs) st.
Proof.
  intros tr st evs (HG & Hm & Hi) He. split; [auto|split].
  - intros id. rewrite tevs_app, He, app_nil_r. auto.
  - rewrite tevs_app, He, app_nil_r. auto.
Qed.

(* cleanup completed *)
Lemma finish_RI : forall rs pend oc,
  sync (x_tr rs) (x_st rs) -> pm_of (x_st rs) = PCleaned -> roots (x_tr rs) = [] -> x_roots rs = 0%nat ->
  prefix (feeds (x_tr rs)) (vc (hist_of (x_st rs))) ->
  (forall a, pend = OVal a -> fold (x_tr rs) = inl a /\ has_term (hist_of (x_st rs)) = true /\ feeds (x_tr rs) = vc (hist_of (x_st rs))) ->
  RI (x_finish I rs pend oc).
Proof.
  intros rs pend oc Hs Hp Hr Hn Hpre Hv. unfold x_finish, RI. simpl.
  assert (Hod : tevs (map XT (opdel (o_owner I))) = opdel (o_owner I)) by apply tevs_XT.
  assert (Hnoid : forall t, In t (opdel (o_owner I)) -> ev_id t = None).
  { intros t Hin. unfold opdel in Hin. destruct (o_owner I); simpl in Hin; try tauto. destruct Hin as [<-|[]]. reflexivity. }
  assert (Hs' : sync (x_tr rs ++ map XT (opdel (o_owner I))) (x_st rs)).
  { destruct Hs as (HG & Hm & Hi). split; [auto|split].
    - intros id. rewrite tevs_app, Hod. eapply mrun_app_some; eauto.
      clear - Hnoid. revert Hnoid. generalize (opdel (o_owner I)) (ms (x_st rs) id). induction l; simpl; intros; auto.
      rewrite mstep_other. apply IHl. intros; apply Hnoid; auto. intros i He. rewrite Hnoid in He by auto. discriminate.
    - rewrite tevs_app, Hod. apply only_ids_app; auto. intros t i Hin He. rewrite Hnoid in He by auto. discriminate. }
  split; [|split; auto].
  - destruct Hs' as (HG & Hm & Hi). split; [auto|split].
    + intros id. rewrite !tevs_app. simpl. rewrite app_nil_r, <- tevs_app. auto.
    + rewrite !tevs_app. simpl. rewrite app_nil_r, <- tevs_app. auto.
  - split; [rewrite Hn; reflexivity|].
    exists (x_tr rs ++ map XT (opdel (o_owner I))), (match oc with OErr e => OErr e | _ => pend end), [].
    split; [rewrite <- app_assoc; reflexivity|].
    split; [rewrite roots_app, roots_XT, Hr; reflexivity|]. split; [reflexivity|]. split; [reflexivity|].
    split.
    { intros id. destruct Hs' as (HG & Hm & Hi). exists (ms (x_st rs) id). split; auto.
      apply (sp_quiet _ _ _ _ S (x_st rs)); auto. }
    rewrite feeds_app, feeds_XT, app_nil_r. split; auto.
    intros v Ev. apply Hv. destruct oc; try congruence.
Qed.

(* run cleanup(stream) *)
Lemma cleanup_RI : forall rs pend,
  sync (x_tr rs) (x_st rs) -> pm_of (x_st rs) = PIdle \/ pm_of (x_st rs) = PEnded ->
  roots (x_tr rs) = [] -> x_roots rs = 0%nat ->
  prefix (feeds (x_tr rs)) (vc (hist_of (x_st rs))) ->
  (forall a, pend = OVal a -> fold (x_tr rs) = inl a /\ has_term (hist_of (x_st rs)) = true /\ feeds (x_tr rs) = vc (hist_of (x_st rs))) ->
  RI (x_cleanup I rs pend).
Proof.
  intros rs pend Hs Hp Hr Hn Hpre Hv. unfold x_cleanup.
  pose proof (sp_clean _ _ _ _ S (x_st rs) (proj1 Hs) Hp) as Hok.
  destruct (wl_clean _ L (x_st rs)) as [Lh Lp].
  pose proof (sp_nobad _ _ _ _ S _ (proj1 Hok)) as Hnb. rewrite Lp in Hnb.
  destruct (pm_clean_nobad _ _ Hnb) as [_ [[Eo Em]|[o [Eo Em]]]].
  - (* pending *)
    rewrite Eo. unfold RI. simpl. rewrite Eo in Lh. simpl in Lh. rewrite app_nil_r in Lh.
    split; [apply sync_absorb with (st := x_st rs); auto|]. split.
    + unfold fold in *. rewrite roots_app, roots_XT, !feeds_app, !feeds_XT, !app_nil_r, Lh.
      split; [auto|]. split; [auto|]. split; [auto|]. intros a Ea. apply Hv; auto.
    + rewrite Lp; auto.
  - rewrite Eo. apply finish_RI; simpl.
    + apply sync_absorb with (st := x_st rs); auto.
    + rewrite Lp; auto.
    + rewrite roots_app, roots_XT, Hr; reflexivity.
    + auto.
    + rewrite feeds_app, feeds_XT, app_nil_r, Lh, Eo. simpl. rewrite app_nil_r. auto.
    + intros a Ea. rewrite Lh, Eo. simpl. rewrite app_nil_r. unfold fold. rewrite feeds_app, feeds_XT, app_nil_r. apply Hv; auto.
Qed.

(* every case except "a value arrived while pulling" does not loop *)
Lemma pump_noloop : forall fuel rs r,
  (x_ph rs = CNexting -> forall v, r_out r <> Some (KN, OVal v)) -> pump fuel c I rs r = pump 0 c I rs r.
Proof.
  intros fuel rs r H. destruct fuel; auto. simpl.
  destruct (r_out r) as [[[] o]|] eqn:Eo; auto. destruct o as [v| |]; auto.
  destruct (x_ph rs) eqn:Eph; auto. exfalso. eapply H; eauto.
Qed.

Lemma absorb_sync_ph : forall rs r st0,
  sync (x_tr rs) st0 -> ok G ms ids st0 r -> sync (x_tr (x_absorb rs r)) (x_st (x_absorb rs r)).
Proof. intros. unfold x_absorb. simpl. apply sync_absorb with (st := st0); auto. Qed.

Lemma pump0_RI : forall rs r st0,
  sync (x_tr rs) st0 -> PH (x_ph rs) (x_tr rs) (x_acc rs) (x_roots rs) st0 ->
  ok G ms ids st0 r -> hist_of (r_st r) = hist_of st0 ++ kn (r_out r) ->
  rshape (x_ph rs) r ->
  (x_ph rs = CNexting -> forall v, r_out r <> Some (KN, OVal v)) ->
  RI (pump 0 c I rs r).
Proof.
  intros rs r st0 Hs Hph Hok Hh Hsh Hnv.
  pose proof (sync_absorb _ _ _ Hs Hok) as Hs1.
  simpl. destruct (x_ph rs) eqn:Eph; simpl in Hsh, Hph.
  - (* pulling *)
    destruct Hph as (P1 & P2 & P3 & P4 & P5).
    destruct Hsh as [[Eo Em]|[o [Eo Em]]]; rewrite Eo.
    + unfold RI, x_absorb. simpl. rewrite Eph. rewrite Eo in Hh. simpl in Hh. rewrite app_nil_r in Hh.
      split; [auto|]. split; [|simpl; auto]. simpl.
      unfold fold in *. rewrite roots_app, roots_XT, feeds_app, feeds_XT, !app_nil_r, Hh. auto.
    + rewrite Eo in Hh. simpl in Hh. destruct o as [v| |].
      * exfalso. eapply Hnv; eauto.
      * (* error: cleanup, then deliver it *)
        apply cleanup_RI; simpl; auto.
        -- rewrite roots_app, roots_XT, P1; reflexivity.
        -- rewrite feeds_app, feeds_XT, app_nil_r, Hh, vc_snoc_term, P3 by reflexivity. apply prefix_refl.
        -- intros a Ea. discriminate.
      * (* done: cleanup, then deliver the accumulator *)
        apply cleanup_RI; simpl; auto.
        -- rewrite roots_app, roots_XT, P1; reflexivity.
        -- rewrite feeds_app, feeds_XT, app_nil_r, Hh, vc_snoc_term, P3 by reflexivity. apply prefix_refl.
        -- intros a Ea. inversion Ea; subst a. unfold fold in *.
           rewrite feeds_app, feeds_XT, app_nil_r, Hh, vc_snoc_term, has_term_snoc_term by reflexivity. auto.
  - (* cleaning up *)
    destruct Hph as (P1 & P2 & P3 & P4).
    destruct Hsh as [[Eo Em]|[o [Eo Em]]]; rewrite Eo; rewrite Eo in Hh; simpl in Hh; rewrite app_nil_r in Hh.
    + unfold RI, x_absorb. simpl. rewrite Eph. split; [auto|]. split; [|simpl; auto]. simpl.
      unfold fold in *. rewrite roots_app, roots_XT, feeds_app, feeds_XT, !app_nil_r, Hh. auto.
    + apply finish_RI; simpl; auto.
      * rewrite roots_app, roots_XT, P1; reflexivity.
      * rewrite feeds_app, feeds_XT, app_nil_r, Hh. auto.
      * intros a Ea. unfold fold in *. rewrite feeds_app, feeds_XT, app_nil_r, Hh. auto.
  - (* finished *)
    destruct Hsh as [Eo Em]. rewrite Eo. rewrite Eo in Hh. simpl in Hh. rewrite app_nil_r in Hh.
    assert (E : (match x_ph rs with CNexting | _ => x_absorb rs r end) = x_absorb rs r) by (destruct (x_ph rs); auto).
    unfold RI, x_absorb. simpl. rewrite Eph. split; [auto|]. split; [|simpl; auto]. simpl.
    destruct Hph as (P1 & (a & o & b & F1 & F2 & F3 & F4 & F5 & F6 & F7)). split; auto.
    exists a, o, (b ++ map XT (r_ev r)). rewrite Hh.
    split. { rewrite F1, <- app_assoc. reflexivity. }
    split; [auto|]. split. { rewrite roots_app, roots_XT, F3. reflexivity. }
    split. { rewrite feeds_app, feeds_XT, F4. reflexivity. }
    split; [auto|]. split; auto.
Qed.

Lemma pump_RI : forall fuel rs r st0,
  sync (x_tr rs) st0 -> PH (x_ph rs) (x_tr rs) (x_acc rs) (x_roots rs) st0 ->
  ok G ms ids st0 r -> hist_of (r_st r) = hist_of st0 ++ kn (r_out r) ->
  rshape (x_ph rs) r ->
  (forall v, r_out r = Some (KN, OVal v) -> (o_budget I (r_st r) < fuel)%nat) ->
  RI (pump fuel c I rs r).
Proof.
  induction fuel as [|fuel IH]; intros rs r st0 Hs Hph Hok Hh Hsh Hfu.
  - apply pump0_RI with st0; auto. intros _ v Ev. specialize (Hfu v Ev). lia.
  - assert (D : (x_ph rs = CNexting /\ exists v, r_out r = Some (KN, OVal v)) \/
                (x_ph rs = CNexting -> forall v, r_out r <> Some (KN, OVal v))).
    { destruct (x_ph rs); [|right; intros; congruence|right; intros; congruence].
      destruct (r_out r) as [[[] [v| |]]|]; try (right; intros _ ? ?; congruence). left; eauto. }
    destruct D as [[Eph [v Eo]]|D].
    2: { rewrite pump_noloop by auto. apply pump0_RI with st0; auto. }
    (* a value: feed it, then pull again *)
    pose proof (sync_absorb _ _ _ Hs Hok) as Hs1.
    rewrite Eph in Hsh, Hph. simpl in Hsh, Hph.
    destruct Hph as (P1 & P2 & P3 & P4 & P5).
    destruct Hsh as [[Eo' _]|[o [Eo' Em]]]; [congruence|]. rewrite Eo in Eo'. inversion Eo'; subst o. simpl in Em.
    rewrite Eo in Hh. simpl in Hh.
    simpl. rewrite Eo, Eph.
    destruct (feed c (x_acc rs) v) as [ev y] eqn:Ef.
    destruct (feed_ev c (x_acc rs) v) as [a0 Ea0]. rewrite Ef in Ea0. simpl in Ea0. subst ev.
    assert (Ey : y = step_c c (x_acc rs) v) by (unfold step_c; rewrite Ef; reflexivity).
    assert (Hfeeds : feeds ((x_tr rs ++ map XT (r_ev r)) ++ [XFeed a0 v]) = vc (hist_of (r_st r))).
    { rewrite !feeds_app, feeds_XT, app_nil_r. simpl. rewrite Hh, vc_snoc_val, P3; auto. }
    assert (Hsync2 : sync ((x_tr rs ++ map XT (r_ev r)) ++ [XFeed a0 v]) (r_st r)).
    { apply sync_push_noid; auto. }
    assert (Hroots : roots ((x_tr rs ++ map XT (r_ev r)) ++ [XFeed a0 v]) = []).
    { rewrite !roots_app, roots_XT, P1. reflexivity. }
    assert (Hfold : fold ((x_tr rs ++ map XT (r_ev r)) ++ [XFeed a0 v]) = y).
    { unfold fold in *. rewrite !feeds_app, feeds_XT, app_nil_r. simpl. rewrite fold_until_snoc, P5. auto. }
    destruct y as [acc'|e].
    + (* pull again *)
      set (rs3 := {| x_st := r_st r; x_acc := acc'; x_ph := CNexting; x_stopped := x_stopped rs || r_fired r;
                     x_armed := x_armed rs && negb (r_fired r); x_roots := x_roots rs;
                     x_tr := (x_tr rs ++ map XT (r_ev r)) ++ [XFeed a0 v] |}).
      set (en := {| e_stopped := x_stopped rs || r_fired r; e_armed := x_armed rs && negb (r_fired r) |}).
      change (RI (pump fuel c I rs3 (o_next I (r_st r) en))).
      pose proof (sp_next _ _ _ _ S (r_st r) en (proj1 Hsync2) (or_intror Em)) as Hok2.
      destruct (wl_next _ L (r_st r) en) as [Lh Lp].
      pose proof (sp_nobad _ _ _ _ S _ (proj1 Hok2)) as Hnb. rewrite Lp in Hnb.
      apply IH with (st0 := r_st r); auto.
      * simpl. split; [auto|]. split; [auto|]. split; [exact Hfeeds|]. split; [rewrite Hh, has_term_snoc_val; auto|exact Hfold].
      * simpl. rewrite Em in *. destruct (pm_next_nobad _ _ Hnb) as [_ [[E1 E2]|[o2 [E1 E2]]]].
        -- left. split; auto. rewrite Lp. auto.
        -- right. exists o2. split; auto. rewrite Lp. auto.
      * intros v2 Ev2. pose proof (sp_blaw _ _ _ _ S (r_st r) en v2 Ev2). specialize (Hfu v Eo). lia.
    + (* the consumer's function threw: cleanup, then deliver the error *)
      apply cleanup_RI; simpl; auto.
      * rewrite Hfeeds. apply prefix_refl.
      * intros a Ea. discriminate.
Qed.

Lemma other_shape : forall ph st r,
  pm_of st = ph_mode ph -> pm_of (r_st r) = pm_other (pm_of st) (r_out r) -> pm_of (r_st r) <> PBad ->
  rshape ph r.
Proof.
  intros ph st r Hp Hl Hnb. rewrite Hl in Hnb. rewrite Hp in *.
  destruct (pm_other_nobad _ _ Hnb) as [[E1 E2]|[(o & E1 & E2 & E3)|(o & E1 & E2 & E3)]];
    destruct ph; simpl in *; try congruence; rewrite Hl.
  - left; split; auto.
  - left; split; auto.
  - split; auto.
  - right. exists o. split; auto.
  - right. exists o. split; auto.
Qed.

Lemma settle_RI : forall rs r st0,
  sync (x_tr rs) st0 -> PH (x_ph rs) (x_tr rs) (x_acc rs) (x_roots rs) st0 ->
  ok G ms ids st0 r -> hist_of (r_st r) = hist_of st0 ++ kn (r_out r) -> rshape (x_ph rs) r ->
  RI (x_settle c I rs r).
Proof.
  intros rs r st0 Hs Hph Hok Hh Hsh. unfold x_settle, x_pump.
  assert (R1 : RI (pump (Datatypes.S (o_budget I (r_st r))) c I rs r)) by (eapply pump_RI; eauto).
  set (rs1 := pump (Datatypes.S (o_budget I (r_st r))) c I rs r) in *.
  destruct R1 as (Hs1 & Hph1 & Hpm1).
  pose proof (sp_flush _ _ _ _ S (x_st rs1) (proj1 Hs1)) as Hok2.
  destruct (wl_flush _ L (x_st rs1)) as [Lh Lp].
  eapply pump_RI; eauto.
  eapply other_shape; eauto. apply (sp_nobad _ _ _ _ S). apply Hok2.
Qed.

(* a call of stop / a leaf completion / flush on a state in step with the trace *)
Lemma settle_other_RI : forall rs r,
  RI rs -> ok G ms ids (x_st rs) r -> hist_of (r_st r) = hist_of (x_st rs) ++ kn (r_out r) ->
  pm_of (r_st r) = pm_other (pm_of (x_st rs)) (r_out r) ->
  forall rs', x_tr rs' = x_tr rs -> x_ph rs' = x_ph rs -> x_acc rs' = x_acc rs -> x_roots rs' = x_roots rs ->
  RI (x_settle c I rs' r).
Proof.
  intros rs r (Hs & Hph & Hpm) Hok Hh Hl rs' E1 E2 E3 E4.
  eapply settle_RI with (st0 := x_st rs); rewrite ?E1, ?E2, ?E3, ?E4; eauto.
  eapply other_shape; eauto. apply (sp_nobad _ _ _ _ S). apply Hok.
Qed.

Lemma push_skip_RI : forall rs, RI rs -> RI (x_push rs [XSkip]).
Proof.
  intros rs ((HG & Hm & Hi) & Hph & Hpm). unfold RI, x_push. simpl.
  split; [split; [auto|split]|split; auto].
  - intros id. rewrite tevs_app. simpl. rewrite app_nil_r. auto.
  - rewrite tevs_app. simpl. rewrite app_nil_r. auto.
  - destruct (x_ph rs); simpl in *.
    + unfold fold in *. rewrite roots_app, feeds_app. simpl. rewrite !app_nil_r. auto.
    + unfold fold in *. rewrite roots_app, feeds_app. simpl. rewrite !app_nil_r. auto.
    + destruct Hph as (P1 & (a & o & b & F1 & F2 & F3 & F4 & F5 & F6 & F7)). split; auto.
      exists a, o, (b ++ [XSkip]). rewrite F1, roots_app, feeds_app, F3, F4. simpl.
      rewrite <- app_assoc. simpl. split; [reflexivity|]. split; [auto|]. split; [auto|]. split; [auto|]. split; [auto|]. split; auto.
Qed.

Lemma start_RI : forall stopped armed,
  RI (x_settle c I {| x_st := o_init I; x_acc := cons_init c; x_ph := CNexting; x_stopped := stopped; x_armed := armed;
                      x_roots := 0; x_tr := [] |}
                (o_next I (o_init I) {| e_stopped := stopped; e_armed := armed |})).
Proof.
  intros stopped armed. destruct (wl_init _ L) as [Ih Ip].
  set (en := {| e_stopped := stopped; e_armed := armed |}).
  pose proof (sp_next _ _ _ _ S (o_init I) en (sp_init _ _ _ _ S) (or_introl Ip)) as Hok.
  destruct (wl_next _ L (o_init I) en) as [Lh Lp].
  pose proof (sp_nobad _ _ _ _ S _ (proj1 Hok)) as Hnb.
  eapply settle_RI with (st0 := o_init I); simpl; eauto.
  - split; [apply (sp_init _ _ _ _ S)|split].
    + intros id. simpl. rewrite (sp_ms_init _ _ _ _ S). reflexivity.
    + apply only_ids_nil.
  - rewrite Ih. simpl. repeat split; auto.
  - rewrite Lp in Hnb. rewrite Ip in *. destruct (pm_next_nobad _ _ Hnb) as [_ [[E1 E2]|[o [E1 E2]]]].
    + left. split; auto. rewrite Lp. auto.
    + right. exists o. split; auto. rewrite Lp. auto.
Qed.
End Top.

(* ---- whole runs ------------------------------------------------------------------------------------------ *)
Section Runs.
Variables (vr : variant) (c : cons) (e : stexpr) (G : sst -> Prop) (ms : sst -> nat -> monst) (ids : list nat).
Hypothesis S : spec (ops_of vr e) G ms ids.
Let I := ops_of vr e.
Let L := sp_laws _ _ _ _ S.

Lemma run_start_RI : forall pre, RI c G ms ids (run_start vr c e pre).
Proof. intros pre. unfold run_start. apply start_RI. exact S. Qed.

Lemma run_ev_RI : forall rs ev, RI c G ms ids rs -> RI c G ms ids (run_ev vr c e rs ev).
Proof.
  intros rs ev HR. destruct ev as [id o|id o| |]; simpl; fold I.
  - pose proof (sp_leaf _ _ _ _ S (x_st rs) (TgNext id) o (proj1 (proj1 HR))) as Hok.
    destruct (wl_leaf _ L (x_st rs) (TgNext id) o) as [Lh Lp]. fold I in Hok, Lh, Lp.
    destruct (o_leaf I (x_st rs) (TgNext id) o) as [r hit]. simpl in *.
    destruct hit; [|apply push_skip_RI; auto]. eapply settle_other_RI; eauto.
  - pose proof (sp_leaf _ _ _ _ S (x_st rs) (TgClean id) o (proj1 (proj1 HR))) as Hok.
    destruct (wl_leaf _ L (x_st rs) (TgClean id) o) as [Lh Lp]. fold I in Hok, Lh, Lp.
    destruct (o_leaf I (x_st rs) (TgClean id) o) as [r hit]. simpl in *.
    destruct hit; [|apply push_skip_RI; auto]. eapply settle_other_RI; eauto.
  - destruct (x_stopped rs); [apply push_skip_RI; auto|].
    destruct (x_ph rs) eqn:Eph.
    + pose proof (sp_stop _ _ _ _ S (x_st rs) (proj1 (proj1 HR))) as Hok.
      destruct (wl_stop _ L (x_st rs)) as [Lh Lp]. fold I in Hok, Lh, Lp.
      eapply settle_other_RI; eauto.
    + unfold RI in *. simpl. rewrite Eph in *. exact HR.
    + unfold RI in *. simpl. rewrite Eph in *. exact HR.
  - destruct (x_stopped rs || x_armed rs); [apply push_skip_RI; auto|].
    destruct HR as ((HG & Hm & Hi) & Hph & Hpm).
    destruct (sp_arm _ _ _ _ S (x_st rs) HG) as [HG' Hms]. destruct (wl_arm _ L (x_st rs)) as [Ah Ap].
    fold I in HG', Hms, Ah, Ap.
    unfold RI. simpl. split; [split; [auto|split; auto]|split].
    + intros id. rewrite Hms. auto.
    + unfold PH, fin in *. rewrite Ah. exact Hph.
    + rewrite Ap. auto.
Qed.

Lemma exec_RI : forall pre script, RI c G ms ids (exec vr c e pre script).
Proof.
  intros pre script. unfold exec.
  assert (H : forall rs, RI c G ms ids rs -> RI c G ms ids (fold_left (run_ev vr c e) script rs)).
  { induction script; simpl; intros; auto. apply IHscript. apply run_ev_RI; auto. }
  apply H. apply run_start_RI.
Qed.
End Runs.
