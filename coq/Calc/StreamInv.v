(* Proof framework for the stream calculus (C13): laws of the ghost wrapper, the per-source monitor
   (the cleanup/next ordering property as an automaton over the observable events), and the
   abstract specification [spec] every stream's [ops] satisfies; each adaptor is shown to turn a
   stream satisfying [spec] into one satisfying [spec] (StreamInv*.v), which StreamProofs.v lifts to
   all pipelines and all scripts. *)
From Coq Require Import ZArith List Bool Arith Lia.
From V Require Import Calc.StreamDefs Calc.StreamSpec.
Import ListNotations.
Import SCalc.

Definition hist_of (st : sst) : list outcome := match st with Node h _ _ => h end.
Definition pm_of (st : sst) : pmode := match st with Node _ pm _ => pm end.
Definition body_of (st : sst) : body := match st with Node _ _ b => b end.

(* ---- the monitor: what C13 demands of the events of ONE scripted source ---------------------------- *)
Record monst := { m_n : nat;            (* next operations started *)
                  m_out : bool;         (* one is outstanding *)
                  m_cl : nat;           (* cleanup 0 not started / 1 running / 2 completed *)
                  m_hist : list outcome (* outcomes its next operations delivered *) }.
Definition m0 : monst := {| m_n := 0; m_out := false; m_cl := 0; m_hist := [] |}.

Definition mstep (id : nat) (m : monst) (t : tev) : option monst :=
  match t with
  | TNextStart i k _ =>
      if Nat.eqb i id then
        (* a next starts only while none is outstanding and before cleanup; numbered consecutively *)
        if negb (m_out m) && Nat.eqb (m_cl m) 0 && Nat.eqb k (m_n m)
        then Some {| m_n := S (m_n m); m_out := true; m_cl := m_cl m; m_hist := m_hist m |} else None
      else Some m
  | TNextStopSeen i k =>
      if Nat.eqb i id then if m_out m && Nat.eqb (S k) (m_n m) then Some m else None else Some m
  | TNextDone i k o =>
      if Nat.eqb i id then
        if m_out m && Nat.eqb (S k) (m_n m)
        then Some {| m_n := m_n m; m_out := false; m_cl := m_cl m; m_hist := m_hist m ++ [o] |} else None
      else Some m
  | TCleanupStart i =>
      if Nat.eqb i id then
        (* cleanup starts at most once, only after some next was started, never while one is outstanding *)
        if negb (m_out m) && Nat.eqb (m_cl m) 0 && negb (Nat.eqb (m_n m) 0)
        then Some {| m_n := m_n m; m_out := false; m_cl := 1; m_hist := m_hist m |} else None
      else Some m
  | TCleanupDone i _ =>
      if Nat.eqb i id then
        if Nat.eqb (m_cl m) 1 then Some {| m_n := m_n m; m_out := m_out m; m_cl := 2; m_hist := m_hist m |} else None
      else Some m
  | _ => Some m
  end.

Fixpoint mrun (id : nat) (m : monst) (evs : list tev) : option monst :=
  match evs with
  | [] => Some m
  | t :: r => match mstep id m t with Some m' => mrun id m' r | None => None end
  end.

Lemma mrun_app : forall id evs1 evs2 m,
  mrun id m (evs1 ++ evs2) = match mrun id m evs1 with Some m' => mrun id m' evs2 | None => None end.
Proof. induction evs1; simpl; intros; auto. destruct (mstep id m a); auto. Qed.

Lemma mrun_app_some : forall id evs1 evs2 m m1 m2,
  mrun id m evs1 = Some m1 -> mrun id m1 evs2 = Some m2 -> mrun id m (evs1 ++ evs2) = Some m2.
Proof. intros. rewrite mrun_app, H. auto. Qed.

(* the source an event is about *)
Definition ev_id (t : tev) : option nat :=
  match t with
  | TNextStart i _ _ | TNextStopSeen i _ | TNextDone i _ _ | TCleanupStart i | TCleanupDone i _ => Some i
  | _ => None
  end.
Definition only_ids (ids : list nat) (evs : list tev) : Prop :=
  forall t i, In t evs -> ev_id t = Some i -> In i ids.

Lemma only_ids_nil ids : only_ids ids []. Proof. intros t i []. Qed.
Lemma only_ids_app ids a b : only_ids ids a -> only_ids ids b -> only_ids ids (a ++ b).
Proof. intros Ha Hb t i Hin. apply in_app_or in Hin. destruct Hin; eauto. Qed.
Lemma only_ids_app_inv ids a b : only_ids ids (a ++ b) -> only_ids ids a /\ only_ids ids b.
Proof. intros H. split; intros t i Hin; apply H; apply in_or_app; auto. Qed.
Lemma only_ids_mono ids ids' evs : (forall i, In i ids -> In i ids') -> only_ids ids evs -> only_ids ids' evs.
Proof. intros Hs H t i Hin He. eauto. Qed.

Lemma mstep_other : forall id m t, (forall i, ev_id t = Some i -> i <> id) -> mstep id m t = Some m.
Proof.
  intros id m t H. destruct t; simpl in *; auto;
  match goal with |- context [Nat.eqb ?i id] => destruct (Nat.eqb_spec i id) as [E|E]; auto; exfalso; eapply H; eauto end.
Qed.

Lemma mrun_other : forall id evs m ids, only_ids ids evs -> ~ In id ids -> mrun id m evs = Some m.
Proof.
  induction evs; simpl; intros; auto.
  rewrite mstep_other.
  - eapply IHevs; eauto. intros t i Hin. apply H. right; auto.
  - intros i He Hi. subst. apply H0. eapply H; eauto. left; auto.
Qed.

Definition mquiet (m : monst) : Prop :=
  m_out m = false /\ (m_cl m = 2%nat \/ (m_n m = 0%nat /\ m_cl m = 0%nat)).

(* ---- laws of the ghost wrapper --------------------------------------------------------------------- *)
Record wlaws (I : ops) : Prop := {
  wl_next : forall st en, hist_of (r_st (o_next I st en)) = hist_of st ++ kn (r_out (o_next I st en)) /\
                          pm_of (r_st (o_next I st en)) = pm_next (pm_of st) (r_out (o_next I st en));
  wl_clean : forall st, hist_of (r_st (o_clean I st)) = hist_of st ++ kn (r_out (o_clean I st)) /\
                        pm_of (r_st (o_clean I st)) = pm_clean (pm_of st) (r_out (o_clean I st));
  wl_stop : forall st, hist_of (r_st (o_stop I st)) = hist_of st ++ kn (r_out (o_stop I st)) /\
                       pm_of (r_st (o_stop I st)) = pm_other (pm_of st) (r_out (o_stop I st));
  wl_leaf : forall st tg o, hist_of (r_st (fst (o_leaf I st tg o))) = hist_of st ++ kn (r_out (fst (o_leaf I st tg o))) /\
                            pm_of (r_st (fst (o_leaf I st tg o))) = pm_other (pm_of st) (r_out (fst (o_leaf I st tg o)));
  wl_flush : forall st, hist_of (r_st (o_flush I st)) = hist_of st ++ kn (r_out (o_flush I st)) /\
                        pm_of (r_st (o_flush I st)) = pm_other (pm_of st) (r_out (o_flush I st));
  wl_arm : forall st, hist_of (o_arm I st) = hist_of st /\ pm_of (o_arm I st) = pm_of st;
  wl_init : hist_of (o_init I) = [] /\ pm_of (o_init I) = PFresh
}.

Lemma wrap_wlaws : forall J, wlaws (wrap J).
Proof.
  intros J. constructor; intros; try (destruct st as [h pm b]); simpl; auto.
  destruct (ro_leaf J b tg o); simpl; auto.
Qed.

(* ---- what a parent may assume of a child stream ------------------------------------------------------ *)
(* G: the child's invariant; ms: the monitor state of source id as recorded in the child's state;
   ids: the scripted sources inside the child *)
Definition ok (G : sst -> Prop) (ms : sst -> nat -> monst) (ids : list nat) (st : sst) (r : res) : Prop :=
  G (r_st r) /\ (forall id, mrun id (ms st id) (r_ev r) = Some (ms (r_st r) id)) /\ only_ids ids (r_ev r).

Record spec (I : ops) (G : sst -> Prop) (ms : sst -> nat -> monst) (ids : list nat) : Prop := {
  sp_laws : wlaws I;
  sp_nobad : forall st, G st -> pm_of st <> PBad;
  sp_init : G (o_init I);
  sp_ms_init : forall id, ms (o_init I) id = m0;
  sp_ms_ids : forall st id, ~ In id ids -> ms st id = m0;
  sp_next : forall st en, G st -> pm_of st = PFresh \/ pm_of st = PIdle -> ok G ms ids st (o_next I st en);
  sp_clean : forall st, G st -> pm_of st = PIdle \/ pm_of st = PEnded -> ok G ms ids st (o_clean I st);
  sp_stop : forall st, G st -> ok G ms ids st (o_stop I st);
  sp_leaf : forall st tg o, G st -> ok G ms ids st (fst (o_leaf I st tg o));
  sp_flush : forall st, G st -> ok G ms ids st (o_flush I st);
  sp_arm : forall st, G st -> G (o_arm I st) /\ (forall id, ms (o_arm I st) id = ms st id);
  sp_stop_done : forall st, r_out (o_stop I st) = None \/ r_out (o_stop I st) = Some (KN, ODone);
  sp_blaw : forall st en v, r_out (o_next I st en) = Some (KN, OVal v) ->
                            (o_budget I (r_st (o_next I st en)) < o_budget I st)%nat;
  sp_quiet : forall st, G st -> pm_of st = PFresh \/ pm_of st = PCleaned -> forall id, mquiet (ms st id)
}.

(* consequences used by every adaptor: from a G-state a legal call yields a non-bad mode, which pins
   down the kind of completion that can come back *)
Lemma pm_next_nobad : forall pm out, pm_next pm out <> PBad ->
  (pm = PFresh \/ pm = PIdle) /\
  (out = None /\ pm_next pm out = PBusy \/
   exists o, out = Some (KN, o) /\ pm_next pm out = if is_val o then PIdle else PEnded).
Proof.
  intros pm out H. destruct pm; simpl in *; try congruence;
  (split; [auto|]); destruct out as [[[] o]|]; try congruence; eauto.
Qed.

Lemma pm_clean_nobad : forall pm out, pm_clean pm out <> PBad ->
  (pm = PIdle \/ pm = PEnded) /\
  (out = None /\ pm_clean pm out = PCleaning \/ exists o, out = Some (KC, o) /\ pm_clean pm out = PCleaned).
Proof.
  intros pm out H. destruct pm; simpl in *; try congruence;
  (split; [auto|]); destruct out as [[[] o]|]; try congruence; eauto.
Qed.

Lemma pm_other_nobad : forall pm out, pm_other pm out <> PBad ->
  (out = None /\ pm_other pm out = pm) \/
  (exists o, out = Some (KN, o) /\ pm = PBusy /\ pm_other pm out = if is_val o then PIdle else PEnded) \/
  (exists o, out = Some (KC, o) /\ pm = PCleaning /\ pm_other pm out = PCleaned).
Proof.
  intros pm out H. destruct out as [[[] o]|]; simpl in *; auto; destruct pm; try congruence; eauto 6.
Qed.

(* ---- list helpers for histories ----------------------------------------------------------------------- *)
(* values before the first done/error *)
Notation vc := vals_until_term.
Fixpoint has_term (h : list outcome) : bool :=
  match h with [] => false | OVal _ :: t => has_term t | _ => true end.

Inductive prefix {A} : list A -> list A -> Prop :=
| prefix_nil : forall l, prefix [] l
| prefix_cons : forall x l1 l2, prefix l1 l2 -> prefix (x :: l1) (x :: l2).

Lemma prefix_refl {A} (l : list A) : prefix l l.
Proof. induction l; constructor; auto. Qed.
Lemma prefix_trans {A} (a b c : list A) : prefix a b -> prefix b c -> prefix a c.
Proof. intros H. revert c. induction H; intros c Hc. constructor. inversion Hc; subst. constructor; auto. Qed.
Lemma prefix_app {A} (a b : list A) : prefix a (a ++ b).
Proof. induction a; simpl; constructor; auto. Qed.
Lemma prefix_app_r {A} (a b c : list A) : prefix a b -> prefix a (b ++ c).
Proof. intros H. eapply prefix_trans. eauto. apply prefix_app. Qed.

Lemma vc_app_term : forall h t, has_term h = true -> vc (h ++ t) = vc h.
Proof. induction h; simpl; intros; try congruence. destruct a; auto. f_equal; auto. Qed.
Lemma vc_app_noterm : forall h t, has_term h = false -> vc (h ++ t) = vc h ++ vc t.
Proof. induction h; simpl; intros; auto. destruct a; try congruence. simpl. f_equal; auto. Qed.
Lemma vc_app_prefix : forall h t, prefix (vc h) (vc (h ++ t)).
Proof.
  intros. destruct (has_term h) eqn:E.
  - rewrite vc_app_term; auto. apply prefix_refl.
  - rewrite vc_app_noterm; auto. apply prefix_app.
Qed.
Lemma has_term_app : forall h t, has_term (h ++ t) = has_term h || has_term t.
Proof. induction h; simpl; intros; auto. destruct a; auto. Qed.
