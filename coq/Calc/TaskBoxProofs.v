(* Proofs about TaskBox: for every number of slots and every sequence of operations, every coroutine frame is
   destroyed exactly once by the time all slots are gone, never while a task object still owns it, and its body
   runs at most once and only before the frame is destroyed. *)
From Coq Require Import List Arith Bool Lia.
From V Require Import Calc.TaskBoxDefs.
Import ListNotations.
Import TaskBox.

Definition is_frame (n : nat) (e : bev) : bool := match e with BFrame m => Nat.eqb m n | _ => false end.
Definition is_destroyed (n : nat) (e : bev) : bool := match e with BDestroyed m => Nat.eqb m n | _ => false end.
Definition is_body (n : nat) (e : bev) : bool := match e with BBody m => Nat.eqb m n | _ => false end.
Definition count (p : bev -> bool) (tr : list bev) : nat := length (filter p tr).
Definition created (n : nat) (tr : list bev) : nat := count (is_frame n) tr.
Definition destroyed (n : nat) (tr : list bev) : nat := count (is_destroyed n) tr.
Definition bodies (n : nat) (tr : list bev) : nat := count (is_body n) tr.

Definition holds (n : nat) (s : slot) : nat := match s with SPend m => if Nat.eqb m n then 1 else 0 | _ => 0 end.
Definition holders (n : nat) (l : list slot) : nat := list_sum (map (holds n) l).

Lemma count_app : forall p a b, count p (a ++ b) = count p a + count p b.
Proof. intros. unfold count. rewrite filter_app, app_length. reflexivity. Qed.

Lemma holders_set : forall n l i x, i < length l ->
  holders n (set_nth i x l) + holds n (nth i l SNone) = holders n l + holds n x.
Proof.
  unfold holders. induction l; simpl; intros; [lia|].
  destruct i; simpl; [lia|]. specialize (IHl i x ltac:(lia)). lia.
Qed.

Lemma set_nth_length : forall l i x, length (set_nth i x l) = length l.
Proof. induction l; simpl; intros; [destruct i; reflexivity|]. destruct i; simpl; auto. Qed.

Lemma nth_set_other : forall l i j x, i <> j -> nth i (set_nth j x l) SNone = nth i l SNone.
Proof.
  induction l; intros; [destruct j; reflexivity|].
  destruct i, j; simpl; auto; try lia.
Qed.

Lemma destroyed_dropev : forall n s, destroyed n (dropev s) = holds n s.
Proof. intros. destruct s; simpl; auto. unfold destroyed, count. simpl. destruct (Nat.eqb n0 n); reflexivity. Qed.
Lemma created_dropev : forall n s, created n (dropev s) = 0.
Proof. destruct s; reflexivity. Qed.
Lemma bodies_dropev : forall n s, bodies n (dropev s) = 0.
Proof. destruct s; reflexivity. Qed.

Lemma holds_nth_le : forall n l i, holds n (nth i l SNone) <= holders n l.
Proof.
  unfold holders. induction l; simpl; intros; [destruct i; simpl; lia|].
  destruct i; [lia|]. specialize (IHl i). lia.
Qed.

(* the accounting invariant: a created frame is either owned by exactly one slot or destroyed, never both *)
Definition Inv (c : st * list bev) : Prop :=
  let (s, tr) := c in
  forall n,
    (n < next s -> created n tr = 1 /\ destroyed n tr + holders n (slots s) = 1 /\ bodies n tr <= destroyed n tr) /\
    (next s <= n -> created n tr = 0 /\ destroyed n tr = 0 /\ holders n (slots s) = 0 /\ bodies n tr = 0).

Lemma holders_repeat : forall n k, holders n (repeat SNone k) = 0.
Proof. unfold holders. induction k; simpl; auto. Qed.

Lemma inv_init : forall k, Inv (init k, []).
Proof.
  unfold Inv, init; simpl. intros k n. split; intros; [lia|].
  rewrite holders_repeat. repeat split; reflexivity.
Qed.

Lemma created_app : forall n a b, created n (a ++ b) = created n a + created n b.
Proof. intros. apply count_app. Qed.
Lemma destroyed_app : forall n a b, destroyed n (a ++ b) = destroyed n a + destroyed n b.
Proof. intros. apply count_app. Qed.
Lemma bodies_app : forall n a b, bodies n (a ++ b) = bodies n a + bodies n b.
Proof. intros. apply count_app. Qed.
Lemma created_cons : forall n e l, created n (e :: l) = (if is_frame n e then 1 else 0) + created n l.
Proof. intros. unfold created, count. simpl. destruct (is_frame n e); reflexivity. Qed.
Lemma destroyed_cons : forall n e l, destroyed n (e :: l) = (if is_destroyed n e then 1 else 0) + destroyed n l.
Proof. intros. unfold destroyed, count. simpl. destruct (is_destroyed n e); reflexivity. Qed.
Lemma bodies_cons : forall n e l, bodies n (e :: l) = (if is_body n e then 1 else 0) + bodies n l.
Proof. intros. unfold bodies, count. simpl. destruct (is_body n e); reflexivity. Qed.
Lemma counts_nil : forall n, created n [] = 0 /\ destroyed n [] = 0 /\ bodies n [] = 0.
Proof. intros. repeat split; reflexivity. Qed.

Ltac counts := rewrite ?created_app, ?destroyed_app, ?bodies_app, ?created_cons, ?destroyed_cons, ?bodies_cons;
  repeat match goal with |- context[created ?n []] => change (created n []) with 0 end;
  repeat match goal with |- context[destroyed ?n []] => change (destroyed n []) with 0 end;
  repeat match goal with |- context[bodies ?n []] => change (bodies n []) with 0 end;
  simpl is_frame; simpl is_destroyed; simpl is_body.

Lemma inv_step : forall c o, Inv c -> Inv (step_acc c o).
Proof.
  intros [s tr] o H. unfold step_acc. simpl fst. simpl snd.
  destruct o as [i|i j|i|i]; simpl step.
  - (* ONew *)
    destruct (Nat.ltb i (length (slots s))) eqn:E.
    + apply Nat.ltb_lt in E. unfold Inv in *. simpl. intros n.
      pose proof (holders_set n (slots s) i (SPend (next s)) E) as HS. simpl in HS.
      pose proof (destroyed_dropev n (nth i (slots s) SNone)) as HD.
      pose proof (created_dropev n (nth i (slots s) SNone)) as HC.
      pose proof (bodies_dropev n (nth i (slots s) SNone)) as HB.
      pose proof (holds_nth_le n (slots s) i) as HL.
      destruct (H n) as [H1 H2].
      counts. rewrite HD, HC, HB.
      destruct (Nat.eqb (next s) n) eqn:En.
      * apply Nat.eqb_eq in En. subst n. destruct (H2 (le_n _)) as (A & B & C & D).
        split; intros; [|lia]. simpl. lia.
      * apply Nat.eqb_neq in En. split; intros.
        -- destruct (H1 ltac:(lia)) as (A & B & C). simpl. lia.
        -- destruct (H2 ltac:(lia)) as (A & B & C & D). simpl. lia.
    + unfold Inv in *. intros n. destruct (H n). counts. rewrite !Nat.add_0_r. auto.
  - (* OMove *)
    destruct (Nat.ltb i (length (slots s)) && Nat.ltb j (length (slots s)) && negb (Nat.eqb i j)) eqn:E.
    + apply andb_true_iff in E. destruct E as [E Eij]. apply andb_true_iff in E. destruct E as [Ei Ej].
      apply Nat.ltb_lt in Ei. apply Nat.ltb_lt in Ej. apply negb_true_iff in Eij. apply Nat.eqb_neq in Eij.
      assert (Hmove : forall src, src = nth i (slots s) SNone ->
                Inv ({| slots := set_nth i SEmpty (set_nth j src (slots s)); next := next s |},
                     tr ++ dropev (nth j (slots s) SNone))).
      { intros src Hsrc. unfold Inv in *. simpl. intros n.
        pose proof (holders_set n (slots s) j src Ej) as HS1.
        assert (Ei' : i < length (set_nth j src (slots s))) by (rewrite set_nth_length; exact Ei).
        pose proof (holders_set n (set_nth j src (slots s)) i SEmpty Ei') as HS2.
        rewrite (nth_set_other _ i j src Eij) in HS2. rewrite <- Hsrc in HS2. simpl in HS2.
        pose proof (destroyed_dropev n (nth j (slots s) SNone)) as HD.
        pose proof (created_dropev n (nth j (slots s) SNone)) as HC.
        pose proof (bodies_dropev n (nth j (slots s) SNone)) as HB.
        pose proof (holds_nth_le n (slots s) j) as HL.
        destruct (H n) as [H1 H2]. counts. rewrite HD, HC, HB.
        split; intros Hn.
        - destruct (H1 Hn) as (A & B & C). lia.
        - destruct (H2 Hn) as (A & B & C & D). lia. }
      destruct (nth i (slots s) SNone) eqn:Esrc.
      * unfold Inv in *. intros n. destruct (H n). counts. rewrite !Nat.add_0_r. auto.
      * apply Hmove. reflexivity.
      * apply Hmove. reflexivity.
    + unfold Inv in *. intros n. destruct (H n). counts. rewrite !Nat.add_0_r. auto.
  - (* ODrop *)
    destruct (Nat.ltb i (length (slots s))) eqn:E.
    + apply Nat.ltb_lt in E. unfold Inv in *. simpl. intros n.
      pose proof (holders_set n (slots s) i SNone E) as HS. simpl in HS.
      pose proof (destroyed_dropev n (nth i (slots s) SNone)) as HD.
      pose proof (created_dropev n (nth i (slots s) SNone)) as HC.
      pose proof (bodies_dropev n (nth i (slots s) SNone)) as HB.
      destruct (H n) as [H1 H2]. counts. rewrite HD, HC, HB.
      split; intros Hn.
      * destruct (H1 Hn) as (A & B & C). lia.
      * destruct (H2 Hn) as (A & B & C & D). lia.
    + unfold Inv in *. intros n. destruct (H n). counts. rewrite !Nat.add_0_r. auto.
  - (* OAwait *)
    destruct (nth i (slots s) SNone) eqn:Esl.
    + unfold Inv in *. intros n. destruct (H n). counts. rewrite !Nat.add_0_r. auto.
    + unfold Inv in *. intros n. destruct (H n). counts. rewrite !Nat.add_0_r. auto.
    + assert (E : i < length (slots s)).
      { destruct (Nat.lt_ge_cases i (length (slots s))); auto. rewrite nth_overflow in Esl; [discriminate|lia]. }
      unfold Inv in *. simpl. intros m.
      pose proof (holders_set m (slots s) i SEmpty E) as HS. rewrite Esl in HS. simpl in HS.
      destruct (H m) as [H1 H2]. counts.
      destruct (Nat.eqb n m) eqn:En; simpl.
      * split; intros Hn.
        -- destruct (H1 Hn) as (A & B & C). lia.
        -- destruct (H2 Hn) as (A & B & C & D). lia.
      * split; intros Hn.
        -- destruct (H1 Hn) as (A & B & C). lia.
        -- destruct (H2 Hn) as (A & B & C & D). lia.
Qed.

Lemma inv_run : forall k ops, Inv (run_ops k ops).
Proof.
  intros. unfold run_ops.
  assert (G : forall ops c, Inv c -> Inv (fold_left step_acc ops c)).
  { induction ops0; simpl; intros; auto. apply IHops0. apply inv_step. assumption. }
  apply G. apply inv_init.
Qed.

Lemma destroyed_flat : forall n l, destroyed n (flat_map dropev l) = holders n l.
Proof.
  unfold holders. induction l; simpl; auto.
  unfold destroyed in *. rewrite count_app. fold (destroyed n (dropev a)). rewrite destroyed_dropev, IHl. reflexivity.
Qed.
Lemma created_flat : forall n l, created n (flat_map dropev l) = 0.
Proof.
  induction l; simpl; auto. unfold created in *. rewrite count_app. fold (created n (dropev a)).
  rewrite created_dropev, IHl. reflexivity.
Qed.

(* every created frame is destroyed exactly once by the time all task objects are gone; no frame is created twice *)
Theorem frames_destroyed_exactly_once : forall k ops n,
  destroyed n (exec k ops) = created n (exec k ops) /\ created n (exec k ops) <= 1.
Proof.
  intros. unfold exec. pose proof (inv_run k ops) as H. destruct (run_ops k ops) as [s tr]. simpl.
  unfold Inv in H. destruct (H n) as [H1 H2].
  unfold destroyed, created in *. rewrite !count_app.
  fold (destroyed n (flat_map dropev (slots s))). fold (created n (flat_map dropev (slots s))).
  rewrite destroyed_flat, created_flat.
  destruct (Nat.lt_ge_cases n (next s)) as [Hn|Hn].
  - destruct (H1 Hn) as (A & B & C). unfold created, destroyed in *. lia.
  - destruct (H2 Hn) as (A & B & C & D). unfold created, destroyed in *. lia.
Qed.

(* while task objects are alive: a frame owned by a slot has not been destroyed (no dangling owner), an unowned
   created frame has been destroyed exactly once (no leak), and a body only ever ran in a frame that was then
   destroyed by the await (never destroyed before or while it runs, never run twice) *)
Theorem frames_owned_or_destroyed : forall k ops n,
  let c := run_ops k ops in
  destroyed n (snd c) + holders n (slots (fst c)) = created n (snd c) /\
  bodies n (snd c) <= destroyed n (snd c) /\ destroyed n (snd c) <= 1.
Proof.
  intros. subst c. pose proof (inv_run k ops) as H. destruct (run_ops k ops) as [s tr]. simpl.
  unfold Inv in H. destruct (H n) as [H1 H2].
  destruct (Nat.lt_ge_cases n (next s)) as [Hn|Hn].
  - destruct (H1 Hn) as (A & B & C). lia.
  - destruct (H2 Hn) as (A & B & C & D). lia.
Qed.
