(* C12 on the second-generation calculus Calc2: receiver queries - the two custom queries, stop_possible and
   get_scheduler - reach all children.  The invariant ([sees] on every TLeafStart of every run) is proved in
   Calc/Ctx2Proofs.v (Part 2, together with the contexts); this file gives the functional form [static_q2] and the
   "innermost enclosing override wins" reading. *)
From Coq Require Import ZArith List Bool Lia Arith.
From V Require Import Calc.Calc2Defs Calc.Ctx2Proofs.
Import ListNotations.
Import Calc2.
Local Open Scope Z_scope.

(* the answers leaf [id] gets, computed from the expression alone *)
Fixpoint static_q2_from (e : sexpr) (sm : qsum) (id : nat) : option qsum :=
  match e with
  | Leaf id' => if Nat.eqb id id' then Some sm else None
  | LeafN id' => if Nat.eqb id id' then Some sm else None
  | LeafR id' _ => if Nat.eqb id id' then Some sm else None
  | Un k s => static_q2_from s (un_sum k sm) id
  | Bin k a b =>
      match static_q2_from a (bin_sum k sm) id with
      | Some x => Some x
      | None => static_q2_from b (bin_sum k sm) id
      end
  | _ => None
  end.

(* (q0, q1, stop_possible, scheduler context) under the root receiver *)
Definition static_q2 (e : sexpr) (id : nat) : option (Z * Z * bool * nat) := static_q2_from e root_sum id.

Lemma static_q2_sees e : forall sm id x, static_q2_from e sm id = Some x -> sees e sm id x.
Proof.
  induction e; intros sm i x H; simpl in H; try discriminate.
  - destruct (Nat.eqb i id) eqn:E; inv H. apply Nat.eqb_eq in E. subst. constructor.
  - destruct (Nat.eqb i id) eqn:E; inv H. apply Nat.eqb_eq in E. subst. constructor.
  - destruct (Nat.eqb i id) eqn:E; inv H. apply Nat.eqb_eq in E. subst. constructor.
  - constructor. auto.
  - destruct (static_q2_from e1 (bin_sum k sm) i) eqn:E.
    + inv H. apply sees_bin_a. auto.
    + apply sees_bin_b. auto.
Qed.

Lemma static_in e : forall sm id x, static_q2_from e sm id = Some x -> In id (leaf_ids e).
Proof. intros. eapply sees_in. eapply static_q2_sees. eassumption. Qed.

Lemma static_notin e sm id : ~ In id (leaf_ids e) -> static_q2_from e sm id = None.
Proof.
  intros H. destruct (static_q2_from e sm id) eqn:E; [|reflexivity].
  exfalso. apply H. eapply static_in. eassumption.
Qed.

(* with unique ids the relation is functional and coincides with the function *)
Lemma sees_static e : NoDup (leaf_ids e) -> forall sm id x, sees e sm id x -> static_q2_from e sm id = Some x.
Proof.
  intros ND sm id x H. induction H; simpl in *.
  - rewrite Nat.eqb_refl. reflexivity.
  - rewrite Nat.eqb_refl. reflexivity.
  - rewrite Nat.eqb_refl. reflexivity.
  - auto.
  - rewrite IHsees; [reflexivity|]. eapply nodup_app_l. eassumption.
  - rewrite static_notin.
    + apply IHsees. eapply nodup_app_r. eassumption.
    + intros Hin. eapply nodup_app_disj; [exact ND|exact Hin|]. eapply sees_in. eassumption.
Qed.

(* C12, functional form: every leaf start of every run - first start, restart by repeat_effect_until or
   retry_when, successor started by any completion, on any context - carries exactly the statically
   determined answers *)
Theorem queries_static e pre script id st sp q0 q1 sch cx :
  NoDup (leaf_ids e) ->
  In (XT (TLeafStart id st sp q0 q1 sch cx)) (r_tr (exec e pre script)) ->
  static_q2 e id = Some (q0, q1, sp, sch).
Proof.
  intros ND H. apply queries_sees in H. destruct H as [H _].
  apply sees_static; assumption.
Qed.

(* a token that cannot be stopped is never observed stopped *)
Theorem unstoppable_not_stopped e pre script id st sp q0 q1 sch cx :
  In (XT (TLeafStart id st sp q0 q1 sch cx)) (r_tr (exec e pre script)) -> sp = false -> st = false.
Proof. intros H. apply queries_sees in H. exact (proj2 H). Qed.

(* ---- the same, spelled out along the path: "innermost enclosing override wins" ---------------------- *)
Inductive frame := FUn (k : ukind) | FBin (k : bkind).
(* frames from the root down to an occurrence of leaf id *)
Inductive path_to : sexpr -> nat -> list frame -> Prop :=
| pt_leaf id : path_to (Leaf id) id []
| pt_leafn id : path_to (LeafN id) id []
| pt_leafr id lvl : path_to (LeafR id lvl) id []
| pt_un k s id p : path_to s id p -> path_to (Un k s) id (FUn k :: p)
| pt_bin_a k a b id p : path_to a id p -> path_to (Bin k a b) id (FBin k :: p)
| pt_bin_b k a b id p : path_to b id p -> path_to (Bin k a b) id (FBin k :: p).

(* walking outwards from the leaf (innermost frame first); d = the root receiver's answer *)
Fixpoint inner_q0 (q : list frame) (d : Z) : Z :=
  match q with
  | [] => d
  | FUn (UWithQ O v) :: _ => v
  | _ :: q' => inner_q0 q' d
  end.
Fixpoint inner_q1 (q : list frame) (d : Z) : Z :=
  match q with
  | [] => d
  | FUn (UWithQ (S _) v) :: _ => v
  | _ :: q' => inner_q1 q' d
  end.
(* stop_possible: the nearest enclosing unstoppable / let_value_with_stop_source / when_all / stop_when /
   when_any decides *)
Fixpoint inner_sp (q : list frame) (d : bool) : bool :=
  match q with
  | [] => d
  | FUn UUnstoppable :: _ => false
  | FUn (ULetSS _) :: _ => true
  | FBin k :: q' => if is_seq k then inner_sp q' d else true
  | _ :: q' => inner_sp q' d
  end.
(* get_scheduler: the nearest enclosing with_query_value(get_scheduler, c) - in particular the one on(c, .)
   wraps around its sender *)
Fixpoint inner_sch (q : list frame) (d : nat) : nat :=
  match q with
  | [] => d
  | FUn (UWithSched c) :: _ => c
  | _ :: q' => inner_sch q' d
  end.

Definition frame_sum (f : frame) (sm : qsum) : qsum :=
  match f with FUn k => un_sum k sm | FBin k => bin_sum k sm end.

Lemma sees_path e sm id x :
  sees e sm id x -> exists p, path_to e id p /\ x = fold_left (fun s f => frame_sum f s) p sm.
Proof.
  induction 1 as [id sm|id sm|id lvl sm|k s sm id x _ (p & P & E)|k a b sm id x _ (p & P & E)|k a b sm id x _ (p & P & E)].
  - exists []. split; [constructor|reflexivity].
  - exists []. split; [constructor|reflexivity].
  - exists []. split; [constructor|reflexivity].
  - exists (FUn k :: p). split; [constructor; exact P|exact E].
  - exists (FBin k :: p). split; [apply pt_bin_a; exact P|exact E].
  - exists (FBin k :: p). split; [apply pt_bin_b; exact P|exact E].
Qed.

Lemma fold_inner p : forall sm,
  fold_left (fun s f => frame_sum f s) p sm =
  (inner_q0 (rev p) (s_q0 sm), inner_q1 (rev p) (s_q1 sm), inner_sp (rev p) (s_sp sm), inner_sch (rev p) (s_sch sm)).
Proof.
  induction p as [|f p IH] using rev_ind; intros sm.
  - destruct sm as [[[a b] c] d]. reflexivity.
  - rewrite fold_left_app, rev_app_distr. simpl. rewrite IH.
    destruct f as [k|k]; simpl.
    + destruct k; try reflexivity. destruct q; reflexivity.
    + unfold bin_sum. destruct (is_seq k); reflexivity.
Qed.

Theorem queries_innermost e pre script id st sp q0 q1 sch cx :
  In (XT (TLeafStart id st sp q0 q1 sch cx)) (r_tr (exec e pre script)) ->
  exists p, path_to e id p /\
    q0 = inner_q0 (rev p) 0 /\ q1 = inner_q1 (rev p) 0 /\ sp = inner_sp (rev p) true /\ sch = inner_sch (rev p) 0.
Proof.
  intros H. apply queries_sees in H. destruct H as [H _].
  apply sees_path in H. destruct H as (p & P & E). exists p. split; [exact P|].
  rewrite fold_inner in E. simpl in E. inversion E. auto.
Qed.

(* on(c, s): the leaves of s get the answers computed for s under a receiver whose scheduler is c *)
Lemma static_q2_on id c s i : static_q2 (on id c s) i = static_q2_from s (0, 0, true, c) i.
Proof. reflexivity. Qed.
(* via / with_scheduler_affinity do not change what the leaves of s see *)
Lemma static_q2_via id c s i : static_q2 (via id c s) i = static_q2 s i.
Proof.
  unfold static_q2, via. simpl. change (bin_sum BFinally root_sum) with root_sum.
  destruct (static_q2_from s root_sum i); reflexivity.
Qed.
Lemma static_q2_wsa_via id c s i : static_q2 (wsa_via id c s) i = static_q2 s i.
Proof.
  unfold static_q2, wsa_via. simpl. change (bin_sum BFinally root_sum) with root_sum.
  destruct (static_q2_from s root_sum i); reflexivity.
Qed.
