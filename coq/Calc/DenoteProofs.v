(* C05 — the operational machine of CalcDefs.v computes the denotation of DenoteDefs.v:
   for every expression without stop-reactive leaves and with unique leaf ids, and every script
   without stop requests, the root receiver completes iff the denotation says so, with exactly
   that outcome, after exactly that many script events. *)
From Coq Require Import ZArith List Bool Arith Lia.
From V Require Import Calc.CalcDefs Calc.DenoteDefs.
Import ListNotations.
Import Calc.

(* ------------------------------------------------------------------------------------------ *)
(* generalities                                                                                 *)

Definition stopped_now (ts : option nat) (now : nat) : bool :=
  match ts with Some c => c <=? now | None => false end.

Definition done_by (r : dres) (n : nat) : bool :=
  match r with Some (_, t) => t <=? n | None => false end.

(* the part of a result that is known at time m *)
Definition by_time (r : dres) (m : nat) : dres :=
  match r with Some (o, t) => if t <=? m then r else None | None => None end.

(* instant c is later than x *)
Definition later (c : option nat) (x : nat) : Prop :=
  match c with Some c => x < c | None => True end.

Lemma stopped_by_now : forall ts n, stopped_by ts n = stopped_now ts (2 * n).
Proof. reflexivity. Qed.

Lemma later_not_stopped : forall c x, later c x -> stopped_now c x = false.
Proof. intros [c|] x H; simpl in *; [apply Nat.leb_gt; lia|reflexivity]. Qed.

Lemma by_time_some : forall r m o t, by_time r m = Some (o, t) -> r = Some (o, t) /\ t <= m.
Proof.
  intros [[o' t']|] m o t H; simpl in H; [|discriminate].
  destruct (t' <=? m) eqn:E; [|discriminate]. inversion H; subst. split; [reflexivity|apply Nat.leb_le; exact E].
Qed.

Lemma by_time_done : forall r m o t, r = Some (o, t) -> t <= m -> by_time r m = Some (o, t).
Proof. intros r m o t -> H. simpl. apply Nat.leb_le in H. rewrite H. reflexivity. Qed.

Lemma by_time_none : forall r m, by_time r m = None <-> done_by r m = false.
Proof.
  intros [[o t]|] m; simpl; [|tauto]. destruct (t <=? m); split; intro H; try discriminate; reflexivity.
Qed.

Lemma by_time_eq_some : forall r r' m o t,
  by_time r m = by_time r' m -> r = Some (o, t) -> t <= m -> r' = Some (o, t).
Proof.
  intros r r' m o t E Hr Ht. rewrite (by_time_done r m o t Hr Ht) in E. symmetry in E.
  apply by_time_some in E. tauto.
Qed.

Lemma by_time_eq_done : forall r r' m, by_time r m = by_time r' m -> done_by r m = done_by r' m.
Proof.
  intros r r' m E. destruct (done_by r m) eqn:E1; destruct (done_by r' m) eqn:E2; try reflexivity.
  - apply by_time_none in E2. rewrite E2 in E. apply by_time_none in E. congruence.
  - apply by_time_none in E1. rewrite E1 in E. symmetry in E. apply by_time_none in E. congruence.
Qed.

Lemma nth_error_skipn_add : forall (A : Type) t (l : list A) k, nth_error (skipn t l) k = nth_error l (t + k).
Proof.
  induction t as [|t IH]; intros l k; [reflexivity|].
  destruct l as [|x l]; simpl; [destruct k; reflexivity|apply IH].
Qed.

(* ------------------------------------------------------------------------------------------ *)
(* the first event of a leaf                                                                    *)

Lemma find_leaf_some : forall l id pos o t,
  find_leaf l id pos = Some (o, t) ->
  exists k, t = S (pos + k) /\ nth_error l k = Some (EvLeaf id o) /\
            forall j o', j < k -> nth_error l j <> Some (EvLeaf id o').
Proof.
  induction l as [|ev l IH]; intros id pos o t H; simpl in H; [discriminate|].
  destruct ev as [id' o'|].
  - destruct (Nat.eqb id id') eqn:E.
    + apply Nat.eqb_eq in E; subst id'. inversion H; subst. exists 0. split; [lia|].
      split; [reflexivity|]. intros; lia.
    + apply IH in H. destruct H as [k [Ht [Hn Hj]]]. exists (S k). split; [lia|]. split; [exact Hn|].
      intros j o'' Hlt. destruct j as [|j]; simpl.
      * intro Hc; inversion Hc; subst. rewrite Nat.eqb_refl in E; discriminate.
      * apply Hj; lia.
  - apply IH in H. destruct H as [k [Ht [Hn Hj]]]. exists (S k). split; [lia|]. split; [exact Hn|].
    intros j o'' Hlt. destruct j as [|j]; simpl; [discriminate|apply Hj; lia].
Qed.

Lemma find_leaf_none : forall l id pos,
  find_leaf l id pos = None -> forall j o', nth_error l j <> Some (EvLeaf id o').
Proof.
  induction l as [|ev l IH]; intros id pos H j o'; [destruct j; discriminate|].
  simpl in H. destruct ev as [id' o''|].
  - destruct (Nat.eqb id id') eqn:E; [discriminate|].
    destruct j as [|j]; simpl.
    + intro Hc; inversion Hc; subst. rewrite Nat.eqb_refl in E; discriminate.
    + eapply IH; eassumption.
  - destruct j as [|j]; simpl; [discriminate|eapply IH; eassumption].
Qed.

Section WithScript.
Variable script : list sev.
Notation D := (denote script).

Lemma fle_some : forall id t0 o t,
  first_leaf_event script id t0 = Some (o, t) ->
  t0 < t /\ nth_error script (t - 1) = Some (EvLeaf id o) /\
  forall p o', t0 <= p -> p < t - 1 -> nth_error script p <> Some (EvLeaf id o').
Proof.
  intros id t0 o t H. unfold first_leaf_event in H. apply find_leaf_some in H.
  destruct H as [k [Ht [Hn Hj]]]. rewrite nth_error_skipn_add in Hn. subst t.
  split; [lia|]. split.
  - replace (S (t0 + k) - 1) with (t0 + k) by lia. exact Hn.
  - intros p o' H1 H2. specialize (Hj (p - t0) o'). rewrite nth_error_skipn_add in Hj.
    replace (t0 + (p - t0)) with p in Hj by lia. apply Hj. lia.
Qed.

Lemma fle_none : forall id t0,
  first_leaf_event script id t0 = None ->
  forall p o', t0 <= p -> nth_error script p <> Some (EvLeaf id o').
Proof.
  intros id t0 H p o' Hp. unfold first_leaf_event in H.
  pose proof (find_leaf_none _ _ _ H (p - t0) o') as Hj. rewrite nth_error_skipn_add in Hj.
  replace (t0 + (p - t0)) with p in Hj by lia. exact Hj.
Qed.

(* a pending leaf whose event comes now completes now *)
Lemma fle_hit : forall id t0 n o,
  t0 <= n -> done_by (first_leaf_event script id t0) n = false ->
  nth_error script n = Some (EvLeaf id o) ->
  first_leaf_event script id t0 = Some (o, S n).
Proof.
  intros id t0 n o Hle Hp Hn.
  destruct (first_leaf_event script id t0) as [[o' t]|] eqn:E.
  - simpl in Hp. apply Nat.leb_gt in Hp. apply fle_some in E. destruct E as [Ht [Hev Hno]].
    destruct (Nat.eq_dec (t - 1) n) as [Heq|Hne].
    + rewrite Heq in Hev. rewrite Hn in Hev. inversion Hev; subst. f_equal. f_equal. lia.
    + exfalso. apply (Hno n o); [lia|lia|exact Hn].
  - exfalso. eapply fle_none; eassumption.
Qed.

(* ... and one whose event does not come now stays pending *)
Lemma fle_miss : forall id t0 n id' o,
  done_by (first_leaf_event script id t0) n = false ->
  nth_error script n = Some (EvLeaf id' o) -> id <> id' ->
  done_by (first_leaf_event script id t0) (S n) = false.
Proof.
  intros id t0 n id' o Hp Hn Hne.
  destruct (first_leaf_event script id t0) as [[o' t]|] eqn:E; [|reflexivity].
  simpl in *. apply Nat.leb_gt in Hp. apply Nat.leb_gt.
  apply fle_some in E. destruct E as [Ht [Hev Hno]].
  destruct (Nat.eq_dec t (S n)) as [Heq|Hne']; [|lia].
  subst t. replace (S n - 1) with n in Hev by lia. rewrite Hn in Hev. inversion Hev. congruence.
Qed.

End WithScript.
