(* C05 — the operational machine of CalcDefs.v computes the denotation of DenoteDefs.v:
   for every expression without stop-reactive leaves and with unique leaf ids, and every script
   without stop requests, the root receiver completes iff the denotation says so, with exactly
   that outcome, after exactly that many script events (C05_result, C05_result_unique,
   C05_timing), and the user callables are applied exactly as the denotation says (C05_calls).

   Plan of the proof:
     1. first_leaf_event; normal forms of denote (denote_un / denote_seq / denote_conc);
        completion times (denote_cause); causality of the stop instant (denote_causal);
        self-consistency of the plan of a concurrent node (Section Plan, Section PlanCoh).
     2. the machine one constructor at a time (start_Un ... leafev_Bin_conc), conc_child_done
        (ccd_spec, CI_child_a/b, CI_final).
     3. the simulation invariant Inv and its four transitions: leafev_miss / inv_advance (an event
        that is not ours), stop_spec (a stop request is delivered), start_spec, step_spec.
     4. whole runs (run_prefix_inv) and the theorems. *)
From Coq Require Import ZArith List Bool Arith Lia.
From V Require Import Calc.CalcDefs Calc.DenoteDefs.
Import ListNotations.
Import Calc.

(* ------------------------------------------------------------------------------------------ *)
(* generalities                                                                                 *)





Lemma stopped_by_now : forall ts n, stopped_by ts n = stopped_now ts (2 * n).
Proof. reflexivity. Qed.

Lemma later_not_stopped : forall c x, later c x -> stopped_now c x = false.
Proof. intros [c|] x H; simpl in *; [apply Nat.leb_gt; lia|reflexivity]. Qed.

Lemma by_time_some : forall r m o t, by_time r m = Some (o, t) -> r = Some (o, t) /\ t <= m.
Proof.
  intros [[o' t']|] m o t H; simpl in H; [|discriminate].
  destruct (t' <=? m) eqn:E; [|discriminate]. inversion H; subst. split; [reflexivity|apply Nat.leb_le; exact E].
Qed.

Lemma by_time_done : forall r m o t, r = Some (o, t) -> t <= m -> by_time r m = Some (o, t).
Proof. intros r m o t -> H. simpl. apply Nat.leb_le in H. rewrite H. reflexivity. Qed.

Lemma by_time_none : forall r m, by_time r m = None <-> done_by r m = false.
Proof.
  intros [[o t]|] m; simpl; [|tauto]. destruct (t <=? m); split; intro H; try discriminate; reflexivity.
Qed.

Lemma by_time_eq_some : forall r r' m o t,
  by_time r m = by_time r' m -> r = Some (o, t) -> t <= m -> r' = Some (o, t).
Proof.
  intros r r' m o t E Hr Ht. rewrite (by_time_done r m o t Hr Ht) in E. symmetry in E.
  apply by_time_some in E. tauto.
Qed.

Lemma by_time_eq_done : forall r r' m, by_time r m = by_time r' m -> done_by r m = done_by r' m.
Proof.
  intros r r' m E. destruct (done_by r m) eqn:E1; destruct (done_by r' m) eqn:E2; try reflexivity.
  - apply by_time_none in E2. rewrite E2 in E. apply by_time_none in E. congruence.
  - apply by_time_none in E1. rewrite E1 in E. symmetry in E. apply by_time_none in E. congruence.
Qed.

Lemma nth_error_skipn_add : forall (A : Type) t (l : list A) k, nth_error (skipn t l) k = nth_error l (t + k).
Proof.
  induction t as [|t IH]; intros l k; [reflexivity|].
  destruct l as [|x l]; simpl; [destruct k; reflexivity|apply IH].
Qed.

(* ------------------------------------------------------------------------------------------ *)
(* the first event of a leaf                                                                    *)

Lemma find_leaf_some : forall l id pos o t,
  find_leaf l id pos = Some (o, t) ->
  exists k, t = S (pos + k) /\ nth_error l k = Some (EvLeaf id o) /\
            forall j o', j < k -> nth_error l j <> Some (EvLeaf id o').
Proof.
  induction l as [|ev l IH]; intros id pos o t H; simpl in H; [discriminate|].
  destruct ev as [id' o'|].
  - destruct (Nat.eqb id id') eqn:E.
    + apply Nat.eqb_eq in E; subst id'. inversion H; subst. exists 0. split; [lia|].
      split; [reflexivity|]. intros; lia.
    + apply IH in H. destruct H as [k [Ht [Hn Hj]]]. exists (S k). split; [lia|]. split; [exact Hn|].
      intros j o'' Hlt. destruct j as [|j]; simpl.
      * intro Hc; inversion Hc; subst. rewrite Nat.eqb_refl in E; discriminate.
      * apply Hj; lia.
  - apply IH in H. destruct H as [k [Ht [Hn Hj]]]. exists (S k). split; [lia|]. split; [exact Hn|].
    intros j o'' Hlt. destruct j as [|j]; simpl; [discriminate|apply Hj; lia].
Qed.

Lemma find_leaf_none : forall l id pos,
  find_leaf l id pos = None -> forall j o', nth_error l j <> Some (EvLeaf id o').
Proof.
  induction l as [|ev l IH]; intros id pos H j o'; [destruct j; discriminate|].
  simpl in H. destruct ev as [id' o''|].
  - destruct (Nat.eqb id id') eqn:E; [discriminate|].
    destruct j as [|j]; simpl.
    + intro Hc; inversion Hc; subst. rewrite Nat.eqb_refl in E; discriminate.
    + eapply IH; eassumption.
  - destruct j as [|j]; simpl; [discriminate|eapply IH; eassumption].
Qed.

Section WithScript.
Variable script : list sev.
Notation D := (denote script).

Lemma fle_some : forall id t0 o t,
  first_leaf_event script id t0 = Some (o, t) ->
  t0 < t /\ nth_error script (t - 1) = Some (EvLeaf id o) /\
  forall p o', t0 <= p -> p < t - 1 -> nth_error script p <> Some (EvLeaf id o').
Proof.
  intros id t0 o t H. unfold first_leaf_event in H. apply find_leaf_some in H.
  destruct H as [k [Ht [Hn Hj]]]. rewrite nth_error_skipn_add in Hn. subst t.
  split; [lia|]. split.
  - replace (S (t0 + k) - 1) with (t0 + k) by lia. exact Hn.
  - intros p o' H1 H2. specialize (Hj (p - t0) o'). rewrite nth_error_skipn_add in Hj.
    replace (t0 + (p - t0)) with p in Hj by lia. apply Hj. lia.
Qed.

Lemma fle_none : forall id t0,
  first_leaf_event script id t0 = None ->
  forall p o', t0 <= p -> nth_error script p <> Some (EvLeaf id o').
Proof.
  intros id t0 H p o' Hp. unfold first_leaf_event in H.
  pose proof (find_leaf_none _ _ _ H (p - t0) o') as Hj. rewrite nth_error_skipn_add in Hj.
  replace (t0 + (p - t0)) with p in Hj by lia. exact Hj.
Qed.

(* a pending leaf whose event comes now completes now *)
Lemma fle_hit : forall id t0 n o,
  t0 <= n -> done_by (first_leaf_event script id t0) n = false ->
  nth_error script n = Some (EvLeaf id o) ->
  first_leaf_event script id t0 = Some (o, S n).
Proof.
  intros id t0 n o Hle Hp Hn.
  destruct (first_leaf_event script id t0) as [[o' t]|] eqn:E.
  - simpl in Hp. apply Nat.leb_gt in Hp. apply fle_some in E. destruct E as [Ht [Hev Hno]].
    destruct (Nat.eq_dec (t - 1) n) as [Heq|Hne].
    + rewrite Heq in Hev. rewrite Hn in Hev. inversion Hev; subst. f_equal. f_equal. lia.
    + exfalso. apply (Hno n o); [lia|lia|exact Hn].
  - exfalso. eapply fle_none; eassumption.
Qed.

(* ... and one whose event does not come now stays pending *)
Lemma fle_miss : forall id t0 n id' o,
  done_by (first_leaf_event script id t0) n = false ->
  nth_error script n = Some (EvLeaf id' o) -> id <> id' ->
  done_by (first_leaf_event script id t0) (S n) = false.
Proof.
  intros id t0 n id' o Hp Hn Hne.
  destruct (first_leaf_event script id t0) as [[o' t]|] eqn:E; [|reflexivity].
  simpl in *. apply Nat.leb_gt in Hp. apply Nat.leb_gt.
  apply fle_some in E. destruct E as [Ht [Hev Hno]].
  destruct (Nat.eq_dec t (S n)) as [Heq|Hne']; [|lia].
  subst t. replace (S n - 1) with n in Hev by lia. rewrite Hn in Hev. inversion Hev. congruence.
Qed.

End WithScript.

(* ------------------------------------------------------------------------------------------ *)
(* normal forms of the denotation                                                               *)


Definition conc_out (k : bkind) (stopped af : bool) (oa ob : outcome) : outcome :=
  match k with BWhenAll => when_all_out stopped af oa ob | _ => oa end.

Definition conc_result (k : bkind) (ts : option nat) (x : dres * dres * bool) : dres :=
  match x with
  | (Some (oa, ta), Some (ob, tb), af) =>
      Some (conc_out k (stopped_by ts (Nat.max ta tb)) af oa ob, Nat.max ta tb)
  | _ => None
  end.

Definition code_b (t0 t : nat) : nat := if t =? t0 then 2 * t0 + 1 else 2 * t.

(* a triggering completion of r has happened by time m *)
Definition trig_done (k : bkind) (r : dres) (m : nat) : bool :=
  match r with Some (o, t) => triggers k o && (t <=? m) | None => false end.

Section WithScript.
Variable script : list sev.
Notation D := (denote script).

Lemma denote_un : forall k s bs t0 ts,
  D (Un k s) bs t0 ts =
  match D s bs t0 (un_ts k ts) with Some (o, t) => Some (un_out k o, t) | None => None end.
Proof. reflexivity. Qed.

Lemma denote_seq : forall k a b bs t0 ts, is_seq k = true ->
  D (Bin k a b) bs t0 ts =
  match D a bs t0 ts with
  | None => None
  | Some (oa, t1) =>
      match seq_next k bs oa with
      | None => Some (oa, t1)
      | Some (bs', sv) =>
          match D b bs' t1 ts with
          | None => None
          | Some (ob, t2) => Some (after_second k sv ob, t2)
          end
      end
  end.
Proof.
  intros k a b bs t0 ts Hk.
  destruct k; try discriminate Hk; cbn [denote];
    destruct (D a bs t0 ts) as [[oa t1]|]; try reflexivity;
    destruct oa; cbn [seq_next]; try reflexivity;
    match goal with |- context [D b ?x ?y ?z] => destruct (D b x y z) as [[ob t2]|] end;
    try reflexivity; destruct ob; reflexivity.
Qed.

Lemma denote_conc : forall k a b bs t0 ts, is_seq k = false ->
  D (Bin k a b) bs t0 ts = conc_result k ts (conc_children k (D a bs t0) (D b bs t0) t0 ts).
Proof.
  intros k a b bs t0 ts Hk.
  destruct k; try discriminate Hk; cbn [denote];
    destruct (conc_children _ (D a bs t0) (D b bs t0) t0 ts) as [[ra rb] af];
    destruct ra as [[oa ta]|]; destruct rb as [[ob tb]|]; reflexivity.
Qed.

(* ------------------------------------------------------------------------------------------ *)
(* completion times: never before the start; after the start only by an event of an own leaf  *)

Definition hit_in (e : sexpr) (t : nat) : Prop :=
  exists id o', nth_error script (t - 1) = Some (EvLeaf id o') /\ In id (leaf_ids e).

Lemma denote_cause : forall e, no_leafn e = true -> forall bs t0 ts o t,
  D e bs t0 ts = Some (o, t) -> t = t0 \/ (t0 < t /\ hit_in e t).
Proof.
  induction e as [v|x| |n|id|id|k s IHs|k a IHa b IHb]; intros Hn bs t0 ts o t H.
  - inversion H; auto.
  - inversion H; auto.
  - inversion H; auto.
  - inversion H; auto.
  - cbn [denote] in H. apply fle_some in H. destruct H as [Ht [Hev _]].
    right. split; [exact Ht|]. exists id, o. split; [exact Hev|left; reflexivity].
  - discriminate Hn.
  - rewrite denote_un in H. destruct (D s bs t0 (un_ts k ts)) as [[o1 t1]|] eqn:Es; [|discriminate].
    inversion H; subst. apply (IHs Hn) in Es. exact Es.
  - cbn [no_leafn] in Hn. apply andb_true_iff in Hn. destruct Hn as [Hna Hnb].
    destruct (is_seq k) eqn:Hk.
    + rewrite (denote_seq _ _ _ _ _ _ Hk) in H.
      destruct (D a bs t0 ts) as [[oa t1]|] eqn:Ea; [|discriminate].
      apply (IHa Hna) in Ea.
      assert (Ha' : t1 = t0 \/ (t0 < t1 /\ hit_in (Bin k a b) t1)).
      { destruct Ea as [Ea|[Ea [id [o' [E1 E2]]]]]; [left; exact Ea|right; split; [exact Ea|]].
        exists id, o'. split; [exact E1|]. cbn [leaf_ids]. apply in_or_app. left; exact E2. }
      destruct (seq_next k bs oa) as [[bs' sv]|].
      * destruct (D b bs' t1 ts) as [[ob t2]|] eqn:Eb; [|discriminate]. inversion H; subst.
        apply (IHb Hnb) in Eb. destruct Eb as [Eb|[Eb [id [o' [E1 E2]]]]].
        -- subst. exact Ha'.
        -- right. split; [destruct Ha' as [Ha'|[Ha' _]]; lia|].
           exists id, o'. split; [exact E1|]. cbn [leaf_ids]. apply in_or_app. right; exact E2.
      * inversion H; subst. exact Ha'.
    + rewrite (denote_conc _ _ _ _ _ _ Hk) in H. unfold conc_children in H.
      set (af := conc_afirst k (D a bs t0) (D b bs t0) t0 ts) in H.
      set (sg := conc_sigma k (D a bs t0) (D b bs t0) t0 ts) in H.
      destruct (D a bs t0 (if af then ts else sg)) as [[oa ta]|] eqn:Ea; [|discriminate].
      destruct (D b bs t0 (if af then sg else ts)) as [[ob tb]|] eqn:Eb; [|discriminate].
      cbn [conc_result] in H. inversion H; subst.
      apply (IHa Hna) in Ea. apply (IHb Hnb) in Eb.
      assert (Ha' : ta = t0 \/ (t0 < ta /\ hit_in (Bin k a b) ta)).
      { destruct Ea as [Ea|[Ea [id [o' [E1 E2]]]]]; [left; exact Ea|right; split; [exact Ea|]].
        exists id, o'. split; [exact E1|]. cbn [leaf_ids]. apply in_or_app. left; exact E2. }
      assert (Hb' : tb = t0 \/ (t0 < tb /\ hit_in (Bin k a b) tb)).
      { destruct Eb as [Eb|[Eb [id [o' [E1 E2]]]]]; [left; exact Eb|right; split; [exact Eb|]].
        exists id, o'. split; [exact E1|]. cbn [leaf_ids]. apply in_or_app. right; exact E2. }
      destruct (Nat.max_spec ta tb) as [[Hlt Hm]|[Hlt Hm]]; rewrite Hm.
      * destruct Hb' as [Hb'|Hb']; [|right; exact Hb'].
        destruct Ha' as [Ha'|[Ha' _]]; [left; lia|lia].
      * destruct Ha' as [Ha'|Ha']; [|right; exact Ha'].
        destruct Hb' as [Hb'|[Hb' _]]; [left; lia|lia].
Qed.

Lemma denote_ge : forall e, no_leafn e = true -> forall bs t0 ts o t,
  D e bs t0 ts = Some (o, t) -> t0 <= t.
Proof.
  intros e Hn bs t0 ts o t H. apply (denote_cause e Hn) in H. destruct H as [H|[H _]]; lia.
Qed.

Lemma denote_le_length : forall e, no_leafn e = true -> forall bs t0 ts o t,
  D e bs t0 ts = Some (o, t) -> t0 <= length script -> t <= length script.
Proof.
  intros e Hn bs t0 ts o t H Hl. apply (denote_cause e Hn) in H.
  destruct H as [H|[H [id [o' [E _]]]]]; [lia|].
  assert (t - 1 < length script) by (apply nth_error_Some; congruence). lia.
Qed.

(* an event for a leaf that is not ours does not complete us *)
Lemma denote_no_hit : forall e, no_leafn e = true -> forall bs t0 ts n id o',
  nth_error script n = Some (EvLeaf id o') -> ~ In id (leaf_ids e) -> t0 <= n ->
  done_by (D e bs t0 ts) n = false -> done_by (D e bs t0 ts) (S n) = false.
Proof.
  intros e Hn bs t0 ts n id o' Hev Hni Hle Hp.
  destruct (D e bs t0 ts) as [[o t]|] eqn:E; [|reflexivity].
  simpl in *. apply Nat.leb_gt in Hp. apply Nat.leb_gt.
  apply (denote_cause e Hn) in E. destruct E as [E|[E [id2 [o2 [E1 E2]]]]]; [lia|].
  destruct (Nat.eq_dec t (S n)) as [Heq|Hne]; [|lia].
  subst t. replace (S n - 1) with n in E1 by lia. rewrite Hev in E1. inversion E1; subst. contradiction.
Qed.

End WithScript.

(* ------------------------------------------------------------------------------------------ *)
(* causality: a stop requested after time m does not change what happens up to time m         *)

Definition causal_fn (d : option nat -> dres) : Prop :=
  forall c c' m, later c (2 * m) -> later c' (2 * m) -> by_time (d c) m = by_time (d c') m.
Definition lower_fn (d : option nat -> dres) (t0 : nat) : Prop :=
  forall c o t, d c = Some (o, t) -> t0 <= t.

Lemma later_omin : forall a b x, later a x -> later b x -> later (omin a b) x.
Proof. intros [a|] [b|] x Ha Hb; simpl in *; try lia; auto. Qed.

Lemma later_weaken : forall a x y, later a x -> y <= x -> later a y.
Proof. intros [a|] x y Ha Hl; simpl in *; [lia|auto]. Qed.

Lemma omin_small : forall c m x, later c (2 * m) -> x <= 2 * m + 1 -> omin c (Some x) = Some x.
Proof. intros [c|] m x Hc Hx; simpl in *; [f_equal; lia|reflexivity]. Qed.

Lemma trig_done_by_time : forall k r m,
  trig_done k r m = match by_time r m with Some (o, _) => triggers k o | None => false end.
Proof.
  intros k [[o t]|] m; simpl; [|reflexivity].
  destruct (t <=? m); [rewrite andb_true_r|rewrite andb_false_r]; reflexivity.
Qed.

Lemma trig_done_eq : forall k r r' m, by_time r m = by_time r' m -> trig_done k r m = trig_done k r' m.
Proof. intros k r r' m E. rewrite !trig_done_by_time, E. reflexivity. Qed.

Lemma trig_done_same : forall k r r' m,
  by_time r m = by_time r' m -> trig_done k r m = true -> r' = r.
Proof.
  intros k [[o t]|] r' m E H; simpl in H; [|discriminate].
  apply andb_true_iff in H. destruct H as [_ H]. apply Nat.leb_le in H.
  eapply by_time_eq_some; [exact E|reflexivity|exact H].
Qed.

Lemma trig_a_small : forall k r m, trig_done k r m = true -> exists x, trig_a k r = Some x /\ x <= 2 * m.
Proof.
  intros k [[o t]|] m H; simpl in *; [|discriminate].
  apply andb_true_iff in H. destruct H as [H1 H2]. rewrite H1. apply Nat.leb_le in H2.
  eexists; split; [reflexivity|lia].
Qed.

Lemma trig_a_large : forall k r m, trig_done k r m = false -> later (trig_a k r) (2 * m + 1).
Proof.
  intros k [[o t]|] m H; simpl in *; [|exact I].
  destruct (triggers k o); simpl in *; [|exact I]. apply Nat.leb_gt in H. lia.
Qed.

Lemma code_b_bounds : forall t0 t, t0 <= t -> 2 * t <= code_b t0 t /\ code_b t0 t <= 2 * t + 1.
Proof. intros t0 t H. unfold code_b. destruct (t =? t0) eqn:E; [apply Nat.eqb_eq in E; subst|]; lia. Qed.

Lemma trig_b_small : forall k t0 r m, (forall o t, r = Some (o, t) -> t0 <= t) ->
  trig_done k r m = true -> exists x, trig_b k t0 r = Some x /\ x <= 2 * m + 1.
Proof.
  intros k t0 [[o t]|] m Hl H; simpl in *; [|discriminate].
  apply andb_true_iff in H. destruct H as [H1 H2]. rewrite H1. apply Nat.leb_le in H2.
  eexists; split; [reflexivity|]. specialize (Hl o t eq_refl).
  pose proof (code_b_bounds t0 t Hl) as Hb. unfold code_b in Hb. destruct (t =? t0); lia.
Qed.

Lemma trig_b_large : forall k t0 r m, (forall o t, r = Some (o, t) -> t0 <= t) ->
  trig_done k r m = false -> later (trig_b k t0 r) (2 * m + 1).
Proof.
  intros k t0 [[o t]|] m Hl H; simpl in *; [|exact I].
  destruct (triggers k o); simpl in *; [|exact I]. apply Nat.leb_gt in H.
  specialize (Hl o t eq_refl). pose proof (code_b_bounds t0 t Hl) as Hb. unfold code_b in Hb. destruct (t =? t0); lia.
Qed.

Lemma a_first_small_large : forall xa nb m, xa <= 2 * m -> later nb (2 * m + 1) ->
  a_first (Some xa) nb = true /\ omin (Some xa) nb = Some xa.
Proof.
  intros xa [xb|] m Ha Hb; simpl in *; [|auto]. split; [apply Nat.leb_le; lia|f_equal; lia].
Qed.

Lemma a_first_large_small : forall na xb m, later na (2 * m + 1) -> xb <= 2 * m + 1 ->
  a_first na (Some xb) = false /\ omin na (Some xb) = Some xb.
Proof.
  intros [xa|] xb m Ha Hb; simpl in *; [|auto]. split; [apply Nat.leb_gt; lia|f_equal; lia].
Qed.

Lemma omin_some_small : forall xa xb m, xa <= 2 * m -> xb <= 2 * m + 1 ->
  exists x, omin (Some xa) (Some xb) = Some x /\ x <= 2 * m + 1.
Proof. intros. simpl. eexists; split; [reflexivity|lia]. Qed.

Lemma conc_result_by_time : forall k c ra rb af m,
  by_time (conc_result k c (ra, rb, af)) m =
  match by_time ra m, by_time rb m with
  | Some (oa, ta), Some (ob, tb) =>
      Some (conc_out k (stopped_by c (Nat.max ta tb)) af oa ob, Nat.max ta tb)
  | _, _ => None
  end.
Proof.
  intros k c [[oa ta]|] [[ob tb]|] af m; simpl; try reflexivity.
  - destruct (ta <=? m) eqn:Ea; destruct (tb <=? m) eqn:Eb;
      destruct (Nat.max ta tb <=? m) eqn:Em; try reflexivity; exfalso;
      repeat match goal with
             | H : (_ <=? _) = true |- _ => apply Nat.leb_le in H
             | H : (_ <=? _) = false |- _ => apply Nat.leb_gt in H
             end; lia.
  - destruct (ta <=? m); reflexivity.
Qed.

Lemma conc_out_notrig : forall k s af af' oa ob,
  triggers k oa = false -> triggers k ob = false -> conc_out k s af oa ob = conc_out k s af' oa ob.
Proof.
  intros k s af af' oa ob Ha Hb.
  destruct k; simpl in Ha, Hb; try discriminate.
  destruct oa; try discriminate. destruct ob; try discriminate. reflexivity.
Qed.

Lemma stopped_by_later : forall c m t, later c (2 * m) -> t <= m -> stopped_by c t = false.
Proof.
  intros [c|] m t Hc Ht; simpl in *; [|reflexivity]. apply Nat.leb_gt. lia.
Qed.

(* the result does not depend on a late receiver stop *)
Lemma conc_result_ts_irrel : forall k c c' x m, later c (2 * m) -> later c' (2 * m) ->
  by_time (conc_result k c x) m = by_time (conc_result k c' x) m.
Proof.
  intros k c c' [[ra rb] af] m Hc Hc'. rewrite !conc_result_by_time.
  destruct (by_time ra m) as [[oa ta]|] eqn:Ea; [|reflexivity].
  destruct (by_time rb m) as [[ob tb]|] eqn:Eb; [|reflexivity].
  apply by_time_some in Ea. apply by_time_some in Eb.
  rewrite (stopped_by_later c m) by (try assumption; lia).
  rewrite (stopped_by_later c' m) by (try assumption; lia). reflexivity.
Qed.

Lemma conc_causal : forall k da db t0,
  lower_fn da t0 -> lower_fn db t0 -> causal_fn da -> causal_fn db ->
  causal_fn (fun c => conc_result k c (conc_children k da db t0 c)).
Proof.
  intros k da db t0 Hla Hlb Hca Hcb c c' m Hc Hc'.
  pose proof (Hca c c' m Hc Hc') as Ea. pose proof (Hcb c c' m Hc Hc') as Eb.
  assert (Hlb1 : forall o t, db c = Some (o, t) -> t0 <= t) by (intros o t; apply Hlb).
  assert (Hlb2 : forall o t, db c' = Some (o, t) -> t0 <= t) by (intros o t; apply Hlb).
  destruct (trig_done k (da c) m) eqn:Sa; destruct (trig_done k (db c) m) eqn:Sb.
  - (* both triggered by m *)
    pose proof (trig_done_same _ _ _ _ Ea Sa) as Ea'. pose proof (trig_done_same _ _ _ _ Eb Sb) as Eb'.
    destruct (trig_a_small _ _ _ Sa) as [xa [Hxa Hxa']].
    destruct (trig_b_small _ _ _ _ Hlb1 Sb) as [xb [Hxb Hxb']].
    assert (Heq : conc_children k da db t0 c = conc_children k da db t0 c').
    { unfold conc_children, conc_sigma, conc_afirst. rewrite Ea', Eb', Hxa, Hxb.
      destruct (omin_some_small xa xb m Hxa' Hxb') as [x [Hx Hx']]. rewrite Hx.
      rewrite (omin_small c m x Hc Hx'), (omin_small c' m x Hc' Hx').
      destruct (a_first (Some xa) (Some xb)); rewrite ?Ea', ?Eb'; reflexivity. }
    rewrite <- Heq. apply conc_result_ts_irrel; assumption.
  - (* only a *)
    pose proof (trig_done_same _ _ _ _ Ea Sa) as Ea'.
    assert (Sb' : trig_done k (db c') m = false) by (rewrite <- (trig_done_eq _ _ _ _ Eb); exact Sb).
    destruct (trig_a_small _ _ _ Sa) as [xa [Hxa Hxa']].
    pose proof (trig_b_large _ _ _ _ Hlb1 Sb) as Hnb. pose proof (trig_b_large _ _ _ _ Hlb2 Sb') as Hnb'.
    assert (Heq : conc_children k da db t0 c = conc_children k da db t0 c').
    { unfold conc_children, conc_sigma, conc_afirst. rewrite Ea', Hxa.
      destruct (a_first_small_large xa _ m Hxa' Hnb) as [F1 F2].
      destruct (a_first_small_large xa _ m Hxa' Hnb') as [F1' F2'].
      rewrite F1, F2, F1', F2'.
      rewrite (omin_small c m xa Hc) by lia. rewrite (omin_small c' m xa Hc') by lia. rewrite ?Ea'; reflexivity. }
    rewrite <- Heq. apply conc_result_ts_irrel; assumption.
  - (* only b *)
    pose proof (trig_done_same _ _ _ _ Eb Sb) as Eb'.
    assert (Sa' : trig_done k (da c') m = false) by (rewrite <- (trig_done_eq _ _ _ _ Ea); exact Sa).
    destruct (trig_b_small _ _ _ _ Hlb1 Sb) as [xb [Hxb Hxb']].
    pose proof (trig_a_large _ _ _ Sa) as Hna. pose proof (trig_a_large _ _ _ Sa') as Hna'.
    assert (Heq : conc_children k da db t0 c = conc_children k da db t0 c').
    { unfold conc_children, conc_sigma, conc_afirst. rewrite Eb', Hxb.
      destruct (a_first_large_small _ xb m Hna Hxb') as [F1 F2].
      destruct (a_first_large_small _ xb m Hna' Hxb') as [F1' F2'].
      rewrite F1, F2, F1', F2'.
      rewrite (omin_small c m xb Hc Hxb'). rewrite (omin_small c' m xb Hc' Hxb'). rewrite ?Eb'; reflexivity. }
    rewrite <- Heq. apply conc_result_ts_irrel; assumption.
  - (* no trigger by m: every stop instant involved is later than m *)
    assert (Sa' : trig_done k (da c') m = false) by (rewrite <- (trig_done_eq _ _ _ _ Ea); exact Sa).
    assert (Sb' : trig_done k (db c') m = false) by (rewrite <- (trig_done_eq _ _ _ _ Eb); exact Sb).
    pose proof (trig_a_large _ _ _ Sa) as Hna. pose proof (trig_a_large _ _ _ Sa') as Hna'.
    pose proof (trig_b_large _ _ _ _ Hlb1 Sb) as Hnb. pose proof (trig_b_large _ _ _ _ Hlb2 Sb') as Hnb'.
    assert (Hs : later (conc_sigma k da db t0 c) (2 * m)).
    { unfold conc_sigma. apply later_omin; [exact Hc|].
      apply later_omin; eapply later_weaken; try eassumption; lia. }
    assert (Hs' : later (conc_sigma k da db t0 c') (2 * m)).
    { unfold conc_sigma. apply later_omin; [exact Hc'|].
      apply later_omin; eapply later_weaken; try eassumption; lia. }
    unfold conc_children.
    set (af := conc_afirst k da db t0 c). set (af' := conc_afirst k da db t0 c').
    set (pa := if af then c else conc_sigma k da db t0 c).
    set (pb := if af then conc_sigma k da db t0 c else c).
    set (pa' := if af' then c' else conc_sigma k da db t0 c').
    set (pb' := if af' then conc_sigma k da db t0 c' else c').
    assert (Hpa : later pa (2 * m)) by (unfold pa; destruct af; assumption).
    assert (Hpb : later pb (2 * m)) by (unfold pb; destruct af; assumption).
    assert (Hpa' : later pa' (2 * m)) by (unfold pa'; destruct af'; assumption).
    assert (Hpb' : later pb' (2 * m)) by (unfold pb'; destruct af'; assumption).
    rewrite !conc_result_by_time.
    rewrite <- (Hca pa pa' m Hpa Hpa'), <- (Hcb pb pb' m Hpb Hpb').
    pose proof (trig_done_eq k _ _ _ (Hca pa c m Hpa Hc)) as Ta. rewrite Sa in Ta.
    pose proof (trig_done_eq k _ _ _ (Hcb pb c m Hpb Hc)) as Tb. rewrite Sb in Tb.
    rewrite trig_done_by_time in Ta, Tb.
    destruct (by_time (da pa) m) as [[oa ta]|] eqn:Ra; [|reflexivity].
    destruct (by_time (db pb) m) as [[ob tb]|] eqn:Rb; [|reflexivity].
    apply by_time_some in Ra. apply by_time_some in Rb.
    rewrite (stopped_by_later c m) by (try assumption; lia).
    rewrite (stopped_by_later c' m) by (try assumption; lia).
    rewrite (conc_out_notrig k false af af' oa ob Ta Tb). reflexivity.
Qed.

Lemma by_time_map : forall (f : outcome -> outcome) r m,
  by_time (match r with Some (o, t) => Some (f o, t) | None => None end) m =
  match by_time r m with Some (o, t) => Some (f o, t) | None => None end.
Proof. intros f [[o t]|] m; simpl; [destruct (t <=? m); reflexivity|reflexivity]. Qed.

Lemma later_un_ts : forall k c x, later c x -> later (un_ts k c) x.
Proof. intros k c x H. destruct k; simpl; auto. Qed.

Lemma stopped_now_false_later : forall c x, stopped_now c x = false -> later c x.
Proof. intros [c|] x H; simpl in *; [apply Nat.leb_gt in H; lia|exact I]. Qed.

Lemma stopped_now_true : forall c x, stopped_now c x = true -> exists s, c = Some s /\ s <= x.
Proof. intros [c|] x H; simpl in *; [|discriminate]. apply Nat.leb_le in H. eauto. Qed.

Lemma later_omin_inv : forall a b x, later (omin a b) x -> later a x /\ later b x.
Proof. intros [a|] [b|] x H; simpl in *; split; auto; lia. Qed.

Lemma stopped_now_omin : forall a b x, stopped_now (omin a b) x = stopped_now a x || stopped_now b x.
Proof.
  intros [a|] [b|] x; simpl; try rewrite orb_false_r; try reflexivity.
  destruct (a <=? x) eqn:Ea; destruct (b <=? x) eqn:Eb; destruct (Nat.min a b <=? x) eqn:Em; try reflexivity; exfalso;
    repeat match goal with
           | H : (_ <=? _) = true |- _ => apply Nat.leb_le in H
           | H : (_ <=? _) = false |- _ => apply Nat.leb_gt in H
           end; lia.
Qed.

Section WithScript.
Variable script : list sev.
Notation D := (denote script).

Lemma denote_lower : forall e, no_leafn e = true -> forall bs t0, lower_fn (D e bs t0) t0.
Proof. intros e Hn bs t0 c o t H. eapply denote_ge; eassumption. Qed.

Lemma denote_causal : forall e, no_leafn e = true -> forall bs t0, causal_fn (D e bs t0).
Proof.
  induction e as [v|x| |n|id|id|k s IHs|k a IHa b IHb]; intros Hn bs t0 c c' m Hc Hc'; try reflexivity.
  - discriminate Hn.
  - rewrite !denote_un, !by_time_map.
    rewrite (IHs Hn bs t0 (un_ts k c) (un_ts k c') m) by (apply later_un_ts; assumption). reflexivity.
  - cbn [no_leafn] in Hn. apply andb_true_iff in Hn. destruct Hn as [Hna Hnb].
    destruct (is_seq k) eqn:Hk.
    + rewrite !(denote_seq _ _ _ _ _ _ _ Hk).
      pose proof (IHa Hna bs t0 c c' m Hc Hc') as Ea.
      destruct (done_by (D a bs t0 c) m) eqn:Da.
      * destruct (D a bs t0 c) as [[oa t1]|] eqn:Ra; [|discriminate]. simpl in Da. apply Nat.leb_le in Da.
        rewrite (by_time_eq_some _ _ _ _ _ Ea eq_refl Da).
        destruct (seq_next k bs oa) as [[bs' sv]|]; [|reflexivity].
        pose proof (IHb Hnb bs' t1 c c' m Hc Hc') as Eb.
        rewrite !(by_time_map (after_second k sv)) in *. rewrite Eb. reflexivity.
      * pose proof Da as Da'. rewrite (by_time_eq_done _ _ _ Ea) in Da'.
        assert (G : forall cc, done_by (D a bs t0 cc) m = false ->
                    by_time (match D a bs t0 cc with
                             | None => None
                             | Some (oa, t1) =>
                                 match seq_next k bs oa with
                                 | None => Some (oa, t1)
                                 | Some (bs', sv) =>
                                     match D b bs' t1 cc with
                                     | None => None
                                     | Some (ob, t2) => Some (after_second k sv ob, t2)
                                     end
                                 end
                             end) m = None).
        { intros cc Hd. destruct (D a bs t0 cc) as [[oa t1]|]; [|reflexivity].
          simpl in Hd. destruct (seq_next k bs oa) as [[bs' sv]|].
          - destruct (D b bs' t1 cc) as [[ob t2]|] eqn:Rb; [|reflexivity].
            apply (denote_ge _ _ Hnb) in Rb. apply Nat.leb_gt in Hd.
            apply by_time_none. simpl. apply Nat.leb_gt. lia.
          - apply by_time_none. simpl. exact Hd. }
        rewrite (G c Da), (G c' Da'). reflexivity.
    + rewrite !(denote_conc _ _ _ _ _ _ _ Hk).
      exact (conc_causal k (D a bs t0) (D b bs t0) t0
               (denote_lower a Hna bs t0) (denote_lower b Hnb bs t0)
               (IHa Hna bs t0) (IHb Hnb bs t0) c c' m Hc Hc').
Qed.

End WithScript.

(* ------------------------------------------------------------------------------------------ *)
(* the plan of a concurrent node is self-consistent                                             *)
Section Plan.
Variables (k : bkind) (da db : option nat -> dres) (t0 : nat) (ts : option nat).
Hypothesis Hla : lower_fn da t0.
Hypothesis Hlb : lower_fn db t0.
Hypothesis Hca : causal_fn da.
Hypothesis Hcb : causal_fn db.

Let sg := conc_sigma k da db t0 ts.
Let af := conc_afirst k da db t0 ts.
Let pa := if af then ts else sg.
Let pb := if af then sg else ts.

Lemma trig_a_of : forall r o t, r = Some (o, t) -> triggers k o = true -> trig_a k r = Some (2 * t).
Proof. intros r o t -> H. simpl. rewrite H. reflexivity. Qed.
Lemma trig_b_of : forall r o t, r = Some (o, t) -> triggers k o = true -> trig_b k t0 r = Some (code_b t0 t).
Proof. intros r o t -> H. simpl. rewrite H. reflexivity. Qed.

(* the form of sigma, by who is first *)
Lemma sigma_af : af = true -> exists xa, trig_a k (da ts) = Some xa /\ sg = omin ts (Some xa) /\
                                  (forall xb, trig_b k t0 (db ts) = Some xb -> xa <= xb).
Proof.
  unfold af, sg, conc_afirst, conc_sigma. intros H.
  destruct (trig_a k (da ts)) as [xa|]; [|discriminate]. exists xa. split; [reflexivity|].
  destruct (trig_b k t0 (db ts)) as [xb|]; simpl in *; [|split; [reflexivity|intros; discriminate]].
  apply Nat.leb_le in H. split; [|intros xb' E; inversion E; subst; lia]. destruct ts; simpl; f_equal; lia.
Qed.

Lemma sigma_bf : af = false -> sg = omin ts (trig_b k t0 (db ts)) /\
   (forall xb, trig_b k t0 (db ts) = Some xb -> later (trig_a k (da ts)) xb).
Proof.
  unfold af, sg, conc_afirst, conc_sigma. intros H.
  destruct (trig_a k (da ts)) as [xa|]; destruct (trig_b k t0 (db ts)) as [xb|]; simpl in *;
    try discriminate; try (split; [reflexivity|intros; try discriminate; exact I]).
  apply Nat.leb_gt in H. split.
  - destruct ts; simpl; f_equal; lia.
  - intros xb' E; inversion E; subst; lia.
Qed.

(* the child that did not trigger does not trigger before the own source is requested *)
Lemma plan_a_not_before : af = false -> forall o t, da pa = Some (o, t) -> triggers k o = true ->
  stopped_now sg (2 * t) = true.
Proof.
  intros Haf o t Hr Ht. destruct (stopped_now sg (2 * t)) eqn:E; [reflexivity|exfalso].
  apply stopped_now_false_later in E.
  assert (Hts : later ts (2 * t)).
  { unfold sg, conc_sigma in E. apply later_omin_inv in E. tauto. }
  unfold pa in Hr. rewrite Haf in Hr.
  pose proof (Hca sg ts t E Hts) as Ec.
  pose proof (by_time_eq_some _ _ _ _ _ Ec Hr (le_n t)) as Hr0.
  pose proof (trig_a_of _ _ _ Hr0 Ht) as Hna.
  unfold sg, conc_sigma in E. rewrite Hna in E. apply later_omin_inv in E. destruct E as [_ E].
  apply later_omin_inv in E. destruct E as [E _]. simpl in E. lia.
Qed.

Lemma plan_b_not_before : af = true -> forall o t, db pb = Some (o, t) -> triggers k o = true ->
  stopped_now sg (code_b t0 t) = true.
Proof.
  intros Haf o t Hr Ht. destruct (stopped_now sg (code_b t0 t)) eqn:E; [reflexivity|exfalso].
  apply stopped_now_false_later in E.
  unfold pb in Hr. rewrite Haf in Hr.
  pose proof (Hlb _ _ _ Hr) as Hge. pose proof (code_b_bounds t0 t Hge) as Hcb'.
  assert (E2 : later sg (2 * t)) by (eapply later_weaken; [exact E|lia]).
  assert (Hts : later ts (2 * t)).
  { unfold sg, conc_sigma in E2. apply later_omin_inv in E2. tauto. }
  pose proof (Hcb sg ts t E2 Hts) as Ec.
  pose proof (by_time_eq_some _ _ _ _ _ Ec Hr (le_n t)) as Hr0.
  pose proof (trig_b_of _ _ _ Hr0 Ht) as Hnb.
  unfold sg, conc_sigma in E. rewrite Hnb in E. apply later_omin_inv in E. destruct E as [_ E].
  apply later_omin_inv in E. destruct E as [_ E]. simpl in E. lia.
Qed.

Lemma trig_a_inv : forall r x, trig_a k r = Some x ->
  exists o t, r = Some (o, t) /\ triggers k o = true /\ x = 2 * t.
Proof.
  intros [[o t]|] x H; simpl in H; [|discriminate]. destruct (triggers k o) eqn:E; [|discriminate].
  inversion H. exists o, t. auto.
Qed.
Lemma trig_b_inv : forall r x, trig_b k t0 r = Some x ->
  exists o t, r = Some (o, t) /\ triggers k o = true /\ x = code_b t0 t.
Proof.
  intros [[o t]|] x H; unfold trig_b in H; [|discriminate]. destruct (triggers k o) eqn:E; [|discriminate].
  inversion H. exists o, t. auto.
Qed.

(* sigma is also the first triggering completion of the children as they really run *)
Lemma plan_fix : sg = omin ts (omin (trig_a k (da pa)) (trig_b k t0 (db pb))).
Proof.
  case_eq af; intro Haf.
  - destruct (sigma_af Haf) as [xa [Hna [Hsg Hnb]]].
    assert (Epa : pa = ts) by (unfold pa; rewrite Haf; reflexivity). rewrite Epa, Hna.
    destruct (trig_b k t0 (db pb)) as [xb|] eqn:Eb; [|exact Hsg].
    destruct (trig_b_inv _ _ Eb) as [o [t [Hr [Ht Hx]]]].
    pose proof (plan_b_not_before Haf o t Hr Ht) as Hs.
    apply stopped_now_true in Hs. destruct Hs as [s [Hs1 Hs2]].
    rewrite Hs1 in *. destruct ts as [c|]; simpl in *; inversion Hsg; subst; f_equal; lia.
  - destruct (sigma_bf Haf) as [Hsg Hna].
    assert (Epb : pb = ts) by (unfold pb; rewrite Haf; reflexivity). rewrite Epb.
    destruct (trig_a k (da pa)) as [xa|] eqn:Ea; [|exact Hsg].
    destruct (trig_a_inv _ _ Ea) as [o [t [Hr [Ht Hx]]]].
    pose proof (plan_a_not_before Haf o t Hr Ht) as Hs.
    apply stopped_now_true in Hs. destruct Hs as [s [Hs1 Hs2]].
    rewrite Hs1 in *.
    destruct ts as [c|]; destruct (trig_b k t0 (db _)) as [xb|]; simpl in *;
      inversion Hsg; subst; f_equal; lia.
Qed.

(* order of two triggering completions *)
Lemma plan_order_af : af = true -> forall oa ta ob tb,
  da pa = Some (oa, ta) -> db pb = Some (ob, tb) -> triggers k ob = true -> 2 * ta <= code_b t0 tb.
Proof.
  intros Haf oa ta ob tb Ra Rb Hb.
  destruct (sigma_af Haf) as [xa [Hna [Hsg Hnb]]].
  assert (Hxa : xa = 2 * ta).
  { unfold pa in Ra. rewrite Haf in Ra. rewrite Ra in Hna. simpl in Hna.
    destruct (triggers k oa); inversion Hna; reflexivity. }
  pose proof (plan_b_not_before Haf ob tb Rb Hb) as Hs.
  apply stopped_now_true in Hs. destruct Hs as [s [Hs1 Hs2]].
  destruct ts as [c|] eqn:Ets; simpl in Hsg.
  - destruct (Nat.le_gt_cases xa c) as [Hle|Hgt].
    + rewrite Hs1 in Hsg. inversion Hsg. lia.
    + (* the receiver's stop is the earlier one: b ran under ts *)
      assert (Hsgc : sg = Some c) by (rewrite Hsg; f_equal; lia).
      unfold pb in Rb. rewrite Haf, Hsgc in Rb.
      pose proof (trig_b_of _ _ _ Rb Hb) as Hnb'. specialize (Hnb _ Hnb'). lia.
  - rewrite Hs1 in Hsg. inversion Hsg. lia.
Qed.

Lemma plan_order_bf : af = false -> forall oa ta ob tb,
  da pa = Some (oa, ta) -> triggers k oa = true -> db pb = Some (ob, tb) -> triggers k ob = true ->
  code_b t0 tb <= 2 * ta.
Proof.
  intros Haf oa ta ob tb Ra Ha Rb Hb.
  destruct (sigma_bf Haf) as [Hsg Hna].
  assert (Hnb : trig_b k t0 (db ts) = Some (code_b t0 tb)).
  { unfold pb in Rb. rewrite Haf in Rb. exact (trig_b_of _ _ _ Rb Hb). }
  rewrite Hnb in Hsg. specialize (Hna _ Hnb).
  pose proof (plan_a_not_before Haf oa ta Ra Ha) as Hs.
  apply stopped_now_true in Hs. destruct Hs as [s [Hs1 Hs2]].
  destruct ts as [c|] eqn:Ets; simpl in Hsg.
  - destruct (Nat.le_gt_cases (code_b t0 tb) c) as [Hle|Hgt].
    + rewrite Hs1 in Hsg. inversion Hsg. lia.
    + assert (Hsgc : sg = Some c) by (rewrite Hsg; f_equal; lia).
      unfold pa in Ra. rewrite Haf, Hsgc in Ra.
      pose proof (trig_a_of _ _ _ Ra Ha) as Hna'. rewrite Hna' in Hna. simpl in Hna. lia.
  - rewrite Hs1 in Hsg. inversion Hsg. lia.
Qed.

End Plan.

(* ------------------------------------------------------------------------------------------ *)
(* the calls of the denotation                                                                  *)

Lemma tcalls_app : forall l1 l2, tcalls (l1 ++ l2) = tcalls l1 ++ tcalls l2.
Proof. intros. unfold tcalls. apply flat_map_app. Qed.

Lemma un_result_calls : forall k o, tcalls (fst (un_result k o)) = un_call k o.
Proof. intros k o. destruct k; destruct o; reflexivity. Qed.

Lemma until_nil : forall r n, until r n [] = [].
Proof. intros [[o t]|] n; simpl; [destruct (t <? n)|]; reflexivity. Qed.

Lemma until_pending : forall r n l, done_by r n = false -> until r (S n) l = l.
Proof.
  intros [[o t]|] n l H; simpl in *; [|reflexivity]. apply Nat.leb_gt in H.
  destruct (t <? S n) eqn:E; [apply Nat.ltb_lt in E; lia|reflexivity].
Qed.

Lemma until_done : forall r n l, done_by r n = true -> until r (S n) l = [].
Proof.
  intros [[o t]|] n l H; simpl in *; [|discriminate]. apply Nat.leb_le in H.
  destruct (t <? S n) eqn:E; [reflexivity|apply Nat.ltb_ge in E; lia].
Qed.

Lemma until_lower : forall r t0 l, (forall o t, r = Some (o, t) -> t0 <= t) -> until r t0 l = l.
Proof.
  intros [[o t]|] t0 l H; simpl; [|reflexivity]. specialize (H o t eq_refl).
  destruct (t <? t0) eqn:E; [apply Nat.ltb_lt in E; lia|reflexivity].
Qed.

Section WithScript.
Variable script : list sev.
Notation D := (denote script).
Notation C := (calls_at script).

Lemma calls_un : forall k s bs t0 ts n,
  C (Un k s) bs t0 ts n =
  C s bs t0 (un_ts k ts) n ++
  match D s bs t0 (un_ts k ts) with Some (o, t) => if t =? n then un_call k o else [] | None => [] end.
Proof. reflexivity. Qed.

Lemma calls_seq : forall k a b bs t0 ts n, is_seq k = true ->
  C (Bin k a b) bs t0 ts n =
  match D a bs t0 ts with
  | Some (oa, t1) =>
      (if t1 <? n then [] else C a bs t0 ts n) ++
      match seq_next k bs oa with
      | Some (bs', _) => if t1 <=? n then C b bs' t1 ts n else []
      | None => []
      end
  | None => C a bs t0 ts n
  end.
Proof. intros k a b bs t0 ts n Hk. cbn [calls_at]. rewrite Hk. reflexivity. Qed.

Lemma calls_conc : forall k a b bs t0 ts n, is_seq k = false ->
  C (Bin k a b) bs t0 ts n =
  let sg := conc_sigma k (D a bs t0) (D b bs t0) t0 ts in
  let af := conc_afirst k (D a bs t0) (D b bs t0) t0 ts in
  let pa := if af then ts else sg in
  let pb := if af then sg else ts in
  until (D a bs t0 pa) n (C a bs t0 pa n) ++ until (D b bs t0 pb) n (C b bs t0 pb n).
Proof. intros k a b bs t0 ts n Hk. cbn [calls_at]. rewrite Hk. reflexivity. Qed.

Lemma denote_not_at : forall e, no_leafn e = true -> forall bs t0 ts n id o o' t,
  nth_error script n = Some (EvLeaf id o) -> ~ In id (leaf_ids e) -> t0 <= n ->
  D e bs t0 ts = Some (o', t) -> t <> S n.
Proof.
  intros e Hn bs t0 ts n id o o' t Hev Hni Hle Hd Heq. subst t.
  apply (denote_cause script e Hn) in Hd. destruct Hd as [Hd|[_ [id2 [o2 [E1 E2]]]]]; [lia|].
  replace (S n - 1) with n in E1 by lia. rewrite Hev in E1. inversion E1; subst. contradiction.
Qed.

(* an event for a leaf that is not ours: no calls *)
Lemma calls_quiet : forall e, no_leafn e = true -> forall bs t0 ts n id o,
  nth_error script n = Some (EvLeaf id o) -> ~ In id (leaf_ids e) -> t0 <= n ->
  C e bs t0 ts (S n) = [].
Proof.
  induction e as [v|x| |m|id'|id'|k s IHs|k a IHa b IHb]; intros Hn bs t0 ts n id o Hev Hni Hle;
    try reflexivity.
  - rewrite calls_un, (IHs Hn _ _ _ _ _ _ Hev Hni Hle). simpl.
    destruct (D s bs t0 (un_ts k ts)) as [[o1 t]|] eqn:Ds; [|reflexivity].
    pose proof (denote_not_at s Hn _ _ _ _ _ _ _ _ Hev Hni Hle Ds) as Hne.
    apply Nat.eqb_neq in Hne. rewrite Hne. reflexivity.
  - cbn [no_leafn] in Hn. apply andb_true_iff in Hn. destruct Hn as [Hna Hnb].
    cbn [leaf_ids] in Hni.
    assert (Hnia : ~ In id (leaf_ids a)) by (intro H; apply Hni; apply in_or_app; left; exact H).
    assert (Hnib : ~ In id (leaf_ids b)) by (intro H; apply Hni; apply in_or_app; right; exact H).
    destruct (is_seq k) eqn:Hk.
    + rewrite (calls_seq _ _ _ _ _ _ _ Hk), (IHa Hna _ _ _ _ _ _ Hev Hnia Hle).
      destruct (D a bs t0 ts) as [[oa t1]|] eqn:Da; [|reflexivity].
      assert (G1 : (if t1 <? S n then [] else @nil (fn * Z)) = []) by (destruct (t1 <? S n); reflexivity).
      rewrite G1. simpl. destruct (seq_next k bs oa) as [[bs' sv]|]; [|reflexivity].
      destruct (t1 <=? S n) eqn:Et; [|reflexivity]. apply Nat.leb_le in Et.
      pose proof (denote_not_at a Hna _ _ _ _ _ _ _ _ Hev Hnia Hle Da) as Hne.
      apply (IHb Hnb _ _ _ _ _ _ Hev Hnib). lia.
    + rewrite (calls_conc _ _ _ _ _ _ _ Hk). cbv zeta.
      rewrite (IHa Hna _ _ _ _ _ _ Hev Hnia Hle), (IHb Hnb _ _ _ _ _ _ Hev Hnib Hle), !until_nil. reflexivity.
Qed.

(* an operation that has completed makes no more calls *)
Lemma calls_after_done : forall e, no_leafn e = true -> forall bs t0 ts o t n,
  D e bs t0 ts = Some (o, t) -> t < n -> C e bs t0 ts n = [].
Proof.
  induction e as [v|x| |m|id'|id'|k s IHs|k a IHa b IHb]; intros Hn bs t0 ts o t n Hd Hlt;
    try reflexivity.
  - rewrite calls_un. rewrite denote_un in Hd.
    destruct (D s bs t0 (un_ts k ts)) as [[o1 t1]|] eqn:Ds; [|discriminate]. inversion Hd; subst.
    rewrite (IHs Hn _ _ _ _ _ _ Ds Hlt). simpl.
    destruct (t =? n) eqn:E; [apply Nat.eqb_eq in E; lia|reflexivity].
  - cbn [no_leafn] in Hn. apply andb_true_iff in Hn. destruct Hn as [Hna Hnb].
    destruct (is_seq k) eqn:Hk.
    + rewrite (calls_seq _ _ _ _ _ _ _ Hk). rewrite (denote_seq _ _ _ _ _ _ _ Hk) in Hd.
      destruct (D a bs t0 ts) as [[oa t1]|] eqn:Da; [|discriminate].
      destruct (seq_next k bs oa) as [[bs' sv]|].
      * destruct (D b bs' t1 ts) as [[ob t2]|] eqn:Db; [|discriminate]. inversion Hd; subst.
        pose proof (denote_ge script b Hnb _ _ _ _ _ Db) as Hge.
        assert (E1 : (t1 <? n) = true) by (apply Nat.ltb_lt; lia). rewrite E1.
        assert (E2 : (t1 <=? n) = true) by (apply Nat.leb_le; lia). rewrite E2.
        simpl. exact (IHb Hnb _ _ _ _ _ _ Db Hlt).
      * inversion Hd; subst. assert (E1 : (t <? n) = true) by (apply Nat.ltb_lt; lia).
        rewrite E1. reflexivity.
    + rewrite (calls_conc _ _ _ _ _ _ _ Hk). rewrite (denote_conc _ _ _ _ _ _ _ Hk) in Hd.
      unfold conc_children in Hd. cbv zeta.
      destruct (D a bs t0 _) as [[oa ta]|]; [|discriminate].
      destruct (D b bs t0 _) as [[ob tb]|]; [|discriminate].
      cbn [conc_result] in Hd. inversion Hd; subst. simpl.
      assert (E1 : (ta <? n) = true) by (apply Nat.ltb_lt; lia).
      assert (E2 : (tb <? n) = true) by (apply Nat.ltb_lt; lia).
      rewrite E1, E2. reflexivity.
Qed.

End WithScript.

(* ------------------------------------------------------------------------------------------ *)
(* the machine, one constructor at a time                                                       *)

Lemma start_Un : forall k s en,
  start (Un k s) en =
  let '(sc, tr, r) := start s (un_env k en) in
  match r with
  | Some o => let (tr2, o') := un_result k o in (OFin, tr ++ tr2, Some o')
  | None => (ONode (mk_nst PFirst en) sc OFin, tr, None)
  end.
Proof. reflexivity. Qed.

Lemma start_Bin_seq : forall k a b en, is_seq k = true ->
  start (Bin k a b) en =
  let '(sa, tra, ra) := start a en in
  match ra with
  | None => (ONode (mk_nst PFirst en) sa OFin, tra, None)
  | Some oa =>
      match after_first k en oa with
      | inl o => (OFin, tra, Some o)
      | inr (en2, sv) =>
          let '(sb, trb, rb) := start b en2 in
          match rb with
          | None => (ONode (ns_set_saved (mk_nst PSecond en) sv) OFin sb, tra ++ trb, None)
          | Some ob => (OFin, tra ++ trb, Some (after_second k sv ob))
          end
      end
  end.
Proof. intros k a b en H. cbn [start]. rewrite H. reflexivity. Qed.

Lemma start_Bin_conc : forall k a b en, is_seq k = false ->
  start (Bin k a b) en =
  let ns0 := ns_set_own (ns_set_reg (mk_nst PBoth en) (negb (e_stopped en))) (e_stopped en) in
  let '(sa, tra, ra) := start a (env_own en (own_stop ns0)) in
  let '(ns1, _, _) :=
      match ra with
      | Some oa => conc_child_done k ns0 false oa
      | None => (ns0, false, None)
      end in
  let '(sb, trb, rb) := start b (env_own en (own_stop ns1)) in
  match rb with
  | None => (ONode ns1 sa sb, tra ++ trb, None)
  | Some ob =>
      let '(ns2, newly, fin) := conc_child_done k ns1 true ob in
      match fin with
      | Some _ => finish_conc k ns2 sa OFin (tra ++ trb) fin false
      | None =>
          if newly then
            let '(sa', tra2, ra2) := stop a sa in
            match ra2 with
            | Some oa =>
                let '(ns3, _, fin3) := conc_child_done k ns2 false oa in
                finish_conc k ns3 sa' OFin (tra ++ trb ++ tra2) fin3 false
            | None => (ONode ns2 sa' OFin, tra ++ trb ++ tra2, None)
            end
          else (ONode ns2 sa OFin, tra ++ trb, None)
      end
  end.
Proof. intros k a b en H. cbn [start]. rewrite H. reflexivity. Qed.

Lemma stop_Un : forall k s ns sc x,
  stop (Un k s) (ONode ns sc x) =
  match k with
  | UUnstoppable => (ONode ns sc x, [], None)
  | _ =>
      let ns' := ns_set_env ns (env_with_stop (n_env ns) true) in
      let '(sc', tr, r) := stop s sc in
      match r with
      | Some o => let (tr2, o') := un_result k o in (OFin, tr ++ tr2, Some o')
      | None => (ONode ns' sc' OFin, tr, None)
      end
  end.
Proof. intros. destruct k; reflexivity. Qed.

Lemma stop_Bin_seq : forall k a b ns sa sb, is_seq k = true ->
  stop (Bin k a b) (ONode ns sa sb) =
  let ns' := ns_set_env ns (env_with_stop (n_env ns) true) in
  match ph ns with
  | PFirst =>
      let '(sa', tra, ra) := stop a sa in
      match ra with
      | None => (ONode ns' sa' sb, tra, None)
      | Some oa =>
          match after_first k (n_env ns') oa with
          | inl o => (OFin, tra, Some o)
          | inr (en2, sv) =>
              let '(sb', trb, rb) := start b en2 in
              match rb with
              | None => (ONode (ns_set_saved (ns_set_ph ns' PSecond) sv) OFin sb', tra ++ trb, None)
              | Some ob => (OFin, tra ++ trb, Some (after_second k sv ob))
              end
          end
      end
  | _ =>
      let '(sb', trb, rb) := stop b sb in
      match rb with
      | None => (ONode ns' sa sb', trb, None)
      | Some ob => (OFin, trb, Some (after_second k (saved ns) ob))
      end
  end.
Proof. intros k a b ns sa sb H. cbn [stop]. rewrite H. reflexivity. Qed.

Lemma stop_Bin_conc : forall k a b ns sa sb, is_seq k = false ->
  stop (Bin k a b) (ONode ns sa sb) =
  let ns' := ns_set_env ns (env_with_stop (n_env ns) true) in
  if own_stop ns then (ONode ns' sa sb, [], None)
  else
    let ns1 := ns_set_own ns' true in
    let '(sb', trb, rb) := if bdone ns1 then (sb, [], None) else stop b sb in
    let '(ns2, _, fin1) :=
        match rb with
        | Some ob => conc_child_done k ns1 true ob
        | None => (ns1, false, None)
        end in
    match fin1 with
    | Some _ => finish_conc k ns2 sa sb' trb fin1 (leaky k)
    | None =>
        let '(sa', tra, ra) := if adone ns2 then (sa, [], None) else stop a sa in
        let '(ns3, _, fin2) :=
            match ra with
            | Some oa => conc_child_done k ns2 false oa
            | None => (ns2, false, None)
            end in
        finish_conc k ns3 sa' sb' (trb ++ tra) fin2 (leaky k)
    end.
Proof. intros k a b ns sa sb H. cbn [stop]. rewrite H. reflexivity. Qed.

Lemma leafev_Un : forall k s ns sc x id o,
  leafev (Un k s) (ONode ns sc x) id o =
  let '((sc', tr, r), hit) := leafev s sc id o in
  match r with
  | Some oc => let (tr2, o') := un_result k oc in ((OFin, tr ++ tr2, Some o'), hit)
  | None => ((ONode ns sc' OFin, tr, None), hit)
  end.
Proof. reflexivity. Qed.

Lemma leafev_Bin_seq : forall k a b ns sa sb id o, is_seq k = true ->
  leafev (Bin k a b) (ONode ns sa sb) id o =
  match ph ns with
  | PFirst =>
      let '((sa', tra, ra), hit) := leafev a sa id o in
      match ra with
      | None => ((ONode ns sa' sb, tra, None), hit)
      | Some oa =>
          match after_first k (n_env ns) oa with
          | inl o' => ((OFin, tra, Some o'), hit)
          | inr (en2, sv) =>
              let '(sb', trb, rb) := start b en2 in
              match rb with
              | None => ((ONode (ns_set_saved (ns_set_ph ns PSecond) sv) OFin sb', tra ++ trb, None), hit)
              | Some ob => ((OFin, tra ++ trb, Some (after_second k sv ob)), hit)
              end
          end
      end
  | _ =>
      let '((sb', trb, rb), hit) := leafev b sb id o in
      match rb with
      | None => ((ONode ns sa sb', trb, None), hit)
      | Some ob => ((OFin, trb, Some (after_second k (saved ns) ob)), hit)
      end
  end.
Proof. intros k a b ns sa sb id o H. cbn [leafev]. rewrite H. reflexivity. Qed.

Lemma leafev_Bin_conc : forall k a b ns sa sb id o, is_seq k = false ->
  leafev (Bin k a b) (ONode ns sa sb) id o =
  let '((sa', tra, ra), hita) := if adone ns then ((sa, [], None), false) else leafev a sa id o in
  if hita then
    match ra with
    | None => ((ONode ns sa' sb, tra, None), true)
    | Some oa =>
        let '(ns1, newly, fin) := conc_child_done k ns false oa in
        match fin with
        | Some _ => (finish_conc k ns1 sa' sb tra fin false, true)
        | None =>
            if newly then
              let '(sb', trb, rb) := stop b sb in
              match rb with
              | Some ob =>
                  let '(ns2, _, fin2) := conc_child_done k ns1 true ob in
                  (finish_conc k ns2 sa' sb' (tra ++ trb) fin2 false, true)
              | None => ((ONode ns1 sa' sb', tra ++ trb, None), true)
              end
            else ((ONode ns1 sa' sb, tra, None), true)
        end
    end
  else
    let '((sb', trb, rb), hitb) := if bdone ns then ((sb, [], None), false) else leafev b sb id o in
    match rb with
    | None => ((ONode ns sa sb', trb, None), hitb)
    | Some ob =>
        let '(ns1, newly, fin) := conc_child_done k ns true ob in
        match fin with
        | Some _ => (finish_conc k ns1 sa sb' trb fin false, hitb)
        | None =>
            if newly then
              let '(sa', tra, ra) := stop a sa in
              match ra with
              | Some oa =>
                  let '(ns2, _, fin2) := conc_child_done k ns1 false oa in
                  (finish_conc k ns2 sa' sb' (trb ++ tra) fin2 false, hitb)
              | None => ((ONode ns1 sa' sb', trb ++ tra, None), hitb)
              end
            else ((ONode ns1 sa sb', trb, None), hitb)
        end
    end.
Proof. intros k a b ns sa sb id o H. cbn [leafev]. rewrite H. reflexivity. Qed.

Lemma leafev_OFin : forall e id o, leafev e OFin id o = ((OFin, [], None), false).
Proof. intros e id o. destruct e; reflexivity. Qed.

(* ------------------------------------------------------------------------------------------ *)
(* the local rules of the machine against the documented ones                                   *)

Lemma un_result_out : forall k o, snd (un_result k o) = un_out k o.
Proof.
  intros k o. destruct k; destruct o; try reflexivity;
    unfold un_result, apply_fn, un_out, fn_out; simpl; reflexivity.
Qed.

Lemma after_first_spec : forall k en oa,
  match seq_next k (e_bound en) oa with
  | Some (bs', sv) => exists en2, after_first k en oa = inr (en2, sv) /\ e_bound en2 = bs' /\
                                  e_stopped en2 = e_stopped en
  | None => after_first k en oa = inl oa
  end.
Proof.
  intros k en oa. destruct k; destruct oa; simpl; try reflexivity;
    eexists; split; try reflexivity; split; reflexivity.
Qed.

Definition conc_saved_step (k : bkind) (sv : option outcome) (i : bool) (o : outcome) : option outcome :=
  match k with
  | BWhenAll => match sv, o with
                | None, OVal _ => None
                | None, _ => Some o
                | Some s, _ => Some s
                end
  | _ => if i then sv else Some o
  end.

Definition conc_final (k : bkind) (stopped : bool) (sv : option outcome) (x y : Z) : outcome :=
  match k with
  | BWhenAll => if stopped then ODone
                else match sv with Some s => s | None => OVal (combine x y) end
  | _ => match sv with Some s => s | None => ODone end
  end.

Definition oval (o : outcome) : Z := match o with OVal v => v | _ => 0%Z end.

Lemma ccd_spec : forall k ns i o, is_seq k = false ->
  exists ns2 fin,
    conc_child_done k ns i o = (ns2, triggers k o && negb (own_stop ns), fin) /\
    n_env ns2 = n_env ns /\ own_stop ns2 = own_stop ns || triggers k o /\
    adone ns2 = (if i then adone ns else true) /\ bdone ns2 = (if i then true else bdone ns) /\
    va ns2 = (if i then va ns else oval o) /\ vb ns2 = (if i then oval o else vb ns) /\
    saved ns2 = conc_saved_step k (saved ns) i o /\
    fin = if adone ns2 && bdone ns2
          then Some (conc_final k (e_stopped (n_env ns)) (saved ns2) (va ns2) (vb ns2)) else None.
Proof.
  intros k ns i o Hk.
  destruct k; try discriminate Hk; unfold conc_child_done; cbv zeta;
    match goal with |- context [ns_set_saved ?a ?b] => set (ns2 := ns_set_saved a b) end;
    exists ns2.
  - exists (if adone ns2 && bdone ns2
            then Some (conc_final BWhenAll (e_stopped (n_env ns)) (saved ns2) (va ns2) (vb ns2)) else None).
    split.
    + destruct i; destruct o; destruct (adone ns2 && bdone ns2) eqn:E; reflexivity.
    + subst ns2. destruct i; destruct o; destruct (own_stop ns); simpl;
        repeat split; try reflexivity; destruct (saved ns); reflexivity.
  - exists (if adone ns2 && bdone ns2
            then Some (conc_final BStopWhen (e_stopped (n_env ns)) (saved ns2) (va ns2) (vb ns2)) else None).
    split.
    + destruct i; destruct o; destruct (adone ns2 && bdone ns2) eqn:E; reflexivity.
    + subst ns2. destruct i; destruct o; destruct (own_stop ns); simpl;
        repeat split; reflexivity.
Qed.

(* ------------------------------------------------------------------------------------------ *)
(* the simulation invariant                                                                     *)

Definition nonval (o : outcome) : bool := match o with OVal _ => false | _ => true end.

(* the error/done r completed with by time n *)
Definition fail_by (r : dres) (n : nat) : option outcome :=
  match r with Some (o, t) => if (t <=? n) && nonval o then Some o else None | None => None end.

(* what a concurrent node has parked by time n *)
Definition conc_saved (k : bkind) (af : bool) (ra rb : dres) (n : nat) : option outcome :=
  match k with
  | BWhenAll => match fail_by ra n, fail_by rb n with
                | Some oa, Some ob => Some (if af then oa else ob)
                | Some oa, None => Some oa
                | None, fb => fb
                end
  | _ => match ra with Some (oa, ta) => if ta <=? n then Some oa else None | None => None end
  end.

Definition val_ok (r : dres) (n : nat) (v : Z) : Prop :=
  forall x t, r = Some (OVal x, t) -> t <= n -> v = x.

Definition un_flag (k : ukind) (F : bool) : bool := match k with UUnstoppable => false | _ => F end.

Section WithScript.
Variable script : list sev.
Notation D := (denote script).

(* [Inv e bs t0 ts n F st]: st is the state of the operation e, started at time t0 with bound
   values bs and stop instant ts, after n events, when it has not completed yet; F tells whether
   the stop request has been delivered to it. *)
Fixpoint Inv (e : sexpr) (bs : list Z) (t0 : nat) (ts : option nat) (n : nat) (F : bool) (st : ost)
         {struct e} : Prop :=
  match e with
  | Leaf id => exists seen, st = OLeaf false seen
  | Un k s => exists ns sc, st = ONode ns sc OFin /\ Inv s bs t0 (un_ts k ts) n (un_flag k F) sc
  | Bin k a b =>
      exists ns sa sb, st = ONode ns sa sb /\ e_bound (n_env ns) = bs /\ e_stopped (n_env ns) = F /\
      if is_seq k then
        match D a bs t0 ts with
        | Some (oa, t1) =>
            if t1 <=? n then
              match seq_next k bs oa with
              | Some (bs', sv) => ph ns <> PFirst /\ saved ns = sv /\ Inv b bs' t1 ts n F sb
              | None => False
              end
            else ph ns = PFirst /\ Inv a bs t0 ts n F sa
        | None => ph ns = PFirst /\ Inv a bs t0 ts n F sa
        end
      else
        let sg := conc_sigma k (D a bs t0) (D b bs t0) t0 ts in
        let af := conc_afirst k (D a bs t0) (D b bs t0) t0 ts in
        let ra := D a bs t0 (if af then ts else sg) in
        let rb := D b bs t0 (if af then sg else ts) in
        own_stop ns = F || trig_done k ra n || trig_done k rb n /\
        adone ns = done_by ra n /\ bdone ns = done_by rb n /\
        (done_by ra n = false -> Inv a bs t0 (if af then ts else sg) n (own_stop ns) sa) /\
        (done_by rb n = false -> Inv b bs t0 (if af then sg else ts) n (own_stop ns) sb) /\
        saved ns = conc_saved k af ra rb n /\ val_ok ra n (va ns) /\ val_ok rb n (vb ns)
  | _ => False
  end.

Lemma not_in_app : forall (id : nat) l1 l2, ~ In id (l1 ++ l2) -> ~ In id l1 /\ ~ In id l2.
Proof. intros id l1 l2 H. split; intro H'; apply H; apply in_or_app; [left|right]; exact H'. Qed.

(* an event for a leaf that is not ours leaves the state alone *)
Lemma leafev_miss : forall e bs t0 ts n F st id o,
  Inv e bs t0 ts n F st -> ~ In id (leaf_ids e) -> leafev e st id o = ((st, [], None), false).
Proof.
  induction e as [v|x| |m|id'|id'|k s IHs|k a IHa b IHb]; intros bs t0 ts n F st id o HI Hni;
    try (exfalso; exact HI).
  - destruct HI as [seen ->]. cbn [leafev]. destruct (Nat.eqb id id') eqn:E; [|reflexivity].
    apply Nat.eqb_eq in E. subst. exfalso. apply Hni. left; reflexivity.
  - destruct HI as [ns [sc [-> Hs]]]. rewrite leafev_Un.
    rewrite (IHs _ _ _ _ _ _ id o Hs Hni). reflexivity.
  - destruct HI as [ns [sa [sb [-> [Hbs [Hst Hrest]]]]]].
    cbn [leaf_ids] in Hni. apply not_in_app in Hni. destruct Hni as [Hnia Hnib].
    destruct (is_seq k) eqn:Hk.
    + rewrite (leafev_Bin_seq _ _ _ _ _ _ _ _ Hk).
      assert (G1 : ph ns = PFirst /\ Inv a bs t0 ts n F sa ->
                   match ph ns with
                   | PFirst =>
                       let '(sa', tra, ra, hit) := leafev a sa id o in
                       match ra with
                       | Some oa =>
                           match after_first k (n_env ns) oa with
                           | inl o' => (OFin, tra, Some o', hit)
                           | inr (en2, sv) =>
                               let '(sb', trb, rb) := start b en2 in
                               match rb with
                               | Some ob => (OFin, tra ++ trb, Some (after_second k sv ob), hit)
                               | None =>
                                   (ONode (ns_set_saved (ns_set_ph ns PSecond) sv) OFin sb', tra ++ trb, None, hit)
                               end
                           end
                       | None => (ONode ns sa' sb, tra, None, hit)
                       end
                   | _ =>
                       let '(sb', trb, rb, hit) := leafev b sb id o in
                       match rb with
                       | Some ob => (OFin, trb, Some (after_second k (saved ns) ob), hit)
                       | None => (ONode ns sa sb', trb, None, hit)
                       end
                   end = (ONode ns sa sb, [], None, false)).
      { intros [Hph Ha]. rewrite Hph. rewrite (IHa _ _ _ _ _ _ id o Ha Hnia). reflexivity. }
      destruct (D a bs t0 ts) as [[oa t1]|]; [|exact (G1 Hrest)].
      destruct (t1 <=? n); [|exact (G1 Hrest)].
      destruct (seq_next k bs oa) as [[bs' sv]|]; [|contradiction].
      destruct Hrest as [Hph [Hsv Hb]].
      destruct (ph ns); [contradiction| |]; rewrite (IHb _ _ _ _ _ _ id o Hb Hnib); reflexivity.
    + rewrite (leafev_Bin_conc _ _ _ _ _ _ _ _ Hk). cbv zeta in Hrest.
      destruct Hrest as [Hown [Had [Hbd [Ha [Hb _]]]]].
      assert (Ga : (if adone ns then (sa, [], None, false) else leafev a sa id o) = ((sa, [], None), false)).
      { destruct (adone ns); [reflexivity|]. symmetry in Had.
        exact (IHa _ _ _ _ _ _ id o (Ha Had) Hnia). }
      assert (Gb : (if bdone ns then (sb, [], None, false) else leafev b sb id o) = ((sb, [], None), false)).
      { destruct (bdone ns); [reflexivity|]. symmetry in Hbd.
        exact (IHb _ _ _ _ _ _ id o (Hb Hbd) Hnib). }
      rewrite Ga. cbv beta iota. rewrite Gb. reflexivity.
Qed.

(* --- nothing of ours happens: time advances ------------------------------------------------ *)

Lemma done_by_mono : forall r n, done_by r n = true -> done_by r (S n) = true.
Proof. intros [[o t]|] n H; simpl in *; [|discriminate]. apply Nat.leb_le in H. apply Nat.leb_le. lia. Qed.

Lemma done_by_un : forall k s bs t0 ts n,
  done_by (D (Un k s) bs t0 ts) n = done_by (D s bs t0 (un_ts k ts)) n.
Proof. intros. rewrite denote_un. destruct (D s bs t0 (un_ts k ts)) as [[o t]|]; reflexivity. Qed.

Lemma done_by_seq_b : forall k a b bs t0 ts n oa t1 bs' sv, is_seq k = true ->
  D a bs t0 ts = Some (oa, t1) -> seq_next k bs oa = Some (bs', sv) ->
  done_by (D (Bin k a b) bs t0 ts) n = done_by (D b bs' t1 ts) n.
Proof.
  intros k a b bs t0 ts n oa t1 bs' sv Hk Ha Hs. rewrite (denote_seq _ _ _ _ _ _ _ Hk), Ha, Hs.
  destruct (D b bs' t1 ts) as [[ob t2]|]; reflexivity.
Qed.

Definition quiet (r : dres) (n : nat) : Prop := done_by r (S n) = done_by r n.

Lemma trig_done_quiet : forall k r n, quiet r n -> trig_done k r (S n) = trig_done k r n.
Proof. intros k [[o t]|] n H; unfold quiet in H; simpl in *; [rewrite H|]; reflexivity. Qed.

Lemma fail_by_quiet : forall r n, quiet r n -> fail_by r (S n) = fail_by r n.
Proof. intros [[o t]|] n H; unfold quiet in H; simpl in *; [rewrite H|]; reflexivity. Qed.

Lemma conc_saved_quiet : forall k af ra rb n, quiet ra n -> quiet rb n ->
  conc_saved k af ra rb (S n) = conc_saved k af ra rb n.
Proof.
  intros k af ra rb n Ha Hb. unfold conc_saved.
  rewrite (fail_by_quiet ra n Ha), (fail_by_quiet rb n Hb).
  destruct k; try reflexivity; destruct ra as [[oa ta]|]; try reflexivity;
    unfold quiet in Ha; simpl in Ha; rewrite Ha; reflexivity.
Qed.

Lemma val_ok_quiet : forall r n v, quiet r n -> val_ok r n v -> val_ok r (S n) v.
Proof.
  intros r n v Hq Hv x t Hr Ht. apply (Hv x t Hr). unfold quiet in Hq. rewrite Hr in Hq. simpl in Hq.
  apply Nat.leb_le in Ht. rewrite Ht in Hq. symmetry in Hq. apply Nat.leb_le in Hq. exact Hq.
Qed.

Lemma quiet_of : forall e, no_leafn e = true -> forall bs t0 ts n id o,
  nth_error script n = Some (EvLeaf id o) -> ~ In id (leaf_ids e) -> t0 <= n ->
  quiet (D e bs t0 ts) n.
Proof.
  intros e Hn bs t0 ts n id o Hev Hni Hle. unfold quiet.
  destruct (done_by (D e bs t0 ts) n) eqn:E; [apply done_by_mono; exact E|].
  eapply denote_no_hit; eassumption.
Qed.

Lemma inv_advance : forall e, no_leafn e = true -> forall bs t0 ts n F st id o,
  t0 <= n -> nth_error script n = Some (EvLeaf id o) -> ~ In id (leaf_ids e) ->
  done_by (D e bs t0 ts) n = false -> Inv e bs t0 ts n F st -> Inv e bs t0 ts (S n) F st.
Proof.
  induction e as [v|x| |m|id'|id'|k s IHs|k a IHa b IHb]; intros Hn bs t0 ts n F st id o Hle Hev Hni Hp HI;
    try (exfalso; exact HI).
  - exact HI.
  - destruct HI as [ns [sc [-> Hs]]]. exists ns, sc. split; [reflexivity|].
    rewrite done_by_un in Hp. exact (IHs Hn _ _ _ _ _ _ id o Hle Hev Hni Hp Hs).
  - cbn [no_leafn] in Hn. apply andb_true_iff in Hn. destruct Hn as [Hna Hnb].
    destruct HI as [ns [sa [sb [-> [Hbs [Hst Hrest]]]]]].
    cbn [leaf_ids] in Hni. apply not_in_app in Hni. destruct Hni as [Hnia Hnib].
    exists ns, sa, sb. split; [reflexivity|]. split; [exact Hbs|]. split; [exact Hst|].
    destruct (is_seq k) eqn:Hk.
    + destruct (D a bs t0 ts) as [[oa t1]|] eqn:Ra.
      * destruct (t1 <=? n) eqn:Et.
        -- apply Nat.leb_le in Et. assert (Et' : (t1 <=? S n) = true) by (apply Nat.leb_le; lia).
           rewrite Et'. destruct (seq_next k bs oa) as [[bs' sv]|] eqn:Hsn; [|contradiction].
           destruct Hrest as [Hph [Hsv Hb]]. split; [exact Hph|]. split; [exact Hsv|].
           rewrite (done_by_seq_b _ _ _ _ _ _ _ _ _ _ _ Hk Ra Hsn) in Hp.
           exact (IHb Hnb _ _ _ _ _ _ id o Et Hev Hnib Hp Hb).
        -- assert (Hpa : done_by (D a bs t0 ts) n = false) by (rewrite Ra; exact Et).
           pose proof (denote_no_hit script a Hna bs t0 ts n id o Hev Hnia Hle Hpa) as Hpa'.
           rewrite Ra in Hpa'. simpl in Hpa'. rewrite Hpa'.
           destruct Hrest as [Hph Ha]. split; [exact Hph|].
           exact (IHa Hna _ _ _ _ _ _ id o Hle Hev Hnia Hpa Ha).
      * destruct Hrest as [Hph Ha]. split; [exact Hph|].
        assert (Hpa : done_by (D a bs t0 ts) n = false) by (rewrite Ra; reflexivity).
        exact (IHa Hna _ _ _ _ _ _ id o Hle Hev Hnia Hpa Ha).
    + cbv zeta in Hrest |- *.
      set (sg := conc_sigma k (D a bs t0) (D b bs t0) t0 ts) in *.
      set (af := conc_afirst k (D a bs t0) (D b bs t0) t0 ts) in *.
      set (pa := if af then ts else sg) in *. set (pb := if af then sg else ts) in *.
      destruct Hrest as [Hown [Had [Hbd [Ha [Hb [Hsv [Hva Hvb]]]]]]].
      pose proof (quiet_of a Hna bs t0 pa n id o Hev Hnia Hle) as Qa.
      pose proof (quiet_of b Hnb bs t0 pb n id o Hev Hnib Hle) as Qb.
      rewrite (trig_done_quiet k _ n Qa), (trig_done_quiet k _ n Qb).
      rewrite (conc_saved_quiet k af _ _ n Qa Qb). unfold quiet in Qa, Qb. rewrite Qa, Qb.
      split; [exact Hown|]. split; [exact Had|]. split; [exact Hbd|].
      split; [|split; [|split; [exact Hsv|split; apply val_ok_quiet; assumption]]].
      * intros Hpa. exact (IHa Hna _ _ _ _ _ _ id o Hle Hev Hnia Hpa (Ha Hpa)).
      * intros Hpb. exact (IHb Hnb _ _ _ _ _ _ id o Hle Hev Hnib Hpb (Hb Hpb)).
Qed.

(* --- a stop request is delivered: nothing completes (there are no stop-reactive leaves) ---- *)

Lemma stop_spec : forall e, no_leafn e = true -> forall bs t0 ts n st,
  Inv e bs t0 ts n false st ->
  exists st' tr, stop e st = (st', tr, None) /\ tcalls tr = [] /\ Inv e bs t0 ts n true st'.
Proof.
  induction e as [v|x| |m|id'|id'|k s IHs|k a IHa b IHb]; intros Hn bs t0 ts n st HI;
    try (exfalso; exact HI).
  - destruct HI as [seen ->].
    destruct seen; cbn [stop]; do 2 eexists; (split; [reflexivity|]); (split; [reflexivity|]); eexists; reflexivity.
  - destruct HI as [ns [sc [-> Hs]]]. rewrite stop_Un.
    destruct k;
      try (destruct (IHs Hn _ _ _ _ _ Hs) as [sc' [tr [Es [Hc Hs']]]]; cbv zeta; rewrite Es;
           do 2 eexists; (split; [reflexivity|]); (split; [exact Hc|]);
           do 2 eexists; (split; [reflexivity|exact Hs'])).
    do 2 eexists. split; [reflexivity|]. split; [reflexivity|]. exists ns, sc. split; [reflexivity|exact Hs].
  - cbn [no_leafn] in Hn. apply andb_true_iff in Hn. destruct Hn as [Hna Hnb].
    destruct HI as [ns [sa [sb [-> [Hbs [Hst Hrest]]]]]].
    destruct (is_seq k) eqn:Hk.
    + rewrite (stop_Bin_seq _ _ _ _ _ _ Hk). cbv zeta.
      assert (G1 : ph ns = PFirst /\ Inv a bs t0 ts n false sa ->
                   exists sa' tr, stop a sa = (sa', tr, None) /\ tcalls tr = [] /\
                                  ph ns = PFirst /\ Inv a bs t0 ts n true sa').
      { intros [Hph Ha]. destruct (IHa Hna _ _ _ _ _ Ha) as [sa' [tr [Es [Hc Ha']]]]. exists sa', tr. auto. }
      destruct (D a bs t0 ts) as [[oa t1]|] eqn:Ra.
      * destruct (t1 <=? n) eqn:Et.
        -- destruct (seq_next k bs oa) as [[bs' sv]|] eqn:Hsn; [|contradiction].
           destruct Hrest as [Hph [Hsv Hb]].
           destruct (IHb Hnb _ _ _ _ _ Hb) as [sb' [tr [Es [Hc Hb']]]].
           exists (ONode (ns_set_env ns (env_with_stop (n_env ns) true)) sa sb'), tr.
           split; [destruct (ph ns); [contradiction| |]; rewrite Es; reflexivity|]. split; [exact Hc|].
           exists (ns_set_env ns (env_with_stop (n_env ns) true)), sa, sb'.
           split; [reflexivity|]. split; [exact Hbs|]. split; [reflexivity|].
           rewrite Hk, Ra, Et, Hsn. auto.
        -- destruct (G1 Hrest) as [sa' [tr [Es [Hc [Hph Ha']]]]].
           exists (ONode (ns_set_env ns (env_with_stop (n_env ns) true)) sa' sb), tr.
           split; [rewrite Hph, Es; reflexivity|]. split; [exact Hc|].
           exists (ns_set_env ns (env_with_stop (n_env ns) true)), sa', sb.
           split; [reflexivity|]. split; [exact Hbs|]. split; [reflexivity|].
           rewrite Hk, Ra, Et. auto.
      * destruct (G1 Hrest) as [sa' [tr [Es [Hc [Hph Ha']]]]].
        exists (ONode (ns_set_env ns (env_with_stop (n_env ns) true)) sa' sb), tr.
        split; [rewrite Hph, Es; reflexivity|]. split; [exact Hc|].
        exists (ns_set_env ns (env_with_stop (n_env ns) true)), sa', sb.
        split; [reflexivity|]. split; [exact Hbs|]. split; [reflexivity|].
        rewrite Hk, Ra. auto.
    + rewrite (stop_Bin_conc _ _ _ _ _ _ Hk). cbv zeta in Hrest |- *.
      set (sg := conc_sigma k (D a bs t0) (D b bs t0) t0 ts) in *.
      set (af := conc_afirst k (D a bs t0) (D b bs t0) t0 ts) in *.
      set (pa := if af then ts else sg) in *. set (pb := if af then sg else ts) in *.
      destruct Hrest as [Hown [Had [Hbd [Ha [Hb [Hsv [Hva Hvb]]]]]]].
      destruct (own_stop ns) eqn:Eown.
      * (* the own source is requested already: the children know *)
        do 2 eexists. split; [reflexivity|]. split; [reflexivity|].
        exists (ns_set_env ns (env_with_stop (n_env ns) true)), sa, sb.
        split; [reflexivity|]. split; [exact Hbs|]. split; [reflexivity|].
        rewrite Hk. cbv zeta. fold sg af pa pb. cbn [ns_set_env own_stop adone bdone saved va vb].
        rewrite Eown. split; [reflexivity|]. repeat (split; [assumption|]); assumption.
      * cbn [ns_set_own ns_set_env bdone adone].
        assert (Gb : exists sb' trb, (if bdone ns then (sb, [], None) else stop b sb) = (sb', trb, None) /\
                       tcalls trb = [] /\
                       (done_by (D b bs t0 pb) n = false -> Inv b bs t0 pb n true sb')).
        { destruct (bdone ns) eqn:Ebd.
          - exists sb, []. split; [reflexivity|]. split; [reflexivity|]. intros Hc. rewrite Hc in Hbd. discriminate.
          - symmetry in Hbd. destruct (IHb Hnb _ _ _ _ _ (Hb Hbd)) as [sb' [trb [Es [Hc Hb']]]].
            exists sb', trb. split; [exact Es|]. split; [exact Hc|]. intros _. exact Hb'. }
        assert (Ga : exists sa' tra, (if adone ns then (sa, [], None) else stop a sa) = (sa', tra, None) /\
                       tcalls tra = [] /\
                       (done_by (D a bs t0 pa) n = false -> Inv a bs t0 pa n true sa')).
        { destruct (adone ns) eqn:Ead.
          - exists sa, []. split; [reflexivity|]. split; [reflexivity|]. intros Hc. rewrite Hc in Had. discriminate.
          - symmetry in Had. destruct (IHa Hna _ _ _ _ _ (Ha Had)) as [sa' [tra [Es [Hc Ha']]]].
            exists sa', tra. split; [exact Es|]. split; [exact Hc|]. intros _. exact Ha'. }
        destruct Gb as [sb' [trb [Eb [Hcb Hb']]]]. destruct Ga as [sa' [tra [Ea [Hca Ha']]]].
        rewrite Eb. cbv beta iota. cbn [ns_set_own ns_set_env bdone adone]. rewrite Ea. cbv beta iota.
        unfold finish_conc. do 2 eexists. split; [reflexivity|].
        split; [rewrite tcalls_app, Hcb, Hca; reflexivity|].
        eexists _, sa', sb'. split; [reflexivity|].
        cbn [ns_set_own ns_set_env n_env own_stop adone bdone saved va vb env_with_stop e_bound e_stopped].
        split; [exact Hbs|]. split; [reflexivity|].
        rewrite Hk. cbv zeta. fold sg af pa pb.
        split; [reflexivity|]. repeat (split; [assumption|]); assumption.
Qed.

End WithScript.

(* ------------------------------------------------------------------------------------------ *)
(* the bookkeeping of a concurrent node, by the status of its children                          *)

Definition is_some {A : Type} (x : option A) : bool := match x with Some _ => true | None => false end.

(* the outcome r completed with by time n *)
Definition done_val (r : dres) (n : nat) : option outcome :=
  match r with Some (o, t) => if t <=? n then Some o else None | None => None end.

Definition trig_o (k : bkind) (s : option outcome) : bool :=
  match s with Some o => triggers k o | None => false end.
Definition fail_o (s : option outcome) : option outcome :=
  match s with Some o => if nonval o then Some o else None | None => None end.
Definition saved_of (k : bkind) (af : bool) (sa sb : option outcome) : option outcome :=
  match k with
  | BWhenAll => match fail_o sa, fail_o sb with
                | Some oa, Some ob => Some (if af then oa else ob)
                | Some oa, None => Some oa
                | None, fb => fb
                end
  | _ => sa
  end.

Definition CI (k : bkind) (af F : bool) (sa sb : option outcome) (ns : nst) (bs : list Z) : Prop :=
  e_bound (n_env ns) = bs /\ e_stopped (n_env ns) = F /\
  own_stop ns = F || trig_o k sa || trig_o k sb /\
  adone ns = is_some sa /\ bdone ns = is_some sb /\
  saved ns = saved_of k af sa sb /\
  (forall x, sa = Some (OVal x) -> va ns = x) /\ (forall x, sb = Some (OVal x) -> vb ns = x).

Lemma done_by_val : forall r n, done_by r n = is_some (done_val r n).
Proof. intros [[o t]|] n; simpl; [destruct (t <=? n)|]; reflexivity. Qed.
Lemma trig_done_val : forall k r n, trig_done k r n = trig_o k (done_val r n).
Proof. intros k [[o t]|] n; simpl; [destruct (t <=? n); simpl; [apply andb_true_r|apply andb_false_r]|reflexivity]. Qed.
Lemma fail_by_val : forall r n, fail_by r n = fail_o (done_val r n).
Proof. intros [[o t]|] n; simpl; [destruct (t <=? n); reflexivity|reflexivity]. Qed.
Lemma conc_saved_val : forall k af ra rb n,
  conc_saved k af ra rb n = saved_of k af (done_val ra n) (done_val rb n).
Proof.
  intros k af ra rb n. unfold conc_saved, saved_of. rewrite !fail_by_val.
  destruct k; try reflexivity; destruct ra as [[oa ta]|]; reflexivity.
Qed.
Lemma val_ok_val : forall r n v, val_ok r n v <-> (forall x, done_val r n = Some (OVal x) -> v = x).
Proof.
  intros r n v. split.
  - intros H x E. destruct r as [[o t]|]; simpl in E; [|discriminate].
    destruct (t <=? n) eqn:Et; [|discriminate]. inversion E; subst. apply (H x t eq_refl).
    apply Nat.leb_le; exact Et.
  - intros H x t E Ht. apply H. rewrite E. simpl. apply Nat.leb_le in Ht. rewrite Ht. reflexivity.
Qed.

Lemma done_val_none : forall r n, done_val r n = None <-> done_by r n = false.
Proof. intros r n. rewrite done_by_val. destruct (done_val r n); simpl; split; intro H; try discriminate; reflexivity. Qed.

Lemma done_val_some : forall r n o, done_val r n = Some o -> exists t, r = Some (o, t) /\ t <= n.
Proof.
  intros [[o' t]|] n o H; simpl in H; [|discriminate]. destruct (t <=? n) eqn:E; [|discriminate].
  inversion H; subst. exists t. split; [reflexivity|apply Nat.leb_le; exact E].
Qed.

Lemma done_val_of : forall r n o t, r = Some (o, t) -> t <= n -> done_val r n = Some o.
Proof. intros r n o t -> H. simpl. apply Nat.leb_le in H. rewrite H. reflexivity. Qed.

Lemma done_val_quiet : forall r n, quiet r n -> done_val r (S n) = done_val r n.
Proof. intros [[o t]|] n H; unfold quiet in H; simpl in *; [rewrite H|]; reflexivity. Qed.

Lemma quiet_done : forall r n, done_by r n = true -> quiet r n.
Proof. intros r n H. unfold quiet. rewrite H. apply done_by_mono. exact H. Qed.

Lemma triggers_nonval : forall o, triggers BWhenAll o = nonval o.
Proof. destruct o; reflexivity. Qed.

Lemma CI_child_a : forall k af F sb ns bs oa, is_seq k = false -> CI k af F None sb ns bs ->
  (forall ob, sb = Some ob -> triggers k oa = true -> triggers k ob = true -> af = false) ->
  exists ns2 fin,
    conc_child_done k ns false oa = (ns2, triggers k oa && negb (own_stop ns), fin) /\
    CI k af F (Some oa) sb ns2 bs /\
    fin = match sb with
          | Some _ => Some (conc_final k F (saved ns2) (va ns2) (vb ns2))
          | None => None
          end.
Proof.
  intros k af F sb ns bs oa Hk HCI Hord.
  destruct (ccd_spec k ns false oa Hk) as [ns2 [fin [E [He [Ho [Ha [Hb [Hva [Hvb [Hs Hf]]]]]]]]]].
  destruct HCI as (C1 & C2 & C3 & C4 & C5 & C6 & C7 & C8).
  exists ns2, fin. split; [exact E|]. split.
  - unfold CI. rewrite He. split; [exact C1|]. split; [exact C2|].
    split; [rewrite Ho, C3; simpl; destruct F; destruct (trig_o k sb); destruct (triggers k oa); reflexivity|].
    split; [exact Ha|]. split; [rewrite Hb; exact C5|].
    split; [|split; [intros x Hx; inversion Hx; subst; rewrite Hva; reflexivity|rewrite Hvb; exact C8]].
    rewrite Hs, C6. destruct k; try discriminate Hk; simpl; [|reflexivity].
    destruct sb as [ob|]; simpl.
    + destruct (nonval ob) eqn:Nb; destruct oa; simpl; try reflexivity;
        rewrite (Hord ob eq_refl eq_refl) by (rewrite triggers_nonval; exact Nb); reflexivity.
    + destruct oa; reflexivity.
  - rewrite Hf, Ha, Hb, C5, C2. destruct sb; reflexivity.
Qed.

Lemma CI_child_b : forall k af F sa ns bs ob, is_seq k = false -> CI k af F sa None ns bs ->
  (forall oa, sa = Some oa -> triggers k oa = true -> triggers k ob = true -> af = true) ->
  exists ns2 fin,
    conc_child_done k ns true ob = (ns2, triggers k ob && negb (own_stop ns), fin) /\
    CI k af F sa (Some ob) ns2 bs /\
    fin = match sa with
          | Some _ => Some (conc_final k F (saved ns2) (va ns2) (vb ns2))
          | None => None
          end.
Proof.
  intros k af F sa ns bs ob Hk HCI Hord.
  destruct (ccd_spec k ns true ob Hk) as [ns2 [fin [E [He [Ho [Ha [Hb [Hva [Hvb [Hs Hf]]]]]]]]]].
  destruct HCI as (C1 & C2 & C3 & C4 & C5 & C6 & C7 & C8).
  exists ns2, fin. split; [exact E|]. split.
  - unfold CI. rewrite He. split; [exact C1|]. split; [exact C2|].
    split; [rewrite Ho, C3; simpl; destruct F; destruct (trig_o k sa); destruct (triggers k ob); reflexivity|].
    split; [rewrite Ha; exact C4|]. split; [exact Hb|].
    split; [|split; [rewrite Hva; exact C7|intros x Hx; inversion Hx; subst; rewrite Hvb; reflexivity]].
    rewrite Hs, C6. destruct k; try discriminate Hk; simpl; [|reflexivity].
    destruct sa as [oa|]; simpl.
    + destruct (nonval oa) eqn:Na; destruct ob; simpl; try reflexivity;
        rewrite (Hord oa eq_refl) by (try reflexivity; rewrite triggers_nonval; exact Na); reflexivity.
    + destruct ob; reflexivity.
  - rewrite Hf, Ha, Hb, C4, C2. destruct sa; reflexivity.
Qed.

Lemma CI_final : forall k af F oa ob ns bs, is_seq k = false -> CI k af F (Some oa) (Some ob) ns bs ->
  conc_final k F (saved ns) (va ns) (vb ns) = conc_out k F af oa ob.
Proof.
  intros k af F oa ob ns bs Hk (C1 & C2 & C3 & C4 & C5 & C6 & C7 & C8).
  rewrite C6. destruct k; try discriminate Hk; simpl; [|reflexivity].
  unfold when_all_out. destruct F; [reflexivity|].
  destruct oa as [x| |]; destruct ob as [y| |]; simpl; try reflexivity.
  rewrite (C7 x eq_refl), (C8 y eq_refl). reflexivity.
Qed.

Lemma CI_init : forall k af en, 
  CI k af (e_stopped en) None None
     (ns_set_own (ns_set_reg (mk_nst PBoth en) (negb (e_stopped en))) (e_stopped en)) (e_bound en).
Proof.
  intros k af en. unfold CI. simpl. rewrite !orb_false_r.
  repeat split; try reflexivity; try (intros; discriminate). destruct k; reflexivity.
Qed.

Lemma newly_false_own : forall o t : bool, t && negb o = false -> o || t = o.
Proof. intros [|] [|]; simpl; intro H; try reflexivity; discriminate. Qed.
Lemma newly_true_own : forall o t : bool, t && negb o = true -> o = false /\ o || t = true.
Proof. intros [|] [|]; simpl; intro H; try discriminate; auto. Qed.

Section WithScript.
Variable script : list sev.
Notation D := (denote script).
Notation Inv := (Inv script).

(* the plan of a concurrent node *)
Definition p_sg k a b bs t0 ts := conc_sigma k (D a bs t0) (D b bs t0) t0 ts.
Definition p_af k a b bs t0 ts := conc_afirst k (D a bs t0) (D b bs t0) t0 ts.
Definition p_pa k a b bs t0 ts := if p_af k a b bs t0 ts then ts else p_sg k a b bs t0 ts.
Definition p_pb k a b bs t0 ts := if p_af k a b bs t0 ts then p_sg k a b bs t0 ts else ts.
Definition p_ra k a b bs t0 ts := D a bs t0 (p_pa k a b bs t0 ts).
Definition p_rb k a b bs t0 ts := D b bs t0 (p_pb k a b bs t0 ts).

Lemma inv_conc_iff : forall k a b bs t0 ts n F st, is_seq k = false ->
  (Inv (Bin k a b) bs t0 ts n F st <->
   exists ns sa sb, st = ONode ns sa sb /\
     CI k (p_af k a b bs t0 ts) F (done_val (p_ra k a b bs t0 ts) n) (done_val (p_rb k a b bs t0 ts) n) ns bs /\
     (done_val (p_ra k a b bs t0 ts) n = None -> Inv a bs t0 (p_pa k a b bs t0 ts) n (own_stop ns) sa) /\
     (done_val (p_rb k a b bs t0 ts) n = None -> Inv b bs t0 (p_pb k a b bs t0 ts) n (own_stop ns) sb)).
Proof.
  intros k a b bs t0 ts n F st Hk. cbn [DenoteProofs.Inv]. rewrite Hk. cbv zeta.
  fold (p_sg k a b bs t0 ts). fold (p_af k a b bs t0 ts).
  fold (p_pa k a b bs t0 ts). fold (p_pb k a b bs t0 ts).
  fold (p_ra k a b bs t0 ts). fold (p_rb k a b bs t0 ts).
  unfold CI. rewrite !trig_done_val, !done_by_val, conc_saved_val.
  split.
  - intros [ns [sa [sb [E [H1 [H2 [H3 [H4 [H5 [H6 [H7 [H8 [H9 H10]]]]]]]]]]]]].
    pose proof (proj1 (val_ok_val _ _ _) H9) as H9'. pose proof (proj1 (val_ok_val _ _ _) H10) as H10'.
    exists ns, sa, sb. split; [exact E|].
    split; [repeat (split; [assumption|]); assumption|].
    split; intros Hd; [apply H6|apply H7]; rewrite Hd; reflexivity.
  - intros [ns [sa [sb [E [[H1 [H2 [H3 [H4 [H5 [H8 [H9 H10]]]]]]] [H6 H7]]]]]].
    exists ns, sa, sb. repeat (split; [assumption|]).
    split; [|split; [|split; [assumption|split; apply (proj2 (val_ok_val _ _ _)); assumption]]].
    + intros Hd. apply H6. destruct (done_val (p_ra k a b bs t0 ts) n); [discriminate|reflexivity].
    + intros Hd. apply H7. destruct (done_val (p_rb k a b bs t0 ts) n); [discriminate|reflexivity].
Qed.

Lemma denote_conc_p : forall k a b bs t0 ts, is_seq k = false ->
  D (Bin k a b) bs t0 ts =
  conc_result k ts (p_ra k a b bs t0 ts, p_rb k a b bs t0 ts, p_af k a b bs t0 ts).
Proof. intros. rewrite denote_conc by assumption. reflexivity. Qed.

Lemma done_by_conc : forall k a b bs t0 ts n, is_seq k = false ->
  done_by (D (Bin k a b) bs t0 ts) n =
  done_by (p_ra k a b bs t0 ts) n && done_by (p_rb k a b bs t0 ts) n.
Proof.
  intros k a b bs t0 ts n Hk. rewrite (denote_conc_p _ _ _ _ _ _ Hk).
  destruct (p_ra k a b bs t0 ts) as [[oa ta]|]; destruct (p_rb k a b bs t0 ts) as [[ob tb]|]; simpl;
    try reflexivity; [|rewrite andb_false_r; reflexivity].
  destruct (ta <=? n) eqn:Ea; destruct (tb <=? n) eqn:Eb; destruct (Nat.max ta tb <=? n) eqn:Em;
    try reflexivity; exfalso;
    repeat match goal with
           | H : (_ <=? _) = true |- _ => apply Nat.leb_le in H
           | H : (_ <=? _) = false |- _ => apply Nat.leb_gt in H
           end; lia.
Qed.

End WithScript.

(* ------------------------------------------------------------------------------------------ *)
(* what the own stop source of a concurrent node looks like to its children                     *)

Lemma stopped_now_mono : forall c x y, stopped_now c x = true -> x <= y -> stopped_now c y = true.
Proof. intros [c|] x y H L; simpl in *; [|discriminate]. apply Nat.leb_le in H. apply Nat.leb_le. lia. Qed.

Lemma stopped_now_trig_a : forall k r n, stopped_now (trig_a k r) (2 * n + 1) = trig_done k r n.
Proof.
  intros k [[o t]|] n; simpl; [|reflexivity]. destruct (triggers k o); simpl; [|reflexivity].
  destruct (t <=? n) eqn:E; [apply Nat.leb_le in E; apply Nat.leb_le; lia|apply Nat.leb_gt in E; apply Nat.leb_gt; lia].
Qed.

Lemma stopped_now_trig_a0 : forall k r n, stopped_now (trig_a k r) (2 * n) = trig_done k r n.
Proof.
  intros k [[o t]|] n; simpl; [|reflexivity]. destruct (triggers k o); simpl; [|reflexivity].
  destruct (t <=? n) eqn:E; [apply Nat.leb_le in E; apply Nat.leb_le; lia|apply Nat.leb_gt in E; apply Nat.leb_gt; lia].
Qed.

Lemma stopped_now_trig_a_S : forall k r n, quiet r n -> stopped_now (trig_a k r) (2 * n + 2) = trig_done k r n.
Proof.
  intros k [[o t]|] n Q; unfold quiet in Q; simpl in *; [|reflexivity].
  destruct (triggers k o); simpl; [|reflexivity]. rewrite <- Q.
  destruct (t <=? S n) eqn:E; [apply Nat.leb_le in E; apply Nat.leb_le; lia|apply Nat.leb_gt in E; apply Nat.leb_gt; lia].
Qed.

Lemma stopped_now_trig_b : forall k t0 r n, (forall o t, r = Some (o, t) -> t0 <= t) ->
  stopped_now (trig_b k t0 r) (2 * n + 1) = trig_done k r n.
Proof.
  intros k t0 [[o t]|] n L; unfold trig_b, trig_done; [|reflexivity].
  destruct (triggers k o); simpl; [|reflexivity]. specialize (L o t eq_refl).
  pose proof (code_b_bounds t0 t L) as B. unfold code_b in B.
  destruct (t <=? n) eqn:E; [apply Nat.leb_le in E; apply Nat.leb_le|apply Nat.leb_gt in E; apply Nat.leb_gt];
    (destruct (t =? t0) eqn:E0; [apply Nat.eqb_eq in E0|apply Nat.eqb_neq in E0]; lia).
Qed.

Lemma stopped_now_trig_b_S : forall k t0 r n, (forall o t, r = Some (o, t) -> t0 <= t) ->
  quiet r n -> t0 <= n -> stopped_now (trig_b k t0 r) (2 * n + 2) = trig_done k r n.
Proof.
  intros k t0 [[o t]|] n L Q Hle; unfold trig_b, trig_done; unfold quiet in Q; simpl in Q; [|reflexivity].
  destruct (triggers k o); simpl; [|reflexivity]. specialize (L o t eq_refl).
  destruct (t <=? n) eqn:E.
  - apply Nat.leb_le in E. apply Nat.leb_le. destruct (t =? t0) eqn:E0; [apply Nat.eqb_eq in E0|apply Nat.eqb_neq in E0]; lia.
  - apply Nat.leb_gt in E. apply Nat.leb_gt in Q. apply Nat.leb_gt.
    destruct (t =? t0) eqn:E0; [apply Nat.eqb_eq in E0|apply Nat.eqb_neq in E0]; lia.
Qed.

Lemma stopped_now_trig_b_0 : forall k t0 r, (forall o t, r = Some (o, t) -> t0 <= t) ->
  stopped_now (trig_b k t0 r) (2 * t0) = false.
Proof.
  intros k t0 [[o t]|] L; unfold trig_b; [|reflexivity].
  destruct (triggers k o); simpl; [|reflexivity]. specialize (L o t eq_refl).
  apply Nat.leb_gt. destruct (t =? t0) eqn:E0; [apply Nat.eqb_eq in E0|apply Nat.eqb_neq in E0]; lia.
Qed.

Lemma trig_done_inv : forall k r n, trig_done k r n = true ->
  exists o t, r = Some (o, t) /\ triggers k o = true /\ t <= n.
Proof.
  intros k [[o t]|] n H; simpl in H; [|discriminate]. apply andb_true_iff in H. destruct H as [H1 H2].
  apply Nat.leb_le in H2. eauto.
Qed.

Section PlanCoh.
Variables (k : bkind) (da db : option nat -> dres) (t0 : nat) (ts : option nat).
Hypothesis Hla : lower_fn da t0.
Hypothesis Hlb : lower_fn db t0.
Hypothesis Hca : causal_fn da.
Hypothesis Hcb : causal_fn db.

Let sg := conc_sigma k da db t0 ts.
Let af := conc_afirst k da db t0 ts.
Let pa := if af then ts else sg.
Let pb := if af then sg else ts.

Lemma plan_S1 : stopped_now pa (2 * t0) = stopped_now ts (2 * t0).
Proof.
  case_eq af; intro Haf; unfold pa; rewrite Haf; [reflexivity|].
  destruct (sigma_bf k da db t0 ts Haf) as [Hsg _]. fold sg in Hsg. rewrite Hsg, stopped_now_omin.
  rewrite stopped_now_trig_b_0 by (intros o t; apply Hlb). apply orb_false_r.
Qed.

Lemma plan_S2 : stopped_now pb (2 * t0) = stopped_now ts (2 * t0) || trig_done k (da pa) t0.
Proof.
  case_eq af; intro Haf.
  - destruct (sigma_af k da db t0 ts Haf) as [xa [Hna [Hsg _]]]. fold sg in Hsg.
    unfold pb, pa. rewrite Haf, Hsg, stopped_now_omin, <- Hna. rewrite stopped_now_trig_a0. reflexivity.
  - assert (Epb : pb = ts) by (unfold pb; rewrite Haf; reflexivity). rewrite Epb.
    destruct (trig_done k (da pa) t0) eqn:T; [|rewrite orb_false_r; reflexivity].
    destruct (trig_done_inv _ _ _ T) as [o [t [Hr [Ht Hle]]]].
    pose proof (plan_a_not_before k da db t0 ts Hca Haf o t Hr Ht) as Hs. fold sg in Hs.
    pose proof (Hla _ _ _ Hr) as Hge. assert (t = t0) by lia. subst t.
    rewrite <- plan_S1. unfold pa. rewrite Haf. rewrite Hs. reflexivity.
Qed.

Lemma plan_coh_a : forall n, done_by (da pa) n = false -> quiet (db pb) n -> t0 <= n ->
  stopped_now ts (2 * n + 2) = stopped_now ts (2 * n + 1) ->
  stopped_now pa (2 * n + 1) = stopped_now ts (2 * n + 1) || trig_done k (db pb) n /\
  stopped_now pa (2 * n + 2) = stopped_now ts (2 * n + 1) || trig_done k (db pb) n.
Proof.
  intros n Hp Q Hle HF. case_eq af; intro Haf.
  - assert (Epa : pa = ts) by (unfold pa; rewrite Haf; reflexivity). rewrite Epa in *. rewrite HF.
    destruct (trig_done k (db pb) n) eqn:T; [|rewrite orb_false_r; split; reflexivity].
    destruct (trig_done_inv _ _ _ T) as [o [t [Hr [Ht Hlt]]]].
    pose proof (plan_b_not_before k da db t0 ts Hlb Hcb Haf o t Hr Ht) as Hs. fold sg in Hs.
    pose proof (code_b_bounds t0 t (Hlb _ _ _ Hr)) as B.
    pose proof (stopped_now_mono _ _ (2 * n + 1) Hs ltac:(lia)) as Hs'.
    destruct (sigma_af k da db t0 ts Haf) as [xa [Hna [Hsg _]]]. fold sg in Hsg.
    rewrite Hsg, stopped_now_omin in Hs'.
    assert (Hx : stopped_now (Some xa) (2 * n + 1) = false).
    { rewrite <- Hna, stopped_now_trig_a. destruct (da ts) as [[o' t']|]; simpl in *; [|reflexivity].
      rewrite Hp. apply andb_false_r. }
    rewrite Hx, orb_false_r in Hs'. rewrite Hs'. split; reflexivity.
  - destruct (sigma_bf k da db t0 ts Haf) as [Hsg _]. fold sg in Hsg.
    assert (Epa : pa = sg) by (unfold pa; rewrite Haf; reflexivity).
    assert (Epb : pb = ts) by (unfold pb; rewrite Haf; reflexivity).
    rewrite Epa, Epb in *. rewrite Hsg, !stopped_now_omin.
    rewrite stopped_now_trig_b by (intros o t; apply Hlb).
    rewrite stopped_now_trig_b_S by (try (intros o t; apply Hlb); assumption).
    rewrite HF. split; reflexivity.
Qed.

Lemma plan_coh_b : forall n, done_by (db pb) n = false -> quiet (da pa) n -> t0 <= n ->
  stopped_now ts (2 * n + 2) = stopped_now ts (2 * n + 1) ->
  stopped_now pb (2 * n + 1) = stopped_now ts (2 * n + 1) || trig_done k (da pa) n /\
  stopped_now pb (2 * n + 2) = stopped_now ts (2 * n + 1) || trig_done k (da pa) n.
Proof.
  intros n Hp Q Hle HF. case_eq af; intro Haf.
  - destruct (sigma_af k da db t0 ts Haf) as [xa [Hna [Hsg _]]]. fold sg in Hsg.
    assert (Epa : pa = ts) by (unfold pa; rewrite Haf; reflexivity).
    assert (Epb : pb = sg) by (unfold pb; rewrite Haf; reflexivity).
    rewrite Epa, Epb in *. rewrite Hsg, !stopped_now_omin, <- Hna.
    rewrite stopped_now_trig_a. rewrite stopped_now_trig_a_S by assumption.
    rewrite HF. split; reflexivity.
  - assert (Epb : pb = ts) by (unfold pb; rewrite Haf; reflexivity). rewrite Epb in *. rewrite HF.
    destruct (trig_done k (da pa) n) eqn:T; [|rewrite orb_false_r; split; reflexivity].
    destruct (trig_done_inv _ _ _ T) as [o [t [Hr [Ht Hlt]]]].
    pose proof (plan_a_not_before k da db t0 ts Hca Haf o t Hr Ht) as Hs. fold sg in Hs.
    pose proof (stopped_now_mono _ _ (2 * n + 1) Hs ltac:(lia)) as Hs'.
    destruct (sigma_bf k da db t0 ts Haf) as [Hsg _]. fold sg in Hsg.
    rewrite Hsg, stopped_now_omin in Hs'.
    rewrite stopped_now_trig_b in Hs' by (intros o' t'; apply Hlb).
    assert (Hx : trig_done k (db ts) n = false).
    { destruct (db ts) as [[o' t']|]; simpl in *; [|reflexivity]. rewrite Hp. apply andb_false_r. }
    rewrite Hx, orb_false_r in Hs'. rewrite Hs'. split; reflexivity.
Qed.

(* which of two triggering completions is the first *)
Lemma plan_ord_step_a : forall n oa ob tb,
  da pa = Some (oa, S n) -> db pb = Some (ob, tb) -> tb <= n -> triggers k ob = true -> af = false.
Proof.
  intros n oa ob tb Ra Rb Hle Hb. case_eq af; intro Haf; [exfalso|reflexivity].
  pose proof (plan_order_af k da db t0 ts Hlb Hcb Haf oa (S n) ob tb Ra Rb Hb) as H.
  pose proof (code_b_bounds t0 tb (Hlb _ _ _ Rb)) as B. lia.
Qed.

Lemma plan_ord_step_b : forall n oa ta ob, t0 <= n ->
  da pa = Some (oa, ta) -> ta <= n -> triggers k oa = true ->
  db pb = Some (ob, S n) -> triggers k ob = true -> af = true.
Proof.
  intros n oa ta ob Hle Ra Hta Ha Rb Hb. case_eq af; intro Haf; [reflexivity|exfalso].
  pose proof (plan_order_bf k da db t0 ts Hca Haf oa ta ob (S n) Ra Ha Rb Hb) as H.
  pose proof (code_b_bounds t0 (S n) ltac:(lia)) as B. lia.
Qed.

Lemma plan_ord_start : forall oa ob,
  da pa = Some (oa, t0) -> triggers k oa = true -> db pb = Some (ob, t0) -> triggers k ob = true -> af = true.
Proof.
  intros oa ob Ra Ha Rb Hb. case_eq af; intro Haf; [reflexivity|exfalso].
  pose proof (plan_order_bf k da db t0 ts Hca Haf oa t0 ob t0 Ra Ha Rb Hb) as H.
  unfold code_b in H. rewrite Nat.eqb_refl in H. lia.
Qed.

End PlanCoh.

Definition res_ok (C : list tev -> Prop) (P : outcome -> Prop) (Q : ost -> Prop) (x : res) : Prop :=
  match x with
  | (st, tr, Some o) => C tr /\ st = OFin /\ P o
  | (st, tr, None) => C tr /\ Q st
  end.

Lemma un_env_bound : forall k en, e_bound (un_env k en) = e_bound en.
Proof. intros k en. destruct k; try reflexivity. destruct q; reflexivity. Qed.
Lemma un_env_stopped : forall k en, e_stopped (un_env k en) = un_flag k (e_stopped en).
Proof. intros k en. destruct k; try reflexivity. destruct q; reflexivity. Qed.
Lemma stopped_now_un_ts : forall k ts x, stopped_now (un_ts k ts) x = un_flag k (stopped_now ts x).
Proof. intros k ts x. destruct k; reflexivity. Qed.

Lemma trig_done_pending : forall k r n, done_by r n = false -> trig_done k r n = false.
Proof. intros k [[o t]|] n H; simpl in *; [rewrite H; apply andb_false_r|reflexivity]. Qed.

Section WithScript.
Variable script : list sev.
Notation D := (denote script).
Notation Inv := (Inv script).
Notation p_af := (p_af script).
Notation p_sg := (p_sg script).
Notation p_pa := (p_pa script).
Notation p_pb := (p_pb script).
Notation p_ra := (p_ra script).
Notation p_rb := (p_rb script).

Lemma pS1 : forall k a b bs t0 ts, no_leafn a = true -> no_leafn b = true ->
  stopped_now (p_pa k a b bs t0 ts) (2 * t0) = stopped_now ts (2 * t0).
Proof. intros. apply plan_S1. apply denote_lower; assumption. Qed.

Lemma pS2 : forall k a b bs t0 ts, no_leafn a = true -> no_leafn b = true ->
  stopped_now (p_pb k a b bs t0 ts) (2 * t0) =
  stopped_now ts (2 * t0) || trig_done k (p_ra k a b bs t0 ts) t0.
Proof. intros. apply plan_S2; auto using denote_lower, denote_causal. Qed.

Lemma pcoh_a : forall k a b bs t0 ts, no_leafn a = true -> no_leafn b = true ->
  forall n, done_by (p_ra k a b bs t0 ts) n = false -> quiet (p_rb k a b bs t0 ts) n -> t0 <= n ->
  stopped_now ts (2 * n + 2) = stopped_now ts (2 * n + 1) ->
  stopped_now (p_pa k a b bs t0 ts) (2 * n + 1) = stopped_now ts (2 * n + 1) || trig_done k (p_rb k a b bs t0 ts) n /\
  stopped_now (p_pa k a b bs t0 ts) (2 * n + 2) = stopped_now ts (2 * n + 1) || trig_done k (p_rb k a b bs t0 ts) n.
Proof. intros k a b bs t0 ts Hna Hnb. apply plan_coh_a; auto using denote_lower, denote_causal. Qed.

Lemma pcoh_b : forall k a b bs t0 ts, no_leafn a = true -> no_leafn b = true ->
  forall n, done_by (p_rb k a b bs t0 ts) n = false -> quiet (p_ra k a b bs t0 ts) n -> t0 <= n ->
  stopped_now ts (2 * n + 2) = stopped_now ts (2 * n + 1) ->
  stopped_now (p_pb k a b bs t0 ts) (2 * n + 1) = stopped_now ts (2 * n + 1) || trig_done k (p_ra k a b bs t0 ts) n /\
  stopped_now (p_pb k a b bs t0 ts) (2 * n + 2) = stopped_now ts (2 * n + 1) || trig_done k (p_ra k a b bs t0 ts) n.
Proof. intros k a b bs t0 ts Hna Hnb. apply plan_coh_b; auto using denote_lower, denote_causal. Qed.

Lemma pord_a : forall k a b bs t0 ts, no_leafn a = true -> no_leafn b = true ->
  forall n oa ob tb,
  p_ra k a b bs t0 ts = Some (oa, S n) -> p_rb k a b bs t0 ts = Some (ob, tb) -> tb <= n ->
  triggers k ob = true -> p_af k a b bs t0 ts = false.
Proof. intros k a b bs t0 ts Hna Hnb. apply plan_ord_step_a; auto using denote_lower, denote_causal. Qed.

Lemma pord_b : forall k a b bs t0 ts, no_leafn a = true -> no_leafn b = true ->
  forall n oa ta ob, t0 <= n ->
  p_ra k a b bs t0 ts = Some (oa, ta) -> ta <= n -> triggers k oa = true ->
  p_rb k a b bs t0 ts = Some (ob, S n) -> triggers k ob = true -> p_af k a b bs t0 ts = true.
Proof. intros k a b bs t0 ts Hna Hnb. apply plan_ord_step_b; auto using denote_lower, denote_causal. Qed.

Lemma pord_start : forall k a b bs t0 ts, no_leafn a = true -> no_leafn b = true ->
  forall oa ob,
  p_ra k a b bs t0 ts = Some (oa, t0) -> triggers k oa = true ->
  p_rb k a b bs t0 ts = Some (ob, t0) -> triggers k ob = true -> p_af k a b bs t0 ts = true.
Proof. intros k a b bs t0 ts Hna Hnb. apply plan_ord_start; auto using denote_lower, denote_causal. Qed.

Lemma done_by_seq_a : forall k a b bs t0 ts n, is_seq k = true -> no_leafn b = true ->
  done_by (D a bs t0 ts) n = false -> done_by (D (Bin k a b) bs t0 ts) n = false.
Proof.
  intros k a b bs t0 ts n Hk Hnb Hp. rewrite (denote_seq _ _ _ _ _ _ _ Hk).
  destruct (D a bs t0 ts) as [[oa t1]|]; [|reflexivity]. simpl in Hp.
  destruct (seq_next k bs oa) as [[bs' sv]|]; [|exact Hp].
  destruct (D b bs' t1 ts) as [[ob t2]|] eqn:Rb; [|reflexivity].
  apply (denote_ge _ _ Hnb) in Rb. simpl. apply Nat.leb_gt in Hp. apply Nat.leb_gt. lia.
Qed.

(* ------------------------------------------------------------------------------------------ *)
(* start: completes inline iff the denotation completes at the start time                       *)

Lemma start_spec : forall e, no_leafn e = true -> forall bs t0 ts en,
  e_bound en = bs -> e_stopped en = stopped_now ts (2 * t0) ->
  res_ok (fun tr => tcalls tr = calls_at script e bs t0 ts t0)
         (fun o => D e bs t0 ts = Some (o, t0))
         (fun st => done_by (D e bs t0 ts) t0 = false /\ Inv e bs t0 ts t0 (e_stopped en) st)
         (start e en).
Proof.
  induction e as [v|x| |m|id|id|k s IHs|k a IHa b IHb]; intros Hn bs t0 ts en Hbs Hst.
  - split; [reflexivity|]. split; reflexivity.
  - split; [reflexivity|]. split; reflexivity.
  - split; [reflexivity|]. split; reflexivity.
  - cbn [start]. split; [reflexivity|]. split; [reflexivity|]. cbn [denote]. rewrite Hbs. reflexivity.
  - assert (Hp : done_by (D (Leaf id) bs t0 ts) t0 = false).
    { cbn [denote]. destruct (first_leaf_event script id t0) as [[o t]|] eqn:E; [|reflexivity].
      apply fle_some in E. simpl. apply Nat.leb_gt. lia. }
    cbn [start]. destruct (e_stopped en); (split; [reflexivity|]); (split; [exact Hp|eexists; reflexivity]).
  - discriminate Hn.
  - (* unary adaptors *)
    rewrite start_Un.
    assert (Hb' : e_bound (un_env k en) = bs) by (rewrite un_env_bound; exact Hbs).
    assert (Hs' : e_stopped (un_env k en) = stopped_now (un_ts k ts) (2 * t0))
      by (rewrite un_env_stopped, stopped_now_un_ts, Hst; reflexivity).
    generalize (IHs Hn bs t0 (un_ts k ts) (un_env k en) Hb' Hs').
    destruct (start s (un_env k en)) as [[sc trs] [o1|]].
    + pose proof (un_result_out k o1) as Ho. pose proof (un_result_calls k o1) as Hcu.
      destruct (un_result k o1) as [tr2 o']. simpl in Ho, Hcu. subst o'.
      unfold res_ok. intros [Hc [_ Hd]].
      split; [rewrite tcalls_app, Hc, Hcu, calls_un, Hd, Nat.eqb_refl; reflexivity|].
      split; [reflexivity|]. rewrite denote_un, Hd. reflexivity.
    + unfold res_ok. intros [Hc [Hp HI]]. split.
      * rewrite calls_un, Hc. destruct (D s bs t0 (un_ts k ts)) as [[o1 t1]|]; [|rewrite app_nil_r; reflexivity].
        simpl in Hp. apply Nat.leb_gt in Hp.
        destruct (t1 =? t0) eqn:E; [apply Nat.eqb_eq in E; lia|rewrite app_nil_r; reflexivity].
      * split; [rewrite done_by_un; exact Hp|].
        exists (mk_nst PFirst en), sc. split; [reflexivity|]. rewrite un_env_stopped in HI. exact HI.
  - cbn [no_leafn] in Hn. apply andb_true_iff in Hn. destruct Hn as [Hna Hnb].
    destruct (is_seq k) eqn:Hk.
    + (* sequential kinds *)
      rewrite (start_Bin_seq _ _ _ _ Hk).
      generalize (IHa Hna bs t0 ts en Hbs Hst).
      destruct (start a en) as [[sa tra] [oa|]].
      * unfold res_ok at 1. intros [Hca [_ Ra]].
        pose proof (after_first_spec k en oa) as AF. rewrite Hbs in AF.
        assert (Elt : (t0 <? t0) = false) by (apply Nat.ltb_irrefl).
        destruct (seq_next k bs oa) as [[bs' sv]|] eqn:Hsn.
        -- destruct AF as [en2 [E1 [E2 E3]]]. rewrite E1.
           assert (Hst2 : e_stopped en2 = stopped_now ts (2 * t0)) by (rewrite E3; exact Hst).
           generalize (IHb Hnb bs' t0 ts en2 E2 Hst2).
           assert (Hcc : forall trb, tcalls trb = calls_at script b bs' t0 ts t0 ->
                         tcalls (tra ++ trb) = calls_at script (Bin k a b) bs t0 ts t0).
           { intros trb Hcb. rewrite tcalls_app, Hca, Hcb, (calls_seq _ _ _ _ _ _ _ _ Hk), Ra, Elt, Hsn, Nat.leb_refl.
             reflexivity. }
           destruct (start b en2) as [[sb trb] [ob|]]; unfold res_ok.
           ++ intros [Hcb [_ Rb]]. split; [exact (Hcc _ Hcb)|]. split; [reflexivity|].
              rewrite (denote_seq _ _ _ _ _ _ _ Hk), Ra, Hsn, Rb. reflexivity.
           ++ intros [Hcb [Hp HI]]. split; [exact (Hcc _ Hcb)|]. split.
              ** rewrite (done_by_seq_b _ _ _ _ _ _ _ _ _ _ _ _ Hk Ra Hsn). exact Hp.
              ** exists (ns_set_saved (mk_nst PSecond en) sv), OFin, sb.
                 split; [reflexivity|]. split; [exact Hbs|]. split; [reflexivity|].
                 rewrite Hk, Ra, Nat.leb_refl, Hsn. split; [discriminate|]. split; [reflexivity|].
                 rewrite E3 in HI. exact HI.
        -- rewrite AF. split; [rewrite Hca, (calls_seq _ _ _ _ _ _ _ _ Hk), Ra, Elt, Hsn, app_nil_r; reflexivity|].
           split; [reflexivity|].
           rewrite (denote_seq _ _ _ _ _ _ _ Hk), Ra, Hsn. reflexivity.
      * unfold res_ok. intros [Hca [Hp HI]]. split.
        -- rewrite Hca, (calls_seq _ _ _ _ _ _ _ _ Hk).
           destruct (D a bs t0 ts) as [[oa t1]|]; [|reflexivity].
           simpl in Hp. apply Nat.leb_gt in Hp.
           assert (E1 : (t1 <? t0) = false) by (apply Nat.ltb_ge; lia).
           assert (E2 : (t1 <=? t0) = false) by (apply Nat.leb_gt; lia).
           rewrite E1, E2. destruct (seq_next k bs oa) as [[bs' sv]|]; rewrite app_nil_r; reflexivity.
        -- split; [apply done_by_seq_a; assumption|].
           exists (mk_nst PFirst en), sa, OFin.
           split; [reflexivity|]. split; [exact Hbs|]. split; [reflexivity|]. rewrite Hk.
           destruct (D a bs t0 ts) as [[oa t1]|]; [simpl in Hp; rewrite Hp|]; (split; [reflexivity|exact HI]).
    + (* when_all / stop_when *)
      rewrite (start_Bin_conc _ _ _ _ Hk). cbv zeta.
      set (ns0 := ns_set_own (ns_set_reg (mk_nst PBoth en) (negb (e_stopped en))) (e_stopped en)).
      change (own_stop ns0) with (e_stopped en).
      pose proof (pS1 k a b bs t0 ts Hna Hnb) as S1. pose proof (pS2 k a b bs t0 ts Hna Hnb) as S2.
      assert (Hcc : forall tra trb, tcalls tra = calls_at script a bs t0 (p_pa k a b bs t0 ts) t0 ->
                      tcalls trb = calls_at script b bs t0 (p_pb k a b bs t0 ts) t0 ->
                      tcalls (tra ++ trb) = calls_at script (Bin k a b) bs t0 ts t0).
      { intros tra trb Hca Hcb. rewrite tcalls_app, Hca, Hcb, (calls_conc _ _ _ _ _ _ _ _ Hk). cbv zeta.
        rewrite !until_lower; [reflexivity| |]; intros o t Hd; (eapply denote_ge; [|exact Hd]; assumption). }
      set (af := p_af k a b bs t0 ts) in *. set (pa := p_pa k a b bs t0 ts) in *.
      set (pb := p_pb k a b bs t0 ts) in *.
      assert (HCI0 : CI k af (e_stopped en) None None ns0 bs) by (rewrite <- Hbs; apply CI_init).
      assert (Hsa : e_stopped (env_own en (e_stopped en)) = stopped_now pa (2 * t0))
        by (rewrite S1; exact Hst).
      generalize (IHa Hna bs t0 pa (env_own en (e_stopped en)) Hbs Hsa).
      destruct (start a (env_own en (e_stopped en))) as [[sa tra] [oa|]]; unfold res_ok at 1.
      * (* a completes inline *)
        intros [Hca [_ Ra]]. change (D a bs t0 pa) with (p_ra k a b bs t0 ts) in Ra.
        destruct (CI_child_a k af _ None ns0 bs oa Hk HCI0 ltac:(intros; discriminate))
          as [ns1 [fin1 [E1 [HCI1 _]]]].
        rewrite E1. cbv beta iota.
        assert (Hown1 : own_stop ns1 = e_stopped en || triggers k oa).
        { destruct HCI1 as (_ & _ & C3 & _). rewrite C3. simpl. apply orb_false_r. }
        assert (Hsb : e_stopped (env_own en (own_stop ns1)) = stopped_now pb (2 * t0)).
        { cbn [env_own e_stopped]. rewrite S2, Ra, Hown1, Hst. simpl. rewrite Nat.leb_refl, andb_true_r. reflexivity. }
        generalize (IHb Hnb bs t0 pb (env_own en (own_stop ns1)) Hbs Hsb).
        destruct (start b (env_own en (own_stop ns1))) as [[sb trb] [ob|]]; unfold res_ok at 1.
        -- (* both inline *)
           intros [Hcb [_ Rb]]. change (D b bs t0 pb) with (p_rb k a b bs t0 ts) in Rb.
           assert (ORD : forall oa', Some oa = Some oa' -> triggers k oa' = true -> triggers k ob = true -> af = true).
           { intros oa' E Ta Tb. inversion E; subst oa'. exact (pord_start k a b bs t0 ts Hna Hnb oa ob Ra Ta Rb Tb). }
           destruct (CI_child_b k af _ (Some oa) ns1 bs ob Hk HCI1 ORD) as [ns2 [fin2 [E2 [HCI2 Hf2]]]].
           rewrite E2. cbv beta iota. rewrite Hf2. unfold finish_conc, res_ok. cbn [andb].
           split; [rewrite app_nil_r; exact (Hcc _ _ Hca Hcb)|].
           split; [reflexivity|].
           rewrite (denote_conc_p script _ _ _ _ _ _ Hk), Ra, Rb. cbn [conc_result]. rewrite Nat.max_id.
           rewrite (CI_final _ _ _ _ _ _ _ Hk HCI2). rewrite stopped_by_now, <- Hst. reflexivity.
        -- (* b pending *)
           intros [Hcb [Hpb HIb]]. change (D b bs t0 pb) with (p_rb k a b bs t0 ts) in Hpb.
           unfold res_ok. split; [exact (Hcc _ _ Hca Hcb)|]. split.
           ++ rewrite (done_by_conc script _ _ _ _ _ _ _ Hk), Hpb. apply andb_false_r.
           ++ apply (inv_conc_iff script _ _ _ _ _ _ _ _ _ Hk). exists ns1, sa, sb.
              split; [reflexivity|].
              rewrite (done_val_of _ _ _ _ Ra (le_n t0)).
              rewrite (proj2 (done_val_none _ _) Hpb).
              split; [exact HCI1|]. split; [intros; discriminate|intros _; exact HIb].
      * (* a pending *)
        intros [Hca [Hpa HIa]]. change (D a bs t0 pa) with (p_ra k a b bs t0 ts) in Hpa.
        cbv beta iota. change (own_stop ns0) with (e_stopped en).
        assert (Hsb : e_stopped (env_own en (e_stopped en)) = stopped_now pb (2 * t0)).
        { cbn [env_own e_stopped]. rewrite S2, (trig_done_pending _ _ _ Hpa), orb_false_r. exact Hst. }
        generalize (IHb Hnb bs t0 pb (env_own en (e_stopped en)) Hbs Hsb).
        destruct (start b (env_own en (e_stopped en))) as [[sb trb] [ob|]]; unfold res_ok at 1.
        -- (* b inline, a still running *)
           intros [Hcb [_ Rb]]. change (D b bs t0 pb) with (p_rb k a b bs t0 ts) in Rb.
           destruct (CI_child_b k af _ None ns0 bs ob Hk HCI0 ltac:(intros; discriminate))
             as [ns2 [fin2 [E2 [HCI2 Hf2]]]].
           rewrite E2. cbv beta iota. rewrite Hf2.
           assert (Hown2 : own_stop ns2 = own_stop ns0 || triggers k ob).
           { destruct HCI2 as (_ & _ & C3 & _). rewrite C3. simpl. rewrite orb_false_r. reflexivity. }
           assert (Hpe : done_by (D (Bin k a b) bs t0 ts) t0 = false)
             by (rewrite (done_by_conc script _ _ _ _ _ _ _ Hk), Hpa; reflexivity).
           destruct (triggers k ob && negb (own_stop ns0)) eqn:Enew.
           ++ apply newly_true_own in Enew. destruct Enew as [Eo Eo'].
              change (own_stop ns0) with (e_stopped en) in Eo.
              change (e_stopped (env_own en (e_stopped en))) with (e_stopped en) in HIa.
              rewrite Eo in HIa.
              destruct (stop_spec script a Hna _ _ _ _ _ HIa) as [sa' [tra2 [Es [Hcs HIa']]]].
              rewrite Es. unfold res_ok.
              split; [rewrite app_assoc, tcalls_app, Hcs, app_nil_r; exact (Hcc _ _ Hca Hcb)|].
              split; [exact Hpe|].
              apply (inv_conc_iff script _ _ _ _ _ _ _ _ _ Hk). exists ns2, sa', OFin.
              split; [reflexivity|].
              rewrite (proj2 (done_val_none _ _) Hpa). rewrite (done_val_of _ _ _ _ Rb (le_n t0)).
              split; [exact HCI2|]. split; [intros _; rewrite Hown2, Eo'; exact HIa'|intros; discriminate].
           ++ apply newly_false_own in Enew. unfold res_ok.
              split; [exact (Hcc _ _ Hca Hcb)|]. split; [exact Hpe|].
              apply (inv_conc_iff script _ _ _ _ _ _ _ _ _ Hk). exists ns2, sa, OFin.
              split; [reflexivity|].
              rewrite (proj2 (done_val_none _ _) Hpa). rewrite (done_val_of _ _ _ _ Rb (le_n t0)).
              split; [exact HCI2|]. split; [intros _; rewrite Hown2, Enew; exact HIa|intros; discriminate].
        -- (* both pending *)
           intros [Hcb [Hpb HIb]]. change (D b bs t0 pb) with (p_rb k a b bs t0 ts) in Hpb.
           unfold res_ok. split; [exact (Hcc _ _ Hca Hcb)|]. split.
           ++ rewrite (done_by_conc script _ _ _ _ _ _ _ Hk), Hpa; reflexivity.
           ++ apply (inv_conc_iff script _ _ _ _ _ _ _ _ _ Hk). exists ns0, sa, sb.
              split; [reflexivity|].
              rewrite (proj2 (done_val_none _ _) Hpa). rewrite (proj2 (done_val_none _ _) Hpb).
              split; [exact HCI0|]. split; intros _; assumption.
Qed.

End WithScript.

Lemma nodup_app : forall (l1 l2 : list nat), NoDup (l1 ++ l2) ->
  NoDup l1 /\ NoDup l2 /\ (forall x, In x l1 -> ~ In x l2).
Proof.
  induction l1 as [|y l1 IH]; simpl; intros l2 H.
  - split; [constructor|]. split; [exact H|]. intros x [].
  - inversion H as [|y' l' H2 H3]; subst. destruct (IH l2 H3) as [A [B C]].
    split; [constructor; [intro Hin; apply H2; apply in_or_app; left; exact Hin|exact A]|].
    split; [exact B|].
    intros x [->|Hin] Hin2; [apply H2; apply in_or_app; right; exact Hin2|exact (C x Hin Hin2)].
Qed.

Section WithScript.
Variable script : list sev.
Notation D := (denote script).
Notation Inv := (Inv script).
Notation p_af := (p_af script).
Notation p_pa := (p_pa script).
Notation p_pb := (p_pb script).
Notation p_ra := (p_ra script).
Notation p_rb := (p_rb script).

(* one event: the operation completes iff the denotation completes at this time *)
Definition step_ok (e : sexpr) (bs : list Z) (t0 : nat) (ts : option nat) (n : nat) (F : bool) (st : ost)
           (x : res * bool) : Prop :=
  match x with
  | ((st', tr, Some o'), hit) =>
      tcalls tr = calls_at script e bs t0 ts (S n) /\
      hit = true /\ st' = OFin /\ D e bs t0 ts = Some (o', S n)
  | ((st', tr, None), hit) =>
      tcalls tr = calls_at script e bs t0 ts (S n) /\
      done_by (D e bs t0 ts) (S n) = false /\ Inv e bs t0 ts (S n) F st' /\
      (hit = false -> st' = st /\ tr = [])
  end.

(* a concurrent node whose children's completion status does not change *)
Lemma inv_conc_keep : forall k a b bs t0 ts n F ns sa sb, is_seq k = false ->
  CI k (p_af k a b bs t0 ts) F (done_val (p_ra k a b bs t0 ts) n) (done_val (p_rb k a b bs t0 ts) n) ns bs ->
  quiet (p_ra k a b bs t0 ts) n -> quiet (p_rb k a b bs t0 ts) n ->
  (done_by (p_ra k a b bs t0 ts) n = false -> Inv a bs t0 (p_pa k a b bs t0 ts) (S n) (own_stop ns) sa) ->
  (done_by (p_rb k a b bs t0 ts) n = false -> Inv b bs t0 (p_pb k a b bs t0 ts) (S n) (own_stop ns) sb) ->
  Inv (Bin k a b) bs t0 ts (S n) F (ONode ns sa sb).
Proof.
  intros k a b bs t0 ts n F ns sa sb Hk HCI Qa Qb Ha Hb.
  apply (inv_conc_iff script _ _ _ _ _ _ _ _ _ Hk). exists ns, sa, sb. split; [reflexivity|].
  rewrite (done_val_quiet _ _ Qa), (done_val_quiet _ _ Qb). split; [exact HCI|].
  split; intros Hd; [apply Ha|apply Hb]; apply done_val_none; exact Hd.
Qed.

Lemma quiet_pending : forall r n, done_by r n = false -> done_by r (S n) = false -> quiet r n.
Proof. intros r n H1 H2. unfold quiet. rewrite H1, H2. reflexivity. Qed.

Lemma step_spec : forall e, no_leafn e = true -> NoDup (leaf_ids e) -> forall bs t0 ts n F st id o,
  t0 <= n -> nth_error script n = Some (EvLeaf id o) ->
  F = stopped_now ts (2 * n + 1) -> stopped_now ts (2 * n + 2) = stopped_now ts (2 * n + 1) ->
  done_by (D e bs t0 ts) n = false -> Inv e bs t0 ts n F st ->
  step_ok e bs t0 ts n F st (leafev e st id o).
Proof.
  induction e as [v|x| |m|id'|id'|k s IHs|k a IHa b IHb];
    intros Hn Hnd bs t0 ts n F st id o Hle Hev HF1 HF2 Hp HI; try (exfalso; exact HI).
  - (* a leaf *)
    destruct HI as [seen ->]. cbn [leafev]. cbn [denote] in Hp.
    destruct (Nat.eqb id id') eqn:E.
    + apply Nat.eqb_eq in E. subst id'. unfold step_ok. split; [reflexivity|].
      split; [reflexivity|]. split; [reflexivity|].
      cbn [denote]. apply fle_hit; assumption.
    + apply Nat.eqb_neq in E. unfold step_ok. split; [reflexivity|]. split.
      * cbn [denote]. eapply fle_miss; [exact Hp|exact Hev|]. intro Hc; apply E; symmetry; exact Hc.
      * split; [eexists; reflexivity|split; reflexivity].
  - (* unary adaptors *)
    destruct HI as [ns [sc [-> Hs]]]. rewrite leafev_Un.
    assert (HF1' : un_flag k F = stopped_now (un_ts k ts) (2 * n + 1))
      by (rewrite stopped_now_un_ts, HF1; reflexivity).
    assert (HF2' : stopped_now (un_ts k ts) (2 * n + 2) = stopped_now (un_ts k ts) (2 * n + 1))
      by (rewrite !stopped_now_un_ts, HF2; reflexivity).
    rewrite done_by_un in Hp.
    generalize (IHs Hn Hnd bs t0 (un_ts k ts) n (un_flag k F) sc id o Hle Hev HF1' HF2' Hp Hs).
    destruct (leafev s sc id o) as [[[sc' trs] [oc|]] hit]; unfold step_ok.
    + pose proof (un_result_out k oc) as Ho. pose proof (un_result_calls k oc) as Hcu.
      destruct (un_result k oc) as [tr2 o']. simpl in Ho, Hcu. subst o'.
      intros [Hc [Hh [_ Hd]]].
      split; [rewrite tcalls_app, Hc, Hcu, calls_un, Hd, Nat.eqb_refl; reflexivity|].
      split; [exact Hh|]. split; [reflexivity|]. rewrite denote_un, Hd. reflexivity.
    + intros [Hc [Hp1 [HI1 Hsame]]]. split.
      * rewrite calls_un, Hc. destruct (D s bs t0 (un_ts k ts)) as [[o1 t1]|]; [|rewrite app_nil_r; reflexivity].
        simpl in Hp1. apply Nat.leb_gt in Hp1.
        destruct (t1 =? S n) eqn:E; [apply Nat.eqb_eq in E; lia|rewrite app_nil_r; reflexivity].
      * split; [rewrite done_by_un; exact Hp1|].
        split; [exists ns, sc'; split; [reflexivity|exact HI1]|].
        intros Hh. destruct (Hsame Hh) as [-> ->]. split; reflexivity.
  - cbn [no_leafn] in Hn. apply andb_true_iff in Hn. destruct Hn as [Hna Hnb].
    cbn [leaf_ids] in Hnd. destruct (nodup_app _ _ Hnd) as [Hnda [Hndb Hdisj]].
    destruct (is_seq k) eqn:Hk.
    + (* sequential kinds *)
      destruct HI as [ns [sa [sb [-> [Hbs [Hst Hrest]]]]]]. rewrite Hk in Hrest.
      rewrite (leafev_Bin_seq _ _ _ _ _ _ _ _ Hk).
      assert (G1 : ph ns = PFirst /\ Inv a bs t0 ts n F sa -> done_by (D a bs t0 ts) n = false ->
                   step_ok (Bin k a b) bs t0 ts n F (ONode ns sa sb)
                     match ph ns with
                     | PFirst =>
                         let '(sa', tra, ra, hit) := leafev a sa id o in
                         match ra with
                         | Some oa =>
                             match after_first k (n_env ns) oa with
                             | inl o' => (OFin, tra, Some o', hit)
                             | inr (en2, sv) =>
                                 let '(sb', trb, rb) := start b en2 in
                                 match rb with
                                 | Some ob => (OFin, tra ++ trb, Some (after_second k sv ob), hit)
                                 | None =>
                                     (ONode (ns_set_saved (ns_set_ph ns PSecond) sv) OFin sb', tra ++ trb, None, hit)
                                 end
                             end
                         | None => (ONode ns sa' sb, tra, None, hit)
                         end
                     | _ =>
                         let '(sb', trb, rb, hit) := leafev b sb id o in
                         match rb with
                         | Some ob => (OFin, trb, Some (after_second k (saved ns) ob), hit)
                         | None => (ONode ns sa sb', trb, None, hit)
                         end
                     end).
      { intros [Hph Ha] Hpa. rewrite Hph.
        generalize (IHa Hna Hnda bs t0 ts n F sa id o Hle Hev HF1 HF2 Hpa Ha).
        destruct (leafev a sa id o) as [[[sa' tra] [oa|]] hit]; unfold step_ok at 1.
        - intros [Hca [Hh [_ Ra]]].
          pose proof (after_first_spec k (n_env ns) oa) as AF. rewrite Hbs in AF.
          assert (Elt : (S n <? S n) = false) by (apply Nat.ltb_irrefl).
          destruct (seq_next k bs oa) as [[bs' sv]|] eqn:Hsn.
          + destruct AF as [en2 [E1 [E2 E3]]]. rewrite E1.
            assert (Hst2 : e_stopped en2 = stopped_now ts (2 * S n)).
            { rewrite E3, Hst, HF1, <- HF2. f_equal. lia. }
            assert (Hcc : forall trb, tcalls trb = calls_at script b bs' (S n) ts (S n) ->
                          tcalls (tra ++ trb) = calls_at script (Bin k a b) bs t0 ts (S n)).
            { intros trb Hcb. rewrite tcalls_app, Hca, Hcb, (calls_seq _ _ _ _ _ _ _ _ Hk), Ra, Elt, Hsn, Nat.leb_refl.
              reflexivity. }
            generalize (start_spec script b Hnb bs' (S n) ts en2 E2 Hst2).
            destruct (start b en2) as [[sb' trb] [ob|]]; unfold res_ok, step_ok.
            * intros [Hcb [_ Rb]]. split; [exact (Hcc _ Hcb)|]. split; [exact Hh|]. split; [reflexivity|].
              rewrite (denote_seq _ _ _ _ _ _ _ Hk), Ra, Hsn, Rb. reflexivity.
            * intros [Hcb [Hpb HIb]]. split; [exact (Hcc _ Hcb)|].
              split; [rewrite (done_by_seq_b _ _ _ _ _ _ _ _ _ _ _ _ Hk Ra Hsn); exact Hpb|].
              split; [|intros Hc; rewrite Hh in Hc; discriminate].
              exists (ns_set_saved (ns_set_ph ns PSecond) sv), OFin, sb'.
              split; [reflexivity|]. split; [exact Hbs|]. split; [exact Hst|].
              rewrite Hk, Ra, Nat.leb_refl, Hsn. split; [discriminate|]. split; [reflexivity|].
              rewrite E3, Hst in HIb. exact HIb.
          + rewrite AF. unfold step_ok.
            split; [rewrite Hca, (calls_seq _ _ _ _ _ _ _ _ Hk), Ra, Elt, Hsn, app_nil_r; reflexivity|].
            split; [exact Hh|]. split; [reflexivity|].
            rewrite (denote_seq _ _ _ _ _ _ _ Hk), Ra, Hsn. reflexivity.
        - intros [Hca [Hpa' [HIa Hsame]]]. unfold step_ok. split.
          + rewrite Hca, (calls_seq _ _ _ _ _ _ _ _ Hk).
            destruct (D a bs t0 ts) as [[oa t1]|]; [|reflexivity].
            simpl in Hpa'. apply Nat.leb_gt in Hpa'.
            assert (E1 : (t1 <? S n) = false) by (apply Nat.ltb_ge; lia).
            assert (E2 : (t1 <=? S n) = false) by (apply Nat.leb_gt; lia).
            rewrite E1, E2. destruct (seq_next k bs oa) as [[bs' sv]|]; rewrite app_nil_r; reflexivity.
          + split; [apply done_by_seq_a; assumption|].
            split; [|intros Hh; destruct (Hsame Hh) as [-> ->]; split; reflexivity].
            exists ns, sa', sb. split; [reflexivity|]. split; [exact Hbs|]. split; [exact Hst|]. rewrite Hk.
            destruct (D a bs t0 ts) as [[oa t1]|]; [simpl in Hpa'; rewrite Hpa'|]; (split; [exact Hph|exact HIa]). }
      destruct (D a bs t0 ts) as [[oa t1]|] eqn:Ra; [|exact (G1 Hrest eq_refl)].
      destruct (t1 <=? n) eqn:Et; [|exact (G1 Hrest Et)].
      destruct (seq_next k bs oa) as [[bs' sv]|] eqn:Hsn; [|contradiction].
      destruct Hrest as [Hph [Hsv Hb]]. apply Nat.leb_le in Et.
      rewrite (done_by_seq_b script _ _ _ _ _ _ _ _ _ _ _ Hk Ra Hsn) in Hp.
      generalize (IHb Hnb Hndb bs' t1 ts n F sb id o Et Hev HF1 HF2 Hp Hb).
      assert (Et' : (t1 <=? S n) = true) by (apply Nat.leb_le; lia).
      assert (Et'' : (t1 <? S n) = true) by (apply Nat.ltb_lt; lia).
      assert (Hcc : calls_at script (Bin k a b) bs t0 ts (S n) = calls_at script b bs' t1 ts (S n)).
      { rewrite (calls_seq _ _ _ _ _ _ _ _ Hk), Ra, Et', Et'', Hsn. reflexivity. }
      destruct (ph ns) eqn:Eph; [contradiction| |];
        (destruct (leafev b sb id o) as [[[sb' trb] [ob|]] hit]; unfold step_ok;
         [ intros [Hcb [Hh [_ Rb]]]; split; [rewrite Hcc; exact Hcb|]; split; [exact Hh|]; split; [reflexivity|];
           rewrite (denote_seq _ _ _ _ _ _ _ Hk), Ra, Hsn, Rb, Hsv; reflexivity
         | intros [Hcb [Hp1 [HI1 Hsame]]]; split; [rewrite Hcc; exact Hcb|];
           split; [rewrite (done_by_seq_b script _ _ _ _ _ _ _ _ _ _ _ Hk Ra Hsn); exact Hp1|];
           split; [|intros Hh; destruct (Hsame Hh) as [-> ->]; split; reflexivity];
           exists ns, sa, sb'; split; [reflexivity|]; split; [exact Hbs|]; split; [exact Hst|];
           rewrite Hk, Ra, Et', Hsn; split; [rewrite Eph; discriminate|]; split; [exact Hsv|exact HI1] ]).
    + (* when_all / stop_when *)
      apply (inv_conc_iff script _ _ _ _ _ _ _ _ _ Hk) in HI.
      destruct HI as [ns [sa [sb [-> [HCI [HIa HIb]]]]]].
      rewrite (done_by_conc script _ _ _ _ _ _ _ Hk) in Hp.
      rewrite (leafev_Bin_conc _ _ _ _ _ _ _ _ Hk).
      pose proof (calls_conc script k a b bs t0 ts (S n) Hk) as HCC. cbv zeta in HCC.
      fold (DenoteProofs.p_sg script k a b bs t0 ts) in HCC. fold (p_af k a b bs t0 ts) in HCC.
      fold (p_pa k a b bs t0 ts) in HCC. fold (p_pb k a b bs t0 ts) in HCC.
      fold (p_ra k a b bs t0 ts) in HCC. fold (p_rb k a b bs t0 ts) in HCC.
      set (af := p_af k a b bs t0 ts) in *. set (pa := p_pa k a b bs t0 ts) in *.
      set (pb := p_pb k a b bs t0 ts) in *.
      set (ra := p_ra k a b bs t0 ts) in *. set (rb := p_rb k a b bs t0 ts) in *.
      assert (Had : adone ns = done_by ra n).
      { destruct HCI as (_ & _ & _ & C4 & _). rewrite C4, done_by_val. reflexivity. }
      assert (Hbd : bdone ns = done_by rb n).
      { destruct HCI as (_ & _ & _ & _ & C5 & _). rewrite C5, done_by_val. reflexivity. }
      assert (Hown : own_stop ns = F || trig_done k ra n || trig_done k rb n).
      { destruct HCI as (_ & _ & C3 & _). rewrite C3, !trig_done_val. reflexivity. }
      assert (HFS : stopped_by ts (S n) = F).
      { rewrite stopped_by_now, HF1, <- HF2. f_equal. lia. }
      (* the calls of a child that is finished or that the event is not for *)
      assert (Na : ~ In id (leaf_ids a) \/ done_by ra n = true ->
                   until ra (S n) (calls_at script a bs t0 pa (S n)) = []).
      { intros [Hc|Hc]; [rewrite (calls_quiet script a Hna _ _ _ _ _ _ Hev Hc Hle); apply until_nil
                        |apply until_done; exact Hc]. }
      assert (Nb : ~ In id (leaf_ids b) \/ done_by rb n = true ->
                   until rb (S n) (calls_at script b bs t0 pb (S n)) = []).
      { intros [Hc|Hc]; [rewrite (calls_quiet script b Hnb _ _ _ _ _ _ Hev Hc Hle); apply until_nil
                        |apply until_done; exact Hc]. }
      assert (CA : forall tra, done_by ra n = false -> ~ In id (leaf_ids b) ->
                     tcalls tra = calls_at script a bs t0 pa (S n) ->
                     tcalls tra = calls_at script (Bin k a b) bs t0 ts (S n)).
      { intros tra Da Hc Hca. rewrite HCC, (Nb (or_introl Hc)), (until_pending _ _ _ Da), app_nil_r. exact Hca. }
      assert (CB : forall trb, done_by rb n = false -> ~ In id (leaf_ids a) ->
                     tcalls trb = calls_at script b bs t0 pb (S n) ->
                     tcalls trb = calls_at script (Bin k a b) bs t0 ts (S n)).
      { intros trb Db Hc Hcb. rewrite HCC, (Na (or_introl Hc)), (until_pending _ _ _ Db). exact Hcb. }
      assert (CN : ~ In id (leaf_ids a) \/ done_by ra n = true -> ~ In id (leaf_ids b) \/ done_by rb n = true ->
                   tcalls [] = calls_at script (Bin k a b) bs t0 ts (S n)).
      { intros H1 H2. rewrite HCC, (Na H1), (Nb H2). reflexivity. }
      (* the generic "b is not touched" part of the machine *)
      assert (Gb : ~ In id (leaf_ids b) \/ done_by rb n = true ->
                   (if bdone ns then (sb, [], None, false) else leafev b sb id o) = ((sb, [], None), false)).
      { intros Hc. rewrite Hbd. destruct (done_by rb n) eqn:Db; [reflexivity|].
        destruct Hc as [Hc|Hc]; [|discriminate].
        apply (leafev_miss script b bs t0 pb n (own_stop ns)); [|exact Hc].
        apply HIb. apply done_val_none. exact Db. }
      assert (Ga : ~ In id (leaf_ids a) \/ done_by ra n = true ->
                   (if adone ns then (sa, [], None, false) else leafev a sa id o) = ((sa, [], None), false)).
      { intros Hc. rewrite Had. destruct (done_by ra n) eqn:Da; [reflexivity|].
        destruct Hc as [Hc|Hc]; [|discriminate].
        apply (leafev_miss script a bs t0 pa n (own_stop ns)); [|exact Hc].
        apply HIa. apply done_val_none. exact Da. }
      (* a child the event is not for, or that is finished, is quiet; if running it advances *)
      assert (Qa_of : ~ In id (leaf_ids a) \/ done_by ra n = true -> quiet ra n).
      { intros [Hc|Hc]; [exact (quiet_of script a Hna bs t0 pa n id o Hev Hc Hle)|apply quiet_done; exact Hc]. }
      assert (Qb_of : ~ In id (leaf_ids b) \/ done_by rb n = true -> quiet rb n).
      { intros [Hc|Hc]; [exact (quiet_of script b Hnb bs t0 pb n id o Hev Hc Hle)|apply quiet_done; exact Hc]. }
      assert (Adv_a : ~ In id (leaf_ids a) -> done_by ra n = false ->
                      Inv a bs t0 pa (S n) (own_stop ns) sa).
      { intros Hc Da. apply (inv_advance script a Hna bs t0 pa n (own_stop ns) sa id o Hle Hev Hc Da).
        apply HIa. apply done_val_none. exact Da. }
      assert (Adv_b : ~ In id (leaf_ids b) -> done_by rb n = false ->
                      Inv b bs t0 pb (S n) (own_stop ns) sb).
      { intros Hc Db. apply (inv_advance script b Hnb bs t0 pb n (own_stop ns) sb id o Hle Hev Hc Db).
        apply HIb. apply done_val_none. exact Db. }
      destruct (in_dec Nat.eq_dec id (leaf_ids a)) as [Hina|Hnina].
      * (* the event is for a leaf of a *)
        assert (Hninb : ~ In id (leaf_ids b)) by (apply Hdisj; exact Hina).
        pose proof (Qb_of (or_introl Hninb)) as Qb.
        rewrite (Gb (or_introl Hninb)).
        destruct (done_by ra n) eqn:Da.
        -- (* a has finished already: nothing happens *)
           simpl in Hp. rewrite (Ga (or_intror eq_refl)). cbv beta iota. unfold step_ok.
           split; [exact (CN (or_intror eq_refl) (or_introl Hninb))|].
           split; [rewrite (done_by_conc script _ _ _ _ _ _ _ Hk); fold rb;
                   unfold quiet in Qb; rewrite Qb, Hp; apply andb_false_r|].
           split; [|split; reflexivity].
           apply inv_conc_keep; try assumption.
           ++ apply quiet_done. exact Da.
           ++ fold ra. rewrite Da. intros; discriminate.
           ++ fold rb. intros Db. exact (Adv_b Hninb Db).
        -- (* a is running *)
           destruct (pcoh_a script k a b bs t0 ts Hna Hnb n Da Qb Hle HF2) as [C1 C2].
           fold pa rb in C1, C2.
           assert (Hown' : own_stop ns = stopped_now ts (2 * n + 1) || trig_done k rb n).
           { rewrite Hown, (trig_done_pending _ _ _ Da), orb_false_r, HF1. reflexivity. }
           assert (HF1' : own_stop ns = stopped_now pa (2 * n + 1)) by (rewrite C1; exact Hown').
           assert (HF2' : stopped_now pa (2 * n + 2) = stopped_now pa (2 * n + 1)) by (rewrite C1, C2; reflexivity).
           rewrite Had.
           generalize (IHa Hna Hnda bs t0 pa n (own_stop ns) sa id o Hle Hev HF1' HF2' Da
                           (HIa (proj2 (done_val_none _ _) Da))).
           destruct (leafev a sa id o) as [[[sa' tra] [oa|]] hita]; unfold step_ok at 1.
           ++ (* a completes now *)
              intros [Hca [Hh [Hsa' Ra]]]. subst hita sa'. cbv beta iota. change (D a bs t0 pa) with ra in Ra.
              pose proof (CA _ eq_refl Hninb Hca) as Hca'.
              rewrite (proj2 (done_val_none _ _) Da) in HCI.
              destruct (done_val rb n) as [ob|] eqn:Vb.
              ** (* b had finished: the node completes *)
                 destruct (done_val_some _ _ _ Vb) as [tb [Rb Htb]].
                 assert (ORD : forall ob', Some ob = Some ob' -> triggers k oa = true ->
                                           triggers k ob' = true -> af = false).
                 { intros ob' E _ Tb. inversion E; subst ob'.
                   exact (pord_a script k a b bs t0 ts Hna Hnb n oa ob tb Ra Rb Htb Tb). }
                 destruct (CI_child_a k af F (Some ob) ns bs oa Hk HCI ORD) as [ns1 [fin [E1 [HCI1 Hf]]]].
                 rewrite E1. cbv beta iota. rewrite Hf. unfold finish_conc, step_ok. cbn [andb].
                 split; [rewrite app_nil_r; exact Hca'|].
                 split; [reflexivity|]. split; [reflexivity|].
                 rewrite (denote_conc_p script _ _ _ _ _ _ Hk). fold ra rb af. rewrite Ra, Rb.
                 cbn [conc_result]. replace (Nat.max (S n) tb) with (S n) by lia.
                 rewrite (CI_final _ _ _ _ _ _ _ Hk HCI1), HFS. reflexivity.
              ** (* b is still running *)
                 assert (Db : done_by rb n = false) by (apply done_val_none; exact Vb).
                 destruct (CI_child_a k af F None ns bs oa Hk HCI ltac:(intros; discriminate))
                   as [ns1 [fin [E1 [HCI1 Hf]]]].
                 rewrite E1. cbv beta iota. rewrite Hf.
                 assert (Hown1 : own_stop ns1 = own_stop ns || triggers k oa).
                 { destruct HCI1 as (_ & _ & C3 & _). destruct HCI as (_ & _ & C3' & _).
                   rewrite C3, C3'. simpl. rewrite !orb_false_r. reflexivity. }
                 assert (Hpe : done_by (D (Bin k a b) bs t0 ts) (S n) = false).
                 { rewrite (done_by_conc script _ _ _ _ _ _ _ Hk). fold rb.
                   unfold quiet in Qb. rewrite Qb, Db. apply andb_false_r. }
                 assert (Vb' : done_val rb (S n) = None) by (rewrite (done_val_quiet _ _ Qb); exact Vb).
                 assert (Va' : done_val ra (S n) = Some oa) by (exact (done_val_of _ _ _ _ Ra (le_n _))).
                 pose proof (Adv_b Hninb Db) as HIb'.
                 destruct (triggers k oa && negb (own_stop ns)) eqn:Enew.
                 --- apply newly_true_own in Enew. destruct Enew as [Eo Eo'].
                     rewrite Eo in HIb'.
                     destruct (stop_spec script b Hnb _ _ _ _ _ HIb') as [sb' [trb [Es [Hcs HIb'']]]].
                     rewrite Es. unfold step_ok.
                     split; [rewrite tcalls_app, Hcs, app_nil_r; exact Hca'|].
                     split; [exact Hpe|]. split; [|intros; discriminate].
                     apply (inv_conc_iff script _ _ _ _ _ _ _ _ _ Hk). exists ns1, OFin, sb'.
                     split; [reflexivity|]. fold ra rb af pa pb. rewrite Va', Vb'.
                     split; [exact HCI1|]. split; [intros; discriminate|].
                     intros _. rewrite Hown1, Eo'. exact HIb''.
                 --- apply newly_false_own in Enew.
                     unfold step_ok. split; [exact Hca'|]. split; [exact Hpe|]. split; [|intros; discriminate].
                     apply (inv_conc_iff script _ _ _ _ _ _ _ _ _ Hk). exists ns1, OFin, sb.
                     split; [reflexivity|]. fold ra rb af pa pb. rewrite Va', Vb'.
                     split; [exact HCI1|]. split; [intros; discriminate|].
                     intros _. rewrite Hown1, Enew. exact HIb'.
           ++ (* a does not complete *)
              intros [Hca [Hpa' [HIa' Hsame]]]. change (D a bs t0 pa) with ra in Hpa'.
              pose proof (CA _ eq_refl Hninb Hca) as Hca'.
              assert (Hpe : done_by (D (Bin k a b) bs t0 ts) (S n) = false).
              { rewrite (done_by_conc script _ _ _ _ _ _ _ Hk). fold ra. rewrite Hpa'. reflexivity. }
              assert (Qa : quiet ra n) by (apply quiet_pending; assumption).
              destruct hita.
              ** cbv beta iota. unfold step_ok. split; [exact Hca'|].
                 split; [exact Hpe|]. split; [|intros; discriminate].
                 apply inv_conc_keep; try assumption.
                 --- fold pa. intros _. exact HIa'.
                 --- fold rb pb. intros Db. exact (Adv_b Hninb Db).
              ** destruct (Hsame eq_refl) as [Es Et]. rewrite Es, Et in *. cbv beta iota. unfold step_ok.
                 split; [exact Hca'|].
                 split; [exact Hpe|]. split; [|split; reflexivity].
                 apply inv_conc_keep; try assumption.
                 --- fold pa. intros _. exact HIa'.
                 --- fold rb pb. intros Db. exact (Adv_b Hninb Db).
      * (* the event is not for a *)
        pose proof (Qa_of (or_introl Hnina)) as Qa.
        rewrite (Ga (or_introl Hnina)). cbv beta iota.
        destruct (done_by rb n) eqn:Db.
        -- (* b has finished: nothing happens *)
           rewrite andb_true_r in Hp. rewrite (Gb (or_intror eq_refl)). cbv beta iota. unfold step_ok.
           split; [exact (CN (or_introl Hnina) (or_intror eq_refl))|].
           split; [rewrite (done_by_conc script _ _ _ _ _ _ _ Hk); fold ra;
                   unfold quiet in Qa; rewrite Qa, Hp; reflexivity|].
           split; [|split; reflexivity].
           apply inv_conc_keep; try assumption.
           ++ apply quiet_done. exact Db.
           ++ fold ra pa. intros Da. exact (Adv_a Hnina Da).
           ++ fold rb. rewrite Db. intros; discriminate.
        -- destruct (in_dec Nat.eq_dec id (leaf_ids b)) as [Hinb|Hninb].
           ++ (* the event is for a leaf of b, which is running *)
              destruct (pcoh_b script k a b bs t0 ts Hna Hnb n Db Qa Hle HF2) as [C1 C2].
              fold pb ra in C1, C2.
              assert (Hown' : own_stop ns = stopped_now ts (2 * n + 1) || trig_done k ra n).
              { rewrite Hown, (trig_done_pending _ _ _ Db), orb_false_r, HF1. reflexivity. }
              assert (HF1' : own_stop ns = stopped_now pb (2 * n + 1)) by (rewrite C1; exact Hown').
              assert (HF2' : stopped_now pb (2 * n + 2) = stopped_now pb (2 * n + 1)) by (rewrite C1, C2; reflexivity).
              rewrite Hbd.
              generalize (IHb Hnb Hndb bs t0 pb n (own_stop ns) sb id o Hle Hev HF1' HF2' Db
                              (HIb (proj2 (done_val_none _ _) Db))).
              destruct (leafev b sb id o) as [[[sb' trb] [ob|]] hitb]; unfold step_ok at 1.
              ** (* b completes now *)
                 intros [Hcb [Hh [Hsb' Rb]]]. subst hitb sb'. change (D b bs t0 pb) with rb in Rb.
                 pose proof (CB _ eq_refl Hnina Hcb) as Hcb'.
                 rewrite (proj2 (done_val_none _ _) Db) in HCI.
                 destruct (done_val ra n) as [oa|] eqn:Va.
                 --- (* a had finished: the node completes *)
                     destruct (done_val_some _ _ _ Va) as [ta [Ra Hta]].
                     assert (ORD : forall oa', Some oa = Some oa' -> triggers k oa' = true ->
                                               triggers k ob = true -> af = true).
                     { intros oa' E Ta Tb. inversion E; subst oa'.
                       exact (pord_b script k a b bs t0 ts Hna Hnb n oa ta ob Hle Ra Hta Ta Rb Tb). }
                     destruct (CI_child_b k af F (Some oa) ns bs ob Hk HCI ORD) as [ns1 [fin [E1 [HCI1 Hf]]]].
                     rewrite E1. cbv beta iota. rewrite Hf. unfold finish_conc, step_ok. cbn [andb].
                     split; [rewrite app_nil_r; exact Hcb'|].
                     split; [reflexivity|]. split; [reflexivity|].
                     rewrite (denote_conc_p script _ _ _ _ _ _ Hk). fold ra rb af. rewrite Ra, Rb.
                     cbn [conc_result]. replace (Nat.max ta (S n)) with (S n) by lia.
                     rewrite (CI_final _ _ _ _ _ _ _ Hk HCI1), HFS. reflexivity.
                 --- (* a is still running *)
                     assert (Da : done_by ra n = false) by (apply done_val_none; exact Va).
                     destruct (CI_child_b k af F None ns bs ob Hk HCI ltac:(intros; discriminate))
                       as [ns1 [fin [E1 [HCI1 Hf]]]].
                     rewrite E1. cbv beta iota. rewrite Hf.
                     assert (Hown1 : own_stop ns1 = own_stop ns || triggers k ob).
                     { destruct HCI1 as (_ & _ & C3 & _). destruct HCI as (_ & _ & C3' & _).
                       rewrite C3, C3'. simpl. rewrite !orb_false_r. reflexivity. }
                     assert (Hpe : done_by (D (Bin k a b) bs t0 ts) (S n) = false).
                     { rewrite (done_by_conc script _ _ _ _ _ _ _ Hk). fold ra.
                       unfold quiet in Qa. rewrite Qa, Da. reflexivity. }
                     assert (Va' : done_val ra (S n) = None) by (rewrite (done_val_quiet _ _ Qa); exact Va).
                     assert (Vb' : done_val rb (S n) = Some ob) by (exact (done_val_of _ _ _ _ Rb (le_n _))).
                     pose proof (Adv_a Hnina Da) as HIa'.
                     destruct (triggers k ob && negb (own_stop ns)) eqn:Enew.
                     +++ apply newly_true_own in Enew. destruct Enew as [Eo Eo'].
                         rewrite Eo in HIa'.
                         destruct (stop_spec script a Hna _ _ _ _ _ HIa') as [sa' [tra [Es [Hcs HIa'']]]].
                         rewrite Es. unfold step_ok.
                         split; [rewrite tcalls_app, Hcs, app_nil_r; exact Hcb'|].
                         split; [exact Hpe|]. split; [|intros; discriminate].
                         apply (inv_conc_iff script _ _ _ _ _ _ _ _ _ Hk). exists ns1, sa', OFin.
                         split; [reflexivity|]. fold ra rb af pa pb. rewrite Va', Vb'.
                         split; [exact HCI1|]. split; [|intros; discriminate].
                         intros _. rewrite Hown1, Eo'. exact HIa''.
                     +++ apply newly_false_own in Enew.
                         unfold step_ok. split; [exact Hcb'|]. split; [exact Hpe|]. split; [|intros; discriminate].
                         apply (inv_conc_iff script _ _ _ _ _ _ _ _ _ Hk). exists ns1, sa, OFin.
                         split; [reflexivity|]. fold ra rb af pa pb. rewrite Va', Vb'.
                         split; [exact HCI1|]. split; [|intros; discriminate].
                         intros _. rewrite Hown1, Enew. exact HIa'.
              ** (* b does not complete *)
                 intros [Hcb [Hpb' [HIb' Hsame]]]. change (D b bs t0 pb) with rb in Hpb'.
                 pose proof (CB _ eq_refl Hnina Hcb) as Hcb'.
                 assert (Hpe : done_by (D (Bin k a b) bs t0 ts) (S n) = false).
                 { rewrite (done_by_conc script _ _ _ _ _ _ _ Hk). fold rb. rewrite Hpb'. apply andb_false_r. }
                 assert (Qb : quiet rb n) by (apply quiet_pending; assumption).
                 unfold step_ok. split; [exact Hcb'|]. split; [exact Hpe|].
                 split; [|intros Hh; destruct (Hsame Hh) as [-> ->]; split; reflexivity].
                 apply inv_conc_keep; try assumption.
                 --- fold ra pa. intros Da. exact (Adv_a Hnina Da).
                 --- fold pb. intros _. exact HIb'.
           ++ (* the event is for neither child *)
              pose proof (Qb_of (or_introl Hninb)) as Qb.
              rewrite (Gb (or_introl Hninb)). cbv beta iota. unfold step_ok.
              split; [exact (CN (or_introl Hnina) (or_introl Hninb))|].
              split; [rewrite (done_by_conc script _ _ _ _ _ _ _ Hk); fold rb;
                      unfold quiet in Qb; rewrite Qb, Db; apply andb_false_r|].
              split; [|split; reflexivity].
              apply inv_conc_keep; try assumption.
              ** fold ra pa. intros Da. exact (Adv_a Hnina Da).
              ** fold rb pb. intros _. exact (Adv_b Hninb eq_refl).
Qed.

End WithScript.

(* ------------------------------------------------------------------------------------------ *)
(* whole runs                                                                                   *)


Lemma xroots_app : forall l1 l2, xroots (l1 ++ l2) = xroots l1 ++ xroots l2.
Proof.
  induction l1 as [|x l1 IH]; intros l2; [reflexivity|]. simpl. destruct x; rewrite IH; reflexivity.
Qed.

Lemma xroots_XT : forall tr, xroots (map XT tr) = [].
Proof. induction tr as [|x tr IH]; [reflexivity|exact IH]. Qed.

Lemma xroots_In : forall tr o, In o (xroots tr) -> exists m, In (XRoot o m) tr.
Proof.
  induction tr as [|x tr IH]; intros o H; [destruct H|].
  destruct x as [t|o' m|]; simpl in H.
  - destruct (IH o H) as [m Hm]. exists m. right; exact Hm.
  - destruct H as [->|H]; [exists m; left; reflexivity|].
    destruct (IH o H) as [m' Hm]. exists m'. right; exact Hm.
  - destruct (IH o H) as [m Hm]. exists m. right; exact Hm.
Qed.

Lemma firstn_succ_nth : forall (A : Type) (l : list A) n x,
  nth_error l n = Some x -> firstn (S n) l = firstn n l ++ [x].
Proof.
  induction l as [|y l IH]; intros n x H; [destruct n; discriminate|].
  destruct n as [|n]; simpl in *; [inversion H; reflexivity|]. f_equal. apply IH. exact H.
Qed.

Lemma stop_free_nth : forall script n ev, stop_free script = true -> nth_error script n = Some ev ->
  exists id o, ev = EvLeaf id o.
Proof.
  intros script n ev Hsf Hn. unfold stop_free in Hsf. rewrite forallb_forall in Hsf.
  specialize (Hsf ev (nth_error_In _ _ Hn)). destruct ev as [id o|]; [eauto|discriminate].
Qed.

Definition run_prefix (e : sexpr) (script : list sev) (n : nat) : run_state :=
  fold_left (run_ev e) (firstn n script) (run_start e false).

Lemma exec_prefix : forall e script n, exec e false (firstn n script) = run_prefix e script n.
Proof. reflexivity. Qed.

Definition skip_ev (rs : run_state) : run_state :=
  {| r_st := r_st rs; r_stopped := r_stopped rs; r_roots := r_roots rs; r_tr := r_tr rs ++ [XSkip] |}.
Definition step_leaf (e : sexpr) (rs : run_state) (id : nat) (o : outcome) : run_state :=
  let '(r, hit) := leafev e (r_st rs) id o in if hit then absorb rs r else skip_ev rs.

Lemma calls_of_app : forall l1 l2, calls_of (l1 ++ l2) = calls_of l1 ++ calls_of l2.
Proof. intros. unfold calls_of. apply flat_map_app. Qed.

Lemma calls_of_XT : forall tr, calls_of (map XT tr) = tcalls tr.
Proof.
  induction tr as [|x tr IH]; [reflexivity|]. simpl. rewrite IH. destruct x; reflexivity.
Qed.

(* the state of the run after n events *)
Definition run_inv (script : list sev) (e : sexpr) (n : nat) (rs : run_state) : Prop :=
  calls_of (r_tr rs) = flat_map (calls_at script e [] 0 None) (seq 0 (S n)) /\
  match denote script e [] 0 None with
  | Some (o, t) =>
      if t <=? n then r_roots rs = 1 /\ r_st rs = OFin /\ xroots (r_tr rs) = [o]
      else r_roots rs = 0 /\ xroots (r_tr rs) = [] /\ Inv script e [] 0 None n false (r_st rs)
  | None => r_roots rs = 0 /\ xroots (r_tr rs) = [] /\ Inv script e [] 0 None n false (r_st rs)
  end.

Lemma run_prefix_inv : forall script e, stop_free script = true -> no_leafn e = true ->
  NoDup (leaf_ids e) -> forall n, n <= length script -> run_inv script e n (run_prefix e script n).
Proof.
  intros script e Hsf Hn Hnd. induction n as [|n IH]; intros Hlen.
  - (* start *)
    unfold run_prefix, run_start. cbn [firstn fold_left].
    generalize (start_spec script e Hn [] 0 None (root_env false) eq_refl eq_refl).
    destruct (start e (root_env false)) as [[st tr] [o|]]; unfold res_ok, run_inv, absorb; cbn [r_st r_roots r_tr].
    + intros [Hc [-> Hd]]. split.
      * rewrite !calls_of_app, calls_of_XT, Hc. simpl. rewrite !app_nil_r. reflexivity.
      * rewrite Hd. cbn [Nat.leb]. split; [reflexivity|]. split; [reflexivity|].
        rewrite xroots_app, xroots_app, xroots_XT. reflexivity.
    + intros [Hc [Hp HI]]. cbn [root_env e_stopped] in HI. split.
      * rewrite calls_of_app, calls_of_XT, Hc. simpl. rewrite app_nil_r. reflexivity.
      * assert (G : r_roots {| r_st := st; r_stopped := false; r_roots := 0; r_tr := [] ++ map XT tr |} = 0 /\
                    xroots ([] ++ map XT tr) = [] /\ Inv script e [] 0 None 0 false st).
        { split; [reflexivity|]. split; [rewrite xroots_app, xroots_XT; reflexivity|exact HI]. }
        destruct (denote script e [] 0 None) as [[o t]|]; [|exact G].
        simpl in Hp. rewrite Hp. exact G.
  - (* one more event *)
    assert (Hlt : n < length script) by lia.
    destruct (nth_error script n) as [ev|] eqn:Hev; [|apply nth_error_None in Hev; lia].
    destruct (stop_free_nth _ _ _ Hsf Hev) as [id [o ->]].
    unfold run_prefix. rewrite (firstn_succ_nth _ _ _ _ Hev), fold_left_app. cbn [fold_left].
    fold (run_prefix e script n). specialize (IH ltac:(lia)).
    set (rs := run_prefix e script n) in *.
    change (run_ev e rs (EvLeaf id o)) with (step_leaf e rs id o).
    destruct IH as [IHc IH].
    assert (Hseq : flat_map (calls_at script e [] 0 None) (seq 0 (S (S n))) =
                   calls_of (r_tr rs) ++ calls_at script e [] 0 None (S n)).
    { rewrite seq_S, flat_map_app, <- IHc. simpl. rewrite app_nil_r. reflexivity. }
    assert (Pend : r_roots rs = 0 /\ xroots (r_tr rs) = [] /\ Inv script e [] 0 None n false (r_st rs) ->
                   done_by (denote script e [] 0 None) n = false ->
                   run_inv script e (S n) (step_leaf e rs id o)).
    { intros [Hr [Hx HI]] Hp. unfold run_inv, step_leaf. rewrite Hseq.
      generalize (step_spec script e Hn Hnd [] 0 None n false (r_st rs) id o (Nat.le_0_l n) Hev
                            eq_refl eq_refl Hp HI).
      destruct (leafev e (r_st rs) id o) as [[[st' tr] [o'|]] hit]; unfold step_ok.
      - intros [Hc [-> [-> Hd]]]. unfold absorb. cbn [r_st r_roots r_tr]. split.
        + rewrite !calls_of_app, calls_of_XT, Hc. simpl. rewrite app_nil_r. reflexivity.
        + rewrite Hd. rewrite Nat.leb_refl.
          split; [rewrite Hr; reflexivity|]. split; [reflexivity|].
          rewrite !xroots_app, xroots_XT, Hx. reflexivity.
      - intros [Hc [Hp' [HI' Hsame]]]. split.
        + destruct hit; unfold absorb, skip_ev; cbn [r_tr].
          * rewrite calls_of_app, calls_of_XT, Hc. reflexivity.
          * destruct (Hsame eq_refl) as [_ Et]. rewrite Et in Hc. rewrite <- Hc, calls_of_app. reflexivity.
        + assert (G : r_roots (if hit then absorb rs (st', tr, None) else skip_ev rs) = 0 /\
                      xroots (r_tr (if hit then absorb rs (st', tr, None) else skip_ev rs)) = [] /\
                      Inv script e [] 0 None (S n) false
                        (r_st (if hit then absorb rs (st', tr, None) else skip_ev rs))).
          { destruct hit; unfold absorb, skip_ev; cbn [r_st r_roots r_tr].
            - split; [exact Hr|]. split; [rewrite xroots_app, xroots_XT, Hx; reflexivity|exact HI'].
            - split; [exact Hr|]. split; [rewrite xroots_app, Hx; reflexivity|].
              destruct (Hsame eq_refl) as [Es _]. rewrite <- Es. exact HI'. }
          destruct (denote script e [] 0 None) as [[o0 t]|]; [|exact G].
          simpl in Hp'. rewrite Hp'. exact G. }
    destruct (denote script e [] 0 None) as [[o0 t]|] eqn:Hd.
    + destruct (t <=? n) eqn:Et.
      * (* completed earlier: the event is skipped *)
        destruct IH as [Hr [Hst Hx]]. unfold run_inv, step_leaf. rewrite Hd, Hst, leafev_OFin.
        unfold skip_ev. cbn [r_st r_roots r_tr].
        apply Nat.leb_le in Et. assert (Et' : (t <=? S n) = true) by (apply Nat.leb_le; lia). rewrite Et'.
        split.
        -- rewrite Hseq, calls_of_app. f_equal. symmetry.
           apply (calls_after_done script e Hn _ _ _ _ _ _ Hd). lia.
        -- split; [exact Hr|]. split; [first [reflexivity|exact Hst]|]. rewrite xroots_app, Hx. reflexivity.
      * apply Pend; [exact IH|exact Et].
    + apply Pend; [exact IH|reflexivity].
Qed.

(* ------------------------------------------------------------------------------------------ *)
(* C05                                                                                          *)

Theorem C05_result : forall e script,
  stop_free script = true -> no_leafn e = true -> NoDup (leaf_ids e) ->
  let rs := exec e false script in
  match denote script e [] 0 None with
  | Some (o, t) => (t <= length script)%nat /\ (exists n, In (XRoot o n) (r_tr rs)) /\ r_roots rs = 1%nat
  | None => r_roots rs = 0%nat
  end.
Proof.
  intros e script Hsf Hn Hnd rs.
  pose proof (run_prefix_inv script e Hsf Hn Hnd (length script) (le_n _)) as H.
  unfold run_prefix in H. rewrite firstn_all in H. fold (exec e false script) in H. fold rs in H.
  unfold run_inv in H. destruct H as [_ H].
  destruct (denote script e [] 0 None) as [[o t]|] eqn:Hd; [|tauto].
  pose proof (denote_le_length script e Hn _ _ _ _ _ Hd (Nat.le_0_l _)) as Hle.
  apply Nat.leb_le in Hle. rewrite Hle in H. destruct H as [Hr [_ Hx]].
  apply Nat.leb_le in Hle. split; [exact Hle|]. split; [|exact Hr].
  apply xroots_In. rewrite Hx. left; reflexivity.
Qed.

(* exactly one root completion, with the denoted outcome, and nothing else *)
Theorem C05_result_unique : forall e script,
  stop_free script = true -> no_leafn e = true -> NoDup (leaf_ids e) ->
  xroots (r_tr (exec e false script)) =
  match denote script e [] 0 None with Some (o, _) => [o] | None => [] end.
Proof.
  intros e script Hsf Hn Hnd.
  pose proof (run_prefix_inv script e Hsf Hn Hnd (length script) (le_n _)) as H.
  unfold run_prefix in H. rewrite firstn_all in H. fold (exec e false script) in H.
  unfold run_inv in H. destruct H as [_ H].
  destruct (denote script e [] 0 None) as [[o t]|] eqn:Hd; [|tauto].
  pose proof (denote_le_length script e Hn _ _ _ _ _ Hd (Nat.le_0_l _)) as Hle.
  apply Nat.leb_le in Hle. rewrite Hle in H. tauto.
Qed.

(* the root completes while exactly the t-th event is processed (inline in start when t = 0) *)
Theorem C05_timing : forall e script,
  stop_free script = true -> no_leafn e = true -> NoDup (leaf_ids e) ->
  forall n, (n <= length script)%nat ->
  r_roots (exec e false (firstn n script)) =
  match denote script e [] 0 None with
  | Some (_, t) => if (t <=? n)%nat then 1%nat else 0%nat
  | None => 0%nat
  end.
Proof.
  intros e script Hsf Hn Hnd n Hlen. rewrite exec_prefix.
  pose proof (run_prefix_inv script e Hsf Hn Hnd n Hlen) as H. unfold run_inv in H. destruct H as [_ H].
  destruct (denote script e [] 0 None) as [[o t]|]; [|tauto].
  destruct (t <=? n); tauto.
Qed.

(* the user callables are applied exactly as the denotation says: same callables, same arguments,
   same order, and at the same times (the trace of the run, cut after n events, has the calls of the
   times 0..n) *)
Theorem C05_calls : forall e script,
  stop_free script = true -> no_leafn e = true -> NoDup (leaf_ids e) ->
  forall n, (n <= length script)%nat ->
  calls_of (r_tr (exec e false (firstn n script))) =
  flat_map (calls_at script e [] 0 None) (seq 0 (S n)).
Proof.
  intros e script Hsf Hn Hnd n Hlen. rewrite exec_prefix.
  exact (proj1 (run_prefix_inv script e Hsf Hn Hnd n Hlen)).
Qed.

(* ------------------------------------------------------------------------------------------ *)
(* algebraic laws, read off the denotation                                                      *)

Lemma denote_then_just : forall script f v bs t ts,
  denote script (Un (UThen f) (Just v)) bs t ts = Some (fn_out f v, t).
Proof. reflexivity. Qed.

Lemma denote_let_value_just : forall script v k bs t ts,
  denote script (Bin BLetV (Just v) k) bs t ts = denote script k (v :: bs) t ts.
Proof. reflexivity. Qed.

Lemma denote_sequence_just : forall script v k bs t ts,
  denote script (Bin BSeq (Just v) k) bs t ts = denote script k bs t ts.
Proof. reflexivity. Qed.

Lemma denote_finally_just : forall script a v bs t ts,
  denote script (Bin BFinally a (Just v)) bs t ts = denote script a bs t ts.
Proof. intros. cbn [denote]. destruct (denote script a bs t ts) as [[oa t1]|]; reflexivity. Qed.

Lemma denote_when_all_justs : forall script x y bs t,
  denote script (Bin BWhenAll (Just x) (Just y)) bs t None = Some (OVal (combine x y), t).
Proof. intros. cbn. rewrite Nat.max_id. reflexivity. Qed.

Lemma denote_stop_when_source : forall script a b bs t ts o t',
  denote script (Bin BStopWhen a b) bs t ts = Some (o, t') ->
  exists c ta, denote script a bs t c = Some (o, ta) /\ (ta <= t')%nat.
Proof.
  intros script a b bs t ts o t' H. cbn [denote] in H. unfold conc_children in H.
  destruct (denote script a bs t _) as [[oa ta]|] eqn:Ea; [|discriminate].
  destruct (denote script b bs t _) as [[ob tb]|]; [|discriminate].
  inversion H; subst. eexists _, ta. split; [exact Ea|lia].
Qed.
