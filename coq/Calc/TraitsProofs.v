(* C11, static-traits half: soundness of the mirrored sender traits (Calc/TraitsDefs.v, = the formulas
   of the C++ headers) against the operational model (Calc/CalcDefs.v), for ALL expressions.

   (a) sends_done = false  ->  no root completion with done, on any run            [sends_done_sound]
   (b) blocking = always_inline (or always)  ->  completes inside start()          [blocking_inline_sound]
   (c) blocking = never  ->  never completes inside start()                         [blocking_never_sound]
       - over the expressions to_cpp can emit no sender declares never or always   [blocking_range];
         to exercise how the headers PROPAGATE never, (b)/(c) are proved for the generalisation
         [traits_ofN nv] in which harness leaf [Leaf id] declares never when [nv id] (a leaf that
         ignores stop and is only completed from outside start() indeed is), all combinators
         unchanged; [traits_of] is the instance nv = fun _ => false.
   Affinity is mirrored and compared only: its soundness needs execution contexts, which CalcDefs
   does not model. *)
From Coq Require Import ZArith List Bool Lia.
From V Require Import Calc.CalcDefs Calc.TraitsDefs.
Import ListNotations.
Import Calc CalcTraits.

(* ---- equation lemmas for the machine functions (never [simpl] them) -------------------------- *)
Lemma start_un k s en :
  start (Un k s) en =
  let '(sc, tr, r) := start s (un_env k en) in
  match r with
  | Some o => let (tr2, o') := un_result k o in (OFin, tr ++ tr2, Some o')
  | None => (ONode (mk_nst PFirst en) sc OFin, tr, None)
  end.
Proof. reflexivity. Qed.

Definition start_seq_body (k : bkind) (a b : sexpr) (en : env) : res :=
  let '(sa, tra, ra) := start a en in
  match ra with
  | None => (ONode (mk_nst PFirst en) sa OFin, tra, None)
  | Some oa =>
      match after_first k en oa with
      | inl o => (OFin, tra, Some o)
      | inr (en2, sv) =>
          let '(sb, trb, rb) := start b en2 in
          match rb with
          | None => (ONode (ns_set_saved (mk_nst PSecond en) sv) OFin sb, tra ++ trb, None)
          | Some ob => (OFin, tra ++ trb, Some (after_second k sv ob))
          end
      end
  end.

Lemma start_seq k a b en : is_seq k = true -> start (Bin k a b) en = start_seq_body k a b en.
Proof. destruct k; intros H; try discriminate H; reflexivity. Qed.

Definition start_conc_body (k : bkind) (a b : sexpr) (en : env) : res :=
  let ns0 := ns_set_own (ns_set_reg (mk_nst PBoth en) (negb (e_stopped en))) (e_stopped en) in
  let '(sa, tra, ra) := start a (env_own en (own_stop ns0)) in
  let '(ns1, _, _) :=
      match ra with
      | Some oa => conc_child_done k ns0 false oa
      | None => (ns0, false, None)
      end in
  let '(sb, trb, rb) := start b (env_own en (own_stop ns1)) in
  match rb with
  | None => (ONode ns1 sa sb, tra ++ trb, None)
  | Some ob =>
      let '(ns2, newly, fin) := conc_child_done k ns1 true ob in
      match fin with
      | Some _ => finish_conc k ns2 sa OFin (tra ++ trb) fin false
      | None =>
          if newly then
            let '(sa', tra2, ra2) := stop a sa in
            match ra2 with
            | Some oa =>
                let '(ns3, _, fin3) := conc_child_done k ns2 false oa in
                finish_conc k ns3 sa' OFin (tra ++ trb ++ tra2) fin3 false
            | None => (ONode ns2 sa' OFin, tra ++ trb ++ tra2, None)
            end
          else (ONode ns2 sa OFin, tra ++ trb, None)
      end
  end.

Lemma start_conc k a b en : is_seq k = false -> start (Bin k a b) en = start_conc_body k a b en.
Proof. destruct k; intros H; try discriminate H; reflexivity. Qed.

Definition is_unstop (k : ukind) : bool := match k with UUnstoppable => true | _ => false end.

Definition stop_un_body (k : ukind) (s : sexpr) (ns : nst) (sc x : ost) : res :=
  if is_unstop k then (ONode ns sc x, [], None)
  else
    let ns' := ns_set_env ns (env_with_stop (n_env ns) true) in
    let '(sc', tr, r) := stop s sc in
    match r with
    | Some o => let (tr2, o') := un_result k o in (OFin, tr ++ tr2, Some o')
    | None => (ONode ns' sc' OFin, tr, None)
    end.

Lemma stop_un k s ns sc x : stop (Un k s) (ONode ns sc x) = stop_un_body k s ns sc x.
Proof. destruct k; reflexivity. Qed.

Lemma stop_un_other k s st : (forall ns sc x, st <> ONode ns sc x) -> stop (Un k s) st = (st, [], None).
Proof. destruct st; intros H; try reflexivity. exfalso; eapply H; reflexivity. Qed.

Definition stop_seq_body (k : bkind) (a b : sexpr) (ns : nst) (sa sb : ost) : res :=
  let ns' := ns_set_env ns (env_with_stop (n_env ns) true) in
  match ph ns with
  | PFirst =>
      let '(sa', tra, ra) := stop a sa in
      match ra with
      | None => (ONode ns' sa' sb, tra, None)
      | Some oa =>
          match after_first k (n_env ns') oa with
          | inl o => (OFin, tra, Some o)
          | inr (en2, sv) =>
              let '(sb', trb, rb) := start b en2 in
              match rb with
              | None => (ONode (ns_set_saved (ns_set_ph ns' PSecond) sv) OFin sb', tra ++ trb, None)
              | Some ob => (OFin, tra ++ trb, Some (after_second k sv ob))
              end
          end
      end
  | _ =>
      let '(sb', trb, rb) := stop b sb in
      match rb with
      | None => (ONode ns' sa sb', trb, None)
      | Some ob => (OFin, trb, Some (after_second k (saved ns) ob))
      end
  end.

Lemma stop_seq k a b ns sa sb : is_seq k = true -> stop (Bin k a b) (ONode ns sa sb) = stop_seq_body k a b ns sa sb.
Proof. destruct k; intros H; try discriminate H; reflexivity. Qed.

Lemma stop_bin_other k a b st : (forall ns sa sb, st <> ONode ns sa sb) -> stop (Bin k a b) st = (st, [], None).
Proof. destruct st; intros H; try reflexivity. exfalso; eapply H; reflexivity. Qed.

Definition stop_conc_body (k : bkind) (a b : sexpr) (ns : nst) (sa sb : ost) : res :=
  let ns' := ns_set_env ns (env_with_stop (n_env ns) true) in
  if own_stop ns then (ONode ns' sa sb, [], None)
  else
    let ns1 := ns_set_own ns' true in
    let '(sb', trb, rb) := if bdone ns1 then (sb, [], None) else stop b sb in
    let '(ns2, _, fin1) :=
        match rb with
        | Some ob => conc_child_done k ns1 true ob
        | None => (ns1, false, None)
        end in
    match fin1 with
    | Some _ => finish_conc k ns2 sa sb' trb fin1 (leaky k)
    | None =>
        let '(sa', tra, ra) := if adone ns2 then (sa, [], None) else stop a sa in
        let '(ns3, _, fin2) :=
            match ra with
            | Some oa => conc_child_done k ns2 false oa
            | None => (ns2, false, None)
            end in
        finish_conc k ns3 sa' sb' (trb ++ tra) fin2 (leaky k)
    end.

Lemma stop_conc k a b ns sa sb : is_seq k = false -> stop (Bin k a b) (ONode ns sa sb) = stop_conc_body k a b ns sa sb.
Proof. destruct k; intros H; try discriminate H; reflexivity. Qed.

Definition leafev_un_body (k : ukind) (s : sexpr) (ns : nst) (sc : ost) (id : nat) (o : outcome) : res * bool :=
  let '((sc', tr, r), hit) := leafev s sc id o in
  match r with
  | Some oc => let (tr2, o') := un_result k oc in ((OFin, tr ++ tr2, Some o'), hit)
  | None => ((ONode ns sc' OFin, tr, None), hit)
  end.

Lemma leafev_un k s ns sc x id o : leafev (Un k s) (ONode ns sc x) id o = leafev_un_body k s ns sc id o.
Proof. reflexivity. Qed.

Lemma leafev_un_other k s st id o : (forall ns sc x, st <> ONode ns sc x) -> leafev (Un k s) st id o = ((st, [], None), false).
Proof. destruct st; intros H; try reflexivity. exfalso; eapply H; reflexivity. Qed.

Definition leafev_seq_body (k : bkind) (a b : sexpr) (ns : nst) (sa sb : ost) (id : nat) (o : outcome) : res * bool :=
  match ph ns with
  | PFirst =>
      let '((sa', tra, ra), hit) := leafev a sa id o in
      match ra with
      | None => ((ONode ns sa' sb, tra, None), hit)
      | Some oa =>
          match after_first k (n_env ns) oa with
          | inl o' => ((OFin, tra, Some o'), hit)
          | inr (en2, sv) =>
              let '(sb', trb, rb) := start b en2 in
              match rb with
              | None => ((ONode (ns_set_saved (ns_set_ph ns PSecond) sv) OFin sb', tra ++ trb, None), hit)
              | Some ob => ((OFin, tra ++ trb, Some (after_second k sv ob)), hit)
              end
          end
      end
  | _ =>
      let '((sb', trb, rb), hit) := leafev b sb id o in
      match rb with
      | None => ((ONode ns sa sb', trb, None), hit)
      | Some ob => ((OFin, trb, Some (after_second k (saved ns) ob)), hit)
      end
  end.

Lemma leafev_seq k a b ns sa sb id o :
  is_seq k = true -> leafev (Bin k a b) (ONode ns sa sb) id o = leafev_seq_body k a b ns sa sb id o.
Proof. destruct k; intros H; try discriminate H; reflexivity. Qed.

Lemma leafev_bin_other k a b st id o :
  (forall ns sa sb, st <> ONode ns sa sb) -> leafev (Bin k a b) st id o = ((st, [], None), false).
Proof. destruct st; intros H; try reflexivity. exfalso; eapply H; reflexivity. Qed.

(* ================================================================================================ *)
(* (a) sends_done                                                                                     *)
(* ================================================================================================ *)
Definition nd (r : option outcome) : Prop := forall o, r = Some o -> o <> ODone.

Lemma nd_none : nd None.
Proof. intros o H; discriminate H. Qed.

(* State invariant: inside sub-expressions that declare sends_done = false, a finally node never
   holds a saved "done" from its source. *)
Fixpoint ok_st (e : sexpr) (st : ost) : Prop :=
  sends_done_of e = false ->
  match e, st with
  | Un k s, ONode ns sc _ => ok_st s sc
  | Bin k a b, ONode ns sa sb =>
      ok_st a sa /\ ok_st b sb /\ (k = BFinally -> forall s, saved ns = Some s -> s <> ODone)
  | _, _ => True
  end.

Lemma ok_st_un k s ns sc x :
  ok_st (Un k s) (ONode ns sc x) = (sends_done_of (Un k s) = false -> ok_st s sc).
Proof. reflexivity. Qed.

Lemma ok_st_bin k a b ns sa sb :
  ok_st (Bin k a b) (ONode ns sa sb) =
  (sends_done_of (Bin k a b) = false ->
   ok_st a sa /\ ok_st b sb /\ (k = BFinally -> forall s, saved ns = Some s -> s <> ODone)).
Proof. reflexivity. Qed.

Lemma ok_st_fin e : ok_st e OFin.
Proof. destruct e; intros H; exact I. Qed.

Lemma ok_st_triv e st : sends_done_of e = true -> ok_st e st.
Proof. intros H. destruct e; intros H'; rewrite H in H'; discriminate H'. Qed.

Lemma sd_un k s : sends_done_of (Un k s) = t_sends_done (un_traits k (traits_of s)).
Proof. reflexivity. Qed.
Lemma sd_bin k a b : sends_done_of (Bin k a b) = t_sends_done (bin_traits k (traits_of a) (traits_of b)).
Proof. reflexivity. Qed.

Lemma un_result_nd k p o :
  t_sends_done (un_traits k p) = false -> (t_sends_done p = false -> o <> ODone) ->
  snd (un_result k o) <> ODone.
Proof.
  intros H Ho.
  destruct k; destruct o; simpl in *;
    try (destruct (fn_apply _ _); simpl; discriminate);
    try discriminate; try (apply Ho; exact H).
Qed.

Lemma seq_sd_b k ta tb :
  is_seq k = true -> t_sends_done (bin_traits k ta tb) = false -> t_sends_done tb = false.
Proof.
  destruct k; simpl; intros Hs H; try discriminate Hs;
    destruct (t_sends_done ta), (t_sends_done tb); simpl in H; congruence.
Qed.

Lemma seq_sd_a k ta tb :
  is_seq k = true -> k <> BLetD -> t_sends_done (bin_traits k ta tb) = false -> t_sends_done ta = false.
Proof.
  destruct k; simpl; intros Hs Hk H; try discriminate Hs; try congruence;
    destruct (t_sends_done ta), (t_sends_done tb); simpl in H; congruence.
Qed.

Lemma conc_sd k ta tb : is_seq k = false -> t_sends_done (bin_traits k ta tb) = true.
Proof. destruct k; simpl; intros H; try discriminate H; reflexivity. Qed.

Lemma bkind_eq_dec_LetD (k : bkind) : {k = BLetD} + {k <> BLetD}.
Proof. destruct k; (left; reflexivity) || (right; discriminate). Qed.

Lemma after_first_nd k en oa o ta tb :
  is_seq k = true -> t_sends_done (bin_traits k ta tb) = false ->
  (t_sends_done ta = false -> oa <> ODone) ->
  after_first k en oa = inl o -> o <> ODone.
Proof.
  intros Hs H Ha E.
  destruct (bkind_eq_dec_LetD k) as [->|Hk].
  - destruct oa; simpl in E; inversion E; discriminate.
  - pose proof (seq_sd_a _ _ _ Hs Hk H) as Hta. specialize (Ha Hta).
    destruct k; destruct oa; simpl in E; try discriminate Hs; inversion E; subst; try discriminate; congruence.
Qed.

Lemma after_first_saved k en oa en2 sv ta tb :
  is_seq k = true -> t_sends_done (bin_traits k ta tb) = false ->
  (t_sends_done ta = false -> oa <> ODone) ->
  after_first k en oa = inr (en2, sv) ->
  (k = BFinally -> forall s, sv = Some s -> s <> ODone).
Proof.
  intros Hs H Ha E Hk s Hsv. subst k.
  assert (Hta : t_sends_done ta = false) by (eapply seq_sd_a; eauto; discriminate).
  simpl in E. inversion E as [[E1 E2]]. rewrite Hsv in E2. inversion E2; subst. auto.
Qed.

Lemma after_second_nd k sv ob :
  (k = BFinally -> forall s, sv = Some s -> s <> ODone) -> ob <> ODone -> after_second k sv ob <> ODone.
Proof.
  intros Hsv Hob. destruct k; simpl; try exact Hob.
  destruct sv as [s|]; [|exact Hob]. destruct ob; try exact Hob. apply Hsv; reflexivity.
Qed.

Lemma start_just v en : start (Just v) en = (OFin, [], Some (OVal v)).
Proof. reflexivity. Qed.
Lemma start_var n en : start (Var n) en = (OFin, [], Some (OVal (nth n (e_bound en) 0%Z))).
Proof. reflexivity. Qed.
Lemma start_jerr x en : start (JustErr x) en = (OFin, [], Some (OErr x)).
Proof. reflexivity. Qed.
Lemma start_jdone en : start JustDone en = (OFin, [], Some ODone).
Proof. reflexivity. Qed.

(* the three entry points keep [ok_st] and, where sends_done = false is declared, never deliver done *)
Definition CF (e : sexpr) : Prop :=
  (forall en st tr r, start e en = (st, tr, r) -> ok_st e st /\ (sends_done_of e = false -> nd r)) /\
  (forall st st' tr r, ok_st e st -> stop e st = (st', tr, r) ->
                       ok_st e st' /\ (sends_done_of e = false -> nd r)) /\
  (forall st id oc st' tr r hit, ok_st e st -> leafev e st id oc = ((st', tr, r), hit) ->
                                 ok_st e st' /\ (sends_done_of e = false -> nd r)).

Lemma CF_triv e : sends_done_of e = true -> CF e.
Proof.
  intros H. split; [|split]; intros; (split; [apply ok_st_triv; exact H|]);
    intros Hf; rewrite H in Hf; discriminate Hf.
Qed.

Lemma nd_some o : o <> ODone -> nd (Some o).
Proof. intros H o' E; inversion E; subst; exact H. Qed.

Lemma CF_un k s : CF s -> CF (Un k s).
Proof.
  intros [IHstart [IHstop IHleaf]].
  destruct (sends_done_of (Un k s)) eqn:Hsd; [apply CF_triv; exact Hsd|].
  assert (Hres : forall o, (sends_done_of s = false -> nd (Some o)) -> snd (un_result k o) <> ODone).
  { intros o Ho. eapply un_result_nd; [exact Hsd|]. intros Hs. apply (Ho Hs o); reflexivity. }
  split; [|split].
  - (* start *)
    intros en st tr r H. rewrite start_un in H.
    destruct (start s (un_env k en)) as [[sc trs] rs] eqn:Es.
    destruct (IHstart _ _ _ _ Es) as [Hok Hnd].
    destruct rs as [o|].
    + destruct (un_result k o) as [tr2 o'] eqn:Eu. inversion H; subst.
      split; [apply ok_st_fin|]. intros _. apply nd_some.
      specialize (Hres o Hnd). rewrite Eu in Hres. exact Hres.
    + inversion H; subst. split; [|intros _; apply nd_none].
      rewrite ok_st_un. intros _. exact Hok.
  - (* stop *)
    intros st st' tr r Hok H.
    destruct st as [| c sn |ns sc x];
      try (rewrite stop_un_other in H by (intros; discriminate); inversion H; subst;
           split; [exact Hok|intros _; apply nd_none]).
    rewrite stop_un in H. unfold stop_un_body in H.
    destruct (is_unstop k).
    { inversion H; subst. split; [exact Hok|intros _; apply nd_none]. }
    rewrite ok_st_un in Hok. specialize (Hok Hsd).
    destruct (stop s sc) as [[sc' trs] rs] eqn:Es.
    destruct (IHstop _ _ _ _ Hok Es) as [Hok' Hnd].
    destruct rs as [o|].
    + destruct (un_result k o) as [tr2 o'] eqn:Eu. inversion H; subst.
      split; [apply ok_st_fin|]. intros _. apply nd_some.
      specialize (Hres o Hnd). rewrite Eu in Hres. exact Hres.
    + inversion H; subst. split; [|intros _; apply nd_none].
      rewrite ok_st_un. intros _. exact Hok'.
  - (* leafev *)
    intros st id oc st' tr r hit Hok H.
    destruct st as [| c sn |ns sc x];
      try (rewrite leafev_un_other in H by (intros; discriminate); inversion H; subst;
           split; [exact Hok|intros _; apply nd_none]).
    rewrite leafev_un in H. unfold leafev_un_body in H.
    rewrite ok_st_un in Hok. specialize (Hok Hsd).
    destruct (leafev s sc id oc) as [[[sc' trs] rs] hit'] eqn:Es.
    destruct (IHleaf _ _ _ _ _ _ _ Hok Es) as [Hok' Hnd].
    destruct rs as [o|].
    + destruct (un_result k o) as [tr2 o'] eqn:Eu. inversion H; subst.
      split; [apply ok_st_fin|]. intros _. apply nd_some.
      specialize (Hres o Hnd). rewrite Eu in Hres. exact Hres.
    + inversion H; subst. split; [|intros _; apply nd_none].
      rewrite ok_st_un. intros _. exact Hok'.
Qed.

(* what a sequential node does once its first child completed with [oa] *)
Lemma seq_tail_ok k a b en oa tra nsX st tr r :
  is_seq k = true -> sends_done_of (Bin k a b) = false -> CF b ->
  (sends_done_of a = false -> oa <> ODone) ->
  match after_first k en oa with
  | inl o => (OFin, tra, Some o)
  | inr (en2, sv) =>
      let '(sb, trb, rb) := start b en2 in
      match rb with
      | None => (ONode (ns_set_saved nsX sv) OFin sb, tra ++ trb, None)
      | Some ob => (OFin, tra ++ trb, Some (after_second k sv ob))
      end
  end = (st, tr, r) ->
  ok_st (Bin k a b) st /\ nd r.
Proof.
  intros Hs Hsd [IHb _] Hoa H.
  pose proof Hsd as Hsd'. rewrite sd_bin in Hsd'.
  pose proof (seq_sd_b _ _ _ Hs Hsd') as Hb. fold (sends_done_of b) in Hb.
  destruct (after_first k en oa) as [o|[en2 sv]] eqn:Eaf.
  - inversion H; subst. split; [apply ok_st_fin|]. apply nd_some.
    eapply after_first_nd; eauto.
  - pose proof (after_first_saved _ _ _ _ _ _ _ Hs Hsd' Hoa Eaf) as Hsv.
    destruct (start b en2) as [[sb trb] rb] eqn:Eb.
    destruct (IHb _ _ _ _ Eb) as [Hokb Hndb]. specialize (Hndb Hb).
    destruct rb as [ob|]; inversion H; subst.
    + split; [apply ok_st_fin|]. apply nd_some. apply after_second_nd; [exact Hsv|].
      apply (Hndb ob); reflexivity.
    + split; [|apply nd_none]. rewrite ok_st_bin. intros _.
      split; [apply ok_st_fin|]. split; [exact Hokb|]. exact Hsv.
Qed.

Lemma CF_seq k a b : is_seq k = true -> CF a -> CF b -> CF (Bin k a b).
Proof.
  intros Hs IHa IHb.
  destruct (sends_done_of (Bin k a b)) eqn:Hsd; [apply CF_triv; exact Hsd|].
  pose proof Hsd as Hsd'. rewrite sd_bin in Hsd'.
  pose proof (seq_sd_b _ _ _ Hs Hsd') as Hb. fold (sends_done_of b) in Hb.
  destruct IHa as [IHa_start [IHa_stop IHa_leaf]].
  pose proof IHb as [IHb_start [IHb_stop IHb_leaf]].
  assert (Hoa : forall ra oa, (sends_done_of a = false -> nd ra) -> ra = Some oa ->
                              sends_done_of a = false -> oa <> ODone).
  { intros ra oa Hn E Ha. apply (Hn Ha oa E). }
  split; [|split].
  - (* start *)
    intros en st tr r H. rewrite (start_seq _ _ _ _ Hs) in H. unfold start_seq_body in H.
    destruct (start a en) as [[sa tra] ra] eqn:Ea.
    destruct (IHa_start _ _ _ _ Ea) as [Hoka Hnda].
    destruct ra as [oa|].
    + destruct (seq_tail_ok k a b en oa tra _ st tr r Hs Hsd IHb (Hoa _ _ Hnda eq_refl) H) as [H1 H2].
      split; [exact H1|intros _; exact H2].
    + inversion H; subst. split; [|intros _; apply nd_none].
      rewrite ok_st_bin. intros _. split; [exact Hoka|]. split; [apply ok_st_fin|].
      intros _ s E; discriminate E.
  - (* stop *)
    intros st st' tr r Hok H.
    destruct st as [| c sn |ns sa sb];
      try (rewrite stop_bin_other in H by (intros; discriminate); inversion H; subst;
           split; [exact Hok|intros _; apply nd_none]).
    rewrite (stop_seq _ _ _ _ _ _ Hs) in H. unfold stop_seq_body in H.
    rewrite ok_st_bin in Hok. destruct (Hok Hsd) as [Hoka [Hokb Hsv]].
    destruct (ph ns).
    + destruct (stop a sa) as [[sa' tra] ra] eqn:Ea.
      destruct (IHa_stop _ _ _ _ Hoka Ea) as [Hoka' Hnda].
      destruct ra as [oa|].
      * destruct (seq_tail_ok k a b _ oa tra _ st' tr r Hs Hsd IHb (Hoa _ _ Hnda eq_refl) H) as [H1 H2].
        split; [exact H1|intros _; exact H2].
      * inversion H; subst. split; [|intros _; apply nd_none].
        rewrite ok_st_bin. intros _. split; [exact Hoka'|]. split; [exact Hokb|]. exact Hsv.
    + destruct (stop b sb) as [[sb' trb] rb] eqn:Eb.
      destruct (IHb_stop _ _ _ _ Hokb Eb) as [Hokb' Hndb]. specialize (Hndb Hb).
      destruct rb as [ob|]; inversion H; subst.
      * split; [apply ok_st_fin|]. intros _. apply nd_some. apply after_second_nd; [exact Hsv|].
        apply (Hndb ob); reflexivity.
      * split; [|intros _; apply nd_none].
        rewrite ok_st_bin. intros _. split; [exact Hoka|]. split; [exact Hokb'|]. exact Hsv.
    + destruct (stop b sb) as [[sb' trb] rb] eqn:Eb.
      destruct (IHb_stop _ _ _ _ Hokb Eb) as [Hokb' Hndb]. specialize (Hndb Hb).
      destruct rb as [ob|]; inversion H; subst.
      * split; [apply ok_st_fin|]. intros _. apply nd_some. apply after_second_nd; [exact Hsv|].
        apply (Hndb ob); reflexivity.
      * split; [|intros _; apply nd_none].
        rewrite ok_st_bin. intros _. split; [exact Hoka|]. split; [exact Hokb'|]. exact Hsv.
  - (* leafev *)
    intros st id oc st' tr r hit Hok H.
    destruct st as [| c sn |ns sa sb];
      try (rewrite leafev_bin_other in H by (intros; discriminate); inversion H; subst;
           split; [exact Hok|intros _; apply nd_none]).
    rewrite (leafev_seq _ _ _ _ _ _ _ _ Hs) in H. unfold leafev_seq_body in H.
    rewrite ok_st_bin in Hok. destruct (Hok Hsd) as [Hoka [Hokb Hsv]].
    destruct (ph ns).
    + destruct (leafev a sa id oc) as [[[sa' tra] ra] hit'] eqn:Ea.
      destruct (IHa_leaf _ _ _ _ _ _ _ Hoka Ea) as [Hoka' Hnda].
      destruct ra as [oa|].
      * assert (Ht : match after_first k (n_env ns) oa with
                     | inl o => (OFin, tra, Some o)
                     | inr (en2, sv) =>
                         let '(sb0, trb, rb) := start b en2 in
                         match rb with
                         | None => (ONode (ns_set_saved (ns_set_ph ns PSecond) sv) OFin sb0, tra ++ trb, None)
                         | Some ob => (OFin, tra ++ trb, Some (after_second k sv ob))
                         end
                     end = (st', tr, r)).
        { destruct (after_first k (n_env ns) oa) as [o|[en2 sv]].
          - inversion H; reflexivity.
          - destruct (start b en2) as [[sb0 trb] rb]. destruct rb; inversion H; reflexivity. }
        destruct (seq_tail_ok k a b _ oa tra _ st' tr r Hs Hsd IHb (Hoa _ _ Hnda eq_refl) Ht) as [H1 H2].
        split; [exact H1|intros _; exact H2].
      * inversion H; subst. split; [|intros _; apply nd_none].
        rewrite ok_st_bin. intros _. split; [exact Hoka'|]. split; [exact Hokb|]. exact Hsv.
    + destruct (leafev b sb id oc) as [[[sb' trb] rb] hit'] eqn:Eb.
      destruct (IHb_leaf _ _ _ _ _ _ _ Hokb Eb) as [Hokb' Hndb]. specialize (Hndb Hb).
      destruct rb as [ob|]; inversion H; subst.
      * split; [apply ok_st_fin|]. intros _. apply nd_some. apply after_second_nd; [exact Hsv|].
        apply (Hndb ob); reflexivity.
      * split; [|intros _; apply nd_none].
        rewrite ok_st_bin. intros _. split; [exact Hoka|]. split; [exact Hokb'|]. exact Hsv.
    + destruct (leafev b sb id oc) as [[[sb' trb] rb] hit'] eqn:Eb.
      destruct (IHb_leaf _ _ _ _ _ _ _ Hokb Eb) as [Hokb' Hndb]. specialize (Hndb Hb).
      destruct rb as [ob|]; inversion H; subst.
      * split; [apply ok_st_fin|]. intros _. apply nd_some. apply after_second_nd; [exact Hsv|].
        apply (Hndb ob); reflexivity.
      * split; [|intros _; apply nd_none].
        rewrite ok_st_bin. intros _. split; [exact Hoka|]. split; [exact Hokb'|]. exact Hsv.
Qed.

Lemma CF_atom e :
  (forall en, exists o, start e en = (OFin, [], Some o) /\ (sends_done_of e = false -> o <> ODone)) ->
  (forall st, stop e st = (st, [], None)) ->
  (forall st id oc, leafev e st id oc = ((st, [], None), false)) ->
  CF e.
Proof.
  intros Hstart Hstop Hleaf. split; [|split].
  - intros en st tr r H. destruct (Hstart en) as [o [E Ho]]. rewrite E in H. inversion H; subst.
    split; [apply ok_st_fin|]. intros Hf. apply nd_some. exact (Ho Hf).
  - intros st st' tr r Hok H. rewrite Hstop in H. inversion H; subst.
    split; [exact Hok|intros _; apply nd_none].
  - intros st id oc st' tr r hit Hok H. rewrite Hleaf in H. inversion H; subst.
    split; [exact Hok|intros _; apply nd_none].
Qed.

Theorem CF_all : forall e, CF e.
Proof.
  induction e as [v|x| |n|id|id|k s IHs|k a IHa b IHb].
  - apply CF_atom; [|reflexivity|reflexivity].
    intros en. eexists. split; [reflexivity|]. intros _; discriminate.
  - apply CF_triv; reflexivity.
  - apply CF_triv; reflexivity.
  - apply CF_atom; [|reflexivity|reflexivity].
    intros en. eexists. split; [reflexivity|]. intros _; discriminate.
  - apply CF_triv; reflexivity.
  - apply CF_triv; reflexivity.
  - apply CF_un; exact IHs.
  - destruct (is_seq k) eqn:Hs.
    + apply CF_seq; assumption.
    + apply CF_triv. rewrite sd_bin. apply conc_sd; exact Hs.
Qed.

(* node level, as asked: with sends_done = false none of the three entry points delivers done *)
Theorem sends_done_sound_start e :
  sends_done_of e = false -> forall en st tr o, start e en = (st, tr, Some o) -> o <> ODone.
Proof.
  intros Hsd en st tr o H. destruct (CF_all e) as [Hs _].
  destruct (Hs _ _ _ _ H) as [_ Hn]. apply (Hn Hsd o); reflexivity.
Qed.

Theorem sends_done_sound_stop e :
  sends_done_of e = false ->
  forall st st' tr o, ok_st e st -> stop e st = (st', tr, Some o) -> o <> ODone.
Proof.
  intros Hsd st st' tr o Hok H. destruct (CF_all e) as [_ [Hs _]].
  destruct (Hs _ _ _ _ Hok H) as [_ Hn]. apply (Hn Hsd o); reflexivity.
Qed.

Theorem sends_done_sound_leafev e :
  sends_done_of e = false ->
  forall st id oc st' tr o hit, ok_st e st -> leafev e st id oc = ((st', tr, Some o), hit) -> o <> ODone.
Proof.
  intros Hsd st id oc st' tr o hit Hok H. destruct (CF_all e) as [_ [_ Hs]].
  destruct (Hs _ _ _ _ _ _ _ Hok H) as [_ Hn]. apply (Hn Hsd o); reflexivity.
Qed.

(* the state invariant is needed: from an arbitrary (unreachable) state a finally node can deliver a
   saved done although everything below declares sends_done = false *)
Example ok_st_needed :
  exists e st st' tr, sends_done_of e = false /\ stop e st = (st', tr, Some ODone).
Proof.
  exists (Bin BFinally (Just 1) (Un UMat (LeafN 0))).
  exists (ONode (ns_set_saved (mk_nst PSecond (root_env false)) (Some ODone)) OFin
                (ONode (mk_nst PFirst (root_env false)) (OLeaf false false) OFin)).
  vm_compute. do 2 eexists. split; reflexivity.
Qed.

(* ---- whole runs ---------------------------------------------------------------------------------- *)
Definition run_ok (e : sexpr) (rs : run_state) : Prop :=
  ok_st e (r_st rs) /\ forall o n, In (XRoot o n) (r_tr rs) -> o <> ODone.

Lemma in_xroot_map_xt o n tr : ~ In (XRoot o n) (map XT tr).
Proof. induction tr as [|t tr IH]; simpl; [tauto|]. intros [H|H]; [discriminate H|exact (IH H)]. Qed.

Lemma absorb_ok e rs st' tr r :
  (forall o n, In (XRoot o n) (r_tr rs) -> o <> ODone) ->
  ok_st e st' -> nd r -> run_ok e (absorb rs (st', tr, r)).
Proof.
  intros Htr Hok Hnd. unfold absorb. destruct r as [oc|]; split; simpl; try exact Hok.
  - intros o n Hin. apply in_app_or in Hin. destruct Hin as [Hin|Hin].
    + apply in_app_or in Hin. destruct Hin as [Hin|Hin]; [eauto|].
      exfalso; eapply in_xroot_map_xt; eauto.
    + destruct Hin as [Hin|[]]. inversion Hin; subst. apply (Hnd o); reflexivity.
  - intros o n Hin. apply in_app_or in Hin. destruct Hin as [Hin|Hin]; [eauto|].
    exfalso; eapply in_xroot_map_xt; eauto.
Qed.

Lemma run_ev_ok e rs ev : sends_done_of e = false -> run_ok e rs -> run_ok e (run_ev e rs ev).
Proof.
  intros Hsd [Hok Htr]. destruct (CF_all e) as [_ [Hstop Hleaf]].
  destruct ev as [id oc|]; unfold run_ev.
  - destruct (leafev e (r_st rs) id oc) as [[[st' tr] r] hit] eqn:E.
    destruct hit.
    + destruct (Hleaf _ _ _ _ _ _ _ Hok E) as [Hok' Hnd]. apply absorb_ok; auto.
    + split; simpl; [exact Hok|]. intros o n Hin. apply in_app_or in Hin.
      destruct Hin as [Hin|[Hin|[]]]; [eauto|discriminate Hin].
  - destruct (r_stopped rs).
    + split; simpl; [exact Hok|]. intros o n Hin. apply in_app_or in Hin.
      destruct Hin as [Hin|[Hin|[]]]; [eauto|discriminate Hin].
    + destruct (stop e (r_st rs)) as [[st' tr] r] eqn:E.
      destruct (Hstop _ _ _ _ Hok E) as [Hok' Hnd].
      apply absorb_ok; simpl; auto.
Qed.

Lemma fold_run_ok e script : forall rs,
  sends_done_of e = false -> run_ok e rs -> run_ok e (fold_left (run_ev e) script rs).
Proof.
  induction script as [|ev script IH]; intros rs Hsd H; simpl; [exact H|].
  apply IH; [exact Hsd|]. apply run_ev_ok; assumption.
Qed.

(* (a) *)
Theorem sends_done_sound e :
  sends_done_of e = false ->
  forall pre script o n, In (XRoot o n) (r_tr (exec e pre script)) -> o <> ODone.
Proof.
  intros Hsd pre script. unfold exec.
  assert (H0 : run_ok e (run_start e pre)).
  { unfold run_start. destruct (start e (root_env pre)) as [[st tr] r] eqn:E.
    destruct (CF_all e) as [Hstart _]. destruct (Hstart _ _ _ _ E) as [Hok Hnd].
    apply absorb_ok; simpl; auto. }
  exact (proj2 (fold_run_ok e script _ Hsd H0)).
Qed.

(* ================================================================================================ *)
(* (b), (c) blocking                                                                                  *)
(* ================================================================================================ *)
(* Generalisation used to exercise the propagation of never: harness leaf [Leaf id] declares
   blocking = never when [nv id]; every combinator is the header's, unchanged. *)
Definition tr_leaf_never : traits := {| t_blocking := BNever; t_sends_done := true; t_affine := false |}.

Fixpoint traits_ofN (nv : nat -> bool) (e : sexpr) : traits :=
  match e with
  | Just _ | Var _ => tr_just
  | JustErr _ | JustDone => tr_inl
  | Leaf id => if nv id then tr_leaf_never else tr_leaf
  | LeafN _ => tr_leaf
  | Un k s => un_traits k (traits_ofN nv s)
  | Bin k a b => bin_traits k (traits_ofN nv a) (traits_ofN nv b)
  end.
Definition blockingN (nv : nat -> bool) (e : sexpr) : bk := t_blocking (traits_ofN nv e).

Lemma traits_ofN_base e : traits_ofN (fun _ => false) e = traits_of e.
Proof. induction e; simpl; congruence. Qed.

Definition inl_kind (k : bk) : bool := match k with BAlwaysInline | BAlways => true | _ => false end.

Lemma un_blocking k p : t_blocking (un_traits k p) = t_blocking p.
Proof. destruct k; simpl; try reflexivity; destruct (t_blocking p); reflexivity. Qed.

Lemma bin_blocking_inl k ta tb :
  inl_kind (t_blocking (bin_traits k ta tb)) = inl_kind (t_blocking ta) && inl_kind (t_blocking tb).
Proof. destruct k; simpl; destruct (t_blocking ta), (t_blocking tb); reflexivity. Qed.

Lemma bin_blocking_never k ta tb :
  t_blocking (bin_traits k ta tb) = BNever ->
  t_blocking ta = BNever \/
  (t_blocking tb = BNever /\ match k with BFinally | BWhenAll | BStopWhen => True | _ => False end).
Proof.
  destruct k; simpl; destruct (t_blocking ta), (t_blocking tb); simpl; intros H;
    try discriminate H; auto.
Qed.

Lemma blockingN_un nv k s : blockingN nv (Un k s) = blockingN nv s.
Proof. unfold blockingN; simpl. apply un_blocking. Qed.

(* conc_child_done: the flags, and the final outcome exactly when both children are done *)
Lemma ccd_flags k ns i o ns' nw fin :
  conc_child_done k ns i o = (ns', nw, fin) ->
  adone ns' = (if i then adone ns else true) /\
  bdone ns' = (if i then true else bdone ns) /\
  (adone ns' && bdone ns' = false -> fin = None) /\
  (adone ns' && bdone ns' = true -> exists o', fin = Some o').
Proof.
  unfold conc_child_done.
  set (ns2 := ns_set_saved _ _).
  assert (Ha : adone ns2 = (if i then adone ns else true)) by (destruct i; reflexivity).
  assert (Hb : bdone ns2 = (if i then true else bdone ns)) by (destruct i; reflexivity).
  destruct (adone ns2 && bdone ns2) eqn:E; intros H; inversion H; subst ns'; subst;
    rewrite E; repeat split; auto; try (intros X; discriminate X); eauto.
Qed.

Lemma finish_conc_some k ns sa sb tr o leak :
  exists tr', finish_conc k ns sa sb tr (Some o) leak = (OFin, tr', Some o).
Proof. unfold finish_conc. eexists; reflexivity. Qed.

Lemma finish_conc_none k ns sa sb tr leak :
  finish_conc k ns sa sb tr None leak = (ONode ns sa sb, tr, None).
Proof. reflexivity. Qed.

Definition completes_in_start (e : sexpr) : Prop :=
  forall en, exists st tr o, start e en = (st, tr, Some o).

(* (b) *)
Theorem blocking_inline_soundN nv e :
  inl_kind (blockingN nv e) = true -> completes_in_start e.
Proof.
  induction e as [v|x| |n|id|id|k s IHs|k a IHa b IHb]; intros Hk en.
  - do 3 eexists; reflexivity.
  - do 3 eexists; reflexivity.
  - do 3 eexists; reflexivity.
  - do 3 eexists; reflexivity.
  - unfold blockingN in Hk; simpl in Hk. destruct (nv id); discriminate Hk.
  - discriminate Hk.
  - rewrite blockingN_un in Hk. destruct (IHs Hk (un_env k en)) as [sc [tr [o E]]].
    rewrite start_un, E. destruct (un_result k o) as [tr2 o']. do 3 eexists; reflexivity.
  - unfold blockingN in Hk; simpl in Hk. rewrite bin_blocking_inl in Hk.
    apply andb_prop in Hk. destruct Hk as [Hka Hkb].
    specialize (IHa Hka). specialize (IHb Hkb).
    destruct (is_seq k) eqn:Hs.
    + rewrite (start_seq _ _ _ _ Hs). unfold start_seq_body.
      destruct (IHa en) as [sa [tra [oa Ea]]]. rewrite Ea.
      destruct (after_first k en oa) as [o|[en2 sv]].
      * do 3 eexists; reflexivity.
      * destruct (IHb en2) as [sb [trb [ob Eb]]]. rewrite Eb. do 3 eexists; reflexivity.
    + rewrite (start_conc _ _ _ _ Hs). unfold start_conc_body.
      set (ns0 := ns_set_own _ _).
      destruct (IHa (env_own en (own_stop ns0))) as [sa [tra [oa Ea]]]. rewrite Ea.
      destruct (conc_child_done k ns0 false oa) as [[ns1 nw1] f1] eqn:E1.
      destruct (ccd_flags _ _ _ _ _ _ _ E1) as [Ha1 _].
      destruct (IHb (env_own en (own_stop ns1))) as [sb [trb [ob Eb]]]. rewrite Eb.
      destruct (conc_child_done k ns1 true ob) as [[ns2 nw2] f2] eqn:E2.
      destruct (ccd_flags _ _ _ _ _ _ _ E2) as [Ha2 [Hb2 [_ Hf]]].
      destruct Hf as [o' Hf]; [rewrite Ha2, Hb2, Ha1; reflexivity|]. subst f2.
      destruct (finish_conc_some k ns2 sa OFin (tra ++ trb) o' false) as [tr' Ef]. rewrite Ef.
      do 3 eexists; reflexivity.
Qed.

(* ---- (c) never ---------------------------------------------------------------------------------- *)
(* [pend nv e st]: the operation cannot complete before a never-declared leaf is completed from
   outside: such a leaf is pending on its critical path, or (finally, source still running) the
   completion sender that must run afterwards declares never. *)
Definition is_never (k : bk) : bool := bk_eqb k BNever.

Lemma is_never_true k : is_never k = true <-> k = BNever.
Proof. destruct k; unfold is_never; simpl; split; intros H; try discriminate H; reflexivity. Qed.

Fixpoint pend (nv : nat -> bool) (e : sexpr) (st : ost) : bool :=
  match e, st with
  | Leaf id, OLeaf false _ => nv id
  | Un k s, ONode ns sc _ => pend nv s sc
  | Bin k a b, ONode ns sa sb =>
      if is_seq k then
        match ph ns with
        | PFirst => pend nv a sa
                    || match k with BFinally => is_never (blockingN nv b) | _ => false end
        | _ => pend nv b sb
        end
      else (negb (adone ns) && pend nv a sa) || (negb (bdone ns) && pend nv b sb)
  | _, _ => false
  end.

Lemma pend_un nv k s ns sc x : pend nv (Un k s) (ONode ns sc x) = pend nv s sc.
Proof. reflexivity. Qed.

Lemma pend_seq nv k a b ns sa sb :
  is_seq k = true ->
  pend nv (Bin k a b) (ONode ns sa sb) =
  match ph ns with
  | PFirst => pend nv a sa || match k with BFinally => is_never (blockingN nv b) | _ => false end
  | _ => pend nv b sb
  end.
Proof. intros H. simpl. rewrite H. reflexivity. Qed.

Lemma pend_conc nv k a b ns sa sb :
  is_seq k = false ->
  pend nv (Bin k a b) (ONode ns sa sb) =
  (negb (adone ns) && pend nv a sa) || (negb (bdone ns) && pend nv b sb).
Proof. intros H. simpl. rewrite H. reflexivity. Qed.

Lemma pend_un_inv nv k s st : pend nv (Un k s) st = true -> exists ns sc x, st = ONode ns sc x.
Proof. destruct st; simpl; intros H; try discriminate H. eauto. Qed.

Lemma pend_bin_inv nv k a b st : pend nv (Bin k a b) st = true -> exists ns sa sb, st = ONode ns sa sb.
Proof. destruct st; simpl; intros H; try discriminate H. eauto. Qed.

Definition NV (nv : nat -> bool) (e : sexpr) : Prop :=
  (blockingN nv e = BNever ->
   forall en st tr r, start e en = (st, tr, r) -> r = None /\ pend nv e st = true) /\
  (forall st st' tr r, pend nv e st = true -> stop e st = (st', tr, r) ->
                       r = None /\ pend nv e st' = true).

Lemma NV_atom nv e :
  blockingN nv e <> BNever -> (forall st, pend nv e st = false) -> NV nv e.
Proof.
  intros Hb Hp. split.
  - intros H; contradiction.
  - intros st st' tr r H. rewrite Hp in H. discriminate H.
Qed.

Lemma NV_leaf nv id : NV nv (Leaf id).
Proof.
  split.
  - unfold blockingN; simpl. destruct (nv id) eqn:Hn; [|discriminate].
    intros _ en st tr r H.
    change (start (Leaf id) en) with
      (if e_stopped en
       then (OLeaf false true, [TLeafStart id true (e_stoppable en) (e_q0 en) (e_q1 en); TLeafStop id], @None outcome)
       else (OLeaf false false, [TLeafStart id false (e_stoppable en) (e_q0 en) (e_q1 en)], None)) in H.
    destruct (e_stopped en); inversion H; subst; split; try reflexivity; simpl; exact Hn.
  - intros st st' tr r Hp H.
    destruct st as [|c sn|ns sa sb]; simpl in Hp; try discriminate Hp.
    destruct c; [discriminate Hp|].
    destruct sn.
    + change (stop (Leaf id) (OLeaf false true)) with (OLeaf false true, @nil tev, @None outcome) in H.
      inversion H; subst. split; [reflexivity|exact Hp].
    + change (stop (Leaf id) (OLeaf false false)) with (OLeaf false true, [TLeafStop id], @None outcome) in H.
      inversion H; subst. split; [reflexivity|exact Hp].
Qed.

Lemma NV_un nv k s : NV nv s -> NV nv (Un k s).
Proof.
  intros [IHstart IHstop]. split.
  - rewrite blockingN_un. intros Hb en st tr r H. rewrite start_un in H.
    destruct (start s (un_env k en)) as [[sc trs] rs] eqn:Es.
    destruct (IHstart Hb _ _ _ _ Es) as [Hr Hp]. subst rs.
    inversion H; subst. split; [reflexivity|]. rewrite pend_un. exact Hp.
  - intros st st' tr r Hp H.
    destruct (pend_un_inv _ _ _ _ Hp) as [ns [sc [x ->]]].
    rewrite pend_un in Hp. rewrite stop_un in H. unfold stop_un_body in H.
    destruct (is_unstop k).
    { inversion H; subst. split; [reflexivity|]. rewrite pend_un. exact Hp. }
    destruct (stop s sc) as [[sc' trs] rs] eqn:Es.
    destruct (IHstop _ _ _ _ Hp Es) as [Hr Hp']. subst rs.
    inversion H; subst. split; [reflexivity|]. rewrite pend_un. exact Hp'.
Qed.

Lemma NV_seq nv k a b : is_seq k = true -> NV nv a -> NV nv b -> NV nv (Bin k a b).
Proof.
  intros Hs [IHa_start IHa_stop] [IHb_start IHb_stop].
  (* once the source of a finally completed, a never-declared completion sender is started and pends *)
  assert (Htail : forall en oa tra nsX st tr r,
             k = BFinally -> is_never (blockingN nv b) = true ->
             match after_first k en oa with
             | inl o => (OFin, tra, Some o)
             | inr (en2, sv) =>
                 let '(sb, trb, rb) := start b en2 in
                 match rb with
                 | None => (ONode (ns_set_saved (ns_set_ph nsX PSecond) sv) OFin sb, tra ++ trb, None)
                 | Some ob => (OFin, tra ++ trb, Some (after_second k sv ob))
                 end
             end = (st, tr, r) -> r = None /\ pend nv (Bin k a b) st = true).
  { intros en oa tra nsX st tr r -> Hnb H. apply is_never_true in Hnb.
    change (after_first BFinally en oa) with (@inr outcome _ (en, Some oa)) in H.
    cbv beta iota in H.
    destruct (start b en) as [[sb trb] rb] eqn:Eb.
    destruct (IHb_start Hnb _ _ _ _ Eb) as [Hr Hp]. subst rb.
    inversion H; subst. split; [reflexivity|]. rewrite (pend_seq _ _ _ _ _ _ _ Hs). exact Hp. }
  split.
  - (* start *)
    intros Hb en st tr r H. unfold blockingN in Hb; simpl in Hb.
    apply bin_blocking_never in Hb.
    rewrite (start_seq _ _ _ _ Hs) in H. unfold start_seq_body in H.
    destruct (start a en) as [[sa tra] ra] eqn:Ea.
    destruct Hb as [Hna|[Hnb Hk]].
    + destruct (IHa_start Hna _ _ _ _ Ea) as [Hr Hp]. subst ra.
      inversion H; subst. split; [reflexivity|]. rewrite (pend_seq _ _ _ _ _ _ _ Hs). simpl.
      rewrite Hp. reflexivity.
    + assert (k = BFinally) as Hkf by (destruct k; try contradiction; try discriminate Hs; reflexivity).
      assert (Hnb' : is_never (blockingN nv b) = true) by (apply is_never_true; exact Hnb).
      destruct ra as [oa|].
      * exact (Htail en oa tra (mk_nst PSecond en) st tr r Hkf Hnb' H).
      * inversion H; subst. split; [reflexivity|]. rewrite (pend_seq _ _ _ _ _ _ _ Hs). simpl.
        rewrite Hnb'. apply orb_true_r.
  - (* stop *)
    intros st st' tr r Hp H.
    destruct (pend_bin_inv _ _ _ _ _ Hp) as [ns [sa [sb ->]]].
    rewrite (pend_seq _ _ _ _ _ _ _ Hs) in Hp.
    rewrite (stop_seq _ _ _ _ _ _ Hs) in H. unfold stop_seq_body in H.
    destruct (ph ns) eqn:Hph.
    + destruct (stop a sa) as [[sa' tra] ra] eqn:Ea.
      apply orb_prop in Hp. destruct Hp as [Hpa|Hfin].
      * destruct (IHa_stop _ _ _ _ Hpa Ea) as [Hr Hpa']. subst ra.
        inversion H; subst. split; [reflexivity|]. rewrite (pend_seq _ _ _ _ _ _ _ Hs). simpl.
        rewrite Hph, Hpa'. reflexivity.
      * assert (k = BFinally) as Hkf by (destruct k; try discriminate Hfin; reflexivity).
        assert (Hnb' : is_never (blockingN nv b) = true) by (subst k; exact Hfin).
        destruct ra as [oa|].
        -- exact (Htail _ oa tra _ st' tr r Hkf Hnb' H).
        -- inversion H; subst. split; [reflexivity|]. rewrite (pend_seq _ _ _ _ _ _ _ Hs). simpl.
           rewrite Hph, Hnb'. apply orb_true_r.
    + destruct (stop b sb) as [[sb' trb] rb] eqn:Eb.
      destruct (IHb_stop _ _ _ _ Hp Eb) as [Hr Hpb']. subst rb.
      inversion H; subst. split; [reflexivity|]. rewrite (pend_seq _ _ _ _ _ _ _ Hs). simpl.
      rewrite Hph. exact Hpb'.
    + destruct (stop b sb) as [[sb' trb] rb] eqn:Eb.
      destruct (IHb_stop _ _ _ _ Hp Eb) as [Hr Hpb']. subst rb.
      inversion H; subst. split; [reflexivity|]. rewrite (pend_seq _ _ _ _ _ _ _ Hs). simpl.
      rewrite Hph. exact Hpb'.
Qed.

Lemma NV_conc nv k a b : is_seq k = false -> NV nv a -> NV nv b -> NV nv (Bin k a b).
Proof.
  intros Hs [IHa_start IHa_stop] [IHb_start IHb_stop]. split.
  - (* start *)
    intros Hb en st tr r H. unfold blockingN in Hb; simpl in Hb. apply bin_blocking_never in Hb.
    rewrite (start_conc _ _ _ _ Hs) in H. unfold start_conc_body in H.
    set (ns0 := ns_set_own _ _) in H.
    assert (Ha0 : adone ns0 = false) by reflexivity.
    assert (Hb0 : bdone ns0 = false) by reflexivity.
    destruct (start a (env_own en (own_stop ns0))) as [[sa tra] ra] eqn:Ea.
    destruct Hb as [Hna|[Hnb _]].
    + (* a declares never *)
      destruct (IHa_start Hna _ _ _ _ Ea) as [Hr Hpa]. subst ra. cbv beta iota in H.
      destruct (start b (env_own en (own_stop ns0))) as [[sb trb] rb] eqn:Eb.
      destruct rb as [ob|].
      * destruct (conc_child_done k ns0 true ob) as [[ns2 newly] fin] eqn:E2.
        destruct (ccd_flags _ _ _ _ _ _ _ E2) as [Ha2 [Hb2 [Hfn _]]].
        rewrite Ha0 in Ha2. rewrite Hfn in H by (rewrite Ha2; reflexivity).
        destruct newly.
        -- destruct (stop a sa) as [[sa' tra2] ra2] eqn:Es.
           destruct (IHa_stop _ _ _ _ Hpa Es) as [Hr Hpa']. subst ra2.
           inversion H; subst. split; [reflexivity|].
           rewrite (pend_conc _ _ _ _ _ _ _ Hs), Ha2, Hpa'. reflexivity.
        -- inversion H; subst. split; [reflexivity|].
           rewrite (pend_conc _ _ _ _ _ _ _ Hs), Ha2, Hpa. reflexivity.
      * inversion H; subst. split; [reflexivity|].
        rewrite (pend_conc _ _ _ _ _ _ _ Hs), Ha0, Hpa. reflexivity.
    + (* b declares never *)
      destruct ra as [oa|].
      * destruct (conc_child_done k ns0 false oa) as [[ns1 nw1] f1] eqn:E1.
        destruct (ccd_flags _ _ _ _ _ _ _ E1) as [_ [Hb1 _]]. rewrite Hb0 in Hb1.
        destruct (start b (env_own en (own_stop ns1))) as [[sb trb] rb] eqn:Eb.
        destruct (IHb_start Hnb _ _ _ _ Eb) as [Hr Hpb]. subst rb.
        inversion H; subst. split; [reflexivity|].
        rewrite (pend_conc _ _ _ _ _ _ _ Hs), Hb1, Hpb. apply orb_true_r.
      * destruct (start b (env_own en (own_stop ns0))) as [[sb trb] rb] eqn:Eb.
        destruct (IHb_start Hnb _ _ _ _ Eb) as [Hr Hpb]. subst rb.
        inversion H; subst. split; [reflexivity|].
        rewrite (pend_conc _ _ _ _ _ _ _ Hs), Hb0, Hpb. apply orb_true_r.
  - (* stop *)
    intros st st' tr r Hp H.
    destruct (pend_bin_inv _ _ _ _ _ Hp) as [ns [sa [sb ->]]].
    rewrite (pend_conc _ _ _ _ _ _ _ Hs) in Hp.
    rewrite (stop_conc _ _ _ _ _ _ Hs) in H. unfold stop_conc_body in H.
    destruct (own_stop ns) eqn:Hown.
    { inversion H; subst. split; [reflexivity|]. rewrite (pend_conc _ _ _ _ _ _ _ Hs). exact Hp. }
    set (ns1 := ns_set_own _ true) in H.
    assert (Ha1 : adone ns1 = adone ns) by reflexivity.
    assert (Hb1 : bdone ns1 = bdone ns) by reflexivity.
    apply orb_prop in Hp. destruct Hp as [HA|HB].
    + (* a pends *)
      apply andb_prop in HA. destruct HA as [Had Hpa]. apply negb_true_iff in Had.
      destruct (if bdone ns1 then (sb, @nil tev, @None outcome) else stop b sb) as [[sb' trb] rb] eqn:Eb.
      destruct rb as [ob|].
      * destruct (conc_child_done k ns1 true ob) as [[ns2 nw2] fin1] eqn:E2.
        destruct (ccd_flags _ _ _ _ _ _ _ E2) as [Ha2 [_ [Hfn _]]].
        rewrite Ha1, Had in Ha2. rewrite Hfn in H by (rewrite Ha2; reflexivity).
        rewrite Ha2 in H.
        destruct (stop a sa) as [[sa' tra] ra] eqn:Es.
        destruct (IHa_stop _ _ _ _ Hpa Es) as [Hr Hpa']. subst ra.
        cbv beta iota in H. rewrite finish_conc_none in H.
        inversion H; subst. split; [reflexivity|].
        rewrite (pend_conc _ _ _ _ _ _ _ Hs), Ha2, Hpa'. reflexivity.
      * cbv beta iota in H. rewrite Ha1, Had in H.
        destruct (stop a sa) as [[sa' tra] ra] eqn:Es.
        destruct (IHa_stop _ _ _ _ Hpa Es) as [Hr Hpa']. subst ra.
        cbv beta iota in H. rewrite finish_conc_none in H.
        inversion H; subst. split; [reflexivity|].
        rewrite (pend_conc _ _ _ _ _ _ _ Hs), Ha1, Had, Hpa'. reflexivity.
    + (* b pends *)
      apply andb_prop in HB. destruct HB as [Hbd Hpb]. apply negb_true_iff in Hbd.
      rewrite Hb1, Hbd in H.
      destruct (stop b sb) as [[sb' trb] rb] eqn:Es.
      destruct (IHb_stop _ _ _ _ Hpb Es) as [Hr Hpb']. subst rb.
      cbv beta iota in H.
      destruct (if adone ns1 then (sa, @nil tev, @None outcome) else stop a sa) as [[sa' tra] ra] eqn:Ea.
      destruct ra as [oa|].
      * destruct (conc_child_done k ns1 false oa) as [[ns3 nw3] fin2] eqn:E3.
        destruct (ccd_flags _ _ _ _ _ _ _ E3) as [_ [Hb3 [Hfn _]]].
        rewrite Hb1, Hbd in Hb3. rewrite Hfn in H by (rewrite Hb3; apply andb_false_r).
        rewrite finish_conc_none in H.
        inversion H; subst. split; [reflexivity|].
        rewrite (pend_conc _ _ _ _ _ _ _ Hs), Hb3, Hpb'. apply orb_true_r.
      * rewrite finish_conc_none in H.
        inversion H; subst. split; [reflexivity|].
        rewrite (pend_conc _ _ _ _ _ _ _ Hs), Hb1, Hbd, Hpb'. apply orb_true_r.
Qed.

Theorem NV_all nv : forall e, NV nv e.
Proof.
  induction e as [v|x| |n|id|id|k s IHs|k a IHa b IHb].
  - apply NV_atom; [discriminate|reflexivity].
  - apply NV_atom; [discriminate|reflexivity].
  - apply NV_atom; [discriminate|reflexivity].
  - apply NV_atom; [discriminate|reflexivity].
  - apply NV_leaf.
  - apply NV_atom; [discriminate|]. intros st; destruct st as [|c sn|]; reflexivity.
  - apply NV_un; exact IHs.
  - destruct (is_seq k) eqn:Hs; [apply NV_seq|apply NV_conc]; assumption.
Qed.

(* (c) *)
Theorem blocking_never_soundN nv e :
  blockingN nv e = BNever -> forall en st tr r, start e en = (st, tr, r) -> r = None.
Proof.
  intros Hb en st tr r H. destruct (NV_all nv e) as [Hs _]. exact (proj1 (Hs Hb _ _ _ _ H)).
Qed.

(* ... and it stays uncompleted however often stop is requested afterwards (a never-declared harness
   leaf ignores stop): completion needs an external leaf event *)
Theorem blocking_never_stop_soundN nv e :
  blockingN nv e = BNever ->
  forall en st tr r, start e en = (st, tr, r) ->
  forall st' tr' r', stop e st = (st', tr', r') -> r' = None.
Proof.
  intros Hb en st tr r H st' tr' r' H'. destruct (NV_all nv e) as [Hs Hst].
  destruct (Hs Hb _ _ _ _ H) as [_ Hp]. exact (proj1 (Hst _ _ _ _ Hp H')).
Qed.

(* ---- the instance: the expressions to_cpp emits ------------------------------------------------ *)
Lemma blockingN_base e : blockingN (fun _ => false) e = blocking_of e.
Proof. unfold blockingN, blocking_of. rewrite traits_ofN_base. reflexivity. Qed.

Theorem blocking_inline_sound e :
  blocking_of e = BAlwaysInline \/ blocking_of e = BAlways ->
  forall en, exists st tr o, start e en = (st, tr, Some o).
Proof.
  intros H. apply (blocking_inline_soundN (fun _ => false)). rewrite blockingN_base.
  destruct H as [-> | ->]; reflexivity.
Qed.

Theorem blocking_never_sound e :
  blocking_of e = BNever -> forall en st tr r, start e en = (st, tr, r) -> r = None.
Proof. intros H. apply (blocking_never_soundN (fun _ => false)). rewrite blockingN_base. exact H. Qed.

(* no emitted expression declares always or never (no such leaf): over them (c) is vacuous and (b)
   is about always_inline only; blocking_never_soundN is the non-vacuous statement *)
Theorem blocking_range e : blocking_of e = BAlwaysInline \/ blocking_of e = BMaybe.
Proof.
  unfold blocking_of.
  induction e as [v|x| |n|id|id|k s IHs|k a IHa b IHb]; simpl; auto.
  - rewrite un_blocking. exact IHs.
  - destruct k; simpl; destruct IHa as [-> | ->], IHb as [-> | ->]; simpl; auto.
Qed.

(* the run-time answer coincides with the static one on every emitted expression (no leaf refines
   its blocking at run time), so (b) and (c) hold for unifex::blocking(s) as mirrored, too *)
Theorem rt_blocking_static e : rt_blocking_of e = blocking_of e.
Proof.
  induction e as [v|x| |n|id|id|k s IHs|k a IHa b IHb]; try reflexivity.
  - destruct k; simpl; try reflexivity; rewrite IHs; unfold blocking_of; simpl;
      try reflexivity.
  - destruct k; simpl; try reflexivity; rewrite IHa; try rewrite IHb; reflexivity.
Qed.

(* non-vacuity *)
Example never_propagates :
  let nv := fun id => Nat.eqb id 0 in
  blockingN nv (Bin BWhenAll JustDone (Bin BStopWhen (LeafN 1) (Leaf 0))) = BNever /\
  (* a never-declaring child that is not the one started last no longer makes when_all never *)
  blockingN nv (Bin BWhenAll (Bin BStopWhen (LeafN 1) (Leaf 0)) JustDone) = BMaybe /\
  blockingN nv (Bin BStopWhen (Leaf 0) (LeafN 1)) = BMaybe /\
  blockingN nv (Bin BFinally (LeafN 1) (Un (UThen (FAdd 1)) (Leaf 0))) = BNever /\
  blockingN nv (Bin BLetV (Leaf 0) (Just 1)) = BNever /\
  blockingN nv (Bin BLetV (Just 1) (Leaf 0)) = BMaybe.
Proof. vm_compute. repeat split. Qed.

Example inline_example :
  blocking_of (Bin BWhenAll (Bin BLetE (JustErr 5) (Var 0)) (Un UDoneOpt JustDone)) = BAlwaysInline /\
  sends_done_of (Un UDoneOpt (Bin BLetD JustDone (Just 3))) = false /\
  sends_done_of (Bin BLetD (LeafN 0) (Un (UUponDone (FAdd 1)) (Leaf 1))) = false.
Proof. vm_compute. repeat split. Qed.
