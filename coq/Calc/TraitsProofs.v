(* C11, static-traits half: soundness of the mirrored sender traits (Calc/TraitsDefs.v, = the formulas
   of the C++ headers) against the operational model (Calc/CalcDefs.v), for ALL expressions.

   (a) sends_done = false  ->  no root completion with done, on any run            [sends_done_sound]
   (b) blocking = always_inline (or always)  ->  completes inside start()          [blocking_inline_sound]
   (c) blocking = never  ->  never completes inside start()                         [blocking_never_sound]
       - over the expressions to_cpp can emit no sender declares never or always   [blocking_range];
         to exercise how the headers PROPAGATE never, (b)/(c) are proved for the generalisation
         [traits_ofN nv] in which harness leaf [Leaf id] declares never when [nv id] (a leaf that
         ignores stop and is only completed from outside start() indeed is), all combinators
         unchanged; [traits_of] is the instance nv = fun _ => false.
   Affinity is mirrored and compared only: its soundness needs execution contexts, which CalcDefs
   does not model. *)
From Coq Require Import ZArith List Bool Lia.
From V Require Import Calc.CalcDefs Calc.TraitsDefs.
Import ListNotations.
Import Calc CalcTraits.

(* ---- equation lemmas for the machine functions (never [simpl] them) -------------------------- *)
Lemma start_un k s en :
  start (Un k s) en =
  let '(sc, tr, r) := start s (un_env k en) in
  match r with
  | Some o => let (tr2, o') := un_result k o in (OFin, tr ++ tr2, Some o')
  | None => (ONode (mk_nst PFirst en) sc OFin, tr, None)
  end.
Proof. reflexivity. Qed.

Definition start_seq_body (k : bkind) (a b : sexpr) (en : env) : res :=
  let '(sa, tra, ra) := start a en in
  match ra with
  | None => (ONode (mk_nst PFirst en) sa OFin, tra, None)
  | Some oa =>
      match after_first k en oa with
      | inl o => (OFin, tra, Some o)
      | inr (en2, sv) =>
          let '(sb, trb, rb) := start b en2 in
          match rb with
          | None => (ONode (ns_set_saved (mk_nst PSecond en) sv) OFin sb, tra ++ trb, None)
          | Some ob => (OFin, tra ++ trb, Some (after_second k sv ob))
          end
      end
  end.

Lemma start_seq k a b en : is_seq k = true -> start (Bin k a b) en = start_seq_body k a b en.
Proof. destruct k; intros H; try discriminate H; reflexivity. Qed.

Definition start_conc_body (k : bkind) (a b : sexpr) (en : env) : res :=
  let ns0 := ns_set_own (ns_set_reg (mk_nst PBoth en) (negb (e_stopped en))) (e_stopped en) in
  let '(sa, tra, ra) := start a (env_own en (own_stop ns0)) in
  let '(ns1, _, _) :=
      match ra with
      | Some oa => conc_child_done k ns0 false oa
      | None => (ns0, false, None)
      end in
  let '(sb, trb, rb) := start b (env_own en (own_stop ns1)) in
  match rb with
  | None => (ONode ns1 sa sb, tra ++ trb, None)
  | Some ob =>
      let '(ns2, newly, fin) := conc_child_done k ns1 true ob in
      match fin with
      | Some _ => finish_conc k ns2 sa OFin (tra ++ trb) fin false
      | None =>
          if newly then
            let '(sa', tra2, ra2) := stop a sa in
            match ra2 with
            | Some oa =>
                let '(ns3, _, fin3) := conc_child_done k ns2 false oa in
                finish_conc k ns3 sa' OFin (tra ++ trb ++ tra2) fin3 false
            | None => (ONode ns2 sa' OFin, tra ++ trb ++ tra2, None)
            end
          else (ONode ns2 sa OFin, tra ++ trb, None)
      end
  end.

Lemma start_conc k a b en : is_seq k = false -> start (Bin k a b) en = start_conc_body k a b en.
Proof. destruct k; intros H; try discriminate H; reflexivity. Qed.

Definition stop_un_body (k : ukind) (s : sexpr) (ns : nst) (sc x : ost) : res :=
  match k with
  | UUnstoppable => (ONode ns sc x, [], None)
  | _ =>
      let ns' := ns_set_env ns (env_with_stop (n_env ns) true) in
      let '(sc', tr, r) := stop s sc in
      match r with
      | Some o => let (tr2, o') := un_result k o in (OFin, tr ++ tr2, Some o')
      | None => (ONode ns' sc' OFin, tr, None)
      end
  end.

Lemma stop_un k s ns sc x : stop (Un k s) (ONode ns sc x) = stop_un_body k s ns sc x.
Proof. destruct k; reflexivity. Qed.

Lemma stop_un_other k s st : (forall ns sc x, st <> ONode ns sc x) -> stop (Un k s) st = (st, [], None).
Proof. destruct st; intros H; try reflexivity. exfalso; eapply H; reflexivity. Qed.

Definition stop_seq_body (k : bkind) (a b : sexpr) (ns : nst) (sa sb : ost) : res :=
  let ns' := ns_set_env ns (env_with_stop (n_env ns) true) in
  match ph ns with
  | PFirst =>
      let '(sa', tra, ra) := stop a sa in
      match ra with
      | None => (ONode ns' sa' sb, tra, None)
      | Some oa =>
          match after_first k (n_env ns') oa with
          | inl o => (OFin, tra, Some o)
          | inr (en2, sv) =>
              let '(sb', trb, rb) := start b en2 in
              match rb with
              | None => (ONode (ns_set_saved (ns_set_ph ns' PSecond) sv) OFin sb', tra ++ trb, None)
              | Some ob => (OFin, tra ++ trb, Some (after_second k sv ob))
              end
          end
      end
  | _ =>
      let '(sb', trb, rb) := stop b sb in
      match rb with
      | None => (ONode ns' sa sb', trb, None)
      | Some ob => (OFin, trb, Some (after_second k (saved ns) ob))
      end
  end.

Lemma stop_seq k a b ns sa sb : is_seq k = true -> stop (Bin k a b) (ONode ns sa sb) = stop_seq_body k a b ns sa sb.
Proof. destruct k; intros H; try discriminate H; reflexivity. Qed.

Lemma stop_bin_other k a b st : (forall ns sa sb, st <> ONode ns sa sb) -> stop (Bin k a b) st = (st, [], None).
Proof. destruct st; intros H; try reflexivity. exfalso; eapply H; reflexivity. Qed.

Definition stop_conc_body (k : bkind) (a b : sexpr) (ns : nst) (sa sb : ost) : res :=
  let ns' := ns_set_env ns (env_with_stop (n_env ns) true) in
  if own_stop ns then (ONode ns' sa sb, [], None)
  else
    let ns1 := ns_set_own ns' true in
    let '(sb', trb, rb) := if bdone ns1 then (sb, [], None) else stop b sb in
    let '(ns2, _, fin1) :=
        match rb with
        | Some ob => conc_child_done k ns1 true ob
        | None => (ns1, false, None)
        end in
    match fin1 with
    | Some _ => finish_conc k ns2 sa sb' trb fin1 (leaky k)
    | None =>
        let '(sa', tra, ra) := if adone ns2 then (sa, [], None) else stop a sa in
        let '(ns3, _, fin2) :=
            match ra with
            | Some oa => conc_child_done k ns2 false oa
            | None => (ns2, false, None)
            end in
        finish_conc k ns3 sa' sb' (trb ++ tra) fin2 (leaky k)
    end.

Lemma stop_conc k a b ns sa sb : is_seq k = false -> stop (Bin k a b) (ONode ns sa sb) = stop_conc_body k a b ns sa sb.
Proof. destruct k; intros H; try discriminate H; reflexivity. Qed.

Definition leafev_un_body (k : ukind) (s : sexpr) (ns : nst) (sc : ost) (id : nat) (o : outcome) : res * bool :=
  let '((sc', tr, r), hit) := leafev s sc id o in
  match r with
  | Some oc => let (tr2, o') := un_result k oc in ((OFin, tr ++ tr2, Some o'), hit)
  | None => ((ONode ns sc' OFin, tr, None), hit)
  end.

Lemma leafev_un k s ns sc x id o : leafev (Un k s) (ONode ns sc x) id o = leafev_un_body k s ns sc id o.
Proof. reflexivity. Qed.

Lemma leafev_un_other k s st id o : (forall ns sc x, st <> ONode ns sc x) -> leafev (Un k s) st id o = ((st, [], None), false).
Proof. destruct st; intros H; try reflexivity. exfalso; eapply H; reflexivity. Qed.

Definition leafev_seq_body (k : bkind) (a b : sexpr) (ns : nst) (sa sb : ost) (id : nat) (o : outcome) : res * bool :=
  match ph ns with
  | PFirst =>
      let '((sa', tra, ra), hit) := leafev a sa id o in
      match ra with
      | None => ((ONode ns sa' sb, tra, None), hit)
      | Some oa =>
          match after_first k (n_env ns) oa with
          | inl o' => ((OFin, tra, Some o'), hit)
          | inr (en2, sv) =>
              let '(sb', trb, rb) := start b en2 in
              match rb with
              | None => ((ONode (ns_set_saved (ns_set_ph ns PSecond) sv) OFin sb', tra ++ trb, None), hit)
              | Some ob => ((OFin, tra ++ trb, Some (after_second k sv ob)), hit)
              end
          end
      end
  | _ =>
      let '((sb', trb, rb), hit) := leafev b sb id o in
      match rb with
      | None => ((ONode ns sa sb', trb, None), hit)
      | Some ob => ((OFin, trb, Some (after_second k (saved ns) ob)), hit)
      end
  end.

Lemma leafev_seq k a b ns sa sb id o :
  is_seq k = true -> leafev (Bin k a b) (ONode ns sa sb) id o = leafev_seq_body k a b ns sa sb id o.
Proof. destruct k; intros H; try discriminate H; reflexivity. Qed.

Lemma leafev_bin_other k a b st id o :
  (forall ns sa sb, st <> ONode ns sa sb) -> leafev (Bin k a b) st id o = ((st, [], None), false).
Proof. destruct st; intros H; try reflexivity. exfalso; eapply H; reflexivity. Qed.

(* ================================================================================================ *)
(* (a) sends_done                                                                                     *)
(* ================================================================================================ *)
Definition nd (r : option outcome) : Prop := forall o, r = Some o -> o <> ODone.

Lemma nd_none : nd None.
Proof. intros o H; discriminate H. Qed.

(* State invariant: inside sub-expressions that declare sends_done = false, a finally node never
   holds a saved "done" from its source. *)
Fixpoint ok_st (e : sexpr) (st : ost) : Prop :=
  sends_done_of e = false ->
  match e, st with
  | Un k s, ONode ns sc _ => ok_st s sc
  | Bin k a b, ONode ns sa sb =>
      ok_st a sa /\ ok_st b sb /\ (k = BFinally -> forall s, saved ns = Some s -> s <> ODone)
  | _, _ => True
  end.

Lemma ok_st_un k s ns sc x :
  ok_st (Un k s) (ONode ns sc x) = (sends_done_of (Un k s) = false -> ok_st s sc).
Proof. reflexivity. Qed.

Lemma ok_st_bin k a b ns sa sb :
  ok_st (Bin k a b) (ONode ns sa sb) =
  (sends_done_of (Bin k a b) = false ->
   ok_st a sa /\ ok_st b sb /\ (k = BFinally -> forall s, saved ns = Some s -> s <> ODone)).
Proof. reflexivity. Qed.

Lemma ok_st_fin e : ok_st e OFin.
Proof. destruct e; intros H; exact I. Qed.

Lemma ok_st_triv e st : sends_done_of e = true -> ok_st e st.
Proof. intros H. destruct e; intros H'; rewrite H in H'; discriminate H'. Qed.

Lemma sd_un k s : sends_done_of (Un k s) = t_sends_done (un_traits k (traits_of s)).
Proof. reflexivity. Qed.
Lemma sd_bin k a b : sends_done_of (Bin k a b) = t_sends_done (bin_traits k (traits_of a) (traits_of b)).
Proof. reflexivity. Qed.

Lemma un_result_nd k p o :
  t_sends_done (un_traits k p) = false -> (t_sends_done p = false -> o <> ODone) ->
  snd (un_result k o) <> ODone.
Proof.
  intros H Ho.
  destruct k; destruct o; simpl in *;
    try (destruct (fn_apply _ _); simpl; discriminate);
    try discriminate; try (apply Ho; exact H).
Qed.

Lemma seq_sd_b k ta tb :
  is_seq k = true -> t_sends_done (bin_traits k ta tb) = false -> t_sends_done tb = false.
Proof.
  destruct k; simpl; intros Hs H; try discriminate Hs;
    destruct (t_sends_done ta), (t_sends_done tb); simpl in H; congruence.
Qed.

Lemma seq_sd_a k ta tb :
  is_seq k = true -> k <> BLetD -> t_sends_done (bin_traits k ta tb) = false -> t_sends_done ta = false.
Proof.
  destruct k; simpl; intros Hs Hk H; try discriminate Hs; try congruence;
    destruct (t_sends_done ta), (t_sends_done tb); simpl in H; congruence.
Qed.

Lemma conc_sd k ta tb : is_seq k = false -> t_sends_done (bin_traits k ta tb) = true.
Proof. destruct k; simpl; intros H; try discriminate H; reflexivity. Qed.

Lemma bkind_eq_dec_LetD (k : bkind) : {k = BLetD} + {k <> BLetD}.
Proof. destruct k; (left; reflexivity) || (right; discriminate). Qed.

Lemma after_first_nd k en oa o ta tb :
  is_seq k = true -> t_sends_done (bin_traits k ta tb) = false ->
  (t_sends_done ta = false -> oa <> ODone) ->
  after_first k en oa = inl o -> o <> ODone.
Proof.
  intros Hs H Ha E.
  destruct (bkind_eq_dec_LetD k) as [->|Hk].
  - destruct oa; simpl in E; inversion E; discriminate.
  - pose proof (seq_sd_a _ _ _ Hs Hk H) as Hta. specialize (Ha Hta).
    destruct k; destruct oa; simpl in E; try discriminate Hs; inversion E; subst; try discriminate; congruence.
Qed.

Lemma after_first_saved k en oa en2 sv ta tb :
  is_seq k = true -> t_sends_done (bin_traits k ta tb) = false ->
  (t_sends_done ta = false -> oa <> ODone) ->
  after_first k en oa = inr (en2, sv) ->
  (k = BFinally -> forall s, sv = Some s -> s <> ODone).
Proof.
  intros Hs H Ha E Hk s Hsv. subst k.
  assert (Hta : t_sends_done ta = false) by (eapply seq_sd_a; eauto; discriminate).
  simpl in E. inversion E; subst. inversion Hsv; subst. auto.
Qed.

Lemma after_second_nd k sv ob :
  (k = BFinally -> forall s, sv = Some s -> s <> ODone) -> ob <> ODone -> after_second k sv ob <> ODone.
Proof.
  intros Hsv Hob. destruct k; simpl; try exact Hob.
  destruct sv as [s|]; [|exact Hob]. destruct ob; try exact Hob. apply Hsv; reflexivity.
Qed.
