(* C11, static-traits half, n-ary forms: soundness of the mirrored trait formulas of
   Calc/TraitsMultiDefs.v (= the formulas of let_value.hpp, let_error.hpp, when_all.hpp, sequence.hpp,
   variant_sender.hpp) against the operational semantics of the combinators over component senders,
   for ALL n and ALL lists of components:

     if every component's declared traits are sound for each of its behaviours, then the combinator's
     mirrored traits are sound for every observation its semantics can produce:
       blocking = always_inline -> completes on the calling thread inside start()
       blocking = always        -> completes before start() returns
       blocking = never         -> does not complete on the calling thread inside start()
       sends_done = false       -> never completes with done
       is_always_scheduler_affine -> completes on the context it was started on.

   One genuine defect of the header formulas AS FOUND: when_all's (and stop_when's) blocking = maximum over
   the children claims [never] as soon as ONE child declares never, but the completion is delivered by
   whichever child completes last; a never-child that completes on another thread followed by an
   inline child makes the operation complete inline on the calling thread
   [when_all_asfound_never_refuted, stop_when_asfound_never_refuted]; what does hold for the as-found
   formula is [when_all_asfound_never_sound_partial].  The REPAIRED formulas (never only carries over from
   the child started last) are sound for every clause [when_all_sound, stop_when_sound]. *)
From Coq Require Import List Bool Arith Lia.
From V Require Import Calc.TraitsDefs Calc.TraitsMultiDefs.
Import ListNotations.
Import CalcTraits TraitsMulti.

(* ---- ranks -------------------------------------------------------------------------------------- *)
Lemma bk_max_rank a b : bk_rank (bk_max a b) = Nat.max (bk_rank a) (bk_rank b).
Proof. destruct a, b; reflexivity. Qed.
Lemma bk_min_rank a b : bk_rank (bk_min a b) = Nat.min (bk_rank a) (bk_rank b).
Proof. destruct a, b; reflexivity. Qed.
Lemma bk_rank_inj a b : bk_rank a = bk_rank b -> a = b.
Proof. destruct a, b; simpl; intros H; try reflexivity; discriminate H. Qed.

Lemma max_element_ge_first l : forall a, bk_rank a <= bk_rank (bk_max_element a l).
Proof.
  unfold bk_max_element. induction l as [|x l IH]; intros a; simpl; [lia|].
  specialize (IH (bk_max a x)). rewrite bk_max_rank in IH. lia.
Qed.
Lemma max_element_ge l : forall a x, In x l -> bk_rank x <= bk_rank (bk_max_element a l).
Proof.
  unfold bk_max_element. induction l as [|y l IH]; intros a x Hin; simpl; [destruct Hin|].
  destruct Hin as [->|Hin].
  - pose proof (max_element_ge_first l (bk_max a x)) as H. unfold bk_max_element in H.
    rewrite bk_max_rank in H. lia.
  - apply IH; exact Hin.
Qed.
Lemma min_element_le_first l : forall a, bk_rank (bk_min_element a l) <= bk_rank a.
Proof.
  unfold bk_min_element. induction l as [|x l IH]; intros a; simpl; [lia|].
  specialize (IH (bk_min a x)). rewrite bk_min_rank in IH. lia.
Qed.
Lemma min_element_le l : forall a x, In x l -> bk_rank (bk_min_element a l) <= bk_rank x.
Proof.
  unfold bk_min_element. induction l as [|y l IH]; intros a x Hin; simpl; [destruct Hin|].
  destruct Hin as [->|Hin].
  - pose proof (min_element_le_first l (bk_min a x)) as H. unfold bk_min_element in H.
    rewrite bk_min_rank in H. lia.
  - apply IH; exact Hin.
Qed.

(* every element of a non-empty list of traits is below the maximum / above the minimum *)
Lemma max_over_ge f r x :
  In x (f :: r) -> bk_rank (t_blocking x) <= bk_rank (bk_max_element (t_blocking f) (map t_blocking r)).
Proof.
  intros [->|Hin]; [apply max_element_ge_first|].
  apply max_element_ge. apply in_map; exact Hin.
Qed.
Lemma min_over_le f r x :
  In x (f :: r) -> bk_rank (bk_min_element (t_blocking f) (map t_blocking r)) <= bk_rank (t_blocking x).
Proof.
  intros [->|Hin]; [apply min_element_le_first|].
  apply min_element_le. apply in_map; exact Hin.
Qed.
Lemma max_kind_ge l m x :
  max_blocking_kind l = Some m -> In x l -> bk_rank (t_blocking x) <= bk_rank m.
Proof.
  destruct l as [|f r]; simpl; intros H Hin; [destruct Hin|].
  inversion H; subst. apply max_over_ge; exact Hin.
Qed.

(* ---- what the blocking kinds promise, composed ------------------------------------------------ *)
Lemma time_ok_let kp m ks tp ts :
  bk_rank ks <= bk_rank m -> time_ok kp tp = true -> time_ok ks ts = true ->
  time_ok (bk_max kp (bk_min m BMaybe)) (seq_time tp ts) = true.
Proof.
  destruct kp, m, ks, tp, ts; simpl; intros H1 H2 H3;
    try reflexivity; try discriminate H2; try discriminate H3; lia.
Qed.
Lemma time_ok_let_pass kp m tp :
  time_ok kp tp = true -> time_ok (bk_max kp (bk_min m BMaybe)) tp = true.
Proof. destruct kp, m, tp; simpl; intros H; try reflexivity; discriminate H. Qed.
Lemma time_ok_mono k k' t :
  bk_rank k <= bk_rank k' -> k' <> BNever -> time_ok k t = true -> time_ok k' t = true.
Proof.
  destruct k, k', t; simpl; intros H1 H2 H3;
    try reflexivity; try discriminate H3; try lia; exfalso; apply H2; reflexivity.
Qed.
Lemma time_ok_variant k mn mx t :
  bk_rank mn <= bk_rank k -> bk_rank k <= bk_rank mx -> time_ok k t = true ->
  time_ok (if bk_eqb mn mx then mn else bk_min mx BMaybe) t = true.
Proof.
  destruct k, mn, mx, t; simpl; intros H1 H2 H3;
    try reflexivity; try discriminate H3; lia.
Qed.

(* ---- soundness predicates taken apart ---------------------------------------------------------- *)
Lemma sound_beh_inv t b :
  sound_beh t b = true ->
  time_ok (t_blocking t) (b_time b) = true /\
  (t_sends_done t = false -> is_done (b_out b) = false) /\
  (t_affine t = true -> b_ctx b = None).
Proof.
  unfold sound_beh. intros H.
  apply andb_true_iff in H. destruct H as [H H3]. apply andb_true_iff in H. destruct H as [H1 H2].
  split; [exact H1|]. split.
  - intros Hs. rewrite Hs in H2. simpl in H2. destruct (is_done (b_out b)); [discriminate H2|reflexivity].
  - intros Ha. rewrite Ha in H3. simpl in H3. destruct (b_ctx b); [discriminate H3|reflexivity].
Qed.

Lemma sound_obs_intro t c o :
  time_ok (t_blocking t) (o_time o) = true ->
  (t_sends_done t = false -> is_done (o_out o) = false) ->
  (t_affine t = true -> o_ctx o = c) ->
  sound_obs t c o = true.
Proof.
  intros H1 H2 H3. unfold sound_obs. rewrite H1. simpl.
  apply andb_true_iff. split.
  - destruct (t_sends_done t); [reflexivity|]. rewrite (H2 eq_refl). reflexivity.
  - destruct (t_affine t); [|reflexivity]. rewrite (H3 eq_refl). simpl. apply Nat.eqb_refl.
Qed.

Lemma sound_obs_inv t c o :
  sound_obs t c o = true ->
  time_ok (t_blocking t) (o_time o) = true /\
  (t_sends_done t = false -> o_out o <> ODone) /\
  (t_affine t = true -> o_ctx o = c).
Proof.
  unfold sound_obs. intros H.
  apply andb_true_iff in H. destruct H as [H H3]. apply andb_true_iff in H. destruct H as [H1 H2].
  split; [exact H1|]. split.
  - intros Hs E. rewrite Hs, E in H2. discriminate H2.
  - intros Ha. rewrite Ha in H3. simpl in H3. apply Nat.eqb_eq; exact H3.
Qed.

Lemma time_ok_inline k t : time_ok k t = true -> k = BAlwaysInline -> t = TInline.
Proof. intros H ->. destruct t; simpl in H; try discriminate H; reflexivity. Qed.
Lemma time_ok_always k t : time_ok k t = true -> k = BAlways -> t <> TAsync.
Proof. intros H -> E. subst t. discriminate H. Qed.
Lemma time_ok_never k t : time_ok k t = true -> k = BNever -> t <> TInline.
Proof. intros H -> E. subst t. discriminate H. Qed.

Lemma run_ctx_same c b : b_ctx b = None -> run_ctx c b = c.
Proof. unfold run_ctx. intros ->. reflexivity. Qed.

Lemma pass_sound t c b : sound_beh t b = true -> sound_obs t c (pass c b) = true.
Proof.
  intros H. destruct (sound_beh_inv _ _ H) as [H1 [H2 H3]].
  apply sound_obs_intro; simpl; auto. intros Ha. apply run_ctx_same; auto.
Qed.

(* ---- components and picks --------------------------------------------------------------------- *)
Lemma sound_comp_beh cm b : sound_comp cm = true -> In b (behs cm) -> sound_beh (declared cm) b = true.
Proof. unfold sound_comp. intros H Hin. exact (proj1 (forallb_forall _ _) H b Hin). Qed.

Lemma picks_nth cs bs : picks cs bs -> forall i b, nth_error bs i = Some b ->
  exists cm, nth_error cs i = Some cm /\ In b (behs cm).
Proof.
  unfold picks. induction 1 as [|cm b0 cs bs Hh Ht IH]; intros i b Hn.
  - destruct i; discriminate Hn.
  - destruct i as [|i]; simpl in Hn.
    + inversion Hn; subst. exists cm. split; [reflexivity|exact Hh].
    + destruct (IH i b Hn) as [cm' [H1 H2]]. exists cm'. split; [exact H1|exact H2].
Qed.

Lemma picks_length cs bs : picks cs bs -> length cs = length bs.
Proof. unfold picks. induction 1; simpl; congruence. Qed.

Lemma sound_pick cs bs i b :
  forallb sound_comp cs = true -> picks cs bs -> nth_error bs i = Some b ->
  exists cm, nth_error cs i = Some cm /\ In cm cs /\ sound_beh (declared cm) b = true.
Proof.
  intros Hs Hp Hn. destruct (picks_nth _ _ Hp _ _ Hn) as [cm [H1 H2]].
  exists cm. split; [exact H1|]. pose proof (nth_error_In _ _ H1) as Hin. split; [exact Hin|].
  apply sound_comp_beh; [|exact H2]. exact (proj1 (forallb_forall _ _) Hs cm Hin).
Qed.

Lemma existsb_false_in {A} (f : A -> bool) l x : existsb f l = false -> In x l -> f x = false.
Proof.
  intros H Hin. destruct (f x) eqn:E; [|reflexivity].
  assert (existsb f l = true) by (apply existsb_exists; exists x; split; assumption). congruence.
Qed.
Lemma forallb_true_in {A} (f : A -> bool) l x : forallb f l = true -> In x l -> f x = true.
Proof. intros H Hin. exact (proj1 (forallb_forall _ _) H x Hin). Qed.

(* ================================================================================================ *)
(* let_value                                                                                          *)
(* ================================================================================================ *)
Definition let_value_run (p : comp) (succs : list comp) (t : traits) (c : nat) (o : obs) : Prop :=
  sound_comp p = true /\ forallb sound_comp succs = true /\
  tr_let_value (declared p) (map declared succs) = Some t /\
  exists pb sbs thrown, In pb (behs p) /\ picks succs sbs /\ let_value_obs c pb sbs thrown = Some o.

Theorem let_value_sound p succs t c o : let_value_run p succs t c o -> sound_obs t c o = true.
Proof.
  intros [Hp [Hs [Ht [pb [sbs [thrown [Hpb [Hpk Ho]]]]]]]].
  unfold tr_let_value in Ht.
  destruct (max_blocking_kind (map declared succs)) as [m|] eqn:Em; [|discriminate Ht].
  inversion Ht; subst t; clear Ht.
  pose proof (sound_comp_beh _ _ Hp Hpb) as Hsp.
  destruct (sound_beh_inv _ _ Hsp) as [Hp1 [Hp2 Hp3]].
  assert (Hpass : sound_obs
            {| t_blocking := bk_max (t_blocking (declared p)) (bk_min m BMaybe);
               t_sends_done := t_sends_done (declared p) || any_sends_done (map declared succs);
               t_affine := t_affine (declared p) && all_always_scheduler_affine (map declared succs) |}
            c (pass c pb) = true).
  { apply sound_obs_intro; simpl.
    - apply time_ok_let_pass; exact Hp1.
    - intros H. apply orb_false_iff in H. apply Hp2. tauto.
    - intros H. apply andb_true_iff in H. apply run_ctx_same. apply Hp3. tauto. }
  unfold let_value_obs in Ho.
  destruct (b_out pb) as [i|j|] eqn:Eo; try (inversion Ho; subst o; exact Hpass).
  destruct thrown.
  - inversion Ho; subst o. apply sound_obs_intro; simpl.
    + apply time_ok_let_pass; exact Hp1.
    + reflexivity.
    + intros H. apply andb_true_iff in H. apply run_ctx_same. apply Hp3. tauto.
  - destruct (nth_error sbs i) as [s|] eqn:En; [|discriminate Ho]. inversion Ho; subst o; clear Ho.
    destruct (sound_pick _ _ _ _ Hs Hpk En) as [cm [Hn [Hin Hss]]].
    destruct (sound_beh_inv _ _ Hss) as [Hs1 [Hs2 Hs3]].
    assert (Hdin : In (declared cm) (map declared succs)) by (apply in_map; exact Hin).
    unfold seq_step. simpl. rewrite Eo. simpl.
    apply sound_obs_intro; simpl.
    + apply time_ok_let with (ks := t_blocking (declared cm)); auto.
      eapply max_kind_ge; eauto.
    + intros H. apply orb_false_iff in H. destruct H as [_ H]. apply Hs2.
      exact (existsb_false_in _ _ _ H Hdin).
    + intros H. apply andb_true_iff in H. destruct H as [Ha Hb].
      rewrite (run_ctx_same c pb (Hp3 Ha)). apply run_ctx_same. apply Hs3.
      exact (forallb_true_in _ _ _ Hb Hdin).
Qed.

Theorem let_value_always_inline_sound p succs t c o :
  let_value_run p succs t c o -> t_blocking t = BAlwaysInline -> o_time o = TInline.
Proof. intros H. destruct (sound_obs_inv _ _ _ (let_value_sound _ _ _ _ _ H)) as [H1 _]. apply time_ok_inline; exact H1. Qed.
Theorem let_value_always_sound p succs t c o :
  let_value_run p succs t c o -> t_blocking t = BAlways -> o_time o <> TAsync.
Proof. intros H. destruct (sound_obs_inv _ _ _ (let_value_sound _ _ _ _ _ H)) as [H1 _]. apply time_ok_always; exact H1. Qed.
Theorem let_value_never_sound p succs t c o :
  let_value_run p succs t c o -> t_blocking t = BNever -> o_time o <> TInline.
Proof. intros H. destruct (sound_obs_inv _ _ _ (let_value_sound _ _ _ _ _ H)) as [H1 _]. apply time_ok_never; exact H1. Qed.
Theorem let_value_sends_done_sound p succs t c o :
  let_value_run p succs t c o -> t_sends_done t = false -> o_out o <> ODone.
Proof. intros H. exact (proj1 (proj2 (sound_obs_inv _ _ _ (let_value_sound _ _ _ _ _ H)))). Qed.
Theorem let_value_affine_sound p succs t c o :
  let_value_run p succs t c o -> t_affine t = true -> o_ctx o = c.
Proof. intros H. exact (proj2 (proj2 (sound_obs_inv _ _ _ (let_value_sound _ _ _ _ _ H)))). Qed.

(* ================================================================================================ *)
(* let_error                                                                                          *)
(* ================================================================================================ *)
Definition let_error_run (src : comp) (finals : list comp) (t : traits) (c : nat) (o : obs) : Prop :=
  sound_comp src = true /\ forallb sound_comp finals = true /\
  tr_let_error (declared src) (map declared finals) = Some t /\
  exists pb fbs thrown, In pb (behs src) /\ picks finals fbs /\ let_error_obs c pb fbs thrown = Some o.

Theorem let_error_sound src finals t c o : let_error_run src finals t c o -> sound_obs t c o = true.
Proof.
  intros [Hp [Hs [Ht [pb [fbs [thrown [Hpb [Hpk Ho]]]]]]]].
  unfold tr_let_error in Ht.
  destruct (max_blocking_kind (map declared finals)) as [m|] eqn:Em; [|discriminate Ht].
  inversion Ht; subst t; clear Ht.
  pose proof (sound_comp_beh _ _ Hp Hpb) as Hsp.
  destruct (sound_beh_inv _ _ Hsp) as [Hp1 [Hp2 Hp3]].
  set (T := {| t_blocking := bk_max (t_blocking (declared src)) (bk_min m BMaybe);
               t_sends_done := t_sends_done (declared src) || any_sends_done (declared src :: map declared finals);
               t_affine := all_always_scheduler_affine (declared src :: map declared finals) |}).
  assert (Hpass : sound_obs T c (pass c pb) = true).
  { apply sound_obs_intro; simpl.
    - apply time_ok_let_pass; exact Hp1.
    - intros H. apply orb_false_iff in H. apply Hp2. tauto.
    - intros H. apply andb_true_iff in H. apply run_ctx_same. apply Hp3. tauto. }
  unfold let_error_obs in Ho.
  destruct (b_out pb) as [i|j|] eqn:Eo; try (inversion Ho; subst o; exact Hpass).
  destruct thrown.
  - inversion Ho; subst o. apply sound_obs_intro; simpl.
    + apply time_ok_let_pass; exact Hp1.
    + reflexivity.
    + intros H. apply andb_true_iff in H. apply run_ctx_same. apply Hp3. tauto.
  - destruct (nth_error fbs j) as [s|] eqn:En; [|discriminate Ho]. inversion Ho; subst o; clear Ho.
    destruct (sound_pick _ _ _ _ Hs Hpk En) as [cm [Hn [Hin Hss]]].
    destruct (sound_beh_inv _ _ Hss) as [Hs1 [Hs2 Hs3]].
    assert (Hdin : In (declared cm) (map declared finals)) by (apply in_map; exact Hin).
    apply sound_obs_intro; simpl.
    + apply time_ok_let with (ks := t_blocking (declared cm)); auto.
      eapply max_kind_ge; eauto.
    + intros H. apply orb_false_iff in H. destruct H as [_ H]. apply orb_false_iff in H.
      destruct H as [_ H]. apply Hs2. exact (existsb_false_in _ _ _ H Hdin).
    + intros H. apply andb_true_iff in H. destruct H as [Ha Hb].
      rewrite (run_ctx_same c pb (Hp3 Ha)). apply run_ctx_same. apply Hs3.
      exact (forallb_true_in _ _ _ Hb Hdin).
Qed.

Theorem let_error_always_inline_sound src finals t c o :
  let_error_run src finals t c o -> t_blocking t = BAlwaysInline -> o_time o = TInline.
Proof. intros H. destruct (sound_obs_inv _ _ _ (let_error_sound _ _ _ _ _ H)) as [H1 _]. apply time_ok_inline; exact H1. Qed.
Theorem let_error_always_sound src finals t c o :
  let_error_run src finals t c o -> t_blocking t = BAlways -> o_time o <> TAsync.
Proof. intros H. destruct (sound_obs_inv _ _ _ (let_error_sound _ _ _ _ _ H)) as [H1 _]. apply time_ok_always; exact H1. Qed.
Theorem let_error_never_sound src finals t c o :
  let_error_run src finals t c o -> t_blocking t = BNever -> o_time o <> TInline.
Proof. intros H. destruct (sound_obs_inv _ _ _ (let_error_sound _ _ _ _ _ H)) as [H1 _]. apply time_ok_never; exact H1. Qed.
Theorem let_error_sends_done_sound src finals t c o :
  let_error_run src finals t c o -> t_sends_done t = false -> o_out o <> ODone.
Proof. intros H. exact (proj1 (proj2 (sound_obs_inv _ _ _ (let_error_sound _ _ _ _ _ H)))). Qed.
Theorem let_error_affine_sound src finals t c o :
  let_error_run src finals t c o -> t_affine t = true -> o_ctx o = c.
Proof. intros H. exact (proj2 (proj2 (sound_obs_inv _ _ _ (let_error_sound _ _ _ _ _ H)))). Qed.

(* ================================================================================================ *)
(* when_all                                                                                           *)
(* ================================================================================================ *)
Definition when_all_asfound_run (cs : list comp) (t : traits) (c : nat) (o : obs) : Prop :=
  forallb sound_comp cs = true /\
  tr_when_all_asfound (map declared cs) = Some t /\
  exists bs order, picks cs bs /\ when_all_obs c bs order = Some o.

(* the observation is the last completer's own completion *)
Lemma when_all_obs_last c bs order o :
  when_all_obs c bs order = Some o ->
  valid_order bs order = true /\
  exists l b, last_of order = Some l /\ nth_error bs l = Some b /\
              o_time o = b_time b /\ o_ctx o = run_ctx c b.
Proof.
  unfold when_all_obs. destruct (valid_order bs order); [|discriminate].
  destruct (last_of order) as [l|]; [|discriminate].
  destruct (nth_error bs l) as [b|] eqn:En; [|discriminate].
  intros H; inversion H; subst o; simpl. split; [reflexivity|]. exists l, b. auto.
Qed.

(* everything but [never] *)
Theorem when_all_asfound_sound_but_never cs t c o :
  when_all_asfound_run cs t c o ->
  (t_blocking t <> BNever -> time_ok (t_blocking t) (o_time o) = true) /\
  (t_affine t = true -> o_ctx o = c).
Proof.
  intros [Hs [Ht [bs [order [Hpk Ho]]]]].
  destruct (when_all_obs_last _ _ _ _ Ho) as [_ [l [b [_ [En [Et Ec]]]]]].
  destruct (sound_pick _ _ _ _ Hs Hpk En) as [cm [Hn [Hin Hsb]]].
  destruct (sound_beh_inv _ _ Hsb) as [H1 [_ H3]].
  unfold tr_when_all_asfound in Ht. destruct (map declared cs) as [|f r] eqn:Em; [discriminate Ht|].
  inversion Ht; subst t; clear Ht. simpl.
  assert (Hdin : In (declared cm) (f :: r)) by (rewrite <- Em; apply in_map; exact Hin).
  split.
  - intros Hnv. rewrite Et. eapply time_ok_mono; [|exact Hnv|exact H1].
    apply max_over_ge; exact Hdin.
  - intros Ha. rewrite Ec. apply run_ctx_same. apply H3.
    exact (forallb_true_in t_affine (f :: r) _ Ha Hdin).
Qed.

Theorem when_all_asfound_always_inline_sound cs t c o :
  when_all_asfound_run cs t c o -> t_blocking t = BAlwaysInline -> o_time o = TInline.
Proof.
  intros H E. destruct (when_all_asfound_sound_but_never _ _ _ _ H) as [H1 _].
  eapply time_ok_inline; [|exact E]. apply H1. rewrite E; discriminate.
Qed.
Theorem when_all_asfound_always_sound cs t c o :
  when_all_asfound_run cs t c o -> t_blocking t = BAlways -> o_time o <> TAsync.
Proof.
  intros H E. destruct (when_all_asfound_sound_but_never _ _ _ _ H) as [H1 _].
  eapply time_ok_always; [|exact E]. apply H1. rewrite E; discriminate.
Qed.
Theorem when_all_asfound_affine_sound cs t c o :
  when_all_asfound_run cs t c o -> t_affine t = true -> o_ctx o = c.
Proof. intros H. exact (proj2 (when_all_asfound_sound_but_never _ _ _ _ H)). Qed.
(* sends_done = true is declared unconditionally (when_all.hpp:341): nothing to prove; stated for
   completeness in the same shape *)
Theorem when_all_asfound_sends_done_sound cs t c o :
  when_all_asfound_run cs t c o -> t_sends_done t = false -> o_out o <> ODone.
Proof.
  intros [_ [Ht _]] Hsd. unfold tr_when_all_asfound in Ht. destruct (map declared cs); [discriminate Ht|].
  inversion Ht; subst t. discriminate Hsd.
Qed.

(* --- never ---
   FULL statement (false, see when_all_asfound_never_refuted):
     forall cs t c o, when_all_asfound_run cs t c o -> t_blocking t = BNever -> o_time o <> TInline.
   Proved: it holds when the child that is STARTED LAST declares never.  Missing for the full
   statement: nothing can be proved - a never-declaring child at any other position may complete on
   another thread before a later, inline child delivers the result on the calling thread. *)
Lemma order_ok_before bs l : forall pre i,
  order_ok bs (pre ++ [l]) = true -> In i pre -> l < i -> is_async (time_at bs l) = true.
Proof.
  induction pre as [|a pre IH]; intros i Hok Hin Hlt; [destruct Hin|].
  simpl in Hok. apply andb_true_iff in Hok. destruct Hok as [Hall Hok].
  destruct Hin as [->|Hin].
  - assert (Hl : In l (pre ++ [l])) by (apply in_or_app; right; left; reflexivity).
    pose proof (forallb_true_in _ _ _ Hall Hl) as H. simpl in H.
    apply Nat.ltb_lt in Hlt. rewrite Hlt in H. simpl in H. exact H.
  - eapply IH; eauto.
Qed.

Lemma last_of_app l : forall order, last_of order = Some l -> exists pre, order = pre ++ [l].
Proof.
  unfold last_of. intros order H. destruct (rev order) as [|x r] eqn:E; [discriminate H|].
  inversion H; subst x. exists (rev r). rewrite <- (rev_involutive order), E. reflexivity.
Qed.

Lemma last_sync_is_last_started bs order l :
  valid_order bs order = true -> last_of order = Some l ->
  is_async (time_at bs l) = false -> S l = length bs.
Proof.
  unfold valid_order. intros Hv Hl Hna.
  apply andb_true_iff in Hv. destruct Hv as [Hv Hok].
  apply andb_true_iff in Hv. destruct Hv as [Hv Hall].
  apply andb_true_iff in Hv. destruct Hv as [_ Hlt].
  destruct (last_of_app _ _ Hl) as [pre ->].
  assert (Hll : l < length bs).
  { apply Nat.ltb_lt. apply (forallb_true_in _ _ _ Hlt). apply in_or_app; right; left; reflexivity. }
  destruct (Nat.eq_dec (S l) (length bs)) as [E|Hne]; [exact E|exfalso].
  set (k := length bs - 1).
  assert (Hk : In k (seq 0 (length bs))) by (apply in_seq; unfold k; lia).
  pose proof (forallb_true_in _ _ _ Hall Hk) as Hex. simpl in Hex.
  apply existsb_exists in Hex. destruct Hex as [x [Hx Hkx]]. apply Nat.eqb_eq in Hkx. subst x.
  apply in_app_or in Hx. destruct Hx as [Hx|[Hx|[]]].
  - assert (Ha : is_async (time_at bs l) = true).
    { eapply order_ok_before; eauto. unfold k; lia. }
    congruence.
  - unfold k in Hx. lia.
Qed.

Theorem when_all_asfound_never_sound_partial cs t c o lastc :
  when_all_asfound_run cs t c o ->
  nth_error cs (length cs - 1) = Some lastc -> t_blocking (declared lastc) = BNever ->
  o_time o <> TInline.
Proof.
  intros [Hs [Ht [bs [order [Hpk Ho]]]]] Hlast Hnv Hinl.
  destruct (when_all_obs_last _ _ _ _ Ho) as [Hv [l [b [Hl [En [Et _]]]]]].
  assert (Hna : is_async (time_at bs l) = false).
  { unfold time_at. rewrite En, <- Et, Hinl. reflexivity. }
  pose proof (last_sync_is_last_started _ _ _ Hv Hl Hna) as HS.
  rewrite <- (picks_length _ _ Hpk) in HS.
  destruct (sound_pick _ _ _ _ Hs Hpk En) as [cm [Hn [_ Hsb]]].
  replace (length cs - 1) with l in Hlast by lia.
  rewrite Hn in Hlast. inversion Hlast; subst cm.
  destruct (sound_beh_inv _ _ Hsb) as [H1 _]. rewrite Hnv, <- Et, Hinl in H1. discriminate H1.
Qed.

(* the witness: a child declaring never that completes on another thread before its start() returns
   (allowed: blocking.hpp:41-44), followed by an always_inline child; completion order 0, 1 *)
Definition wa_never_child : comp :=
  {| declared := {| t_blocking := BNever; t_sends_done := false; t_affine := false |};
     behs := [ {| b_time := TSync; b_out := OVal 0; b_ctx := Some 7 |} ] |}.
Definition inline_child : comp :=
  {| declared := {| t_blocking := BAlwaysInline; t_sends_done := false; t_affine := true |};
     behs := [ {| b_time := TInline; b_out := OVal 0; b_ctx := None |} ] |}.

Theorem when_all_asfound_never_refuted :
  exists cs t c o, when_all_asfound_run cs t c o /\ t_blocking t = BNever /\ o_time o = TInline.
Proof.
  exists [wa_never_child; inline_child].
  eexists. exists 1. eexists. split; [|split].
  - split; [reflexivity|]. split; [reflexivity|].
    exists [ {| b_time := TSync; b_out := OVal 0; b_ctx := Some 7 |};
             {| b_time := TInline; b_out := OVal 0; b_ctx := None |} ], [0; 1].
    split; [|vm_compute; reflexivity].
    constructor; [left; reflexivity|]. constructor; [left; reflexivity|]. constructor.
  - reflexivity.
  - reflexivity.
Qed.

(* ---- the repaired formula (TraitsMultiDefs.tr_when_all) is sound for every clause ------------------ *)
Lemma nth_error_last {A} (l : list A) (d : A) : l <> [] -> nth_error l (length l - 1) = Some (last l d).
Proof.
  induction l as [|a l IH]; intros H; [exfalso; apply H; reflexivity|].
  destruct l as [|b l]; [reflexivity|].
  specialize (IH ltac:(discriminate)).
  simpl length in *.
  replace (S (S (length l)) - 1) with (S (length l)) by lia.
  replace (S (length l) - 1) with (length l) in IH by lia.
  change (nth_error (b :: l) (length l) = Some (last (b :: l) d)). exact IH.
Qed.
Lemma last_nonempty_default {A} (l : list A) : forall (b d d' : A), last (b :: l) d = last (b :: l) d'.
Proof.
  induction l as [|x l IH]; intros b d d'; [reflexivity|].
  change (last (x :: l) d = last (x :: l) d'). apply IH.
Qed.
Lemma last_cons_default {A} (l : list A) (a d : A) : last (a :: l) d = last l a.
Proof. destruct l as [|b l]; [reflexivity|]. change (last (b :: l) d = last (b :: l) a). apply last_nonempty_default. Qed.
Lemma last_map {A B} (g : A -> B) (l : list A) (d : A) : last (map g l) (g d) = g (last l d).
Proof. induction l as [|a l IH]; [reflexivity|]. simpl. destruct l; [reflexivity|]. exact IH. Qed.

Definition when_all_run (cs : list comp) (t : traits) (c : nat) (o : obs) : Prop :=
  forallb sound_comp cs = true /\
  tr_when_all (map declared cs) = Some t /\
  exists bs order, picks cs bs /\ when_all_obs c bs order = Some o.

Theorem when_all_sound cs t c o : when_all_run cs t c o -> sound_obs t c o = true.
Proof.
  intros [Hs [Ht Hex]].
  destruct cs as [|c0 cs']; [discriminate Ht|].
  assert (Hrun : exists t0, when_all_asfound_run (c0 :: cs') t0 c o /\
                            t_affine t = t_affine t0 /\ t_sends_done t = true /\
                            t_blocking t = cap_never (t_blocking t0) (t_blocking (declared (last cs' c0)))).
  { eexists. split; [split; [exact Hs|]; split; [reflexivity|exact Hex]|].
    simpl in Ht. inversion Ht; subst t; simpl. split; [reflexivity|]. split; [reflexivity|].
    rewrite (last_map declared cs' c0). reflexivity. }
  destruct Hrun as [t0 [Hrun [Ea [Esd Eb]]]].
  destruct (when_all_asfound_sound_but_never _ _ _ _ Hrun) as [H1 H2].
  apply sound_obs_intro.
  - rewrite Eb. unfold cap_never. destruct (bk_eqb (t_blocking t0) BNever) eqn:En; simpl.
    + destruct (bk_eqb (t_blocking (declared (last cs' c0))) BNever) eqn:El; simpl; [|reflexivity].
      assert (Hl : nth_error (c0 :: cs') (length (c0 :: cs') - 1) = Some (last cs' c0)).
      { rewrite (nth_error_last (c0 :: cs') c0) by discriminate. rewrite last_cons_default. reflexivity. }
      assert (Hn : t_blocking (declared (last cs' c0)) = BNever).
      { apply bk_rank_inj. apply Nat.eqb_eq. exact El. }
      pose proof (when_all_asfound_never_sound_partial _ _ _ _ _ Hrun Hl Hn) as Hni.
      assert (E0 : t_blocking t0 = BNever) by (apply bk_rank_inj; apply Nat.eqb_eq; exact En).
      rewrite E0. destruct (o_time o); try reflexivity. exfalso; apply Hni; reflexivity.
    + apply H1. intros E. rewrite E in En. discriminate En.
  - rewrite Esd. discriminate.
  - rewrite Ea. exact H2.
Qed.

Theorem when_all_always_inline_sound cs t c o :
  when_all_run cs t c o -> t_blocking t = BAlwaysInline -> o_time o = TInline.
Proof. intros H. destruct (sound_obs_inv _ _ _ (when_all_sound _ _ _ _ H)) as [H1 _]. apply time_ok_inline; exact H1. Qed.
Theorem when_all_always_sound cs t c o :
  when_all_run cs t c o -> t_blocking t = BAlways -> o_time o <> TAsync.
Proof. intros H. destruct (sound_obs_inv _ _ _ (when_all_sound _ _ _ _ H)) as [H1 _]. apply time_ok_always; exact H1. Qed.
Theorem when_all_never_sound cs t c o :
  when_all_run cs t c o -> t_blocking t = BNever -> o_time o <> TInline.
Proof. intros H. destruct (sound_obs_inv _ _ _ (when_all_sound _ _ _ _ H)) as [H1 _]. apply time_ok_never; exact H1. Qed.
Theorem when_all_sends_done_sound cs t c o :
  when_all_run cs t c o -> t_sends_done t = false -> o_out o <> ODone.
Proof. intros H. exact (proj1 (proj2 (sound_obs_inv _ _ _ (when_all_sound _ _ _ _ H)))). Qed.
Theorem when_all_affine_sound cs t c o :
  when_all_run cs t c o -> t_affine t = true -> o_ctx o = c.
Proof. intros H. exact (proj2 (proj2 (sound_obs_inv _ _ _ (when_all_sound _ _ _ _ H)))). Qed.

(* the repair changes nothing unless never was claimed *)
Theorem when_all_repair_conservative l t0 :
  tr_when_all_asfound l = Some t0 -> t_blocking t0 <> BNever -> tr_when_all l = Some t0.
Proof.
  destruct l as [|f r]; simpl; intros H Hn; [discriminate H|]. inversion H; subst t0; simpl in *.
  f_equal. unfold cap_never.
  destruct (bk_eqb (bk_max_element (t_blocking f) (map t_blocking r)) BNever) eqn:E; [|reflexivity].
  exfalso. apply Hn. apply bk_rank_inj. apply Nat.eqb_eq. exact E.
Qed.

(* ================================================================================================ *)
(* stop_when                                                                                          *)
(* ================================================================================================ *)
Definition stop_when_run (src trg : comp) (t : traits) (c : nat) (o : obs) : Prop :=
  sound_comp src = true /\ sound_comp trg = true /\
  tr_stop_when (declared src) (declared trg) = t /\
  exists sb tb order, In sb (behs src) /\ In tb (behs trg) /\ stop_when_obs c sb tb order = Some o.
Definition stop_when_asfound_run (src trg : comp) (t : traits) (c : nat) (o : obs) : Prop :=
  sound_comp src = true /\ sound_comp trg = true /\
  tr_stop_when_asfound (declared src) (declared trg) = t /\
  exists sb tb order, In sb (behs src) /\ In tb (behs trg) /\ stop_when_obs c sb tb order = Some o.

(* stop_when behaves like when_all over source, trigger except that the outcome is the source's *)
Theorem stop_when_sound src trg t c o : stop_when_run src trg t c o -> sound_obs t c o = true.
Proof.
  intros [Hs [Ht [Etr [sb [tb [order [Hsb [Htb Ho]]]]]]]].
  unfold stop_when_obs in Ho.
  destruct (when_all_obs c [sb; tb] order) as [o0|] eqn:Ewa; [|discriminate Ho].
  inversion Ho; subst o; clear Ho.
  assert (Hrun : exists t0, when_all_run [src; trg] t0 c o0 /\
                            t_blocking t0 = t_blocking t /\ t_affine t0 = t_affine t).
  { eexists. split.
    - split; [simpl; rewrite Hs, Ht; reflexivity|]. split; [reflexivity|].
      exists [sb; tb], order. split; [|exact Ewa].
      constructor; [exact Hsb|]. constructor; [exact Htb|]. constructor.
    - subst t. simpl. split; [reflexivity|]. rewrite andb_true_r. reflexivity. }
  destruct Hrun as [t0 [Hrun [Eb Ea]]].
  destruct (sound_obs_inv _ _ _ (when_all_sound _ _ _ _ Hrun)) as [H1 [_ H3]].
  apply sound_obs_intro; simpl.
  - rewrite <- Eb. exact H1.
  - subst t. simpl. discriminate.
  - rewrite <- Ea. exact H3.
Qed.

Theorem stop_when_always_inline_sound src trg t c o :
  stop_when_run src trg t c o -> t_blocking t = BAlwaysInline -> o_time o = TInline.
Proof. intros H. destruct (sound_obs_inv _ _ _ (stop_when_sound _ _ _ _ _ H)) as [H1 _]. apply time_ok_inline; exact H1. Qed.
Theorem stop_when_always_sound src trg t c o :
  stop_when_run src trg t c o -> t_blocking t = BAlways -> o_time o <> TAsync.
Proof. intros H. destruct (sound_obs_inv _ _ _ (stop_when_sound _ _ _ _ _ H)) as [H1 _]. apply time_ok_always; exact H1. Qed.
Theorem stop_when_never_sound src trg t c o :
  stop_when_run src trg t c o -> t_blocking t = BNever -> o_time o <> TInline.
Proof. intros H. destruct (sound_obs_inv _ _ _ (stop_when_sound _ _ _ _ _ H)) as [H1 _]. apply time_ok_never; exact H1. Qed.
Theorem stop_when_sends_done_sound src trg t c o :
  stop_when_run src trg t c o -> t_sends_done t = false -> o_out o <> ODone.
Proof. intros H. exact (proj1 (proj2 (sound_obs_inv _ _ _ (stop_when_sound _ _ _ _ _ H)))). Qed.
Theorem stop_when_affine_sound src trg t c o :
  stop_when_run src trg t c o -> t_affine t = true -> o_ctx o = c.
Proof. intros H. exact (proj2 (proj2 (sound_obs_inv _ _ _ (stop_when_sound _ _ _ _ _ H)))). Qed.

(* the as-found formula max(source, trigger): a never-source completing on another thread, then an
   inline trigger *)
Theorem stop_when_asfound_never_refuted :
  exists src trg t c o, stop_when_asfound_run src trg t c o /\ t_blocking t = BNever /\ o_time o = TInline.
Proof.
  exists wa_never_child, inline_child. eexists. exists 1. eexists. split; [|split].
  - split; [reflexivity|]. split; [reflexivity|]. split; [reflexivity|].
    exists {| b_time := TSync; b_out := OVal 0; b_ctx := Some 7 |},
           {| b_time := TInline; b_out := OVal 0; b_ctx := None |}, [0; 1].
    split; [left; reflexivity|]. split; [left; reflexivity|]. vm_compute. reflexivity.
  - reflexivity.
  - reflexivity.
Qed.

(* ================================================================================================ *)
(* variant_sender                                                                                     *)
(* ================================================================================================ *)
Definition variant_run (cs : list comp) (t : traits) (c : nat) (o : obs) : Prop :=
  forallb sound_comp cs = true /\
  tr_variant (map declared cs) = Some t /\
  exists cm b, In cm cs /\ In b (behs cm) /\ variant_obs c b = o.

Theorem variant_sound cs t c o : variant_run cs t c o -> sound_obs t c o = true.
Proof.
  intros [Hs [Ht [cm [b [Hin [Hb Ho]]]]]]. subst o.
  pose proof (sound_comp_beh _ _ (forallb_true_in _ _ _ Hs Hin) Hb) as Hsb.
  destruct (sound_beh_inv _ _ Hsb) as [H1 [H2 H3]].
  unfold tr_variant in Ht. destruct (map declared cs) as [|f r] eqn:Em; [discriminate Ht|].
  inversion Ht; subst t; clear Ht.
  assert (Hdin : In (declared cm) (f :: r)) by (rewrite <- Em; apply in_map; exact Hin).
  unfold variant_obs. apply sound_obs_intro; simpl.
  - eapply time_ok_variant; [| |exact H1].
    + apply min_over_le; exact Hdin.
    + apply max_over_ge; exact Hdin.
  - intros H. apply H2. exact (existsb_false_in t_sends_done (f :: r) _ H Hdin).
  - intros H. apply run_ctx_same. apply H3. exact (forallb_true_in t_affine (f :: r) _ H Hdin).
Qed.

Theorem variant_always_inline_sound cs t c o :
  variant_run cs t c o -> t_blocking t = BAlwaysInline -> o_time o = TInline.
Proof. intros H. destruct (sound_obs_inv _ _ _ (variant_sound _ _ _ _ H)) as [H1 _]. apply time_ok_inline; exact H1. Qed.
Theorem variant_always_sound cs t c o :
  variant_run cs t c o -> t_blocking t = BAlways -> o_time o <> TAsync.
Proof. intros H. destruct (sound_obs_inv _ _ _ (variant_sound _ _ _ _ H)) as [H1 _]. apply time_ok_always; exact H1. Qed.
Theorem variant_never_sound cs t c o :
  variant_run cs t c o -> t_blocking t = BNever -> o_time o <> TInline.
Proof. intros H. destruct (sound_obs_inv _ _ _ (variant_sound _ _ _ _ H)) as [H1 _]. apply time_ok_never; exact H1. Qed.
Theorem variant_sends_done_sound cs t c o :
  variant_run cs t c o -> t_sends_done t = false -> o_out o <> ODone.
Proof. intros H. exact (proj1 (proj2 (sound_obs_inv _ _ _ (variant_sound _ _ _ _ H)))). Qed.
Theorem variant_affine_sound cs t c o :
  variant_run cs t c o -> t_affine t = true -> o_ctx o = c.
Proof. intros H. exact (proj2 (proj2 (sound_obs_inv _ _ _ (variant_sound _ _ _ _ H)))). Qed.

(* ================================================================================================ *)
(* sequence (n-ary)                                                                                   *)
(* ================================================================================================ *)
Definition sequence_run (first : comp) (rest : list comp) (t : traits) (c : nat) (o : obs) : Prop :=
  sound_comp first = true /\ forallb sound_comp rest = true /\
  tr_sequence_n (declared first) (map declared rest) = t /\
  exists fb rbs, In fb (behs first) /\ picks rest rbs /\ sequence_obs c fb rbs = o.

Lemma seq_step_sound T tx c o b :
  sound_obs T c o = true -> sound_beh tx b = true ->
  sound_obs (tr_sequence T tx) c (seq_step o b) = true.
Proof.
  intros Ho Hb.
  destruct (sound_obs_inv _ _ _ Ho) as [O1 [O2 O3]].
  destruct (sound_beh_inv _ _ Hb) as [B1 [B2 B3]].
  unfold seq_step, tr_sequence. destruct (is_val (o_out o)) eqn:Ev.
  - apply sound_obs_intro; simpl.
    + apply time_ok_let with (ks := t_blocking tx); auto.
    + intros H. apply orb_false_iff in H. apply B2. tauto.
    + intros H. apply andb_true_iff in H. destruct H as [Ha Hb'].
      rewrite (O3 Ha). apply run_ctx_same. auto.
  - apply sound_obs_intro; simpl.
    + apply time_ok_let_pass; exact O1.
    + intros H. apply orb_false_iff in H. destruct H as [H _].
      specialize (O2 H). destruct (o_out o); try reflexivity. exfalso; apply O2; reflexivity.
    + intros H. apply andb_true_iff in H. apply O3. tauto.
Qed.

Lemma seq_fold_sound c : forall rest rbs T o,
  sound_obs T c o = true -> forallb sound_comp rest = true -> picks rest rbs ->
  sound_obs (fold_left tr_sequence (map declared rest) T) c (fold_left seq_step rbs o) = true.
Proof.
  induction rest as [|cm rest IH]; intros rbs T o Ho Hs Hp.
  - inversion Hp; subst. exact Ho.
  - inversion Hp as [|x b xs bs Hb Hp']; subst. simpl.
    simpl in Hs. apply andb_true_iff in Hs. destruct Hs as [Hs1 Hs2].
    apply IH; [|exact Hs2|exact Hp'].
    apply seq_step_sound; [exact Ho|]. apply sound_comp_beh; assumption.
Qed.

Theorem sequence_sound first rest t c o : sequence_run first rest t c o -> sound_obs t c o = true.
Proof.
  intros [Hf [Hs [Ht [fb [rbs [Hfb [Hp Ho]]]]]]]. subst t o.
  unfold tr_sequence_n, sequence_obs. apply seq_fold_sound; [|exact Hs|exact Hp].
  apply pass_sound. apply sound_comp_beh; assumption.
Qed.

Theorem sequence_always_inline_sound first rest t c o :
  sequence_run first rest t c o -> t_blocking t = BAlwaysInline -> o_time o = TInline.
Proof. intros H. destruct (sound_obs_inv _ _ _ (sequence_sound _ _ _ _ _ H)) as [H1 _]. apply time_ok_inline; exact H1. Qed.
Theorem sequence_always_sound first rest t c o :
  sequence_run first rest t c o -> t_blocking t = BAlways -> o_time o <> TAsync.
Proof. intros H. destruct (sound_obs_inv _ _ _ (sequence_sound _ _ _ _ _ H)) as [H1 _]. apply time_ok_always; exact H1. Qed.
Theorem sequence_never_sound first rest t c o :
  sequence_run first rest t c o -> t_blocking t = BNever -> o_time o <> TInline.
Proof. intros H. destruct (sound_obs_inv _ _ _ (sequence_sound _ _ _ _ _ H)) as [H1 _]. apply time_ok_never; exact H1. Qed.
Theorem sequence_sends_done_sound first rest t c o :
  sequence_run first rest t c o -> t_sends_done t = false -> o_out o <> ODone.
Proof. intros H. exact (proj1 (proj2 (sound_obs_inv _ _ _ (sequence_sound _ _ _ _ _ H)))). Qed.
Theorem sequence_affine_sound first rest t c o :
  sequence_run first rest t c o -> t_affine t = true -> o_ctx o = c.
Proof. intros H. exact (proj2 (proj2 (sound_obs_inv _ _ _ (sequence_sound _ _ _ _ _ H)))). Qed.

(* ================================================================================================ *)
(* the n = 1 / n = 2 instances are the unary / binary mirrors of Calc/TraitsDefs.v                   *)
(* ================================================================================================ *)
Lemma traits_eq a b :
  t_blocking a = t_blocking b -> t_sends_done a = t_sends_done b -> t_affine a = t_affine b -> a = b.
Proof. destruct a, b; simpl; intros -> -> ->; reflexivity. Qed.

Theorem let_value_agrees_binary p s : tr_let_value p [s] = Some (CalcTraits.tr_let_value p s).
Proof.
  unfold tr_let_value, CalcTraits.tr_let_value; simpl. f_equal. apply traits_eq; simpl.
  - reflexivity.
  - rewrite orb_false_r. reflexivity.
  - rewrite andb_true_r. reflexivity.
Qed.
Theorem let_error_agrees_binary p s : tr_let_error p [s] = Some (CalcTraits.tr_let_error p s).
Proof.
  unfold tr_let_error, CalcTraits.tr_let_error; simpl. f_equal. apply traits_eq; simpl.
  - reflexivity.
  - rewrite orb_false_r. reflexivity.
  - rewrite andb_true_r. reflexivity.
Qed.
Theorem when_all_agrees_binary a b : tr_when_all [a; b] = Some (CalcTraits.tr_when_all a b).
Proof.
  unfold tr_when_all, CalcTraits.tr_when_all; simpl. f_equal. apply traits_eq; simpl.
  - reflexivity.
  - reflexivity.
  - rewrite andb_true_r. reflexivity.
Qed.
Theorem stop_when_agrees_binary a b : tr_stop_when a b = CalcTraits.tr_stop_when a b.
Proof. reflexivity. Qed.
Theorem sequence_agrees_binary a b : tr_sequence_n a [b] = CalcTraits.tr_sequence a b.
Proof. reflexivity. Qed.

(* ================================================================================================ *)
(* the seeded formula: affinity as a DISJUNCTION over the successors is unsound                       *)
(* ================================================================================================ *)
Definition two_sig_pred : comp :=
  {| declared := {| t_blocking := BAlwaysInline; t_sends_done := false; t_affine := true |};
     behs := [ {| b_time := TInline; b_out := OVal 0; b_ctx := None |};
               {| b_time := TInline; b_out := OVal 1; b_ctx := None |} ] |}.
Definition foreign_succ : comp :=
  {| declared := {| t_blocking := BMaybe; t_sends_done := false; t_affine := false |};
     behs := [ {| b_time := TAsync; b_out := OVal 0; b_ctx := Some 7 |} ] |}.

Theorem let_value_disjunction_unsound :
  exists p succs t c pb sbs o,
    sound_comp p = true /\ forallb sound_comp succs = true /\
    tr_let_value_disj (declared p) (map declared succs) = Some t /\
    In pb (behs p) /\ picks succs sbs /\ let_value_obs c pb sbs false = Some o /\
    t_affine t = true /\ o_ctx o <> c.
Proof.
  exists two_sig_pred, [inline_child; foreign_succ].
  eexists. exists 1.
  exists {| b_time := TInline; b_out := OVal 1; b_ctx := None |}.
  exists [ {| b_time := TInline; b_out := OVal 0; b_ctx := None |};
           {| b_time := TAsync; b_out := OVal 0; b_ctx := Some 7 |} ].
  eexists.
  split; [reflexivity|]. split; [reflexivity|]. split; [reflexivity|].
  split; [right; left; reflexivity|].
  split; [constructor; [left; reflexivity|]; constructor; [left; reflexivity|]; constructor|].
  split; [reflexivity|]. split; [reflexivity|]. simpl. discriminate.
Qed.

(* the same components under the real (conjunction) formula: affine = false, so nothing is claimed;
   and a run where the hypotheses of the soundness theorems are met non-trivially *)
Example let_value_conjunction_on_witness :
  exists t, tr_let_value (declared two_sig_pred) (map declared [inline_child; foreign_succ]) = Some t /\
            t_affine t = false /\ t_blocking t = BMaybe /\ t_sends_done t = false.
Proof. eexists. split; [reflexivity|]. repeat split. Qed.
