(* C05 — a compositional, time-stamped denotational specification of sender expressions.
   Executable definitions only; the correspondence with the operational machine of CalcDefs.v is
   proved in Calc/DenoteProofs.v.

   Time is the number of script events consumed so far.  An operation is described by
     - the time [t0] at which it is started,
     - the values [bs] bound by the enclosing let_* (innermost first),
     - the instant [ts] at which stop is requested on the stop token of its receiver
       ([None] = never),
   and its meaning is the outcome it completes with and the time at which it does so, or [None]
   when it never completes within the script.

   The stop instant cannot be left out even for scripts without stop requests: when_all and
   stop_when request stop on their own source, which is the token their children see, and a when_all
   whose receiver's token has stop requested completes with done whatever its children produced
   (when_all.hpp deliver_result: receiver stop > error > done > values).

   Stop instants are finer than times, because at one time t several things happen in a definite
   order: operations are started and run inline (complete, start successors, ...) and only then can
   a sibling that completed inline request stop.  An instant is a number c:
     c = 2*s     stop is requested at time s BEFORE anything that is started at time s
                 (operations started at time >= s are started with stop already requested),
     c = 2*s+1   stop is requested at time s AFTER the operations started at time s ran their
                 inline part (they were started without stop requested, completed inline without it,
                 and whatever is still running is then told).
   So "stop was requested when something happens inline at time n" is  c <= 2*n. *)
From Coq Require Import ZArith List Bool Arith.
From V Require Import Calc.CalcDefs.
Import ListNotations.
Import Calc.

Definition dres := option (outcome * nat).

(* has stop been requested (at instant [ts]) when an operation is started, or completes, at time [n]? *)
Definition stopped_by (ts : option nat) (n : nat) : bool :=
  match ts with Some c => c <=? 2 * n | None => false end.

Definition omin (a b : option nat) : option nat :=
  match a, b with
  | Some x, Some y => Some (Nat.min x y)
  | Some x, None => Some x
  | None, y => y
  end.

(* the first script event for leaf [id] at a position >= t: its outcome and the time (position+1)
   at which it has been consumed *)
Fixpoint find_leaf (l : list sev) (id pos : nat) : option (outcome * nat) :=
  match l with
  | [] => None
  | EvLeaf id' o :: l' => if Nat.eqb id id' then Some (o, S pos) else find_leaf l' id (S pos)
  | EvStop :: l' => find_leaf l' id (S pos)
  end.
Definition first_leaf_event (script : list sev) (id t : nat) : dres :=
  find_leaf (skipn t script) id t.

(* a user callable applied to x: a value, or the error it throws *)
Definition fn_out (f : fn) (x : Z) : outcome :=
  match fn_apply f x with inl v => OVal v | inr e => OErr e end.

(* unary adaptors: the documented channel mapping *)
Definition un_out (k : ukind) (o : outcome) : outcome :=
  match k with
  | UThen f => match o with OVal v => fn_out f v | _ => o end
  | UUponErr f => match o with OErr e => fn_out f e | _ => o end
  | UUponDone f => match o with ODone => fn_out f 0%Z | _ => o end
  | UMat => OVal (enc o)
  | UDoneOpt => match o with ODone => OVal (-1)%Z | _ => o end
  | UWithQ _ _ => o
  | UUnstoppable => o
  end.

(* the stop time the child of a unary adaptor sees *)
Definition un_ts (k : ukind) (ts : option nat) : option nat :=
  match k with UUnstoppable => None | _ => ts end.

(* when_all / stop_when: does the completion of a child with [o] request stop on the algorithm's
   own source (when_all: an error or done; stop_when: any completion) *)
Definition triggers (k : bkind) (o : outcome) : bool :=
  match k, o with BWhenAll, OVal _ => false | _, _ => true end.

(* ... and the instant at which it does.  a is started first: when it triggers at time t, b sees
   the stop before anything it starts at time t (if a completed inline, b is started afterwards).
   When b triggers inline at the start time t0, a has already run its inline part. *)
Definition trig_a (k : bkind) (r : dres) : option nat :=
  match r with
  | Some (o, t) => if triggers k o then Some (2 * t) else None
  | None => None
  end.
Definition trig_b (k : bkind) (t0 : nat) (r : dres) : option nat :=
  match r with
  | Some (o, t) => if triggers k o then Some (if t =? t0 then 2 * t0 + 1 else 2 * t) else None
  | None => None
  end.

(* is it a's completion that requests the own source *)
Definition a_first (na nb : option nat) : bool :=
  match na, nb with
  | Some ca, Some cb => ca <=? cb
  | Some _, None => true
  | None, _ => false
  end.

(* The two children of when_all / stop_when, given their meanings as functions of the stop instant.
   Both see the algorithm's own source, requested when the receiver's token is (ts) or by the first
   triggering completion of a child.  That child ran undisturbed by the own source; its sibling is
   stopped at that instant.  Returns both results and whether a was the trigger. *)
Definition conc_sigma (k : bkind) (da db : option nat -> dres) (t0 : nat) (ts : option nat) : option nat :=
  omin ts (omin (trig_a k (da ts)) (trig_b k t0 (db ts))).
Definition conc_afirst (k : bkind) (da db : option nat -> dres) (t0 : nat) (ts : option nat) : bool :=
  a_first (trig_a k (da ts)) (trig_b k t0 (db ts)).
Definition conc_children (k : bkind) (da db : option nat -> dres) (t0 : nat) (ts : option nat) : dres * dres * bool :=
  let sigma := conc_sigma k da db t0 ts in
  let af := conc_afirst k da db t0 ts in
  (da (if af then ts else sigma), db (if af then sigma else ts), af).

Definition when_all_out (stopped afirst : bool) (oa ob : outcome) : outcome :=
  if stopped then ODone
  else match oa, ob with
       | OVal x, OVal y => OVal (combine x y)
       | OVal _, _ => ob
       | _, OVal _ => oa
       | _, _ => if afirst then oa else ob
       end.

Fixpoint denote (script : list sev) (e : sexpr) (bs : list Z) (t0 : nat) (ts : option nat) {struct e} : dres :=
  match e with
  | Just v => Some (OVal v, t0)
  | JustErr x => Some (OErr x, t0)
  | JustDone => Some (ODone, t0)
  | Var n => Some (OVal (nth n bs 0%Z), t0)
  | Leaf id => first_leaf_event script id t0           (* ignores stop *)
  | LeafN id =>                                        (* completes with done when stopped *)
      match ts with
      | None => first_leaf_event script id t0
      | Some c =>
          let s' := Nat.max (Nat.div2 c) t0 in
          match first_leaf_event script id t0 with
          | Some (o, t) => if t <? s' then Some (o, t) else Some (ODone, s')
          | None => Some (ODone, s')
          end
      end
  | Un k s =>
      match denote script s bs t0 (un_ts k ts) with
      | Some (o, t) => Some (un_out k o, t)
      | None => None
      end
  | Bin BLetV a b =>
      match denote script a bs t0 ts with
      | Some (OVal v, t1) => denote script b (v :: bs) t1 ts
      | r => r
      end
  | Bin BLetE a b =>
      match denote script a bs t0 ts with
      | Some (OErr x, t1) => denote script b (x :: bs) t1 ts
      | r => r
      end
  | Bin BLetD a b =>
      match denote script a bs t0 ts with
      | Some (ODone, t1) => denote script b bs t1 ts
      | r => r
      end
  | Bin BSeq a b =>
      match denote script a bs t0 ts with
      | Some (OVal _, t1) => denote script b bs t1 ts
      | r => r
      end
  | Bin BFinally a b =>
      match denote script a bs t0 ts with
      | Some (oa, t1) =>
          match denote script b bs t1 ts with
          | Some (OVal _, t2) => Some (oa, t2)
          | r => r
          end
      | None => None
      end
  | Bin BWhenAll a b =>
      match conc_children BWhenAll (denote script a bs t0) (denote script b bs t0) t0 ts with
      | (Some (oa, ta), Some (ob, tb), afirst) =>
          let t := Nat.max ta tb in
          Some (when_all_out (stopped_by ts t) afirst oa ob, t)
      | _ => None
      end
  | Bin BStopWhen a b =>
      match conc_children BStopWhen (denote script a bs t0) (denote script b bs t0) t0 ts with
      | (Some (oa, ta), Some (_, tb), _) => Some (oa, Nat.max ta tb)
      | _ => None
      end
  end.

(* ---- the user callables an operation invokes, with time stamps ------------------------------ *)

(* sequential kinds: the successor's bound values and the parked result, if a's outcome starts it *)
Definition seq_next (k : bkind) (bs : list Z) (oa : outcome) : option (list Z * option outcome) :=
  match k, oa with
  | BLetV, OVal v => Some (v :: bs, None)
  | BLetE, OErr x => Some (x :: bs, None)
  | BLetD, ODone => Some (bs, None)
  | BSeq, OVal _ => Some (bs, None)
  | BFinally, _ => Some (bs, Some oa)
  | _, _ => None
  end.

(* the callable a unary adaptor applies when its child completes with o *)
Definition un_call (k : ukind) (o : outcome) : list (fn * Z) :=
  match k with
  | UThen f => match o with OVal v => [(f, v)] | _ => [] end
  | UUponErr f => match o with OErr e => [(f, e)] | _ => [] end
  | UUponDone f => match o with ODone => [(f, 0%Z)] | _ => [] end
  | _ => []
  end.

(* an operation that completed before time n makes no calls at time n *)
Definition until (r : dres) (n : nat) (l : list (fn * Z)) : list (fn * Z) :=
  match r with Some (_, t) => if t <? n then [] else l | None => l end.

(* the applications (callable, argument) the operation e, started at t0, performs at time n, in order *)
Fixpoint calls_at (script : list sev) (e : sexpr) (bs : list Z) (t0 : nat) (ts : option nat) (n : nat)
         {struct e} : list (fn * Z) :=
  match e with
  | Un k s =>
      calls_at script s bs t0 (un_ts k ts) n ++
      match denote script s bs t0 (un_ts k ts) with
      | Some (o, t) => if t =? n then un_call k o else []
      | None => []
      end
  | Bin k a b =>
      if is_seq k then
        match denote script a bs t0 ts with
        | Some (oa, t1) =>
            (if t1 <? n then [] else calls_at script a bs t0 ts n) ++
            match seq_next k bs oa with
            | Some (bs', _) => if t1 <=? n then calls_at script b bs' t1 ts n else []
            | None => []
            end
        | None => calls_at script a bs t0 ts n
        end
      else
        let sg := conc_sigma k (denote script a bs t0) (denote script b bs t0) t0 ts in
        let af := conc_afirst k (denote script a bs t0) (denote script b bs t0) t0 ts in
        let pa := if af then ts else sg in
        let pb := if af then sg else ts in
        until (denote script a bs t0 pa) n (calls_at script a bs t0 pa n) ++
        until (denote script b bs t0 pb) n (calls_at script b bs t0 pb n)
  | _ => []
  end.

(* the applications recorded in a trace *)
Definition tcalls (tr : list tev) : list (fn * Z) :=
  flat_map (fun x => match x with TCall f v => [(f, v)] | _ => [] end) tr.
Definition calls_of (tr : list xev) : list (fn * Z) :=
  flat_map (fun x => match x with XT (TCall f v) => [(f, v)] | _ => [] end) tr.

(* the instant at which stop is requested on the root receiver's token *)
Fixpoint first_stop (l : list sev) (pos : nat) : option nat :=
  match l with
  | [] => None
  | EvStop :: _ => Some (2 * S pos)%nat
  | _ :: l' => first_stop l' (S pos)
  end.
Definition root_stop_time (prestopped : bool) (script : list sev) : option nat :=
  if prestopped then Some 0%nat else first_stop script 0.

Definition denote_root (script : list sev) (prestopped : bool) (e : sexpr) : dres :=
  denote script e [] 0 (root_stop_time prestopped script).

(* well-formedness conditions of the correspondence theorem *)
Fixpoint leaf_ids (e : sexpr) : list nat :=
  match e with
  | Leaf id | LeafN id => [id]
  | Un _ s => leaf_ids s
  | Bin _ a b => leaf_ids a ++ leaf_ids b
  | _ => []
  end.

Fixpoint no_leafn (e : sexpr) : bool :=
  match e with
  | LeafN _ => false
  | Un _ s => no_leafn s
  | Bin _ a b => no_leafn a && no_leafn b
  | _ => true
  end.

Definition stop_free (script : list sev) : bool :=
  forallb (fun ev => match ev with EvStop => false | _ => true end) script.

(* ---- vocabulary of the correspondence theorems (Calc/DenoteProofs.v) -------------------------- *)

(* has stop been requested (at instant [ts]) at instant [now]? *)
Definition stopped_now (ts : option nat) (now : nat) : bool :=
  match ts with Some c => c <=? now | None => false end.

(* has the operation completed by time n? *)
Definition done_by (r : dres) (n : nat) : bool :=
  match r with Some (_, t) => t <=? n | None => false end.

(* the part of a result that is known at time m *)
Definition by_time (r : dres) (m : nat) : dres :=
  match r with Some (o, t) => if t <=? m then r else None | None => None end.

(* instant c is later than x *)
Definition later (c : option nat) (x : nat) : Prop :=
  match c with Some c => x < c | None => True end.

(* the outcomes the root receiver was completed with in a run, in order *)
Fixpoint xroots (tr : list xev) : list outcome :=
  match tr with
  | [] => []
  | XRoot o _ :: tr' => o :: xroots tr'
  | _ :: tr' => xroots tr'
  end.

(* ---- a worked example (Properties_C05_calc.v) ------------------------------------------------- *)
(* finally (when_all (then l1 throw-if-5) (let_value l2 (then var0 (+10)))) l3 *)
Definition c05_ex_e : sexpr :=
  Bin BFinally
      (Bin BWhenAll (Un (UThen (FThrowIf 5 77)) (Leaf 1))
                    (Bin BLetV (Leaf 2) (Un (UThen (FAdd 10)) (Var 0))))
      (Leaf 3).
(* unknown leaf, a leaf that is not started yet, the SECOND leaf fails first, a duplicate, then the
   first leaf produces 5 and its callable throws 77 (too late: not the first failure), cleanup *)
Definition c05_ex_script1 : list sev :=
  [EvLeaf 9 (OVal 0); EvLeaf 3 (OVal 0); EvLeaf 2 (OErr 4); EvLeaf 2 (OVal 1); EvLeaf 1 (OVal 5);
   EvLeaf 3 (OVal 0)].
(* the first leaf's callable throws first; the second leaf's value then flows through let_value *)
Definition c05_ex_script2 : list sev :=
  [EvLeaf 1 (OVal 5); EvLeaf 2 (OVal 1); EvLeaf 3 (OVal 0)].
