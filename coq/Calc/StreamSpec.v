(* The independent specification of the stream calculus (C13): what each adaptor's DEFINITION
   prescribes, as plain list functions, and the projections of a run's trace the theorems speak about.
   No reference to the operational machine. *)
From Coq Require Import ZArith List Bool Arith.
From V Require Import Calc.StreamDefs.
Import ListNotations.
Import SCalc.
Local Open Scope Z_scope.

(* a, a+1, ..., a+n-1 *)
Fixpoint zrange (a : Z) (n : nat) : list Z :=
  match n with O => [] | S n' => a :: zrange (a + 1) n' end.

(* the values an outcome sequence carries before its first done / error *)
Fixpoint vals_until_term (h : list outcome) : list Z :=
  match h with OVal v :: t => v :: vals_until_term t | _ => [] end.

(* map f, ending where f throws *)
Fixpoint map_until (f : fn) (l : list Z) : list Z :=
  match l with
  | [] => []
  | x :: t => match fn_apply f x with inl y => y :: map_until f t | inr _ => [] end
  end.

(* keep the elements satisfying p, ending where p throws *)
Fixpoint filter_until (p : pred) (l : list Z) : list Z :=
  match l with
  | [] => []
  | x :: t => match pred_apply p x with
              | inl true => x :: filter_until p t
              | inl false => filter_until p t
              | inr _ => []
              end
  end.

(* [H id] = the outcomes the scripted source id produced, in order.
   range = a..b-1; single = the one value; a scripted source = what it produced up to its first
   done/error; never = nothing; transform = map; filter = filter; take_until, stop_immediately and
   type_erase never alter, reorder or add elements: they only end the sequence early (by stopping
   the source, which shows in H, or by dropping what arrives after the stop). *)
(* the elements of an adapted stream: then(f) maps, the scheduler adaptors change nothing *)
Definition adapt_elems (a : sadapt) (l : list Z) : list Z :=
  match a with AThen f => map_until f l | _ => l end.

Fixpoint sdenote (e : stexpr) (H : nat -> list outcome) : list Z :=
  match e with
  | SRange a b => zrange a (Z.to_nat (b - a))
  | SSingle v => [v]
  | SSrc id _ => vals_until_term (H id)
  | SNever => []
  | STransform f s => map_until f (sdenote s H)
  | SFilter p s => filter_until p (sdenote s H)
  | STakeUntil s _ _ => sdenote s H
  | SStopImm s => sdenote s H
  | STypeErase s => sdenote s H
  | SNextAdapt a s => adapt_elems a (sdenote s H)
  | SCleanupAdapt _ s => sdenote s H
  | SAdapt1 a s => adapt_elems a (sdenote s H)
  | SAdapt2 an _ s => adapt_elems an (sdenote s H)
  end.

(* the fold the consumer computes over the elements it was given; [inr e] = its function threw e *)
Fixpoint fold_until (c : cons) (acc : Z) (l : list Z) : Z + Z :=
  match l with
  | [] => inl acc
  | x :: t =>
      match c with
      | CReduce _ f => match rfn_apply f acc x with inl a' => fold_until c a' t | inr e => inr e end
      | CForEach g => match fn_apply g x with inl _ => fold_until c acc t | inr e => inr e end
      end
  end.

(* ---- projections of a trace ---------------------------------------------------------------------------- *)
Definition tevs (tr : list xev) : list tev :=
  flat_map (fun x => match x with XT t => [t] | _ => [] end) tr.
(* the elements handed to the consumer's function, in order *)
Definition feeds (tr : list xev) : list Z :=
  flat_map (fun x => match x with XFeed _ v => [v] | _ => [] end) tr.
(* the outcomes source id produced *)
Definition src_hist (tr : list xev) (id : nat) : list outcome :=
  flat_map (fun x => match x with XT (TNextDone i _ o) => if Nat.eqb i id then [o] else [] | _ => [] end) tr.
Definition roots (tr : list xev) : list outcome :=
  flat_map (fun x => match x with XRoot o => [o] | _ => [] end) tr.

(* ids: the scripted sources of a pipeline (bottom source and take_until triggers) *)
Fixpoint ids_of (e : stexpr) : list nat :=
  match e with
  | SSrc id _ => [id]
  | STransform _ s | SFilter _ s | SStopImm s | STypeErase s => ids_of s
  | SNextAdapt _ s | SCleanupAdapt _ s | SAdapt1 _ s | SAdapt2 _ _ s => ids_of s
  | STakeUntil s tid _ => tid :: ids_of s
  | _ => []
  end.
Definition wf_ids (e : stexpr) : Prop := NoDup (ids_of e).

(* pipelines in which nothing drops or replaces a signal: every run delivers the denotation exactly *)
Fixpoint lossless (e : stexpr) : bool :=
  match e with
  | SStopImm _ | SNever => false
  | STransform _ s | SFilter _ s | STypeErase s => lossless s
  | SNextAdapt _ s | SCleanupAdapt _ s | SAdapt1 _ s | SAdapt2 _ _ s => lossless s
  | STakeUntil s _ _ => lossless s
  | _ => true
  end.
