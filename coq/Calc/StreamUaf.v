(* The repaired model never emits TUaf (use of a destroyed operation state); the model of the code as
   written does: witnesses.  Also decidable equality on events, for counting. *)
From Coq Require Import ZArith List Bool Arith Lia.
From V Require Import Calc.StreamDefs Calc.StreamSpec Calc.StreamInv Calc.StreamTop.
Import ListNotations.
Import SCalc.
Local Open Scope Z_scope.

Definition outcome_eq_dec : forall a b : outcome, {a = b} + {a <> b}.
Proof. decide equality; apply Z.eq_dec. Defined.
Definition fn_eq_dec : forall a b : fn, {a = b} + {a <> b}.
Proof. decide equality; apply Z.eq_dec. Defined.
Definition pred_eq_dec : forall a b : pred, {a = b} + {a <> b}.
Proof. decide equality; apply Z.eq_dec. Defined.
Definition tev_eq_dec : forall a b : tev, {a = b} + {a <> b}.
Proof.
  decide equality; try apply Nat.eq_dec; try apply Z.eq_dec; try apply Bool.bool_dec;
    try apply outcome_eq_dec; try apply fn_eq_dec; try apply pred_eq_dec.
Defined.

Definition nouaf (evs : list tev) : Prop := forall k, ~ In (TUaf k) evs.

Lemma nouaf_nil : nouaf []. Proof. intros k []. Qed.
Lemma nouaf_app : forall a b, nouaf a -> nouaf b -> nouaf (a ++ b).
Proof. intros a b Ha Hb k Hin. apply in_app_or in Hin. destruct Hin; [eapply Ha|eapply Hb]; eauto. Qed.
Lemma nouaf_cons : forall t l, (forall k, t <> TUaf k) -> nouaf l -> nouaf (t :: l).
Proof. intros t l Ht Hl k [E|Hin]. eapply Ht; eauto. eapply Hl; eauto. Qed.
Lemma nouaf_fire : forall en, nouaf (fire_ev en).
Proof. intros en. unfold fire_ev. destruct (fires en); [apply nouaf_cons; [discriminate|]|]; apply nouaf_nil. Qed.
Lemma nouaf_opdel : forall ow, nouaf (opdel ow).
Proof. intros [i|]; simpl; [apply nouaf_cons; [discriminate|]|]; apply nouaf_nil. Qed.

#[local] Hint Resolve nouaf_nil nouaf_app nouaf_fire nouaf_opdel : nu.

(* all five entry points *)
Record nu (I : ops) : Prop := {
  nu_next : forall st en, nouaf (r_ev (o_next I st en));
  nu_clean : forall st, nouaf (r_ev (o_clean I st));
  nu_stop : forall st, nouaf (r_ev (o_stop I st));
  nu_leaf : forall st tg o, nouaf (r_ev (fst (o_leaf I st tg o)));
  nu_flush : forall st, nouaf (r_ev (o_flush I st)) }.
Record nur (J : rops) : Prop := {
  nr_next : forall b en, nouaf (b_ev (ro_next J b en));
  nr_clean : forall b, nouaf (b_ev (ro_clean J b));
  nr_stop : forall b, nouaf (b_ev (ro_stop J b));
  nr_leaf : forall b tg o, nouaf (b_ev (fst (ro_leaf J b tg o)));
  nr_flush : forall b, nouaf (b_ev (ro_flush J b)) }.

Lemma wrap_nu : forall J, nur J -> nu (wrap J).
Proof.
  intros J [H1 H2 H3 H4 H5]. constructor; intros; destruct st as [h pm b]; simpl; auto.
  specialize (H4 b tg o). destruct (ro_leaf J b tg o); simpl in *; auto.
Qed.

Ltac one := first
  [ apply nouaf_nil | apply nouaf_fire | apply nouaf_opdel
  | apply nouaf_app | apply nouaf_cons; [discriminate|] | assumption ].

Ltac brk := repeat match goal with
  | |- context [if ?b then _ else _] => destruct b
  end.

(* ---- sources ------------------------------------------------------------------------------------------------ *)
Lemma src_next_nu : forall id r s en, nouaf (snd (fst (src_next id r s en))).
Proof. intros. unfold src_next. destruct (runs_inline en); [destruct r|]; simpl; repeat one. Qed.
Lemma src_stop_nu : forall id r s, nouaf (snd (fst (src_stop id r s))).
Proof. intros. unfold src_stop. destruct (s_out s && negb (s_seen s)); [destruct r|]; simpl; repeat one. Qed.
Lemma src_complete_nu : forall id s o, nouaf (snd (fst (fst (src_complete id s o)))).
Proof. intros. unfold src_complete. destruct (s_out s); simpl; repeat one. Qed.
Lemma src_cleanup_nu : forall id s, nouaf (snd (src_cleanup id s)).
Proof. intros. unfold src_cleanup. simpl. repeat one. Qed.
Lemma src_cleanup_complete_nu : forall id s o, nouaf (snd (fst (fst (src_cleanup_complete id s o)))).
Proof. intros. unfold src_cleanup_complete. destruct (Nat.eqb (s_cl s) 1); simpl; repeat one. Qed.

Lemma range_nu : forall a b, nur (range_ops a b).
Proof. intros. constructor; intros; simpl; try apply nouaf_nil. destruct b0; simpl; try apply nouaf_nil. destruct (pos <? b); apply nouaf_nil. Qed.
Lemma single_nu : forall v, nur (single_ops v).
Proof. intros. constructor; intros; simpl; try apply nouaf_nil. destruct b; simpl; try apply nouaf_nil. destruct used; apply nouaf_nil. Qed.
Lemma never_nu : nur never_ops.
Proof.
  constructor; intros; simpl; try apply nouaf_nil.
  - destruct b; simpl; try apply nouaf_nil. brk; simpl; repeat one.
  - destruct b; simpl; try apply nouaf_nil. destruct active; apply nouaf_nil.
Qed.
Lemma src_nu : forall id r, nur (src_ops id r).
Proof.
  intros. constructor; intros; simpl; destruct b; simpl; try apply nouaf_nil.
  - pose proof (src_next_nu id r s en). destruct (src_next id r s en) as [[? ?] ?]; auto.
  - repeat one.
  - pose proof (src_stop_nu id r s). destruct (src_stop id r s) as [[? ?] ?]; auto.
  - destruct tg; destruct (Nat.eqb id0 id); simpl; try apply nouaf_nil.
    + pose proof (src_complete_nu id s o). destruct (src_complete id s o) as [[[? ?] ?] ?]; auto.
    + pose proof (src_cleanup_complete_nu id s o). destruct (src_cleanup_complete id s o) as [[[? ?] ?] ?]; auto.
Qed.

(* ---- transform / filter ------------------------------------------------------------------------------------- *)
Lemma tr_wrap_nu : forall f r, nouaf (r_ev r) -> nouaf (b_ev (tr_wrap f r)).
Proof.
  intros f r H. unfold tr_wrap. destruct (r_out r) as [[[] o]|]; simpl; auto.
  destruct o; simpl; repeat one.
Qed.
Lemma tr_nu : forall f I, nu I -> nur (tr_ops f I).
Proof.
  intros f I [H1 H2 H3 H4 H5]. constructor; intros; simpl; destruct b; simpl; try apply nouaf_nil;
    destruct k; simpl; try apply nouaf_nil; try (apply tr_wrap_nu; auto).
  specialize (H4 inner tg o). destruct (o_leaf I inner tg o); simpl in *. apply tr_wrap_nu; auto.
Qed.

Lemma ad_wrap_nu : forall an ac ow pre r, nouaf pre -> nouaf (r_ev r) -> nouaf (b_ev (ad_wrap an ac ow pre r)).
Proof.
  intros an ac ow pre r Hp H. unfold ad_wrap. destruct (r_out r) as [[[] o]|]; simpl; repeat one.
  - destruct an; simpl; repeat one. destruct o; simpl; repeat one.
  - destruct ac; simpl; repeat one.
Qed.
Lemma ad_pre_nu : forall a, nouaf (ad_pre a).
Proof. destruct a; simpl; repeat one. Qed.
Lemma ad_nu : forall an ac I, nu I -> nur (ad_ops an ac I).
Proof.
  intros an ac I [H1 H2 H3 H4 H5]. constructor; intros; simpl; destruct b; simpl; try apply nouaf_nil;
    destruct k; simpl; try apply nouaf_nil; try (apply ad_wrap_nu; auto; try apply ad_pre_nu; apply nouaf_nil).
  specialize (H4 inner tg o). destruct (o_leaf I inner tg o); simpl in *. apply ad_wrap_nu; auto. apply nouaf_nil.
Qed.

Lemma fi_loop_nu : forall p I, nu I -> forall fuel fs r, nouaf (r_ev r) -> nouaf (b_ev (fi_loop p I fuel fs r)).
Proof.
  intros p I HI. induction fuel; intros fs r Hr; simpl;
    destruct (r_out r) as [[[] o]|]; simpl; auto; destruct o; simpl; auto;
    destruct (pred_apply p v) as [[|]|]; simpl; repeat one.
  apply IHfuel. apply (nu_next _ HI).
Qed.
Lemma fi_nu : forall p I, nu I -> nur (fi_ops p I).
Proof.
  intros p I HI. constructor; intros; simpl; destruct b; simpl; try apply nouaf_nil;
    destruct k; simpl; try apply nouaf_nil; unfold fi_wrap; try (apply fi_loop_nu; auto; apply HI).
  pose proof (nu_leaf _ HI inner tg o) as H. destruct (o_leaf I inner tg o) as [r hit]. cbv beta iota. cbn [fst] in *. apply fi_loop_nu; auto.
Qed.

(* ---- stop_immediately (repaired) ----------------------------------------------------------------------------- *)
Lemma si_cleanup_done_nu : forall I s si ev oc fired, nouaf ev ->
  nouaf (b_ev (si_cleanup_done fixed I s si ev oc fired)).
Proof.
  intros. unfold si_cleanup_done. simpl. rewrite andb_false_r. repeat one;
    destruct oc; try apply nouaf_nil; destruct (si_err s); apply nouaf_nil.
Qed.

Local Opaque si_cleanup_done.

Lemma si_signal_nu : forall I s si ev o fired, nu I -> nouaf ev ->
  nouaf (b_ev (si_signal fixed I s si ev o fired)).
Proof.
  intros I s si ev o fired HI H. unfold si_signal. destruct (si_state s); simpl; auto.
  - apply nouaf_app; auto. apply HI.
  - destruct (r_out (o_clean I si)) as [[[] oc]|]; simpl; try (apply nouaf_app; auto; apply HI).
    apply si_cleanup_done_nu. apply nouaf_app; auto. apply HI.
Qed.

Local Opaque si_signal.

Lemma si_inner_nu : forall I s r, nu I -> nouaf (r_ev r) -> nouaf (b_ev (si_inner fixed I s r)).
Proof.
  intros I s r HI H. unfold si_inner. destruct (r_out r) as [[[] o]|]; simpl; auto.
  - apply si_signal_nu; auto.
  - apply si_cleanup_done_nu; auto.
Qed.

Local Opaque si_inner.

Lemma si_nu : forall I, nu I -> nur (si_ops fixed I).
Proof.
  intros I HI. constructor; intros; simpl; destruct b; simpl; try apply nouaf_nil;
    destruct k; simpl; try apply nouaf_nil.
  - destruct (e_stopped en); simpl; [apply nouaf_nil|]. destruct (e_armed en); simpl; [repeat one|].
    apply si_inner_nu; auto. apply HI.
  - destruct (si_state s); simpl; try apply nouaf_nil. apply si_inner_nu; auto. apply HI.
  - destruct (si_state s); simpl; try apply nouaf_nil. apply si_inner_nu; auto. apply HI.
  - pose proof (nu_leaf _ HI inner tg o) as H. destruct (o_leaf I inner tg o) as [r hit]. simpl in *.
    apply si_inner_nu; auto.
  - pose proof (si_inner_nu I s (o_flush I inner) HI (nu_flush _ HI inner)) as H1.
    destruct (b_st (si_inner fixed I s (o_flush I inner))) as [| | | |k1 si1]; auto.
    destruct k1; auto. destruct (si_defer s0); auto. simpl.
    apply nouaf_app; auto. apply si_inner_nu; auto. apply HI.
Qed.

(* ---- type_erase (repaired) ----------------------------------------------------------------------------------- *)
Lemma te_inner_nu : forall I t r, nouaf (r_ev r) -> nouaf (b_ev (te_inner fixed I t r)).
Proof.
  intros I t r H. unfold te_inner. simpl. destruct (r_out r) as [[[] o]|]; simpl; auto.
  - destruct (Nat.eqb (Nat.pred (te_ref t)) 0); simpl; rewrite app_nil_r; auto.
  - rewrite app_nil_r. repeat one.
Qed.

Local Opaque te_inner.

Lemma te_nu : forall I, nu I -> nur (te_ops fixed I).
Proof.
  intros I HI. constructor; intros; simpl; destruct b; simpl; try apply nouaf_nil;
    destruct k; simpl; try apply nouaf_nil.
  - apply nouaf_app. apply nouaf_fire. apply te_inner_nu. apply HI.
  - apply te_inner_nu. apply HI.
  - destruct (te_out s); simpl; try apply nouaf_nil.
    destruct (r_out (o_stop I inner)) as [[[] o]|]; simpl;
      match goal with |- context [if ?c then _ else _] => destruct c end; simpl;
      try (apply nouaf_app); try apply HI.
  - pose proof (nu_leaf _ HI inner tg o) as H. destruct (o_leaf I inner tg o) as [r hit]. simpl in *.
    apply te_inner_nu; auto.
  - apply te_inner_nu. apply HI.
Qed.

(* ---- take_until ------------------------------------------------------------------------------------------------ *)
Lemma tu_start_tclean_nu : forall tid u, nouaf (snd (tu_start_tclean tid u)).
Proof. intros. unfold tu_start_tclean, src_cleanup. simpl. repeat one. Qed.
Lemma tu_trig_cont_nu : forall tid u, nouaf (snd (tu_trig_cont tid u)).
Proof. intros. unfold tu_trig_cont. destruct (tu_ready u). apply tu_start_tclean_nu. apply nouaf_nil. Qed.
Lemma tu_trig_cb_nu : forall tid tr u, nouaf (snd (tu_trig_cb tid tr u)).
Proof.
  intros. unfold tu_trig_cb. pose proof (src_stop_nu tid tr (tu_trig u)).
  destruct (src_stop tid tr (tu_trig u)) as [[s' ev] c]. simpl in *. destruct c; simpl; auto.
  pose proof (tu_trig_cont_nu tid (tu_set_trig u s')). destruct (tu_trig_cont tid (tu_set_trig u s')). simpl in *.
  apply nouaf_app; auto.
Qed.
Lemma tu_stop_trig_nu : forall tid tr u, nouaf (snd (tu_stop_trig tid tr u)).
Proof. intros. unfold tu_stop_trig. destruct (tu_own u). apply nouaf_nil. apply tu_trig_cb_nu. Qed.

Local Opaque tu_stop_trig tu_trig_cb tu_trig_cont tu_start_tclean.

Lemma tu_inner_core_nu : forall I tid tr u r, nouaf (r_ev r) -> nouaf (snd (fst (tu_inner_core I tid tr u r))).
Proof.
  intros I tid tr u r H. unfold tu_inner_core. destruct (r_out r) as [[[] o]|]; simpl; auto.
  - destruct o; simpl; try (rewrite app_nil_r; auto);
      pose proof (tu_stop_trig_nu tid tr (tu_set_out u false)) as H2;
      destruct (tu_stop_trig tid tr (tu_set_out u false)); simpl in *; apply nouaf_app; auto.
  - destruct (tu_join_source u (clean_outcome o)). simpl. repeat one.
Qed.
Lemma tu_inner_nu : forall I tid tr u r, nouaf (r_ev r) -> nouaf (b_ev (tu_inner I tid tr u r)).
Proof.
  intros I tid tr u r H. unfold tu_inner. pose proof (tu_inner_core_nu I tid tr u r H) as H2.
  destruct (tu_inner_core I tid tr u r) as [[u1 ev] out]. simpl in *. auto.
Qed.

Local Opaque tu_inner_core tu_inner.

Ltac rev_ok HI := first [assumption | apply (nu_next _ HI) | apply (nu_clean _ HI) | apply (nu_stop _ HI) | apply (nu_flush _ HI)].

Ltac step HI :=
  match goal with
  | |- context [src_next ?a ?b ?c ?d] =>
      let H := fresh "Hs" in pose proof (src_next_nu a b c d) as H; destruct (src_next a b c d) as [[? ?] ?]; simpl in H
  | |- context [src_complete ?a ?b ?c] =>
      let H := fresh "Hs" in pose proof (src_complete_nu a b c) as H; destruct (src_complete a b c) as [[[? ?] ?] ?]; simpl in H
  | |- context [src_cleanup_complete ?a ?b ?c] =>
      let H := fresh "Hs" in pose proof (src_cleanup_complete_nu a b c) as H; destruct (src_cleanup_complete a b c) as [[[? ?] ?] ?]; simpl in H
  | |- context [tu_inner_core ?a ?b ?c ?d ?r] =>
      let H := fresh "Hs" in
      assert (H : nouaf (snd (fst (tu_inner_core a b c d r)))) by (apply tu_inner_core_nu; rev_ok HI);
      destruct (tu_inner_core a b c d r) as [[? ?] ?]; simpl in H
  | |- context [tu_trig_cont ?a ?b] =>
      let H := fresh "Hs" in pose proof (tu_trig_cont_nu a b) as H; destruct (tu_trig_cont a b) as [? ?]; simpl in H
  | |- context [tu_trig_cb ?a ?b ?c] =>
      let H := fresh "Hs" in pose proof (tu_trig_cb_nu a b c) as H; destruct (tu_trig_cb a b c) as [? ?]; simpl in H
  | |- context [tu_stop_trig ?a ?b ?c] =>
      let H := fresh "Hs" in pose proof (tu_stop_trig_nu a b c) as H; destruct (tu_stop_trig a b c) as [? ?]; simpl in H
  | |- context [tu_start_tclean ?a ?b] =>
      let H := fresh "Hs" in pose proof (tu_start_tclean_nu a b) as H; destruct (tu_start_tclean a b) as [? ?]; simpl in H
  | |- context [tu_join_trigger ?a ?b] => destruct (tu_join_trigger a b) as [? ?]
  | |- context [if ?b then _ else _] => destruct b
  | |- context [match ?x with Some _ => _ | None => _ end] => destruct x
  | |- context [match ?x with OVal _ => _ | OErr _ => _ | ODone => _ end] => destruct x
  | |- context [match tu_defer ?u with _ => _ end] => destruct (tu_defer u) as [|[|[|?]]]
  end; simpl.

Ltac fin_nu HI :=
  repeat first [ apply nouaf_nil | apply nouaf_fire | apply nouaf_opdel | assumption
               | apply tu_inner_nu; rev_ok HI | rev_ok HI
               | apply nouaf_app | apply nouaf_cons; [discriminate|] ].

Lemma tu_nu : forall vr tid tr I, nu I -> nur (tu_ops vr tid tr I).
Proof.
  intros vr tid tr I HI. constructor; intros; simpl; destruct b; simpl; try apply nouaf_nil;
    destruct k; simpl; try apply nouaf_nil.
  - repeat step HI; fin_nu HI.
  - repeat step HI; fin_nu HI.
  - repeat step HI; fin_nu HI.
  - destruct tg as [i|i]; destruct (Nat.eqb i tid); simpl.
    + repeat step HI; fin_nu HI.
    + pose proof (nu_leaf _ HI inner (TgNext i) o) as H. destruct (o_leaf I inner (TgNext i) o) as [r hit]. simpl in *.
      apply tu_inner_nu; auto.
    + repeat step HI; fin_nu HI.
    + pose proof (nu_leaf _ HI inner (TgClean i) o) as H. destruct (o_leaf I inner (TgClean i) o) as [r hit]. simpl in *.
      apply tu_inner_nu; auto.
  - repeat step HI; fin_nu HI.
Qed.

(* ---- every pipeline of the repaired model -------------------------------------------------------------------- *)
Lemma ops_nu : forall e, nu (ops_of fixed e).
Proof.
  induction e; simpl; apply wrap_nu.
  - apply range_nu. - apply single_nu. - apply src_nu. - apply never_nu.
  - apply tr_nu; auto. - apply fi_nu; auto. - apply tu_nu; auto. - apply si_nu; auto. - apply te_nu; auto.
  - apply ad_nu; auto. - apply ad_nu; auto. - apply ad_nu; auto. - apply ad_nu; auto.
Qed.

(* ---- whole runs -------------------------------------------------------------------------------------------------- *)
Section RunsNu.
Variables (c : cons) (I : ops).
Hypothesis HI : nu I.

Definition tnu (rs : rstate) : Prop := nouaf (tevs (x_tr rs)).

Lemma absorb_nu : forall rs r, tnu rs -> nouaf (r_ev r) -> tnu (x_absorb rs r).
Proof. intros rs r H Hr. unfold tnu, x_absorb. simpl. rewrite tevs_app, tevs_XT. apply nouaf_app; auto. Qed.

Lemma finish_nu : forall rs pend oc, tnu rs -> tnu (x_finish I rs pend oc).
Proof.
  intros rs pend oc H. unfold tnu, x_finish. simpl. rewrite !tevs_app, tevs_XT. simpl. rewrite app_nil_r.
  apply nouaf_app; auto. apply nouaf_opdel.
Qed.

Lemma cleanup_nu : forall rs pend, tnu rs -> tnu (x_cleanup I rs pend).
Proof.
  intros rs pend H. unfold x_cleanup.
  assert (Ha : tnu (x_absorb rs (o_clean I (x_st rs)))) by (apply absorb_nu; auto; apply HI).
  destruct (r_out (o_clean I (x_st rs))) as [[[] o]|]; auto. apply finish_nu; auto.
Qed.

Lemma push_feed_nu : forall rs a v, tnu rs -> tnu (x_push rs [XFeed a v]).
Proof. intros. unfold tnu, x_push. simpl. rewrite tevs_app. simpl. rewrite app_nil_r. auto. Qed.

Lemma pump_nu : forall fuel rs r, tnu rs -> nouaf (r_ev r) -> tnu (pump fuel c I rs r).
Proof.
  induction fuel; intros rs r H Hr; simpl;
    pose proof (absorb_nu rs r H Hr) as Ha;
    (destruct (r_out r) as [[[] o]|]; [destruct o| |]); destruct (x_ph rs);
    try exact Ha; try (apply finish_nu; exact Ha); try (apply cleanup_nu; exact Ha).
  - destruct (feed c (x_acc rs) v) as [ev y] eqn:Ef. destruct (feed_ev c (x_acc rs) v) as [a Ea]. rewrite Ef in Ea. simpl in Ea. subst ev.
    pose proof (push_feed_nu _ a v Ha) as Hp.
    destruct y; [exact Hp|apply cleanup_nu; exact Hp].
  - destruct (feed c (x_acc rs) v) as [ev y] eqn:Ef. destruct (feed_ev c (x_acc rs) v) as [a Ea]. rewrite Ef in Ea. simpl in Ea. subst ev.
    pose proof (push_feed_nu _ a v Ha) as Hp.
    destruct y; [|apply cleanup_nu; exact Hp]. apply IHfuel; [exact Hp|apply HI].
Qed.

Lemma settle_nu : forall rs r, tnu rs -> nouaf (r_ev r) -> tnu (x_settle c I rs r).
Proof. intros. unfold x_settle, x_pump. apply pump_nu. apply pump_nu; auto. apply HI. Qed.
End RunsNu.

Lemma run_ev_nu : forall c e rs ev, tnu rs -> tnu (run_ev fixed c e rs ev).
Proof.
  intros c e rs ev Hs. assert (HI : nu (ops_of fixed e)) by apply ops_nu.
  assert (Hsk : tnu (x_push rs [XSkip])).
  { unfold tnu, x_push. simpl. rewrite tevs_app. simpl. rewrite app_nil_r. auto. }
  destruct ev; simpl.
  - pose proof (nu_leaf _ HI (x_st rs) (TgNext id) o) as Hl. destruct (o_leaf (ops_of fixed e) (x_st rs) (TgNext id) o) as [r hit].
    destruct hit; [apply settle_nu; auto|auto].
  - pose proof (nu_leaf _ HI (x_st rs) (TgClean id) o) as Hl. destruct (o_leaf (ops_of fixed e) (x_st rs) (TgClean id) o) as [r hit].
    destruct hit; [apply settle_nu; auto|auto].
  - destruct (x_stopped rs); auto. destruct (x_ph rs); auto. apply settle_nu; auto. apply HI.
  - destruct (x_stopped rs || x_armed rs); auto.
Qed.

Lemma exec_nu : forall c e pre script, tnu (exec fixed c e pre script).
Proof.
  intros c e pre script. unfold exec.
  assert (Hs : tnu (run_start fixed c e pre)).
  { unfold run_start. apply settle_nu. apply ops_nu. intros k0 []. apply ops_nu. }
  revert Hs. generalize (run_start fixed c e pre). induction script as [|ev script IH]; intros rs Hs; simpl; auto.
  apply IH. apply run_ev_nu; auto.
Qed.

Theorem fixed_no_uaf : forall c e pre script k, ~ In (XT (TUaf k)) (x_tr (exec fixed c e pre script)).
Proof.
  intros c e pre script k Hin. apply (exec_nu c e pre script k).
  induction (x_tr (exec fixed c e pre script)) as [|x l IH]; simpl in *; [tauto|].
  destruct Hin as [->|Hin]; simpl; auto. destruct x; simpl; auto.
Qed.

(* ---- the code as written: witnesses ------------------------------------------------------------------------------- *)
Lemma si_start_uaf_as_written : exists c e pre script, In (XT (TUaf 0)) (x_tr (exec as_written c e pre script)).
Proof.
  exists (CReduce 0 RSum), (SStopImm (SSrc 0 false)), 2%nat, [EvNext 0 (OVal 1); EvClean 0 ODone].
  vm_compute. tauto.
Qed.

Lemma si_cleanup_error_uaf_as_written : exists c e pre script, In (XT (TUaf 1)) (x_tr (exec as_written c e pre script)).
Proof.
  exists (CReduce 0 RSum), (SStopImm (STakeUntil (SSrc 0 true) 1 true)), 0%nat,
    [EvNext 0 ODone; EvClean 0 (OErr 47); EvClean 1 (OErr 40)].
  vm_compute. tauto.
Qed.

Lemma te_wrapper_uaf_as_written : exists c e pre script, In (XT (TUaf 2)) (x_tr (exec as_written c e pre script)).
Proof.
  exists (CReduce 0 RSum), (STypeErase (SRange 1 2)), 0%nat, []. vm_compute. tauto.
Qed.

Lemma tu_opdel_as_written : exists c e pre script,
  count_occ tev_eq_dec (tevs (x_tr (exec as_written c e pre script))) (TOpDel 0) = 2%nat /\
  count_occ tev_eq_dec (tevs (x_tr (exec as_written c e pre script))) (TOpDel 1) = 0%nat /\
  In (XT (TCleanupDone 1 ODone)) (x_tr (exec as_written c e pre script)).
Proof.
  exists (CReduce 0 RSum), (STakeUntil (SSrc 0 true) 1 true), 0%nat,
    [EvNext 0 (OVal 1); EvNext 1 (OVal 0); EvClean 0 ODone; EvClean 1 ODone].
  vm_compute. repeat split; auto. tauto.
Qed.

(* ---- finding 2, repaired: the trigger's cleanup operation is the one destroyed when it completes ----------- *)
Lemma tu_trigger_cleanup_opdel : forall vr tid tr I u si o s' ev oc,
  src_cleanup_complete tid (tu_trig u) o = (s', ev, Some oc, true) ->
  b_ev (fst (ro_leaf (tu_ops vr tid tr I) (BUn (KTU u) si) (TgClean tid) o)) =
    [TCleanupDone tid oc] ++
    (match oc with
     | ODone => if v_tu_fixed vr then [TOpDel tid] else opdel (o_owner I)
     | _ => [TOpDel tid]
     end).
Proof.
  intros vr tid tr I u si o s' ev oc E. simpl. rewrite Nat.eqb_refl.
  assert (Ev : ev = [TCleanupDone tid oc]).
  { unfold src_cleanup_complete in E. destruct (Nat.eqb (s_cl (tu_trig u)) 1); inversion E; subst; reflexivity. }
  rewrite E. destruct (tu_join_trigger (tu_set_trig u s') oc). simpl. rewrite Ev. reflexivity.
Qed.
