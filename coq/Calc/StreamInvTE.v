(* type_erase (type_erased_stream.hpp) preserves [spec]. *)
From Coq Require Import ZArith List Bool Arith Lia.
From V Require Import Calc.StreamDefs Calc.StreamSpec Calc.StreamInv Calc.StreamInvTr.
Import ListNotations.
Import SCalc.

(* the parent-side mode and history are exactly the child's; the reference count of the type-erased
   next-operation is 1 exactly while a next is outstanding (and 0, with no operation alive, otherwise) *)
Definition G_te (G : sst -> Prop) (st : sst) : Prop :=
  match st with
  | Node h pm (BUn (KTE t) si) =>
      pm = pm_of si /\ pm <> PBad /\
      (pm = PBusy -> te_out t = true /\ te_ref t = 1%nat) /\
      (pm <> PBusy -> te_out t = false /\ te_ref t = 0%nat) /\
      h = hist_of si /\ G si
  | _ => False
  end.

Lemma G_te_hist : forall G st, G_te G st ->
  exists t si, body_of st = BUn (KTE t) si /\ hist_of st = hist_of si /\ G si.
Proof.
  intros G [h pm bd] H. destruct bd; simpl in H; try tauto. destruct k; try tauto.
  destruct H as (_ & _ & _ & _ & Hh & HG). exists s, inner. simpl. auto.
Qed.

(* what type_erase makes of the child's completion (when it delivers it) *)
Definition te_o (out : option (opk * outcome)) : option (opk * outcome) :=
  match out with Some (KC, oc) => Some (KC, clean_outcome oc) | x => x end.

Lemma te_o_kn : forall out, kn (te_o out) = kn out.
Proof. intros [[[] o]|]; reflexivity. Qed.
Lemma te_o_next : forall pm out, pm_next pm (te_o out) = pm_next pm out.
Proof. intros pm [[[] o]|]; reflexivity. Qed.
Lemma te_o_clean : forall pm out, pm_clean pm (te_o out) = pm_clean pm out.
Proof. intros pm [[[] o]|]; reflexivity. Qed.
Lemma te_o_other : forall pm out, pm_other pm (te_o out) = pm_other pm out.
Proof. intros pm [[[] o]|]; reflexivity. Qed.

Lemma te_inner_facts : forall vr I t r,
  (forall o, r_out r = Some (KN, o) -> te_ref t = 1%nat) ->
  b_out (te_inner vr I t r) = te_o (r_out r) /\
  (exists t', b_st (te_inner vr I t r) = te_b t' (r_st r) /\
     (r_out r = None -> t' = t) /\
     (forall o, r_out r = Some (KN, o) -> te_out t' = false /\ te_ref t' = 0%nat) /\
     (forall oc, r_out r = Some (KC, oc) -> t' = t)) /\
  (exists ev2, b_ev (te_inner vr I t r) = r_ev r ++ ev2 /\ forall x, In x ev2 -> ev_id x = None).
Proof.
  intros vr I t r Href. unfold te_inner. destruct (r_out r) as [[[] o]|] eqn:E.
  - rewrite (Href o eq_refl). simpl. split; [reflexivity|]. split.
    + eexists. split; [reflexivity|]. repeat split; simpl; auto; congruence.
    + eexists. split; [reflexivity|]. intros x Hin. destruct (v_te_fixed vr); simpl in Hin; intuition; subst; reflexivity.
  - simpl. split; [reflexivity|]. split.
    + exists t. split; [reflexivity|]. repeat split; auto; congruence.
    + eexists. split; [reflexivity|]. intros x Hin. apply in_app_or in Hin. destruct Hin as [Hin|Hin].
      * destruct (o_owner I); simpl in Hin; intuition; subst; reflexivity.
      * destruct (v_te_fixed vr); simpl in Hin; intuition; subst; reflexivity.
  - simpl. split; [reflexivity|]. split.
    + exists t. split; [reflexivity|]. repeat split; auto; congruence.
    + exists []. rewrite app_nil_r. split; auto. intros x [].
Qed.

Local Opaque te_inner.

(* what every entry point that goes through te_inner does with the result r of the child's entry
   point started in child state si; pm' is the child's new mode *)
Lemma te_step : forall vr I G ms ids si r h t pm',
  ok G ms ids si r ->
  hist_of (r_st r) = hist_of si ++ kn (r_out r) ->
  pm_of (r_st r) = pm' -> pm' <> PBad ->
  h = hist_of si ->
  (forall o, r_out r = Some (KN, o) -> te_ref t = 1%nat /\ pm' <> PBusy) ->
  (r_out r = None -> (pm' = PBusy -> te_out t = true /\ te_ref t = 1%nat) /\
                     (pm' <> PBusy -> te_out t = false /\ te_ref t = 0%nat)) ->
  (forall oc, r_out r = Some (KC, oc) -> pm' <> PBusy /\ te_out t = false /\ te_ref t = 0%nat) ->
  b_out (te_inner vr I t r) = te_o (r_out r) /\
  (exists t', b_st (te_inner vr I t r) = te_b t' (r_st r)) /\
  G_te G (Node (h ++ kn (b_out (te_inner vr I t r))) pm' (b_st (te_inner vr I t r))) /\
  (forall id, mrun id (ms si id) (b_ev (te_inner vr I t r)) =
              Some (ms_un ms (Node (h ++ kn (b_out (te_inner vr I t r))) pm' (b_st (te_inner vr I t r))) id)) /\
  only_ids ids (b_ev (te_inner vr I t r)).
Proof.
  intros vr I G ms ids si r h t pm' (HG & Hm & Hi) Hh Hp Hb Hh0 Hkn Hnone Hkc.
  destruct (te_inner_facts vr I t r) as (Ho & (t' & Hs & Tn & Tkn & Tkc) & (ev2 & He & Hn)).
  { intros o E. apply (Hkn o E). }
  rewrite Ho, Hs, He, te_o_kn. split; [reflexivity|]. split; [eauto|]. unfold te_b. simpl. split; [|split].
  - split; [congruence|]. split; [assumption|].
    assert (Ht : (pm' = PBusy -> te_out t' = true /\ te_ref t' = 1%nat) /\
                 (pm' <> PBusy -> te_out t' = false /\ te_ref t' = 0%nat)).
    { destruct (r_out r) as [[[] o]|] eqn:E.
      - destruct (Hkn o eq_refl) as [_ Hnb]. destruct (Tkn o eq_refl) as [T1 T2]. split; [tauto|auto].
      - destruct (Hkc o eq_refl) as (Hnb & T1 & T2). rewrite (Tkc o eq_refl). split; [tauto|auto].
      - rewrite (Tn eq_refl). apply Hnone; reflexivity. }
    destruct Ht as [Ht1 Ht2]. split; [assumption|]. split; [assumption|]. split; [congruence|assumption].
  - intros id. eapply mrun_app_some. apply Hm. apply mrun_noid; auto.
  - apply only_ids_app; auto. apply only_ids_noid; auto.
Qed.

(* leaf / flush: the child's entry point is called in any state *)
Lemma te_other : forall vr I G ms ids si r h pm t,
  G_te G (Node h pm (te_b t si)) ->
  ok G ms ids si r ->
  hist_of (r_st r) = hist_of si ++ kn (r_out r) ->
  pm_of (r_st r) = pm_other (pm_of si) (r_out r) ->
  pm_of (r_st r) <> PBad ->
  ok (G_te G) (ms_un ms) ids (Node h pm (te_b t si))
     (lift h (pm_other pm (b_out (te_inner vr I t r))) (te_inner vr I t r)).
Proof.
  intros vr I G ms ids si r h pm t (Hpm & Hb & T1 & T2 & Hh & HG) Hok Lh Lp Hnb.
  assert (Hnb' := Hnb). rewrite Lp in Hnb'. apply pm_other_nobad in Hnb'.
  destruct (te_step vr I G ms ids si r h t (pm_of (r_st r)) Hok Lh eq_refl Hnb Hh) as (Ho & _ & Hx).
  - intros o E. destruct Hnb' as [[E' _]|[(o' & E' & Eb & Ep)|(o' & E' & _)]]; try congruence.
    split. { apply T1. congruence. } rewrite Lp, Ep. destruct (is_val o'); discriminate.
  - intros E. destruct Hnb' as [[_ Ep]|[(o' & E' & _)|(o' & E' & _)]]; try congruence.
    rewrite Lp, Ep, <- Hpm. auto.
  - intros oc E. destruct Hnb' as [[E' _]|[(o' & E' & _)|(o' & E' & Ec & Ep)]]; try congruence.
    rewrite Lp, Ep. split; [discriminate|]. apply T2. congruence.
  - assert (Epm : pm_other pm (b_out (te_inner vr I t r)) = pm_of (r_st r)).
    { rewrite Ho, te_o_other, Hpm, <- Lp. reflexivity. }
    unfold ok, lift. simpl. rewrite Epm. exact Hx.
Qed.

Lemma fire_ev_noid : forall en x, In x (fire_ev en) -> ev_id x = None.
Proof. intros en x H. unfold fire_ev in H. destruct (fires en); simpl in H; intuition; subst; reflexivity. Qed.

Lemma te_spec : forall vr I G ms ids, spec I G ms ids -> spec (wrap (te_ops vr I)) (G_te G) (ms_un ms) ids.
Proof.
  intros vr I G ms ids S. pose proof (sp_laws _ _ _ _ S) as L. constructor.
  - apply wrap_wlaws.
  - intros [h pm bd] H. destruct bd; simpl in H; try tauto. destruct k; tauto.
  - simpl. destruct (wl_init _ L) as [Hh Hp]. rewrite Hh, Hp. repeat split; auto; try discriminate.
    apply (sp_init _ _ _ _ S).
  - intros id. simpl. apply (sp_ms_init _ _ _ _ S).
  - intros [h pm bd] id Hn. simpl. destruct bd; auto. apply (sp_ms_ids _ _ _ _ S); auto.
  - (* next *)
    intros [h pm bd] en H Hl. destruct bd; simpl in H; try tauto. destruct k; try tauto.
    destruct H as (Hpm & Hb & T1 & T2 & Hh & HG). simpl in Hl.
    set (own := runs_inline en).
    set (t1 := {| te_out := true; te_ref := 1; te_own := own |}).
    set (r := o_next I inner (env_own own)).
    pose proof (sp_next _ _ _ _ S inner (env_own own) HG (ltac:(rewrite <- Hpm; auto))) as Hok.
    destruct (wl_next _ L inner (env_own own)) as [Lh Lp]. fold r in Hok, Lh, Lp.
    pose proof (sp_nobad _ _ _ _ S _ (proj1 Hok)) as Hnb.
    assert (Hnb' := Hnb). rewrite Lp in Hnb'. apply pm_next_nobad in Hnb'. destruct Hnb' as [_ Hc].
    destruct (te_step vr I G ms ids inner r h t1 (pm_of (r_st r)) Hok Lh eq_refl Hnb Hh) as (Ho & _ & HG' & Hm' & Hi').
    + intros o E. split; [reflexivity|]. destruct Hc as [[E' _]|(o' & E' & Ep)]; try congruence.
      rewrite Lp, Ep. destruct (is_val o'); discriminate.
    + intros E. destruct Hc as [[_ Ep]|(o' & E' & _)]; try congruence. rewrite Lp, Ep. simpl. split; [auto|congruence].
    + intros oc E. destruct Hc as [[E' _]|(o' & E' & _)]; congruence.
    + assert (Epm : pm_next pm (b_out (te_inner vr I t1 r)) = pm_of (r_st r)).
      { rewrite Ho, te_o_next, Hpm, <- Lp. reflexivity. }
      unfold ok. simpl. fold own. fold t1. fold r. unfold lift. simpl. rewrite Epm. split; [exact HG'|]. split.
      * intros id. rewrite mrun_app. rewrite mrun_noid by apply fire_ev_noid. apply Hm'.
      * apply only_ids_app; auto. apply only_ids_noid. apply fire_ev_noid.
  - (* clean *)
    intros [h pm bd] H Hl. destruct bd; simpl in H; try tauto. destruct k; try tauto.
    destruct H as (Hpm & Hb & T1 & T2 & Hh & HG). simpl in Hl. rename s into t.
    set (r := o_clean I inner).
    pose proof (sp_clean _ _ _ _ S inner HG (ltac:(rewrite <- Hpm; auto))) as Hok.
    destruct (wl_clean _ L inner) as [Lh Lp]. fold r in Hok, Lh, Lp.
    pose proof (sp_nobad _ _ _ _ S _ (proj1 Hok)) as Hnb.
    assert (Hnb' := Hnb). rewrite Lp in Hnb'. apply pm_clean_nobad in Hnb'. destruct Hnb' as [_ Hc].
    assert (Hnbusy : pm <> PBusy) by (destruct Hl; congruence).
    destruct (te_step vr I G ms ids inner r h t (pm_of (r_st r)) Hok Lh eq_refl Hnb Hh) as (Ho & _ & Hx).
    + intros o E. destruct Hc as [[E' _]|(o' & E' & _)]; congruence.
    + intros E. destruct Hc as [[_ Ep]|(o' & E' & _)]; try congruence. rewrite Lp, Ep. split; [discriminate|auto].
    + intros oc E. destruct Hc as [[E' _]|(o' & E' & Ep)]; try congruence. rewrite Lp, Ep. split; [discriminate|auto].
    + assert (Epm : pm_clean pm (b_out (te_inner vr I t r)) = pm_of (r_st r)).
      { rewrite Ho, te_o_clean, Hpm, <- Lp. reflexivity. }
      unfold ok. simpl. fold r. unfold lift. simpl. rewrite Epm. exact Hx.
  - (* stop *)
    intros [h pm bd] H. assert (H0 := H). destruct bd; simpl in H; try tauto. destruct k; try tauto.
    destruct H as (Hpm & Hb & T1 & T2 & Hh & HG). rename s into t.
    unfold ok. simpl.
    destruct (te_out t) eqn:Eo.
    2:{ simpl. rewrite app_nil_r. split; [exact H0|]. split; [reflexivity|apply only_ids_nil]. }
    assert (Ebusy : pm = PBusy).
    { destruct pm; try reflexivity; exfalso; (destruct T2 as [X _]; [discriminate|congruence]). }
    destruct (T1 Ebusy) as [_ Eref].
    pose proof (sp_stop _ _ _ _ S inner HG) as Hok. destruct (wl_stop _ L inner) as [Lh Lp].
    pose proof (sp_nobad _ _ _ _ S _ (proj1 Hok)) as Hnb.
    set (r := o_stop I inner) in *.
    destruct Hok as (HGr & Hmr & Hir).
    destruct (sp_stop_done _ _ _ _ S inner) as [E|E]; fold r in E; rewrite E in *; simpl; rewrite Eref; simpl.
    + simpl in Lh, Lp. rewrite app_nil_r in *. split; [|split; auto].
      repeat split; try congruence; auto.
    + simpl in Lh, Lp. rewrite <- Hpm, Ebusy in Lp. simpl in Lp.
      pose proof (sp_flush _ _ _ _ S _ HGr) as Hokf. destruct (wl_flush _ L (r_st r)) as [Lhf Lpf].
      pose proof (sp_nobad _ _ _ _ S _ (proj1 Hokf)) as Hnbf.
      set (rf := o_flush I (r_st r)) in *.
      destruct Hokf as (HGf & Hmf & Hif).
      assert (Hnbf' := Hnbf). rewrite Lpf in Hnbf'. apply pm_other_nobad in Hnbf'.
      destruct Hnbf' as [[Ef Epf]|[(o' & _ & Ebad & _)|(o' & _ & Ebad & _)]]; try congruence.
      rewrite Ef in Lhf. simpl in Lhf. rewrite app_nil_r in Lhf. rewrite Epf in Lpf.
      rewrite Ebusy. simpl. split; [|split].
      * repeat split; try congruence; try discriminate.
      * intros id. eapply mrun_app_some; eauto.
      * apply only_ids_app; auto.
  - (* leaf *)
    intros [h pm bd] tg o H. assert (H0 := H). destruct bd; simpl in H; try tauto. destruct k; try tauto.
    destruct H as (Hpm & Hb & T1 & T2 & Hh & HG). rename s into t. simpl.
    pose proof (sp_leaf _ _ _ _ S inner tg o HG) as Hok. destruct (wl_leaf _ L inner tg o) as [Lh Lp].
    destruct (o_leaf I inner tg o) as [r hit] eqn:E. simpl in *.
    pose proof (sp_nobad _ _ _ _ S _ (proj1 Hok)) as Hnb.
    apply te_other; auto.
  - (* flush *)
    intros [h pm bd] H. assert (H0 := H). destruct bd; simpl in H; try tauto. destruct k; try tauto.
    destruct H as (Hpm & Hb & T1 & T2 & Hh & HG). rename s into t. simpl.
    pose proof (sp_flush _ _ _ _ S inner HG) as Hok. destruct (wl_flush _ L inner) as [Lh Lp].
    pose proof (sp_nobad _ _ _ _ S _ (proj1 Hok)) as Hnb.
    apply te_other; auto.
  - (* arm *)
    intros [h pm bd] H. simpl. auto.
  - (* stop_done *)
    intros [h pm bd]. simpl. destruct bd; simpl; auto. destruct k; simpl; auto.
    destruct (te_out s); simpl; auto.
    destruct (r_out (o_stop I inner)) as [[[] o]|]; simpl;
      match goal with |- context [Nat.eqb ?x 0] => destruct (Nat.eqb x 0); simpl; auto end.
  - (* budget *)
    intros [h pm bd] en v. simpl. destruct bd; simpl; try congruence. destruct k; simpl; try congruence.
    set (t1 := {| te_out := true; te_ref := 1; te_own := runs_inline en |}).
    set (r := o_next I inner (env_own (runs_inline en))).
    destruct (te_inner_facts vr I t1 r) as (Ho & (t' & Hs & _) & _). { reflexivity. }
    rewrite Ho, Hs. simpl. destruct (r_out r) as [[[] o]|] eqn:E; simpl; try congruence.
    intros X. inversion X; subst. eapply (sp_blaw _ _ _ _ S); eauto.
  - (* quiet *)
    intros [h pm bd] H Hq id. destruct bd; simpl in H; try tauto. destruct k; try tauto.
    destruct H as (Hpm & Hb & T1 & T2 & Hh & HG). simpl in *. apply (sp_quiet _ _ _ _ S); auto.
    rewrite <- Hpm; auto.
Qed.
