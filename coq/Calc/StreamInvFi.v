(* filter_stream preserves [spec]. *)
From Coq Require Import ZArith List Bool Arith Lia.
From V Require Import Calc.StreamDefs Calc.StreamSpec Calc.StreamInv Calc.StreamInvTr.
Import ListNotations.
Import SCalc.
Local Open Scope Z_scope.

(* what the filter makes of one outcome of its child *)
Definition fi_o (p : pred) (o : outcome) : list outcome :=
  match o with
  | OVal v => match pred_apply p v with inl true => [OVal v] | inl false => [] | inr e => [OErr e] end
  | _ => [o]
  end.

Definition G_fi (p : pred) (G : sst -> Prop) (st : sst) : Prop :=
  match st with
  | Node h pm (BUn (KFi _) si) =>
      cpl_pass pm (pm_of si) /\ pm <> PBad /\ h = flat_map (fi_o p) (hist_of si) /\ G si
  | _ => False
  end.

Lemma flat_map_app {A B} (f : A -> list B) l1 l2 : flat_map f (l1 ++ l2) = flat_map f l1 ++ flat_map f l2.
Proof. induction l1; simpl; auto. rewrite IHl1, app_assoc. reflexivity. Qed.

Lemma kn_flat : forall p out, flat_map (fi_o p) (kn out) =
  match out with Some (KN, o) => fi_o p o | _ => [] end.
Proof. intros p [[[] o]|]; simpl; auto. apply app_nil_r. Qed.

Ltac fin Hh := simpl; repeat split; eauto;
  try (rewrite Hh, ?flat_map_app; simpl; rewrite ?app_nil_r; reflexivity); try (left; split; reflexivity).

Lemma cons_app_assoc {A} (l : list A) a m : l ++ a :: m = (l ++ [a]) ++ m.
Proof. rewrite <- app_assoc. reflexivity. Qed.

Section Loop.
Variables (p : pred) (I : ops) (G : sst -> Prop) (ms : sst -> nat -> monst) (ids : list nat).
Hypothesis S : spec I G ms ids.

(* the loop: r is the result of some entry point of the child; rejected values make the filter pull again *)
Lemma fi_loop_ok : forall fuel fs r mstart hpre,
  (forall v, r_out r = Some (KN, OVal v) -> (o_budget I (r_st r) < fuel)%nat /\ pm_of (r_st r) = PIdle) ->
  G (r_st r) ->
  (forall id, mrun id (mstart id) (r_ev r) = Some (ms (r_st r) id)) -> only_ids ids (r_ev r) ->
  hist_of (r_st r) = hpre ++ kn (r_out r) ->
  exists fs' si' outl,
    b_st (fi_loop p I fuel fs r) = BUn (KFi fs') si' /\ G si' /\
    (forall id, mrun id (mstart id) (b_ev (fi_loop p I fuel fs r)) = Some (ms si' id)) /\
    only_ids ids (b_ev (fi_loop p I fuel fs r)) /\
    flat_map (fi_o p) (hist_of si') = flat_map (fi_o p) hpre ++ kn (b_out (fi_loop p I fuel fs r)) /\
    outw outl (b_out (fi_loop p I fuel fs r)) /\
    ((r_out r = outl /\ si' = r_st r) \/
     (exists v, r_out r = Some (KN, OVal v)) /\ pm_of si' = pm_next PIdle outl /\ pm_of si' <> PBad).
Proof.
  induction fuel as [|fuel IH]; intros fs r mstart hpre Hf HG Hm Hi Hh.
  - (* no fuel: only reachable without a rejected value *)
    simpl. destruct (r_out r) as [[[] o]|] eqn:Eo.
    + destruct o as [v| |].
      * destruct (Hf v eq_refl) as [Hlt _]. lia.
      * do 2 eexists. exists (Some (KN, OErr e)). fin Hh.
      * do 2 eexists. exists (Some (KN, ODone)). fin Hh.
    + do 2 eexists. exists (Some (KC, o)). fin Hh.
    + do 2 eexists. exists None. fin Hh.
  - simpl. destruct (r_out r) as [[[] o]|] eqn:Eo.
    + destruct o as [v| |].
      * destruct (Hf v eq_refl) as [Hlt Hidle].
        assert (Hnoid : forall t, In t [TPred p v] -> ev_id t = None) by (intros t [<-|[]]; reflexivity).
        assert (Hmv : forall id, mrun id (mstart id) (r_ev r ++ [TPred p v]) = Some (ms (r_st r) id))
          by (intros id; eapply mrun_app_some; eauto; apply mrun_noid; auto).
        assert (Hiv : only_ids ids (r_ev r ++ [TPred p v]))
          by (apply only_ids_app; auto; apply only_ids_noid; auto).
        destruct (pred_apply p v) as [[|]|e] eqn:Ep.
        -- do 2 eexists. exists (Some (KN, OVal v)). simpl. split; [reflexivity|]. split; [exact HG|].
           split; [exact Hmv|]. split; [exact Hiv|]. split.
           { rewrite Hh, flat_map_app. simpl. rewrite Ep. simpl. reflexivity. }
           split. { unfold weak; auto. } left; auto.
        -- (* rejected: pull again *)
           set (fs1 := if r_fired r then {| fi_stopped := true; fi_armed := false |} else fs).
           set (r2 := o_next I (r_st r) (fi_env fs1)).
           pose proof (sp_next _ _ _ _ S (r_st r) (fi_env fs1) HG (or_intror Hidle)) as (HG2 & Hm2 & Hi2).
           destruct (wl_next _ (sp_laws _ _ _ _ S) (r_st r) (fi_env fs1)) as [Lh Lp]. fold r2 in HG2, Hm2, Hi2, Lh, Lp.
           pose proof (sp_nobad _ _ _ _ S _ HG2) as Hnb.
           destruct (IH fs1 r2 (fun id => ms (r_st r) id) (hpre ++ [OVal v])) as (fs' & si' & outl & E1 & E2 & E3 & E4 & E5 & E6 & E7); auto.
           { intros v2 Ev2. split.
             - pose proof (sp_blaw _ _ _ _ S (r_st r) (fi_env fs1) v2 Ev2) as Hb. fold r2 in Hb. lia.
             - rewrite Lp, Hidle, Ev2. reflexivity. }
           { rewrite Lh, Hh. reflexivity. }
           exists fs', si', outl. simpl. split; [exact E1|]. split; [exact E2|]. split.
           { intros id. rewrite cons_app_assoc. eapply mrun_app_some; eauto. }
           split. { rewrite cons_app_assoc. apply only_ids_app; auto. }
           split. { rewrite E5, flat_map_app. simpl. rewrite Ep. simpl. rewrite app_nil_r. reflexivity. }
           split; [exact E6|].
           right. split; [eauto|]. destruct E7 as [[Ea Eb]|(Ea & Eb & Ec)].
           ++ subst si'. rewrite Lp, Hidle, Ea. split; auto. rewrite <- Ea, <- Hidle, <- Lp. auto.
           ++ split; auto.
        -- do 2 eexists. exists (Some (KN, OVal v)). simpl. split; [reflexivity|]. split; [exact HG|].
           split; [exact Hmv|]. split; [exact Hiv|]. split.
           { rewrite Hh, flat_map_app. simpl. rewrite Ep. simpl. reflexivity. }
           split. { unfold weak; simpl; split; congruence. } left; auto.
      * do 2 eexists. exists (Some (KN, OErr e)). fin Hh.
      * do 2 eexists. exists (Some (KN, ODone)). fin Hh.
    + do 2 eexists. exists (Some (KC, o)). fin Hh.
    + do 2 eexists. exists None. fin Hh.
Qed.
End Loop.

Lemma pm_next_fresh_idle : forall out, pm_next PFresh out = pm_next PIdle out.
Proof. reflexivity. Qed.

Lemma loop_cpl_next : forall pm outl out', pm = PFresh \/ pm = PIdle -> outw outl out' ->
  pm_next PIdle outl <> PBad -> cpl_pass (pm_next pm out') (pm_next PIdle outl).
Proof.
  intros pm outl out' Hl Hw Hb.
  assert (E : pm_next pm out' = pm_next PIdle out') by (destruct Hl; subst; reflexivity). rewrite E.
  apply (cpl_pass_next PIdle PIdle outl out'); auto. left; auto.
Qed.

Lemma loop_cpl_other : forall outl out', outw outl out' ->
  pm_next PIdle outl <> PBad -> cpl_pass (pm_other PBusy out') (pm_next PIdle outl).
Proof.
  intros outl out' Hw Hb.
  destruct outl as [[[] o]|], out' as [[[] o']|]; simpl in *; try tauto; try congruence; try (left; reflexivity).
  destruct Hw as [W1 W2]. destruct (is_val o) eqn:Eo, (is_val o') eqn:Eo'; unfold cpl_pass; auto;
    try (specialize (W1 eq_refl); subst; congruence); try (specialize (W2 eq_refl); congruence).
Qed.

(* assembling the adaptor's result from the loop's *)
Lemma fi_finish : forall p (G : sst -> Prop) ms ids h pm pm' si br fs' si',
  b_st br = BUn (KFi fs') si' -> G si' ->
  (forall id, mrun id (ms si id) (b_ev br) = Some (ms si' id)) -> only_ids ids (b_ev br) ->
  h = flat_map (fi_o p) (hist_of si) ->
  flat_map (fi_o p) (hist_of si') = flat_map (fi_o p) (hist_of si) ++ kn (b_out br) ->
  cpl_pass pm' (pm_of si') -> pm' <> PBad ->
  forall fs, ok (G_fi p G) (ms_un ms) ids (Node h pm (BUn (KFi fs) si)) (lift h pm' br).
Proof.
  intros p G ms ids h pm pm' si br fs' si' Hs HG Hm Hi Hh Hf Hc Hb fs.
  unfold ok, lift. simpl. rewrite Hs. simpl. repeat split; auto. rewrite Hf, Hh. reflexivity.
Qed.


Lemma fi_loop_budget : forall p I G ms ids, spec I G ms ids -> forall fuel fs r bound v,
  (forall x, r_out r = Some (KN, OVal x) -> (o_budget I (r_st r) < bound)%nat) ->
  b_out (fi_loop p I fuel fs r) = Some (KN, OVal v) ->
  exists fs' si', b_st (fi_loop p I fuel fs r) = BUn (KFi fs') si' /\ (o_budget I si' < bound)%nat.
Proof.
  intros p I G ms ids S. induction fuel as [|fuel IH]; intros fs r bound v Hb Ho; simpl in *;
    destruct (r_out r) as [[[] o]|] eqn:Eo; simpl in *; try congruence;
    destruct o as [x| |]; simpl in *; try congruence;
    destruct (pred_apply p x) as [[|]|e]; simpl in *; try congruence; eauto.
  set (fs1 := if r_fired r then {| fi_stopped := true; fi_armed := false |} else fs) in *.
  apply IH with (v := v); auto.
  intros y Ey. pose proof (sp_blaw _ _ _ _ S (r_st r) (fi_env fs1) y Ey). specialize (Hb x eq_refl). lia.
Qed.

Lemma fi_spec : forall p I G ms ids, spec I G ms ids -> spec (wrap (fi_ops p I)) (G_fi p G) (ms_un ms) ids.
Proof.
  intros p I G ms ids S. pose proof (sp_laws _ _ _ _ S) as L. constructor.
  - apply wrap_wlaws.
  - intros [h pm bd] H. destruct bd; simpl in H; try tauto. destruct k; tauto.
  - simpl. destruct (wl_init _ L) as [Hh Hp]. rewrite Hh, Hp. repeat split; auto. left; auto. discriminate.
    apply (sp_init _ _ _ _ S).
  - intros id. simpl. apply (sp_ms_init _ _ _ _ S).
  - intros [h pm bd] id Hn. simpl. destruct bd; auto. apply (sp_ms_ids _ _ _ _ S); auto.
  - (* next *)
    intros [h pm bd] en H Hl. destruct bd; simpl in H; try tauto. destruct k; try tauto.
    destruct H as (Hc & Hb & Hh & HG). simpl in Hl. simpl.
    assert (En : pm_of inner = pm) by (destruct Hc as [E0|[Ec1 Ec2]]; [auto|destruct Hl; congruence]).
    pose proof (sp_next _ _ _ _ S inner en HG (ltac:(rewrite En; auto))) as (HG1 & Hm1 & Hi1).
    destruct (wl_next _ L inner en) as [Lh Lp].
    pose proof (sp_nobad _ _ _ _ S _ HG1) as Hnb. rewrite Lp in Hnb.
    set (r := o_next I inner en) in *. unfold fi_wrap.
    destruct (fi_loop_ok p I G ms ids S (Datatypes.S (o_budget I (r_st r))) {| fi_stopped := e_stopped en; fi_armed := e_armed en |} r (ms inner) (hist_of inner))
      as (fs' & si' & outl & E1 & E2 & E3 & E4 & E5 & E6 & E7); auto.
    { intros v Ev. split. lia. rewrite Lp, Ev in *. rewrite En in *. destruct Hl; subst pm; reflexivity. }
    eapply fi_finish; eauto.
    + destruct E7 as [[Ea Eb]|(Ea & Eb & Ec)].
      * subst si' outl. rewrite Lp. apply (cpl_pass_next pm (pm_of inner) _ _ Hc Hl E6 Hnb).
      * rewrite Eb. apply loop_cpl_next; auto. rewrite <- Eb. auto.
    + destruct E7 as [[Ea Eb]|(Ea & Eb & Ec)].
      * subst si' outl. eapply cpl_pass_nobad. apply (cpl_pass_next pm (pm_of inner) _ _ Hc Hl E6 Hnb). auto.
      * eapply cpl_pass_nobad. apply loop_cpl_next; eauto. rewrite <- Eb; auto. rewrite <- Eb; auto.
  - (* clean *)
    intros [h pm bd] H Hl. destruct bd; simpl in H; try tauto. destruct k; try tauto.
    destruct H as (Hc & Hb & Hh & HG). simpl in Hl. simpl.
    assert (En : pm_of inner = PIdle \/ pm_of inner = PEnded) by (destruct Hc as [E0|[Ec1 Ec2]]; subst; auto).
    pose proof (sp_clean _ _ _ _ S inner HG En) as (HG1 & Hm1 & Hi1).
    destruct (wl_clean _ L inner) as [Lh Lp].
    pose proof (sp_nobad _ _ _ _ S _ HG1) as Hnb. rewrite Lp in Hnb.
    set (r := o_clean I inner) in *. unfold fi_wrap.
    destruct (fi_loop_ok p I G ms ids S (Datatypes.S (o_budget I (r_st r))) s r (ms inner) (hist_of inner))
      as (fs' & si' & outl & E1 & E2 & E3 & E4 & E5 & E6 & E7); auto.
    { intros v Ev. exfalso. rewrite Ev in Hnb. destruct En as [En|En]; rewrite En in Hnb; simpl in Hnb; congruence. }
    assert (Enk : forall v, r_out r <> Some (KN, OVal v)).
    { intros v Ev. rewrite Ev in Hnb. destruct En as [En|En]; rewrite En in Hnb; simpl in Hnb; congruence. }
    destruct E7 as [[Ea Eb]|((v & Ea) & _)]; [|exfalso; eapply Enk; eauto]. subst si' outl.
    eapply fi_finish; eauto.
    + rewrite Lp. apply (cpl_pass_clean pm (pm_of inner) _ _ Hc Hl E6 Hnb).
    + eapply cpl_pass_nobad. apply (cpl_pass_clean pm (pm_of inner) _ _ Hc Hl E6 Hnb). auto.
  - (* stop *)
    intros [h pm bd] H. destruct bd; simpl in H; try tauto. destruct k; try tauto.
    destruct H as (Hc & Hb & Hh & HG). simpl.
    pose proof (sp_stop _ _ _ _ S inner HG) as (HG1 & Hm1 & Hi1). destruct (wl_stop _ L inner) as [Lh Lp].
    pose proof (sp_nobad _ _ _ _ S _ HG1) as Hnb. rewrite Lp in Hnb.
    set (r := o_stop I inner) in *. unfold fi_wrap.
    destruct (fi_loop_ok p I G ms ids S (Datatypes.S (o_budget I (r_st r))) {| fi_stopped := true; fi_armed := false |} r (ms inner) (hist_of inner))
      as (fs' & si' & outl & E1 & E2 & E3 & E4 & E5 & E6 & E7); auto.
    { intros v Ev. split. lia. rewrite Lp, Ev in *. destruct (pm_of inner); simpl in *; congruence. }
    destruct E7 as [[Ea Eb]|((v & Ea) & Eb & Ec)].
    + subst si' outl. destruct (cpl_pass_other pm (pm_of inner) _ _ Hc Hb E6 Hnb) as [Hc' Hb'].
      eapply fi_finish; eauto. rewrite Lp. auto.
    + assert (Ebusy : pm_of inner = PBusy) by (rewrite Ea in Hnb; destruct (pm_of inner); simpl in Hnb; congruence).
      assert (Epm : pm = PBusy) by (destruct Hc as [E0|[Ec1 Ec2]]; congruence). subst pm.
      eapply fi_finish; eauto.
      * rewrite Eb. apply loop_cpl_other; auto. rewrite <- Eb; auto.
      * eapply cpl_pass_nobad. apply loop_cpl_other; eauto. rewrite <- Eb; auto. rewrite <- Eb; auto.
  - (* leaf *)
    intros [h pm bd] tg o H. destruct bd; simpl in H; try tauto. destruct k; try tauto.
    destruct H as (Hc & Hb & Hh & HG). simpl.
    pose proof (sp_leaf _ _ _ _ S inner tg o HG) as Hok. destruct (wl_leaf _ L inner tg o) as [Lh Lp].
    destruct (o_leaf I inner tg o) as [r hit] eqn:E. simpl in *. destruct Hok as (HG1 & Hm1 & Hi1).
    pose proof (sp_nobad _ _ _ _ S _ HG1) as Hnb. rewrite Lp in Hnb. unfold fi_wrap.
    destruct (fi_loop_ok p I G ms ids S (Datatypes.S (o_budget I (r_st r))) s r (ms inner) (hist_of inner))
      as (fs' & si' & outl & E1 & E2 & E3 & E4 & E5 & E6 & E7); auto.
    { intros v Ev. split. lia. rewrite Lp, Ev in *. destruct (pm_of inner); simpl in *; congruence. }
    destruct E7 as [[Ea Eb]|((v & Ea) & Eb & Ec)].
    + subst si' outl. destruct (cpl_pass_other pm (pm_of inner) _ _ Hc Hb E6 Hnb) as [Hc' Hb'].
      eapply fi_finish; eauto. rewrite Lp. auto.
    + assert (Ebusy : pm_of inner = PBusy) by (rewrite Ea in Hnb; destruct (pm_of inner); simpl in Hnb; congruence).
      assert (Epm : pm = PBusy) by (destruct Hc as [E0|[Ec1 Ec2]]; congruence). subst pm.
      eapply fi_finish; eauto.
      * rewrite Eb. apply loop_cpl_other; auto. rewrite <- Eb; auto.
      * eapply cpl_pass_nobad. apply loop_cpl_other; eauto. rewrite <- Eb; auto. rewrite <- Eb; auto.
  - (* flush *)
    intros [h pm bd] H. destruct bd; simpl in H; try tauto. destruct k; try tauto.
    destruct H as (Hc & Hb & Hh & HG). simpl.
    pose proof (sp_flush _ _ _ _ S inner HG) as (HG1 & Hm1 & Hi1). destruct (wl_flush _ L inner) as [Lh Lp].
    pose proof (sp_nobad _ _ _ _ S _ HG1) as Hnb. rewrite Lp in Hnb.
    set (r := o_flush I inner) in *. unfold fi_wrap.
    destruct (fi_loop_ok p I G ms ids S (Datatypes.S (o_budget I (r_st r))) s r (ms inner) (hist_of inner))
      as (fs' & si' & outl & E1 & E2 & E3 & E4 & E5 & E6 & E7); auto.
    { intros v Ev. split. lia. rewrite Lp, Ev in *. destruct (pm_of inner); simpl in *; congruence. }
    destruct E7 as [[Ea Eb]|((v & Ea) & Eb & Ec)].
    + subst si' outl. destruct (cpl_pass_other pm (pm_of inner) _ _ Hc Hb E6 Hnb) as [Hc' Hb'].
      eapply fi_finish; eauto. rewrite Lp. auto.
    + assert (Ebusy : pm_of inner = PBusy) by (rewrite Ea in Hnb; destruct (pm_of inner); simpl in Hnb; congruence).
      assert (Epm : pm = PBusy) by (destruct Hc as [E0|[Ec1 Ec2]]; congruence). subst pm.
      eapply fi_finish; eauto.
      * rewrite Eb. apply loop_cpl_other; auto. rewrite <- Eb; auto.
      * eapply cpl_pass_nobad. apply loop_cpl_other; eauto. rewrite <- Eb; auto. rewrite <- Eb; auto.
  - (* arm *)
    intros [h pm bd] H. destruct bd; simpl in H; try tauto. destruct k; try tauto.
    destruct H as (Hc & Hb & Hh & HG). simpl. destruct (wl_arm _ L inner) as [Ah Ap].
    destruct (sp_arm _ _ _ _ S inner HG) as [HG' Hms]. rewrite Ah, Ap. repeat split; auto.
  - (* stop_done *)
    intros [h pm bd]. simpl. destruct bd; simpl; auto. destruct k; simpl; auto.
    unfold fi_wrap. destruct (sp_stop_done _ _ _ _ S inner) as [E|E]; simpl; rewrite E; simpl; auto.
  - (* budget *)
    intros [h pm bd] en v. simpl. destruct bd; simpl; try congruence. destruct k; simpl; try congruence.
    unfold fi_wrap. intros Ho.
    destruct (fi_loop_budget p I G ms ids S _ _ _ (o_budget I inner) v (fun x Ex => sp_blaw _ _ _ _ S inner en x Ex) Ho)
      as (fs' & si' & Es & Hlt).
    rewrite Es. auto.
  - (* quiet *)
    intros [h pm bd] H Hq id. destruct bd; simpl in H; try tauto. destruct k; try tauto.
    destruct H as (Hc & Hb & Hh & HG). simpl in *. apply (sp_quiet _ _ _ _ S); auto.
    destruct Hc as [E|[Ec1 Ec2]]; [rewrite <- E; auto|destruct Hq; congruence].
Qed.
