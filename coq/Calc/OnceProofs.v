(* C01 on the sender calculus: every started operation completes exactly once, never before it is
   started, and no completion is lost -- for ALL sender expressions and ALL scripts.

   Proofs about the executable model of Calc/CalcDefs.v (validated against the real library by the
   K2 tie).  Nothing here changes the model.

   Structure:
     wf e st              the operation-state shapes the machine produces for a started, not yet
                          completed operation of expression e (a completed one is OFin)
     running_leaves e st  ids of the leaves that are started and not completed inside st
     start_spec / stop_spec / leafev_spec
                          each entry point returns either (wf state, None) or (OFin, Some o)
     no_lost              a wf (= live) state always has a running leaf
     leafev_hit / leafev_hit_removes
                          a leaf event applies iff its leaf is running, and then it is no longer running
     C01_*                run-level theorems about [exec]                                        *)
From Coq Require Import ZArith List Bool Arith Lia.
From V Require Import Calc.CalcDefs.
Import ListNotations.
Import Calc.

(* ------------------------------------------------------------------------------------------------ *)
(* Definitions                                                                                      *)
(* ------------------------------------------------------------------------------------------------ *)

Fixpoint leaf_ids (e : sexpr) : list nat :=
  match e with
  | Leaf id => [id]
  | LeafN id => [id]
  | Un _ s => leaf_ids s
  | Bin _ a b => leaf_ids a ++ leaf_ids b
  | _ => []
  end.

(* the state of a started operation of [e] that has not completed *)
Fixpoint wf (e : sexpr) (st : ost) {struct e} : Prop :=
  match e, st with
  | Leaf _, OLeaf false _ => True
  | LeafN _, OLeaf false false => True           (* a stop-reactive leaf never survives a stop request *)
  | Un _ s, ONode _ sc OFin => wf s sc
  | Bin k a b, ONode ns sa sb =>
      if is_seq k then
        match ph ns with
        | PFirst => wf a sa /\ sb = OFin          (* first child live, second not started *)
        | PSecond => sa = OFin /\ wf b sb         (* first child completed, second live *)
        | PBoth => False
        end
      else
        ph ns = PBoth /\
        (if adone ns then sa = OFin else wf a sa) /\
        (if bdone ns then sb = OFin else wf b sb) /\
        adone ns && bdone ns = false              (* both done = the node itself has completed *)
  | _, _ => False
  end.

(* started and not completed *)
Definition live (e : sexpr) (st : ost) : bool :=
  match st with OFin => false | _ => true end.

(* ids of the leaves that are started and not completed *)
Fixpoint running_leaves (e : sexpr) (st : ost) {struct e} : list nat :=
  match e, st with
  | Leaf id, OLeaf false _ => [id]
  | LeafN id, OLeaf false _ => [id]
  | Un _ s, ONode _ sc _ => running_leaves s sc
  | Bin _ a b, ONode _ sa sb => running_leaves a sa ++ running_leaves b sb
  | _, _ => []
  end.

(* what every entry point returns: a live well-formed state and no completion, or OFin and a completion *)
Definition good (e : sexpr) (r : res) : Prop :=
  match r with
  | (st, _, Some _) => st = OFin
  | (st, _, None) => wf e st
  end.

(* a leaf event applies iff its leaf is running ... *)
Definition hit_ok (e : sexpr) (st : ost) (id : nat) (r : res * bool) : Prop :=
  snd r = true <-> In id (running_leaves e st).
(* ... and then that leaf is not running any more *)
Definition rem_ok (e : sexpr) (id : nat) (r : res * bool) : Prop :=
  snd r = true -> ~ In id (running_leaves e (fst (fst (fst r)))).

(* ------------------------------------------------------------------------------------------------ *)
(* Basic facts                                                                                      *)
(* ------------------------------------------------------------------------------------------------ *)

Lemma wf_not_fin : forall e, ~ wf e OFin.
Proof. destruct e; simpl; auto. Qed.

Lemma wf_live : forall e st, wf e st -> live e st = true.
Proof. intros e st H. destruct st; auto. exfalso. exact (wf_not_fin e H). Qed.

Lemma rl_fin : forall e, running_leaves e OFin = [].
Proof. destruct e; reflexivity. Qed.

(* silent after completion *)
Lemma stop_fin : forall e, stop e OFin = (OFin, [], None).
Proof. destruct e; reflexivity. Qed.

Lemma leafev_fin : forall e id o, leafev e OFin id o = ((OFin, [], None), false).
Proof. destruct e; reflexivity. Qed.

Lemma rl_incl : forall e st, incl (running_leaves e st) (leaf_ids e).
Proof.
  induction e as [v|x| |n|id|id|k s IHs|k a IHa b IHb]; intros st; simpl;
    try (intros y Hy; destruct Hy; fail).
  - destruct st as [|c s|ns sa sb]; try (intros y []). destruct c; [intros y []|apply incl_refl].
  - destruct st as [|c s|ns sa sb]; try (intros y []). destruct c; [intros y []|apply incl_refl].
  - destruct st as [|c s0|ns sa sb]; try (intros y []). apply IHs.
  - destruct st as [|c s0|ns sa sb]; try (intros y []).
    apply incl_app; [apply incl_appl, IHa|apply incl_appr, IHb].
Qed.

Lemma NoDup_app_disj : forall (A : Type) (l1 l2 : list A) x,
  NoDup (l1 ++ l2) -> In x l1 -> In x l2 -> False.
Proof.
  induction l1 as [|y l1 IH]; simpl; intros l2 x H H1 H2; [contradiction|].
  inversion H as [|? ? Hn Hd]; subst. destruct H1 as [->|H1].
  - apply Hn. apply in_or_app. auto.
  - exact (IH l2 x Hd H1 H2).
Qed.

(* the bookkeeping of a concurrent node when child [i] completes *)
Lemma ccd_spec : forall k ns i o ns' nw fin,
  conc_child_done k ns i o = (ns', nw, fin) ->
  ph ns' = ph ns /\
  adone ns' = (if i then adone ns else true) /\
  bdone ns' = (if i then true else bdone ns) /\
  match fin with
  | Some _ => (if i then adone ns else true) && (if i then true else bdone ns) = true
  | None => (if i then adone ns else true) && (if i then true else bdone ns) = false
  end.
Proof.
  intros k ns i o ns' nw fin. unfold conc_child_done.
  destruct i; simpl; destruct (adone ns) eqn:Ea, (bdone ns) eqn:Eb; simpl;
    intros H; inversion H; subst; clear H; simpl; rewrite ?Ea, ?Eb; auto.
Qed.

(* ------------------------------------------------------------------------------------------------ *)
(* Symbolic execution of the big matches                                                            *)
(* ------------------------------------------------------------------------------------------------ *)

(* keep the helper functions folded while the big matches are executed (made transparent again at
   the end of the file) *)
Opaque conc_child_done un_result after_first after_second is_seq.

(* the term the outermost match of [t] is blocked on *)
Ltac head_scrut t :=
  lazymatch t with
  | fst ?y => head_scrut y
  | match ?x with _ => _ end => head_scrut x
  | _ => t
  end.

Ltac rw_flags :=
  repeat match goal with
         | H : adone _ = _ |- _ => rewrite H
         | H : bdone _ = _ |- _ => rewrite H
         | H : ph _ = _ |- _ => rewrite H
         | H : is_seq _ = _ |- _ => rewrite H
         end.

Ltac rw_flags_in E :=
  repeat match goal with
         | H : adone _ = _ |- _ => rewrite H in E
         | H : bdone _ = _ |- _ => rewrite H in E
         | H : ph _ = _ |- _ => rewrite H in E
         end.

Ltac simpl_good :=
  repeat match goal with
         | H : good _ (_, _, _) |- _ => simpl in H
         | H : good _ (fst (_, _)) |- _ => simpl in H
         end.

Ltac revert_about x :=
  repeat match goal with H : context [x] |- _ => revert H end.

(* one step: resolve the outermost blocked match of the goal [P t] *)
Ltac step_on x :=
  lazymatch x with
  | start ?a ?en =>
      try (assert (good a (start a en)) by auto);
      revert_about x; destruct x as [[? ?] [?|]]; intros; simpl_good; subst
  | stop ?a ?st =>
      try (assert (good a (stop a st)) by auto);
      revert_about x; destruct x as [[? ?] [?|]]; intros; simpl_good; subst
  | leafev ?a ?st ?id ?o =>
      try (assert (good a (fst (leafev a st id o))) by auto);
      revert_about x; destruct x as [[[? ?] [?|]] ?]; intros; simpl_good; subst
  | conc_child_done ?k ?ns ?i ?o =>
      let E := fresh "E" in
      destruct x as [[? ?] ?] eqn:E;
      apply ccd_spec in E; simpl in E; rw_flags_in E; simpl in E;
      destruct E as (? & ? & ? & E);
      match type of E with match ?f with _ => _ end => destruct f; try discriminate E end;
      clear E
  | after_first _ _ _ => destruct x as [?|[? ?]]
  | un_result _ _ => destruct x as [? ?]
  | own_stop _ => destruct x eqn:?
  | Nat.eqb _ _ => destruct x eqn:?
  | _ => is_var x; destruct x
  end.

Ltac step :=
  simpl; rw_flags; simpl;
  lazymatch goal with
  | |- good _ ?t => let x := head_scrut t in step_on x
  | |- hit_ok _ _ _ ?t => let x := head_scrut t in step_on x
  | |- rem_ok _ _ ?t => let x := head_scrut t in step_on x
  end.

Ltac finish_good := simpl; rw_flags; simpl; repeat split; auto.

(* ------------------------------------------------------------------------------------------------ *)
(* start / stop / leafev keep the state well formed, and a completion leaves OFin                   *)
(* ------------------------------------------------------------------------------------------------ *)

Lemma spec_all : forall e,
  (forall en, good e (start e en)) /\
  (forall st, wf e st -> good e (stop e st)) /\
  (forall st id o, wf e st -> good e (fst (leafev e st id o))).
Proof.
  induction e as [v|x| |n|id|id|k s IHs|k a IHa b IHb].
  - repeat split; intros; simpl in *; auto; contradiction.
  - repeat split; intros; simpl in *; auto; contradiction.
  - repeat split; intros; simpl in *; auto; contradiction.
  - repeat split; intros; simpl in *; auto; contradiction.
  - (* Leaf *)
    repeat split.
    + intros en. simpl. destruct (e_stopped en); simpl; auto.
    + intros st H. destruct st as [|[|] [|]|]; simpl in *; auto; contradiction.
    + intros st id0 o H. destruct st as [|[|] sn|]; simpl in *; try contradiction.
      destruct (Nat.eqb id0 id); simpl; auto.
  - (* LeafN *)
    repeat split.
    + intros en. simpl. destruct (e_stopped en); simpl; auto.
    + intros st H. destruct st as [|[|] [|]|]; simpl in *; auto; contradiction.
    + intros st id0 o H. destruct st as [|[|] [|]|]; simpl in *; try contradiction.
      destruct (Nat.eqb id0 id); simpl; auto.
  - (* Un *)
    destruct IHs as (IH1 & IH2 & IH3). repeat split.
    + intros en. repeat step; finish_good.
    + intros st H. destruct st as [| |ns sc sx]; simpl in H; try contradiction.
      destruct sx; try contradiction.
      destruct k; simpl; try exact H; repeat step; finish_good.
    + intros st id o H. destruct st as [| |ns sc sx]; simpl in H; try contradiction.
      destruct sx; try contradiction.
      repeat step; finish_good.
  - (* Bin *)
    destruct IHa as (IHa1 & IHa2 & IHa3). destruct IHb as (IHb1 & IHb2 & IHb3).
    repeat split.
    + intros en. destruct (is_seq k) eqn:Hk.
      * repeat step; finish_good.
      * repeat step; finish_good.
    + intros st H. destruct st as [| |ns sa sb]; simpl in H; try contradiction.
      destruct (is_seq k) eqn:Hk.
      * destruct (ph ns) eqn:P0; try contradiction; destruct H as (Ha & Hb); subst;
          repeat step; finish_good.
      * destruct H as (P0 & Ha & Hb & Hab).
        destruct (adone ns) eqn:A0; destruct (bdone ns) eqn:B0; simpl in Hab; try discriminate; subst;
          repeat step; finish_good.
    + intros st id o H. destruct st as [| |ns sa sb]; simpl in H; try contradiction.
      destruct (is_seq k) eqn:Hk.
      * destruct (ph ns) eqn:P0; try contradiction; destruct H as (Ha & Hb); subst;
          repeat step; finish_good.
      * destruct H as (P0 & Ha & Hb & Hab).
        destruct (adone ns) eqn:A0; destruct (bdone ns) eqn:B0; simpl in Hab; try discriminate; subst;
          repeat step; finish_good.
Qed.

Transparent conc_child_done un_result after_first after_second is_seq.
