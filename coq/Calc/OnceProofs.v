(* C01 on the sender calculus: every started operation completes exactly once, never before it is
   started, and no completion is lost -- for ALL sender expressions and ALL scripts.

   Proofs about the executable model of Calc/CalcDefs.v (validated against the real library by the
   K2 tie).  Nothing here changes the model.

   Structure:
     wf e st              the operation-state shapes the machine produces for a started, not yet
                          completed operation of expression e (a completed one is OFin)
     running_leaves e st  ids of the leaves that are started and not completed inside st
     start_spec / stop_spec / leafev_spec
                          each entry point returns either (wf state, None) or (OFin, Some o)
     no_lost              a wf (= live) state always has a running leaf
     leafev_hit / leafev_hit_removes
                          a leaf event applies iff its leaf is running, and then it is no longer running
     C01_*                run-level theorems about [exec]                                        *)
From Coq Require Import ZArith List Bool Arith Lia.
From V Require Import Calc.CalcDefs.
Import ListNotations.
Import Calc.

(* ------------------------------------------------------------------------------------------------ *)
(* Definitions                                                                                      *)
(* ------------------------------------------------------------------------------------------------ *)

Fixpoint leaf_ids (e : sexpr) : list nat :=
  match e with
  | Leaf id => [id]
  | LeafN id => [id]
  | Un _ s => leaf_ids s
  | Bin _ a b => leaf_ids a ++ leaf_ids b
  | _ => []
  end.

(* the state of a started operation of [e] that has not completed *)
Fixpoint wf (e : sexpr) (st : ost) {struct e} : Prop :=
  match e, st with
  | Leaf _, OLeaf false _ => True
  | LeafN _, OLeaf false false => True           (* a stop-reactive leaf never survives a stop request *)
  | Un _ s, ONode _ sc OFin => wf s sc
  | Bin k a b, ONode ns sa sb =>
      if is_seq k then
        match ph ns with
        | PFirst => wf a sa /\ sb = OFin          (* first child live, second not started *)
        | PSecond => sa = OFin /\ wf b sb         (* first child completed, second live *)
        | PBoth => False
        end
      else
        ph ns = PBoth /\
        (if adone ns then sa = OFin else wf a sa) /\
        (if bdone ns then sb = OFin else wf b sb) /\
        adone ns && bdone ns = false              (* both done = the node itself has completed *)
  | _, _ => False
  end.

(* started and not completed *)
Definition live (e : sexpr) (st : ost) : bool :=
  match st with OFin => false | _ => true end.

(* ids of the leaves that are started and not completed *)
Fixpoint running_leaves (e : sexpr) (st : ost) {struct e} : list nat :=
  match e, st with
  | Leaf id, OLeaf false _ => [id]
  | LeafN id, OLeaf false _ => [id]
  | Un _ s, ONode _ sc _ => running_leaves s sc
  | Bin _ a b, ONode _ sa sb => running_leaves a sa ++ running_leaves b sb
  | _, _ => []
  end.

(* what every entry point returns: a live well-formed state and no completion, or OFin and a completion *)
Definition good (e : sexpr) (r : res) : Prop :=
  match r with
  | (st, _, Some _) => st = OFin
  | (st, _, None) => wf e st
  end.

(* a leaf event applies iff its leaf is running ... *)
Definition hit_ok (e : sexpr) (st : ost) (id : nat) (r : res * bool) : Prop :=
  snd r = true <-> In id (running_leaves e st).
(* ... and then that leaf is not running any more *)
Definition rem_ok (e : sexpr) (id : nat) (r : res * bool) : Prop :=
  snd r = true -> ~ In id (running_leaves e (fst (fst (fst r)))).

(* ------------------------------------------------------------------------------------------------ *)
(* Basic facts                                                                                      *)
(* ------------------------------------------------------------------------------------------------ *)

Lemma wf_not_fin : forall e, ~ wf e OFin.
Proof. destruct e; simpl; auto. Qed.

Lemma wf_live : forall e st, wf e st -> live e st = true.
Proof. intros e st H. destruct st; auto. exfalso. exact (wf_not_fin e H). Qed.

Lemma rl_fin : forall e, running_leaves e OFin = [].
Proof. destruct e; reflexivity. Qed.

(* silent after completion *)
Lemma stop_fin : forall e, stop e OFin = (OFin, [], None).
Proof. destruct e; reflexivity. Qed.

Lemma leafev_fin : forall e id o, leafev e OFin id o = ((OFin, [], None), false).
Proof. destruct e; reflexivity. Qed.

Lemma rl_incl : forall e st, incl (running_leaves e st) (leaf_ids e).
Proof.
  induction e as [v|x| |n|id|id|k s IHs|k a IHa b IHb]; intros st; simpl;
    try (intros y Hy; destruct Hy; fail).
  - destruct st as [|c s|ns sa sb]; try (intros y []). destruct c; [intros y []|apply incl_refl].
  - destruct st as [|c s|ns sa sb]; try (intros y []). destruct c; [intros y []|apply incl_refl].
  - destruct st as [|c s0|ns sa sb]; try (intros y []). apply IHs.
  - destruct st as [|c s0|ns sa sb]; try (intros y []).
    apply incl_app; [apply incl_appl, IHa|apply incl_appr, IHb].
Qed.

Lemma NoDup_app_disj : forall (A : Type) (l1 l2 : list A) x,
  NoDup (l1 ++ l2) -> In x l1 -> In x l2 -> False.
Proof.
  induction l1 as [|y l1 IH]; simpl; intros l2 x H H1 H2; [contradiction|].
  inversion H as [|? ? Hn Hd]; subst. destruct H1 as [->|H1].
  - apply Hn. apply in_or_app. auto.
  - exact (IH l2 x Hd H1 H2).
Qed.

Lemma NoDup_app_l : forall (A : Type) (l1 l2 : list A), NoDup (l1 ++ l2) -> NoDup l1.
Proof.
  induction l1 as [|y l1 IH]; simpl; intros l2 H; [constructor|].
  inversion H as [|? ? Hn Hd]; subst. constructor.
  - intros Hy. apply Hn. apply in_or_app. auto.
  - exact (IH l2 Hd).
Qed.

Lemma NoDup_app_r : forall (A : Type) (l1 l2 : list A), NoDup (l1 ++ l2) -> NoDup l2.
Proof.
  induction l1 as [|y l1 IH]; simpl; intros l2 H; [exact H|].
  inversion H; subst. auto.
Qed.

(* the bookkeeping of a concurrent node when child [i] completes *)
Lemma ccd_spec : forall k ns i o ns' nw fin,
  conc_child_done k ns i o = (ns', nw, fin) ->
  ph ns' = ph ns /\
  adone ns' = (if i then adone ns else true) /\
  bdone ns' = (if i then true else bdone ns) /\
  match fin with
  | Some _ => (if i then adone ns else true) && (if i then true else bdone ns) = true
  | None => (if i then adone ns else true) && (if i then true else bdone ns) = false
  end.
Proof.
  intros k ns i o ns' nw fin. unfold conc_child_done.
  destruct i; simpl; destruct (adone ns) eqn:Ea, (bdone ns) eqn:Eb; simpl;
    intros H; inversion H; subst; clear H; simpl; rewrite ?Ea, ?Eb; auto.
Qed.

(* ------------------------------------------------------------------------------------------------ *)
(* Symbolic execution of the big matches                                                            *)
(* ------------------------------------------------------------------------------------------------ *)

(* keep the helper functions folded while the big matches are executed (made transparent again at
   the end of the file) *)
Opaque conc_child_done un_result after_first after_second is_seq.

(* the term the outermost match of [t] is blocked on *)
Ltac head_scrut t :=
  lazymatch t with
  | fst ?y => head_scrut y
  | match ?x with _ => _ end => head_scrut x
  | _ => t
  end.

Ltac rw_flags :=
  repeat match goal with
         | H : adone _ = _ |- _ => rewrite H
         | H : bdone _ = _ |- _ => rewrite H
         | H : ph _ = _ |- _ => rewrite H
         | H : is_seq _ = _ |- _ => rewrite H
         end.

Ltac rw_flags_in E :=
  repeat match goal with
         | H : adone _ = _ |- _ => rewrite H in E
         | H : bdone _ = _ |- _ => rewrite H in E
         | H : ph _ = _ |- _ => rewrite H in E
         end.

Ltac simpl_good :=
  repeat match goal with
         | H : good _ (_, _, _) |- _ => simpl in H
         | H : good _ (fst (_, _)) |- _ => simpl in H
         end.

Ltac revert_about x :=
  repeat match goal with H : context [x] |- _ => revert H end.

(* one step: resolve the outermost blocked match of the goal [P t] *)
Ltac step_on x :=
  lazymatch x with
  | start ?a ?en =>
      try (assert (good a (start a en)) by auto);
      revert_about x; destruct x as [[? ?] [?|]]; intros; simpl_good; subst
  | stop ?a ?st =>
      try (assert (good a (stop a st)) by auto);
      revert_about x; destruct x as [[? ?] [?|]]; intros; simpl_good; subst
  | leafev ?a ?st ?id ?o =>
      try (assert (good a (fst (leafev a st id o))) by auto);
      revert_about x; destruct x as [[[? ?] [?|]] ?]; intros; simpl_good; subst
  | conc_child_done ?k ?ns ?i ?o =>
      let E := fresh "E" in
      destruct x as [[? ?] ?] eqn:E;
      apply ccd_spec in E; simpl in E; rw_flags_in E; simpl in E;
      destruct E as (? & ? & ? & E);
      match type of E with match ?f with _ => _ end => destruct f; try discriminate E end;
      clear E
  | after_first _ _ _ => destruct x as [?|[? ?]]
  | un_result _ _ => destruct x as [? ?]
  | own_stop _ => destruct x eqn:?
  | Nat.eqb _ _ => destruct x eqn:?
  | _ => is_var x; destruct x
  end.

Ltac step :=
  simpl; rw_flags; simpl;
  lazymatch goal with
  | |- good _ ?t => let x := head_scrut t in step_on x
  | |- hit_ok _ _ _ ?t => let x := head_scrut t in step_on x
  | |- rem_ok _ _ ?t => let x := head_scrut t in step_on x
  end.

Ltac finish_good := unfold good; repeat (progress (simpl; rw_flags)); simpl; repeat split; auto.

(* ------------------------------------------------------------------------------------------------ *)
(* start / stop / leafev keep the state well formed, and a completion leaves OFin                   *)
(* ------------------------------------------------------------------------------------------------ *)

Lemma spec_all : forall e,
  (forall en, good e (start e en)) /\
  (forall st, wf e st -> good e (stop e st)) /\
  (forall st id o, wf e st -> good e (fst (leafev e st id o))).
Proof.
  induction e as [v|x| |n|id|id|k s IHs|k a IHa b IHb].
  - repeat split; intros; simpl in *; auto; contradiction.
  - repeat split; intros; simpl in *; auto; contradiction.
  - repeat split; intros; simpl in *; auto; contradiction.
  - repeat split; intros; simpl in *; auto; contradiction.
  - (* Leaf *)
    repeat split.
    + intros en. simpl. destruct (e_stopped en); simpl; auto.
    + intros st H. destruct st as [|[|] [|]|]; simpl in *; auto; contradiction.
    + intros st id0 o H. destruct st as [|[|] sn|]; simpl in *; try contradiction.
      destruct (Nat.eqb id0 id); simpl; auto.
  - (* LeafN *)
    repeat split.
    + intros en. simpl. destruct (e_stopped en); simpl; auto.
    + intros st H. destruct st as [|[|] [|]|]; simpl in *; auto; contradiction.
    + intros st id0 o H. destruct st as [|[|] [|]|]; simpl in *; try contradiction.
      destruct (Nat.eqb id0 id); simpl; auto.
  - (* Un *)
    destruct IHs as (IH1 & IH2 & IH3). repeat split.
    + intros en. repeat step; finish_good.
    + intros st H. destruct st as [| |ns sc sx]; simpl in H; try contradiction.
      destruct sx; try contradiction.
      destruct k; simpl; try exact H; repeat step; finish_good.
    + intros st id o H. destruct st as [| |ns sc sx]; simpl in H; try contradiction.
      destruct sx; try contradiction.
      repeat step; finish_good.
  - (* Bin *)
    destruct IHa as (IHa1 & IHa2 & IHa3). destruct IHb as (IHb1 & IHb2 & IHb3).
    repeat split.
    + intros en. destruct (is_seq k) eqn:Hk.
      * repeat step; finish_good.
      * repeat step; finish_good.
    + intros st H. destruct st as [| |ns sa sb]; simpl in H; try contradiction.
      destruct (is_seq k) eqn:Hk.
      * destruct (ph ns) eqn:P0; try contradiction; destruct H as (Ha & Hb); subst;
          repeat step; finish_good.
      * destruct H as (P0 & Ha & Hb & Hab).
        destruct (adone ns) eqn:A0; destruct (bdone ns) eqn:B0; simpl in Hab; try discriminate; subst;
          repeat step; finish_good.
    + intros st id o H. destruct st as [| |ns sa sb]; simpl in H; try contradiction.
      destruct (is_seq k) eqn:Hk.
      * destruct (ph ns) eqn:P0; try contradiction; destruct H as (Ha & Hb); subst;
          repeat step; finish_good.
      * destruct H as (P0 & Ha & Hb & Hab).
        destruct (adone ns) eqn:A0; destruct (bdone ns) eqn:B0; simpl in Hab; try discriminate; subst;
          repeat step; finish_good.
Qed.

(* no lost completion, state level: a started operation that has not completed has a running leaf *)
Lemma no_lost : forall e st, wf e st -> running_leaves e st <> [].
Proof.
  induction e as [v|x| |n|id|id|k s IHs|k a IHa b IHb]; intros st H; simpl in H; try contradiction.
  - destruct st as [|[|] sn|]; simpl in *; try contradiction. discriminate.
  - destruct st as [|[|] [|]|]; simpl in *; try contradiction. discriminate.
  - destruct st as [| |ns sc sx]; try contradiction. destruct sx; try contradiction.
    simpl. auto.
  - destruct st as [| |ns sa sb]; try contradiction. simpl. intros E.
    apply app_eq_nil in E. destruct E as (Ea & Eb).
    destruct (is_seq k).
    + destruct (ph ns); try contradiction; destruct H as (Ha & Hb).
      * exact (IHa _ Ha Ea).
      * exact (IHb _ Hb Eb).
    + destruct H as (_ & Ha & Hb & Hab).
      destruct (adone ns).
      * destruct (bdone ns); [discriminate|]. exact (IHb _ Hb Eb).
      * exact (IHa _ Ha Ea).
Qed.

Lemma good_spec : forall e st tr r, good e (st, tr, r) ->
  (r = None -> wf e st /\ running_leaves e st <> []) /\ (r <> None -> st = OFin).
Proof.
  intros e st tr [o|] H; simpl in H; split; intros H1; try discriminate; try congruence.
  split; [exact H|exact (no_lost e st H)].
Qed.

Theorem start_spec : forall e en st tr r, start e en = (st, tr, r) ->
  (r = None -> wf e st /\ running_leaves e st <> []) /\ (r <> None -> st = OFin).
Proof.
  intros e en st tr r H. apply good_spec with (tr := tr). rewrite <- H. apply spec_all.
Qed.

Theorem stop_spec : forall e st0 st tr r, wf e st0 -> stop e st0 = (st, tr, r) ->
  (r = None -> wf e st /\ running_leaves e st <> []) /\ (r <> None -> st = OFin).
Proof.
  intros e st0 st tr r Hw H. apply good_spec with (tr := tr). rewrite <- H. apply spec_all; exact Hw.
Qed.

Theorem leafev_spec : forall e st0 id o st tr r hit, wf e st0 -> leafev e st0 id o = ((st, tr, r), hit) ->
  (r = None -> wf e st /\ running_leaves e st <> []) /\ (r <> None -> st = OFin).
Proof.
  intros e st0 id o st tr r hit Hw H. apply good_spec with (tr := tr).
  change (st, tr, r) with (fst ((st, tr, r), hit)). rewrite <- H. apply spec_all; exact Hw.
Qed.

(* ------------------------------------------------------------------------------------------------ *)
(* which leaf events apply                                                                          *)
(* ------------------------------------------------------------------------------------------------ *)

Lemma rl_in_ids : forall e st x, In x (running_leaves e st) -> In x (leaf_ids e).
Proof. intros e st x H. exact (rl_incl e st x H). Qed.

Ltac finish_hit :=
  unfold hit_ok in *; simpl in *; rewrite ?rl_fin in *; rewrite ?in_app_iff; simpl;
  intuition (try discriminate; try congruence).

Lemma hit_iff : forall e st id o, wf e st -> hit_ok e st id (leafev e st id o).
Proof.
  induction e as [v|x| |n|id|id|k s IHs|k a IHa b IHb]; intros st id0 o H; simpl in H; try contradiction.
  - destruct st as [|[|] sn|]; simpl in *; try contradiction.
    unfold hit_ok. destruct (Nat.eqb id0 id) eqn:E; simpl.
    + apply Nat.eqb_eq in E. subst. intuition.
    + apply Nat.eqb_neq in E. split; [discriminate|]. intros [->|[]]. congruence.
  - destruct st as [|[|] [|]|]; simpl in *; try contradiction.
    unfold hit_ok. destruct (Nat.eqb id0 id) eqn:E; simpl.
    + apply Nat.eqb_eq in E. subst. intuition.
    + apply Nat.eqb_neq in E. split; [discriminate|]. intros [->|[]]. congruence.
  - destruct st as [| |ns sc sx]; try contradiction. destruct sx; try contradiction.
    pose proof (IHs sc id0 o H) as Fs.
    repeat step; finish_hit.
  - destruct st as [| |ns sa sb]; try contradiction.
    destruct (is_seq k) eqn:Hk.
    + destruct (ph ns) eqn:P0; try contradiction; destruct H as (Ha & Hb); subst.
      * pose proof (IHa sa id0 o Ha) as Fa. repeat step; finish_hit.
      * pose proof (IHb sb id0 o Hb) as Fb. repeat step; finish_hit.
    + destruct H as (P0 & Ha & Hb & Hab).
      destruct (adone ns) eqn:A0; destruct (bdone ns) eqn:B0; simpl in Hab; try discriminate; subst.
      * pose proof (IHb sb id0 o Hb) as Fb. repeat step; finish_hit.
      * pose proof (IHa sa id0 o Ha) as Fa. repeat step; finish_hit.
      * pose proof (IHa sa id0 o Ha) as Fa. pose proof (IHb sb id0 o Hb) as Fb.
        repeat step; finish_hit.
Qed.

Ltac use_hits :=
  repeat match goal with
         | F : true = true <-> In ?id ?l |- _ => assert (In id l) by (apply F; reflexivity); clear F
         | F : false = true <-> _ |- _ => clear F
         | R : true = true -> ~ In ?id ?l |- _ => assert (~ In id l) by (apply R; reflexivity); clear R
         | R : false = true -> _ |- _ => clear R
         end.

Ltac finish_rem ND :=
  unfold hit_ok, rem_ok in *; simpl in *;
  let Hin := fresh "Hin" in
  intros ? Hin; try discriminate; subst; use_hits; try solve [intuition];
  rewrite ?rl_fin in Hin; simpl in Hin; try contradiction;
  try (apply in_app_or in Hin; destruct Hin as [Hin|Hin]; rewrite ?rl_fin in Hin; simpl in Hin);
  try contradiction;
  (exfalso; eapply NoDup_app_disj; [exact ND|eapply rl_in_ids; eassumption|eapply rl_in_ids; eassumption]).

Lemma hit_removes : forall e st id o, NoDup (leaf_ids e) -> wf e st -> rem_ok e id (leafev e st id o).
Proof.
  induction e as [v|x| |n|id|id|k s IHs|k a IHa b IHb]; intros st id0 o ND H; simpl in H; try contradiction.
  - destruct st as [|[|] sn|]; simpl in *; try contradiction.
    unfold rem_ok. destruct (Nat.eqb id0 id); simpl; auto; discriminate.
  - destruct st as [|[|] [|]|]; simpl in *; try contradiction.
    unfold rem_ok. destruct (Nat.eqb id0 id); simpl; auto; discriminate.
  - destruct st as [| |ns sc sx]; try contradiction. destruct sx; try contradiction.
    simpl in ND. pose proof (IHs sc id0 o ND H) as Rs.
    repeat step; finish_rem ND.
  - destruct st as [| |ns sa sb]; try contradiction.
    simpl in ND.
    pose proof (NoDup_app_r _ _ _ ND) as NDb. pose proof (NoDup_app_l _ _ _ ND) as NDa.
    destruct (is_seq k) eqn:Hk.
    + destruct (ph ns) eqn:P0; try contradiction; destruct H as (Ha & Hb); subst.
      * pose proof (hit_iff a sa id0 o Ha) as Fa. pose proof (IHa sa id0 o NDa Ha) as Ra.
        repeat step; finish_rem ND.
      * pose proof (hit_iff b sb id0 o Hb) as Fb. pose proof (IHb sb id0 o NDb Hb) as Rb.
        repeat step; finish_rem ND.
    + destruct H as (P0 & Ha & Hb & Hab).
      destruct (adone ns) eqn:A0; destruct (bdone ns) eqn:B0; simpl in Hab; try discriminate; subst.
      * pose proof (hit_iff b sb id0 o Hb) as Fb. pose proof (IHb sb id0 o NDb Hb) as Rb.
        repeat step; finish_rem ND.
      * pose proof (hit_iff a sa id0 o Ha) as Fa. pose proof (IHa sa id0 o NDa Ha) as Ra.
        repeat step; finish_rem ND.
      * pose proof (hit_iff a sa id0 o Ha) as Fa. pose proof (IHa sa id0 o NDa Ha) as Ra.
        pose proof (hit_iff b sb id0 o Hb) as Fb. pose proof (IHb sb id0 o NDb Hb) as Rb.
        repeat step; finish_rem ND.
Qed.

Transparent conc_child_done un_result after_first after_second is_seq.

Theorem leafev_hit : forall e st id o, wf e st ->
  (snd (leafev e st id o) = true <-> In id (running_leaves e st)).
Proof. exact hit_iff. Qed.

Theorem leafev_hit_removes : forall e st id o st' tr r,
  NoDup (leaf_ids e) -> wf e st -> leafev e st id o = ((st', tr, r), true) ->
  ~ In id (running_leaves e st').
Proof.
  intros e st id o st' tr r ND H E. pose proof (hit_removes e st id o ND H) as R.
  unfold rem_ok in R. rewrite E in R. simpl in R. auto.
Qed.

(* "a hit removes EXACTLY id" is false: the completion of one leaf may cancel stop-reactive leaves.
   when_all(stop_when(Leaf 1, LeafN 2), Leaf 3): completing leaf 1 also ends leaf 2. *)
Example hit_may_cancel_others :
  let e := Bin BWhenAll (Bin BStopWhen (Leaf 1) (LeafN 2)) (Leaf 3) in
  let st := fst (fst (start e (root_env false))) in
  running_leaves e st = [1; 2; 3]%nat /\
  running_leaves e (fst (fst (fst (leafev e st 1%nat (OVal 0%Z))))) = [3]%nat.
Proof. vm_compute. split; reflexivity. Qed.

(* ------------------------------------------------------------------------------------------------ *)
(* Whole runs                                                                                       *)
(* ------------------------------------------------------------------------------------------------ *)

Definition is_xroot (x : xev) : bool := match x with XRoot _ _ => true | _ => false end.
Definition count_roots (tr : list xev) : nat := length (filter is_xroot tr).

Lemma filter_app_ : forall (A : Type) (f : A -> bool) (l1 l2 : list A),
  filter f (l1 ++ l2) = filter f l1 ++ filter f l2.
Proof.
  induction l1 as [|x l1 IH]; simpl; intros l2; [reflexivity|].
  rewrite IH. destruct (f x); reflexivity.
Qed.

Lemma count_roots_app : forall l1 l2, count_roots (l1 ++ l2) = (count_roots l1 + count_roots l2)%nat.
Proof. intros. unfold count_roots. rewrite filter_app_, app_length. reflexivity. Qed.

Lemma count_roots_XT : forall tr, count_roots (map XT tr) = 0%nat.
Proof. induction tr as [|t tr IH]; simpl; auto. Qed.

(* the run-level invariant *)
Definition RInv (e : sexpr) (rs : run_state) : Prop :=
  (r_roots rs = 0%nat /\ wf e (r_st rs)) \/ (r_roots rs = 1%nat /\ r_st rs = OFin).
Definition TInv (rs : run_state) : Prop := count_roots (r_tr rs) = r_roots rs.

Lemma absorb_RInv : forall e rs r, r_roots rs = 0%nat -> good e r -> RInv e (absorb rs r).
Proof.
  intros e rs [[st tr] [o|]] H0 G; simpl in G; unfold RInv, absorb; simpl.
  - right. rewrite H0. auto.
  - left. auto.
Qed.

Lemma absorb_TInv : forall rs r, TInv rs -> TInv (absorb rs r).
Proof.
  intros rs [[st tr] [o|]] H; unfold TInv, absorb in *; simpl.
  - rewrite !count_roots_app, count_roots_XT, H. unfold count_roots. simpl. lia.
  - rewrite count_roots_app, count_roots_XT, H. lia.
Qed.

Lemma absorb_tr : forall rs r, exists suf, r_tr (absorb rs r) = r_tr rs ++ suf.
Proof.
  intros rs [[st tr] [o|]]; unfold absorb; simpl.
  - rewrite <- app_assoc. eexists; reflexivity.
  - eexists; reflexivity.
Qed.

Lemma run_start_RInv : forall e pre, RInv e (run_start e pre).
Proof. intros. unfold run_start. apply absorb_RInv; [reflexivity|apply spec_all]. Qed.

Lemma run_start_TInv : forall e pre, TInv (run_start e pre).
Proof. intros. unfold run_start. apply absorb_TInv. reflexivity. Qed.

(* after the root completed nothing happens any more *)
Lemma run_ev_fin : forall e rs ev, r_st rs = OFin ->
  let rs' := run_ev e rs ev in
  r_st rs' = OFin /\ r_roots rs' = r_roots rs /\ (r_tr rs' = r_tr rs \/ r_tr rs' = r_tr rs ++ [XSkip]).
Proof.
  intros e rs ev H. destruct ev as [id o|]; simpl.
  - rewrite H, leafev_fin. simpl. auto.
  - destruct (r_stopped rs); simpl; auto.
    rewrite H, stop_fin. simpl. rewrite app_nil_r. auto.
Qed.

Lemma run_ev_RInv : forall e rs ev, RInv e rs -> RInv e (run_ev e rs ev).
Proof.
  intros e rs ev [(H0 & Hw)|(H1 & Hf)].
  - destruct ev as [id o|]; simpl.
    + pose proof (proj2 (proj2 (spec_all e)) _ id o Hw) as G.
      destruct (leafev e (r_st rs) id o) as [r hit]. simpl in G.
      destruct hit.
      * apply absorb_RInv; assumption.
      * left. simpl. auto.
    + destruct (r_stopped rs).
      * left. simpl. auto.
      * apply absorb_RInv; [assumption|]. simpl. apply spec_all. exact Hw.
  - destruct (run_ev_fin e rs ev Hf) as (A & B & _). right. rewrite A, B. auto.
Qed.

Lemma run_ev_TInv : forall e rs ev, TInv rs -> TInv (run_ev e rs ev).
Proof.
  intros e rs ev H. destruct ev as [id o|]; simpl.
  - destruct (leafev e (r_st rs) id o) as [r hit]. destruct hit.
    + apply absorb_TInv; assumption.
    + unfold TInv in *; simpl. rewrite count_roots_app, H. unfold count_roots. simpl. lia.
  - destruct (r_stopped rs).
    + unfold TInv in *; simpl. rewrite count_roots_app, H. unfold count_roots. simpl. lia.
    + apply absorb_TInv. exact H.
Qed.

Lemma run_ev_tr : forall e rs ev, exists suf, r_tr (run_ev e rs ev) = r_tr rs ++ suf.
Proof.
  intros e rs ev. destruct ev as [id o|]; simpl.
  - destruct (leafev e (r_st rs) id o) as [r hit]. destruct hit.
    + apply absorb_tr.
    + simpl. eexists; reflexivity.
  - destruct (r_stopped rs).
    + simpl. eexists; reflexivity.
    + apply (absorb_tr {| r_st := r_st rs; r_stopped := true; r_roots := r_roots rs; r_tr := r_tr rs |}).
Qed.

Lemma fold_RInv : forall e script rs, RInv e rs -> RInv e (fold_left (run_ev e) script rs).
Proof. induction script as [|ev script IH]; simpl; intros rs H; [exact H|]. apply IH, run_ev_RInv, H. Qed.

Lemma fold_TInv : forall e script rs, TInv rs -> TInv (fold_left (run_ev e) script rs).
Proof. induction script as [|ev script IH]; simpl; intros rs H; [exact H|]. apply IH, run_ev_TInv, H. Qed.

Lemma fold_tr : forall e script rs, exists suf, r_tr (fold_left (run_ev e) script rs) = r_tr rs ++ suf.
Proof.
  induction script as [|ev script IH]; simpl; intros rs.
  - exists []. rewrite app_nil_r. reflexivity.
  - destruct (IH (run_ev e rs ev)) as (s2 & E2). destruct (run_ev_tr e rs ev) as (s1 & E1).
    exists (s1 ++ s2). rewrite E2, E1, app_assoc. reflexivity.
Qed.

Lemma fold_fin : forall e script rs, r_st rs = OFin ->
  let rs' := fold_left (run_ev e) script rs in
  r_st rs' = OFin /\ r_roots rs' = r_roots rs /\
  exists n, (n <= length script)%nat /\ r_tr rs' = r_tr rs ++ repeat XSkip n.
Proof.
  induction script as [|ev script IH]; simpl; intros rs H.
  - repeat split; auto. exists 0%nat. simpl. rewrite app_nil_r. auto.
  - destruct (run_ev_fin e rs ev H) as (A & B & C).
    destruct (IH _ A) as (A' & B' & n & Hn & E). repeat split; auto; try congruence.
    destruct C as [C|C]; rewrite C in E.
    + exists n. split; [lia|exact E].
    + exists (S n). split; [lia|]. rewrite E, <- app_assoc. reflexivity.
Qed.

Lemma exec_inv : forall e pre script, RInv e (exec e pre script) /\ TInv (exec e pre script).
Proof.
  intros. unfold exec. split; [apply fold_RInv, run_start_RInv|apply fold_TInv, run_start_TInv].
Qed.

Lemma exec_app : forall e pre s1 s2, exec e pre (s1 ++ s2) = fold_left (run_ev e) s2 (exec e pre s1).
Proof. intros. unfold exec. apply fold_left_app. Qed.

(* at most one root completion, and the trace agrees with the counter *)
Theorem C01_at_most_once : forall e pre script,
  (r_roots (exec e pre script) <= 1)%nat /\
  count_roots (r_tr (exec e pre script)) = r_roots (exec e pre script).
Proof.
  intros. destruct (exec_inv e pre script) as ([(H & _)|(H & _)] & T); split; try exact T; lia.
Qed.

(* the trace starts empty, start produces at most one root completion, later events only append
   (so every XRoot was produced by start or by a later event, and none is ever retracted) *)
Theorem C01_root_after_start : forall e pre,
  (count_roots (r_tr (exec e pre [])) <= 1)%nat /\
  (forall s1 s2, exists suf, r_tr (exec e pre (s1 ++ s2)) = r_tr (exec e pre s1) ++ suf) /\
  (forall s1 s2, (r_roots (exec e pre s1) <= r_roots (exec e pre (s1 ++ s2)))%nat).
Proof.
  intros e pre. split; [|split].
  - destruct (C01_at_most_once e pre []) as (A & B). lia.
  - intros. rewrite exec_app. apply fold_tr.
  - intros s1 s2.
    destruct (C01_at_most_once e pre s1) as (_ & B1). destruct (C01_at_most_once e pre (s1 ++ s2)) as (_ & B2).
    rewrite exec_app in *. destruct (fold_tr e s2 (exec e pre s1)) as (suf & E).
    rewrite E, count_roots_app in B2. lia.
Qed.

(* no lost completion: as long as the root has not completed a started leaf is still running (so the
   operation is waiting for something that can still happen); once it has, the state is OFin *)
Theorem C01_no_lost : forall e pre script,
  let rs := exec e pre script in
  (r_roots rs = 0%nat -> wf e (r_st rs) /\ running_leaves e (r_st rs) <> []) /\
  (r_roots rs = 1%nat -> r_st rs = OFin /\ running_leaves e (r_st rs) = []).
Proof.
  intros e pre script rs. destruct (exec_inv e pre script) as ([(H & W)|(H & F)] & _); fold rs in H, W || fold rs in H, F.
  - split; intros H'; [|congruence]. split; [exact W|apply no_lost, W].
  - split; intros H'; [congruence|]. split; [exact F|]. rewrite F. apply rl_fin.
Qed.

(* silent after completion: once the root completed, further events change nothing but XSkip marks *)
Theorem C01_silent_after : forall e pre script script2,
  r_roots (exec e pre script) = 1%nat ->
  let rs' := exec e pre (script ++ script2) in
  r_roots rs' = 1%nat /\ r_st rs' = OFin /\
  exists n, (n <= length script2)%nat /\ r_tr rs' = r_tr (exec e pre script) ++ repeat XSkip n.
Proof.
  intros e pre script script2 H rs'. subst rs'. rewrite exec_app.
  destruct (C01_no_lost e pre script) as (_ & F). destruct (F H) as (F' & _).
  destruct (fold_fin e script2 _ F') as (A & B & C). repeat split; auto. congruence.
Qed.

(* a leaf event of the script applies iff that leaf is running (otherwise it is skipped and changes
   nothing), and then the leaf is not running afterwards: with unique ids no leaf completes twice *)
Lemma run_ev_leaf : forall e rs id o, RInv e rs ->
  let rs' := run_ev e rs (EvLeaf id o) in
  (In id (running_leaves e (r_st rs)) \/
   r_tr rs' = r_tr rs ++ [XSkip] /\ r_st rs' = r_st rs /\ r_roots rs' = r_roots rs) /\
  (NoDup (leaf_ids e) -> ~ In id (running_leaves e (r_st rs'))).
Proof.
  intros e rs id o [(H & W)|(H & F)]; simpl.
  - pose proof (leafev_hit e (r_st rs) id o W) as Hit.
    destruct (leafev e (r_st rs) id o) as [[[st' tr] r] hit] eqn:E. simpl in Hit. destruct hit.
    + split; [left; apply Hit; reflexivity|].
      intros ND. pose proof (leafev_hit_removes e _ id o st' tr r ND W E) as R.
      destruct r; simpl; exact R.
    + split; [right; simpl; auto|]. simpl. intros _ Hin. apply Hit in Hin. discriminate.
  - rewrite F, leafev_fin. simpl. split; [right; auto|]. rewrite ?F, rl_fin. auto.
Qed.

Theorem C01_leaf_once : forall e pre script id o,
  let rs := exec e pre script in
  let rs' := exec e pre (script ++ [EvLeaf id o]) in
  (In id (running_leaves e (r_st rs)) \/
   r_tr rs' = r_tr rs ++ [XSkip] /\ r_st rs' = r_st rs /\ r_roots rs' = r_roots rs) /\
  (NoDup (leaf_ids e) -> ~ In id (running_leaves e (r_st rs'))).
Proof.
  intros e pre script id o. cbv zeta. rewrite exec_app. simpl fold_left.
  apply run_ev_leaf. apply exec_inv.
Qed.
