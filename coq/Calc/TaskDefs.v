(* E2 for COROUTINE TASKS (property C10) - a calculus of coroutine bodies and its executable
   task-level operational semantics.  Executable definitions only (extracted to OCaml and run
   against the real library by the K2 tie tools/k2t.py); proofs are in Calc/TaskProofs.v.

   A coroutine body [coexpr] is what a generated C++20 coroutine lambda returning unifex::task<int>
   does: co_return, throw, co_await of a sender / awaitable / nested task, construction of a tracked
   local, registration of a cleanup action with at_coroutine_exit, try/catch.  The machine keeps an
   explicit stack of coroutine frames (innermost first); each frame has its live tracked locals (per
   enclosing try block), its LIFO list of registered cleanup actions and its continuation.
   Entry points, mirroring what can happen to connect(task, root_receiver):
     run_start        - start() of the connected operation,
     EvLeaf id o      - a scripted asynchronous leaf (or awaitable), started earlier, completes,
     EvStop           - stop is requested on the root receiver's stop token,
     finish_run       - the operation state is destroyed after the root receiver was completed.

   C++ mirrored (include/unifex/): task.hpp (promise final_suspend, _awaiter, unhandled_done chain,
   sr_thunk delivering stop inline on the inline scheduler), await_transform.hpp (_rec value / error /
   done), at_coroutine_exit.hpp (cleanup coroutines chained through exchange_continuation, unstoppable
   token inside a cleanup), connect_awaitable.hpp, unhandled_done.hpp, continuations.hpp,
   with_scheduler_affinity.hpp (awaitable -> as_sender -> awaitable round trip).

   Observed on the real code and modelled as such: on return and on an escaping exception the frame's
   locals are destroyed first and its cleanup actions run next (most recently registered first), then
   the frame is destroyed by the awaiting parent when it resumes; on done nothing in the frame runs:
   the cleanup actions of all frames run first, innermost frame first, the root receiver gets set_done,
   and the suspended frames with their locals are destroyed only when the operation state is destroyed
   (innermost first).

   BELOW THE MODEL (the claim is partial there): allocation of coroutine frames, symmetric transfer,
   compiler generated coroutine code, the internal frames of connect_awaitable / the stop request thunk
   / the done coroutines / the cleanup coroutines, any_scheduler, async stack frames. *)
From Coq Require Import ZArith List Bool Arith.
Import ListNotations.
Local Open Scope Z_scope.

Module TCalc.

Inductive outcome := OVal (v : Z) | OErr (e : Z) | ODone.

(* operands: a constant or (the n-th innermost bound value) + k *)
Inductive arg := AConst (v : Z) | AVar (n : nat) (k : Z).
Definition arg_val (a : arg) (env : list Z) : Z :=
  match a with AConst v => v | AVar n k => nth n env 0 + k end.

(* a cleanup action: logs, optionally awaits one scripted leaf, logs its end *)
Record cleanup := { c_id : nat; c_leaf : option nat }.

(* scripted leaves: plain sender (only logs a stop request), stop-reactive sender (completes with done
   from its stop callback), plain awaitable resumed by the script (knows nothing about stop) *)
Inductive lkind := LPlain | LReactive | LAw.

Inductive aw :=
| AJust (a : arg) | AErr (e : Z) | ADone     (* inline senders *)
| AAwJust (a : arg) | AAwErr (e : Z)         (* plain awaitable completing at once: value / throws from await_resume *)
| ALeaf (kd : lkind) (id : nat)
| ATask (body : coexpr)                      (* a nested task<int>: gets every bound value of the awaiting coroutine *)
with coexpr :=
| CRet (a : arg)                             (* co_return a *)
| CThrow (e : Z)                             (* throw err e *)
| CAwait (s : aw) (k : coexpr)               (* int x = co_await s; k   - k may use the value as variable 0 *)
| CLocal (id : nat) (k : coexpr)             (* tracked local l; k *)
| CAtExit (c : cleanup) (k : coexpr)         (* co_await at_coroutine_exit(c); k *)
| CTry (body handler : coexpr).              (* try body catch (err e) then handler, e bound as variable 0 *)

(* observable events, compared one by one with the real library's run *)
Inductive tev :=
| TFrame (n : nat)                           (* the n-th task object was created (numbered in creation order) *)
| TLocalCtor (f id : nat) | TLocalDtor (f id : nat)
| TCleanupReg (f c : nat)                    (* at_coroutine_exit returned in frame f *)
| TCleanupRun (f c : nat) | TCleanupEnd (f c : nat)
| TFrameDestroyed (n : nat)                  (* the coroutine frame of task n was destroyed *)
| TLeafStart (id : nat) (stopped stoppable : bool)
| TAwStart (id : nat)
| TLeafStopSeen (id : nat)
| TLeafDone (id : nat) (o : outcome)
| TStopReq
| TRoot (o : outcome)
| TOpDtor                                    (* the harness destroys the operation state *)
| TSkip                                      (* a script entry that did not apply *)
| TTerminate.                                (* a cleanup action completed with error or done: std::terminate *)

(* an enclosing try block of the code being executed: handler, environment at the try, locals of the
   block that contains the try statement *)
Definition tryent := (coexpr * list Z * list nat)%type.
Definition te_seg (t : tryent) : list nat := snd t.

Record frame := {
  f_n : nat;                  (* task number *)
  f_scope : list nat;         (* live tracked locals of the innermost block, most recent first *)
  f_trys : list tryent;       (* enclosing try blocks, innermost first *)
  f_cleanups : list cleanup;  (* registered and not yet run, most recently registered first *)
  f_env : list Z;
  f_k : coexpr                (* what follows the pending co_await *)
}.
Definition mkframe n scope trys cls env k : frame :=
  {| f_n := n; f_scope := scope; f_trys := trys; f_cleanups := cls; f_env := env; f_k := k |}.
Definition set_cleanups (f : frame) (cls : list cleanup) : frame :=
  mkframe (f_n f) (f_scope f) (f_trys f) cls (f_env f) (f_k f).

Definition all_locals (scope : list nat) (trys : list tryent) : list nat := scope ++ flat_map te_seg trys.
Definition frame_locals (f : frame) : list nat := all_locals (f_scope f) (f_trys f).
Definition dtors (n : nat) (ids : list nat) : list tev := map (TLocalDtor n) ids.

(* what the innermost frame is suspended on *)
Inductive susp :=
| SLeaf (id : nat) (kd : lkind) (seen : bool)        (* its body awaits a leaf; seen: the leaf saw a stop request *)
| SExit (o : outcome) (c : cleanup) (zs : list frame).
    (* it is exiting with o, its cleanup c awaits c's leaf, f_cleanups = the cleanups still to run;
       zs (only when o = ODone) = inner frames already unwound by done, still allocated, innermost first *)

Inductive gcfg :=
| GSusp (s : susp) (stack : list frame)      (* innermost first *)
| GRootDone (zs : list frame)                (* root got set_done; the frames still exist *)
| GFinished                                  (* root completed, every frame destroyed *)
| GDead.                                     (* std::terminate *)

Inductive res :=
| RVal (v : Z) (nx : nat) (tr : list tev)        (* this frame completed with a value and was destroyed *)
| RErr (x : Z) (nx : nat) (tr : list tev)        (* ... with an error ... *)
| RThrowOut (x : Z) (cls : list cleanup) (nx : nat) (tr : list tev)
      (* an exception left the current block (its locals are destroyed); cls = cleanups registered so far *)
| RGlob (g : gcfg) (nx : nat) (tr : list tev).   (* the whole operation reached configuration g *)

Definition pre (tr0 : list tev) (r : res) : res :=
  match r with
  | RVal v nx tr => RVal v nx (tr0 ++ tr)
  | RErr x nx tr => RErr x nx (tr0 ++ tr)
  | RThrowOut x cls nx tr => RThrowOut x cls nx (tr0 ++ tr)
  | RGlob g nx tr => RGlob g nx (tr0 ++ tr)
  end.

(* at_coroutine_exit.hpp: the cleanup coroutines are chained as the continuation of the frame, most
   recently registered first; inside one, get_stop_token is unstoppable_token.  Runs until one
   suspends on its leaf. *)
Fixpoint run_cleanups (n : nat) (cls : list cleanup) : list tev * option (cleanup * list cleanup) :=
  match cls with
  | [] => ([], None)
  | c :: rest =>
      match c_leaf c with
      | Some l => ([TCleanupRun n (c_id c); TLeafStart l false false], Some (c, rest))
      | None => let (tr, r) := run_cleanups n rest in
                (TCleanupRun n (c_id c) :: TCleanupEnd n (c_id c) :: tr, r)
      end
  end.

Definition dummy_k : coexpr := CRet (AConst 0).

(* task.hpp final_suspend -> continuation_ = the cleanup chain -> the awaiting parent, whose
   await_resume destroys the frame (coro_holder destroyOnExit).  o is a value or an error. *)
Definition finish (n : nat) (o : outcome) (cls : list cleanup) (below : list frame) (nx : nat) : res :=
  match run_cleanups n cls with
  | (tr, None) =>
      match o with
      | OVal v => RVal v nx (tr ++ [TFrameDestroyed n])
      | OErr x => RErr x nx (tr ++ [TFrameDestroyed n])
      | ODone => RGlob GDead nx tr                       (* not used *)
      end
  | (tr, Some (c, pending)) =>
      RGlob (GSusp (SExit o c []) (mkframe n [] [] pending [] dummy_k :: below)) nx tr
  end.

(* await_transform.hpp _rec::set_done -> continuation_.resume_done(): the done coroutine of each promise
   runs that frame's cleanup chain (done handles) and continues with the parent's done coroutine; at the
   bottom connect_awaitable's promise calls set_done on the root receiver.  No frame is resumed. *)
Fixpoint unwind_done (zs : list frame) (stack : list frame) : gcfg * list tev :=
  match stack with
  | [] => (GRootDone zs, [TRoot ODone])
  | f :: rest =>
      match run_cleanups (f_n f) (f_cleanups f) with
      | (tr, None) => let (g, tr') := unwind_done (zs ++ [set_cleanups f []]) rest in (g, tr ++ tr')
      | (tr, Some (c, pending)) => (GSusp (SExit ODone c zs) (set_cleanups f pending :: rest), tr)
      end
  end.

(* result of evaluating the operand of co_await *)
Inductive ares :=
| AIn (o : outcome) (nx : nat) (tr : list tev)       (* completed before the coroutine could be left *)
| AGlob (g : gcfg) (nx : nat) (tr : list tev).

Definition start_leaf (kd : lkind) (id : nat) (stopped : bool) (stack : list frame) (nx : nat) : ares :=
  match kd with
  | LPlain =>
      if stopped then AGlob (GSusp (SLeaf id LPlain true) stack) nx [TLeafStart id true true; TLeafStopSeen id]
      else AGlob (GSusp (SLeaf id LPlain false) stack) nx [TLeafStart id false true]
  | LReactive =>
      if stopped then AIn ODone nx [TLeafStart id true true; TLeafStopSeen id; TLeafDone id ODone]
      else AGlob (GSusp (SLeaf id LReactive false) stack) nx [TLeafStart id false true]
  | LAw => AGlob (GSusp (SLeaf id LAw false) stack) nx [TAwStart id]
  end.

(* the body of a task ended by an exception leaving its outermost block *)
Definition close_body (m : nat) (below : list frame) (r : res) : res :=
  match r with
  | RThrowOut x cls nx tr => pre tr (finish m (OErr x) cls below nx)
  | _ => r
  end.

(* Run code e of frame n.  env: bound values; scope: locals of the current block; trys: enclosing try
   blocks; cls: registered cleanups; below: the awaiting frames; stopped: the stop source the task sees
   (the stop request thunk's) is in the requested state; nx: next task number. *)
Fixpoint run_body (n : nat) (e : coexpr) (env : list Z) (scope : list nat) (trys : list tryent)
         (cls : list cleanup) (below : list frame) (stopped : bool) (nx : nat) {struct e} : res :=
  match e with
  | CRet a =>
      (* return_value, locals destroyed innermost block first, final_suspend *)
      pre (dtors n (all_locals scope trys)) (finish n (OVal (arg_val a env)) cls below nx)
  | CThrow x => RThrowOut x cls nx (dtors n scope)
  | CLocal id k => pre [TLocalCtor n id] (run_body n k env (id :: scope) trys cls below stopped nx)
  | CAtExit c k => pre [TCleanupReg n (c_id c)] (run_body n k env scope trys (c :: cls) below stopped nx)
  | CTry b h =>
      match run_body n b env [] ((h, env, scope) :: trys) cls below stopped nx with
      | RThrowOut x cls' nx' tr => pre tr (run_body n h (x :: env) scope trys cls' below stopped nx')
      | r => r
      end
  | CAwait s k =>
      let me := mkframe n scope trys cls env k in
      let ar :=
          match s with
          | AJust a => AIn (OVal (arg_val a env)) nx []
          | AAwJust a => AIn (OVal (arg_val a env)) nx []
          | AErr x => AIn (OErr x) nx []
          | AAwErr x => AIn (OErr x) nx []
          | ADone => AIn ODone nx []
          | ALeaf kd id => start_leaf kd id stopped (me :: below) nx
          | ATask b =>
              (* task.hpp _awaiter::await_suspend: the child gets our scheduler and stop token and runs *)
              match close_body nx (me :: below) (run_body nx b env [] [] [] (me :: below) stopped (S nx)) with
              | RVal v nx' tr => AIn (OVal v) nx' (TFrame nx :: tr)
              | RErr x nx' tr => AIn (OErr x) nx' (TFrame nx :: tr)
              | RThrowOut _ _ nx' tr => AGlob GDead nx' (TFrame nx :: tr)      (* not reachable: close_body *)
              | RGlob g nx' tr => AGlob g nx' (TFrame nx :: tr)
              end
          end in
      match ar with
      | AIn (OVal v) nx' tr => pre tr (run_body n k (v :: env) scope trys cls below stopped nx')
      | AIn (OErr x) nx' tr => RThrowOut x cls nx' (tr ++ dtors n scope)    (* await_resume rethrows *)
      | AIn ODone nx' tr => let (g, tr') := unwind_done [] (me :: below) in RGlob g nx' (tr ++ tr')
      | AGlob g nx' tr => RGlob g nx' tr
      end
  end.

(* an exception propagates through the enclosing try blocks of a resumed frame *)
Fixpoint catch_loop (n : nat) (x : Z) (trys : list tryent) (cls : list cleanup) (below : list frame)
         (stopped : bool) (nx : nat) {struct trys} : res :=
  match trys with
  | [] => finish n (OErr x) cls below nx
  | (h, henv, seg) :: more =>
      match run_body n h (x :: henv) seg more cls below stopped nx with
      | RThrowOut x' cls' nx' tr => pre tr (catch_loop n x' more cls' below stopped nx')
      | r => r
      end
  end.

Definition catch_res (n : nat) (trys : list tryent) (below : list frame) (stopped : bool) (r : res) : res :=
  match r with
  | RThrowOut x cls nx tr => pre tr (catch_loop n x trys cls below stopped nx)
  | _ => r
  end.

(* the operation awaited by the innermost frame of [stack] completed with o *)
Fixpoint resume (stack : list frame) (o : outcome) (stopped : bool) (nx : nat) {struct stack}
  : gcfg * nat * list tev :=
  match stack with
  | [] =>
      match o with
      | ODone => (GRootDone [], nx, [TRoot ODone])
      | _ => (GFinished, nx, [TRoot o])
      end
  | p :: rest =>
      let r :=
          match o with
          | OVal v => run_body (f_n p) (f_k p) (v :: f_env p) (f_scope p) (f_trys p) (f_cleanups p) rest stopped nx
          | OErr x => RThrowOut x (f_cleanups p) nx (dtors (f_n p) (f_scope p))
          | ODone => let (g, tr) := unwind_done [] (p :: rest) in RGlob g nx tr
          end in
      match catch_res (f_n p) (f_trys p) rest stopped r with
      | RVal v nx' tr => let '(g, nx'', tr') := resume rest (OVal v) stopped nx' in (g, nx'', tr ++ tr')
      | RErr x nx' tr => let '(g, nx'', tr') := resume rest (OErr x) stopped nx' in (g, nx'', tr ++ tr')
      | RThrowOut _ _ nx' tr => (GDead, nx', tr)          (* not reachable: catch_res *)
      | RGlob g nx' tr => (g, nx', tr)
      end
  end.

Definition res_glob (below : list frame) (stopped : bool) (r : res) : gcfg * nat * list tev :=
  match r with
  | RVal v nx tr => let '(g, nx', tr') := resume below (OVal v) stopped nx in (g, nx', tr ++ tr')
  | RErr x nx tr => let '(g, nx', tr') := resume below (OErr x) stopped nx in (g, nx', tr ++ tr')
  | RThrowOut _ _ nx tr => (GDead, nx, tr)
  | RGlob g nx tr => (g, nx, tr)
  end.

(* ---- whole runs ------------------------------------------------------------------------------------ *)
Inductive sev := EvLeaf (id : nat) (o : outcome) | EvStop.

Record run_state := { r_cfg : gcfg; r_stopped : bool; r_next : nat; r_tr : list tev }.

Definition absorb (rs : run_state) (x : gcfg * nat * list tev) : run_state :=
  let '(g, nx, tr) := x in
  {| r_cfg := g; r_stopped := r_stopped rs; r_next := nx; r_tr := r_tr rs ++ tr |}.

Definition skip (rs : run_state) : run_state :=
  {| r_cfg := r_cfg rs; r_stopped := r_stopped rs; r_next := r_next rs; r_tr := r_tr rs ++ [TSkip] |}.

Definition run_start (body : coexpr) (prestopped : bool) : run_state :=
  absorb {| r_cfg := GDead; r_stopped := prestopped; r_next := 0;
            r_tr := (if prestopped then [TStopReq] else []) ++ [TFrame 0] |}
         (res_glob [] prestopped (close_body 0 [] (run_body 0 body [] [] [] [] [] prestopped 1))).

(* a leaf completion coming from the script; None = does not apply *)
Definition on_leaf (g : gcfg) (id : nat) (o : outcome) (stopped : bool) (nx : nat)
  : option (gcfg * nat * list tev) :=
  match g with
  | GSusp (SLeaf id' kd _) stack =>
      if Nat.eqb id id' then
        match kd, o with
        | LAw, ODone => None
        | _, _ => let '(g', nx', tr) := resume stack o stopped nx in Some (g', nx', TLeafDone id o :: tr)
        end
      else None
  | GSusp (SExit eo c zs) (f :: rest) =>
      match c_leaf c with
      | Some l =>
          if Nat.eqb id l then
            match o with
            | OVal _ =>
                let hd := [TLeafDone id o; TCleanupEnd (f_n f) (c_id c)] in
                match eo with
                | ODone => let (g', tr) := unwind_done zs (f :: rest) in Some (g', nx, hd ++ tr)
                | _ => let '(g', nx', tr) := res_glob rest stopped (finish (f_n f) eo (f_cleanups f) rest nx) in
                       Some (g', nx', hd ++ tr)
                end
            | _ => Some (GDead, nx, [TLeafDone id o; TTerminate])
            end
          else None
      | None => None
      end
  | _ => None
  end.

(* stop requested on the root token (first time): delivered inline by the stop request thunk to the
   stop source every task and leaf below sees; a cleanup action is shielded *)
Definition on_stop (g : gcfg) : gcfg * list tev :=
  match g with
  | GSusp (SLeaf id LPlain false) stack => (GSusp (SLeaf id LPlain true) stack, [TLeafStopSeen id])
  | GSusp (SLeaf id LReactive false) stack =>
      let (g', tr) := unwind_done [] stack in (g', [TLeafStopSeen id; TLeafDone id ODone] ++ tr)
  | _ => (g, [])
  end.

Definition run_ev (rs : run_state) (ev : sev) : run_state :=
  match ev with
  | EvLeaf id o =>
      match on_leaf (r_cfg rs) id o (r_stopped rs) (r_next rs) with
      | Some x => absorb rs x
      | None => skip rs
      end
  | EvStop =>
      if r_stopped rs then skip rs
      else let (g, tr) := on_stop (r_cfg rs) in
           {| r_cfg := g; r_stopped := true; r_next := r_next rs; r_tr := r_tr rs ++ TStopReq :: tr |}
  end.

(* destruction of the operation state: the suspended frames go, innermost first *)
Definition destroy_frames (zs : list frame) : list tev :=
  flat_map (fun f => dtors (f_n f) (frame_locals f) ++ [TFrameDestroyed (f_n f)]) zs.

Definition finish_run (rs : run_state) : run_state :=
  match r_cfg rs with
  | GRootDone zs => {| r_cfg := GFinished; r_stopped := r_stopped rs; r_next := r_next rs;
                       r_tr := r_tr rs ++ TOpDtor :: destroy_frames zs |}
  | GFinished => {| r_cfg := GFinished; r_stopped := r_stopped rs; r_next := r_next rs; r_tr := r_tr rs ++ [TOpDtor] |}
  | _ => rs
  end.

Definition exec (body : coexpr) (prestopped : bool) (script : list sev) : run_state :=
  finish_run (fold_left run_ev script (run_start body prestopped)).

Definition is_root (e : tev) : bool := match e with TRoot _ => true | _ => false end.
Definition roots (tr : list tev) : nat := length (filter is_root tr).

(* ---- the property as an executable monitor over traces ---------------------------------------------
   Run on the model's traces (TaskProofs: every trace of every body and script is accepted) and, the same
   extracted function, on the traces of the real library (tools/k2t.py).
   State: the live frames as a stack (innermost first), each with its live locals (a stack), its
   registered-and-not-yet-run cleanups (a stack) and the cleanup currently running. *)
Record lst := { l_n : nat; l_locals : list nat; l_pend : list nat; l_cur : option nat;
                l_ran : bool (* a cleanup of this frame has started: nothing may be constructed or registered any more *) }.
Definition mklst n ls ps c b : lst := {| l_n := n; l_locals := ls; l_pend := ps; l_cur := c; l_ran := b |}.
Definition quiet (s : lst) : bool :=
  match l_pend s, l_cur s with [], None => true | _, _ => false end.

Record mst := {
  m_live : list lst;
  m_next : nat;                       (* frames are numbered in creation order *)
  m_root : bool;                      (* the root receiver was completed *)
  m_opd : bool;                       (* the operation state is being / was destroyed *)
  m_stopped : bool;
  m_wait : option (nat * bool);       (* the pending leaf and whether it can be stopped *)
  m_expect : option nat;              (* the very next event must be TLeafStopSeen of this leaf *)
  m_dead : bool
}.
Definition m0 : mst :=
  {| m_live := []; m_next := 0; m_root := false; m_opd := false; m_stopped := false; m_wait := None;
     m_expect := None; m_dead := false |}.
Definition set_live (m : mst) (l : list lst) : mst :=
  {| m_live := l; m_next := m_next m; m_root := m_root m; m_opd := m_opd m; m_stopped := m_stopped m;
     m_wait := m_wait m; m_expect := m_expect m; m_dead := m_dead m |}.
Definition set_wait (m : mst) (w : option (nat * bool)) (e : option nat) : mst :=
  {| m_live := m_live m; m_next := m_next m; m_root := m_root m; m_opd := m_opd m; m_stopped := m_stopped m;
     m_wait := w; m_expect := e; m_dead := m_dead m |}.

(* an event of frame n: n must be live and every frame inside it must have no cleanup pending or running
   (cleanup actions of a child are over before anything happens in the parent) *)
Fixpoint upd (n : nat) (f : lst -> option lst) (live : list lst) : option (list lst) :=
  match live with
  | [] => None
  | s :: rest =>
      if Nat.eqb (l_n s) n then option_map (fun s' => s' :: rest) (f s)
      else if quiet s then option_map (cons s) (upd n f rest) else None
  end.

Definition nat_eq_opt (a : option nat) (b : nat) : bool :=
  match a with Some x => Nat.eqb x b | None => false end.

Definition frame_ev (m : mst) (n : nat) (f : lst -> option lst) : option mst :=
  match m_wait m with
  | Some _ => None                                 (* nothing happens in a task while its leaf is pending *)
  | None => option_map (set_live m) (upd n f (m_live m))
  end.

Definition mon_step (m : mst) (e : tev) : option mst :=
  if m_dead m then (match e with TSkip | TStopReq => Some m | _ => None end) else
  match m_expect m, e with
  | Some id, TLeafStopSeen id' =>
      if Nat.eqb id id' then Some (set_wait m (m_wait m) None) else None
  | Some _, _ => None
  | None, _ =>
    match e with
    | TFrame n =>
        if m_root m then None else
        match m_wait m with
        | Some _ => None
        | None =>
            if Nat.eqb n (m_next m) then
              Some {| m_live := mklst n [] [] None false :: m_live m; m_next := S n; m_root := m_root m; m_opd := m_opd m;
                      m_stopped := m_stopped m; m_wait := None; m_expect := None; m_dead := false |}
            else None
        end
    | TLocalCtor n id =>
        if m_root m then None else
        frame_ev m n (fun s => match l_cur s, l_ran s with
                               | None, false => Some (mklst (l_n s) (id :: l_locals s) (l_pend s) None false)
                               | _, _ => None end)
    | TLocalDtor n id =>
        if m_root m && negb (m_opd m) then None else
        frame_ev m n (fun s => match l_cur s, l_locals s with
                               | None, id' :: ls => if Nat.eqb id id' then Some (mklst (l_n s) ls (l_pend s) None (l_ran s)) else None
                               | _, _ => None end)
    | TCleanupReg n c =>
        if m_root m then None else
        frame_ev m n (fun s => match l_cur s, l_ran s with
                               | None, false => Some (mklst (l_n s) (l_locals s) (c :: l_pend s) None false)
                               | _, _ => None end)
    | TCleanupRun n c =>
        if m_root m then None else
        frame_ev m n (fun s => match l_cur s, l_pend s with
                               | None, c' :: ps => if Nat.eqb c c' then Some (mklst (l_n s) (l_locals s) ps (Some c) true) else None
                               | _, _ => None end)
    | TCleanupEnd n c =>
        if m_root m then None else
        frame_ev m n (fun s => if nat_eq_opt (l_cur s) c then Some (mklst (l_n s) (l_locals s) (l_pend s) None (l_ran s)) else None)
    | TFrameDestroyed n =>
        if m_root m && negb (m_opd m) then None else
        match m_wait m, m_live m with
        | None, s :: rest =>
            if Nat.eqb (l_n s) n then
              match l_locals s, l_pend s, l_cur s with
              | [], [], None => Some (set_live m rest)
              | _, _, _ => None
              end
            else None
        | _, _ => None
        end
    | TLeafStart id st sp =>
        if m_root m then None else
        match m_wait m with
        | Some _ => None
        | None =>
            if Bool.eqb st (sp && m_stopped m)
            then Some (set_wait m (Some (id, sp)) (if st then Some id else None))
            else None
        end
    | TAwStart id =>
        if m_root m then None else
        match m_wait m with
        | Some _ => None
        | None => Some (set_wait m (Some (id, false)) None)
        end
    | TLeafStopSeen _ => None                          (* only when expected *)
    | TLeafDone id _ =>
        match m_wait m with
        | Some (id', _) => if Nat.eqb id id' then Some (set_wait m None None) else None
        | None => None
        end
    | TStopReq =>
        if m_stopped m then None else
        Some {| m_live := m_live m; m_next := m_next m; m_root := m_root m; m_opd := m_opd m; m_stopped := true;
                m_wait := m_wait m;
                m_expect := match m_wait m with Some (id, true) => Some id | _ => None end;
                m_dead := false |}
    | TRoot o =>
        if m_root m then None else
        match m_wait m with
        | Some _ => None
        | None =>
            let ok := match o with ODone => forallb quiet (m_live m) | _ => match m_live m with [] => true | _ => false end end in
            if ok then
              Some {| m_live := m_live m; m_next := m_next m; m_root := true; m_opd := false; m_stopped := m_stopped m;
                      m_wait := None; m_expect := None; m_dead := false |}
            else None
        end
    | TOpDtor =>
        if m_root m && negb (m_opd m) then
          Some {| m_live := m_live m; m_next := m_next m; m_root := true; m_opd := true; m_stopped := m_stopped m;
                  m_wait := m_wait m; m_expect := None; m_dead := false |}
        else None
    | TSkip => Some m
    | TTerminate =>
        Some {| m_live := m_live m; m_next := m_next m; m_root := m_root m; m_opd := m_opd m; m_stopped := m_stopped m;
                m_wait := m_wait m; m_expect := None; m_dead := true |}
    end
  end.

Fixpoint mon_run (m : mst) (tr : list tev) : option mst :=
  match tr with
  | [] => Some m
  | e :: rest => match mon_step m e with Some m' => mon_run m' rest | None => None end
  end.

(* final verdict: accepted, and if the root receiver was completed the operation state was destroyed and
   no frame is left *)
Definition mon_final (m : mst) : bool :=
  m_dead m || (match m_expect m with Some _ => false | None => true end) &&
              (if m_root m then m_opd m && (match m_live m with [] => true | _ => false end) else true).

Definition monitor (tr : list tev) : bool :=
  match mon_run m0 tr with Some m => mon_final m | None => false end.

(* index of the first rejected event, for diagnostics (length tr = accepted) *)
Fixpoint mon_first_bad (m : mst) (tr : list tev) (i : nat) : nat :=
  match tr with
  | [] => i
  | e :: rest => match mon_step m e with Some m' => mon_first_bad m' rest (S i) | None => i end
  end.

End TCalc.
