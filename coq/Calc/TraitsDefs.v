(* C11, static-traits half: Gallina mirrors of the formulas by which the C++ headers compute
   sender_traits<S>::blocking, ::sends_done, ::is_always_scheduler_affine, for exactly the C++
   expression that tools/k2.py [to_cpp] emits for a Calc sender expression.

   Definitions only (extracted; compared value by value with the compile-time traits of the generated
   translation units by tools/k2traits.py).  Soundness against the operational model is in
   Calc/TraitsProofs.v.

   One combinator per header, each field with the file:line (under /repo/include/unifex) of the
   formula it mirrors; [traits_of] composes them the way [to_cpp] composes the C++ calls. *)
From Coq Require Import ZArith List Bool.
From V Require Import Calc.CalcDefs.
Import ListNotations.

Module CalcTraits.
Import Calc.

(* blocking.hpp:26-46  enum class _enum : unsigned char  always_inline = 0, always, maybe, never *)
Inductive bk := BAlwaysInline | BAlways | BMaybe | BNever.

Definition bk_rank (k : bk) : nat :=
  match k with BAlwaysInline => 0 | BAlways => 1 | BMaybe => 2 | BNever => 3 end.

(* blocking.hpp:48-50  operator< compares the underlying unsigned char *)
Definition bk_lt (a b : bk) : bool := Nat.ltb (bk_rank a) (bk_rank b).
(* std::max(a, b) = (a < b) ? b : a      std::min(a, b) = (b < a) ? b : a *)
Definition bk_max (a b : bk) : bk := if bk_lt a b then b else a.
Definition bk_min (a b : bk) : bk := if bk_lt b a then b else a.
Definition bk_eqb (a b : bk) : bool := Nat.eqb (bk_rank a) (bk_rank b).

(* sender_traits<S> (sender_concepts.hpp:111-125) *)
Record traits := { t_blocking : bk; t_sends_done : bool; t_affine : bool }.

(* sender_concepts.hpp:73-78  a sender class that does not declare is_always_scheduler_affine gets
   blocking_kind::always_inline == _blocking<Sender>::value *)
Definition default_affine (b : bk) : bool := bk_eqb BAlwaysInline b.

(* ---- leaves ---------------------------------------------------------------------------------- *)
(* just.hpp:82 sends_done = false; just.hpp:84 blocking = always_inline; no affine declaration *)
Definition tr_just : traits :=
  {| t_blocking := BAlwaysInline; t_sends_done := false; t_affine := default_affine BAlwaysInline |}.
(* harness/k2.hpp:188-190  k2::inl (JustErr / JustDone share one sender type) *)
Definition tr_inl : traits :=
  {| t_blocking := BAlwaysInline; t_sends_done := true; t_affine := true |}.
(* harness/k2.hpp:162-164  k2::leaf *)
Definition tr_leaf : traits :=
  {| t_blocking := BMaybe; t_sends_done := true; t_affine := false |}.

(* ---- unary adaptors ---------------------------------------------------------------------------- *)
(* then.hpp:158, 160, 162-163 *)
Definition tr_then (p : traits) : traits :=
  {| t_blocking := t_blocking p; t_sends_done := t_sends_done p; t_affine := t_affine p |}.
(* upon_error.hpp:161, 163-164, 166-167 *)
Definition tr_upon_error (p : traits) : traits :=
  {| t_blocking := t_blocking p; t_sends_done := t_sends_done p; t_affine := t_affine p |}.
(* upon_done.hpp:181 (sends_done = false), 183-184, 186-187 *)
Definition tr_upon_done (p : traits) : traits :=
  {| t_blocking := t_blocking p; t_sends_done := false; t_affine := t_affine p |}.
(* with_query_value.hpp:137, 139, 141-142 *)
Definition tr_with_query_value (p : traits) : traits :=
  {| t_blocking := t_blocking p; t_sends_done := t_sends_done p; t_affine := t_affine p |}.
(* unstoppable.hpp:49, 51, 53-54 *)
Definition tr_unstoppable (p : traits) : traits :=
  {| t_blocking := t_blocking p; t_sends_done := t_sends_done p; t_affine := t_affine p |}.
(* materialize.hpp:191 (sends_done = false), 193, 195-196 *)
Definition tr_materialize (p : traits) : traits :=
  {| t_blocking := t_blocking p; t_sends_done := false; t_affine := t_affine p |}.

(* ---- let_* : [s] = traits of the successor sender TYPE returned by the callable ------------ *)
(* let_value.hpp:385-386 sends_done = pred || any successor;
   let_value.hpp:388-392 blocking = max(pred, min(max over successors, maybe));
   let_value.hpp:394-396 affine = pred && all successors.
   One value overload (int), hence exactly one successor type. *)
Definition tr_let_value (p s : traits) : traits :=
  {| t_blocking := bk_max (t_blocking p) (bk_min (t_blocking s) BMaybe);
     t_sends_done := t_sends_done p || t_sends_done s;
     t_affine := t_affine p && t_affine s |}.
(* let_error.hpp:391-392 with :360  sends_done = source || any_sends_done<Source, finals...>;
   let_error.hpp:397-401 with :367  blocking = max(source, min(max over finals, maybe));
   let_error.hpp:403-404 with :363-364  affine = all<Source, finals...>.
   One error type (exception_ptr), hence exactly one final sender type. *)
Definition tr_let_error (p s : traits) : traits :=
  {| t_blocking := bk_max (t_blocking p) (bk_min (t_blocking s) BMaybe);
     t_sends_done := t_sends_done p || (t_sends_done p || t_sends_done s);
     t_affine := t_affine p && t_affine s |}.
(* let_done.hpp:286 sends_done = final sender's only; :288-291; :293-295 *)
Definition tr_let_done (p s : traits) : traits :=
  {| t_blocking := bk_max (t_blocking p) (bk_min (t_blocking s) BMaybe);
     t_sends_done := t_sends_done s;
     t_affine := t_affine p && t_affine s |}.

(* ---- binary algorithms ------------------------------------------------------------------------ *)
(* sequence.hpp:281-282, 284-289, 291-293 *)
Definition tr_sequence (p s : traits) : traits :=
  {| t_blocking := bk_max (t_blocking p) (bk_min (t_blocking s) BMaybe);
     t_sends_done := t_sends_done p || t_sends_done s;
     t_affine := t_affine p && t_affine s |}.
(* finally.hpp:643-644, 646-648, 650-652 *)
Definition tr_finally (src cmp : traits) : traits :=
  {| t_blocking := bk_max (t_blocking src) (t_blocking cmp);
     t_sends_done := t_sends_done src || t_sends_done cmp;
     t_affine := t_affine src && t_affine cmp |}.
(* when_all / stop_when start all their children and the one completing LAST delivers the result, so
   a child declaring never only keeps the whole operation off the calling thread's start() frame when
   it is the one started last (an earlier one may complete on another thread before a later, inline
   child delivers inline).  Repaired in /repo b8744e5 (when_all) and ca334ca (stop_when); before that
   both headers took the plain maximum (unsound for never: Properties_C11_multi.v
   C11_multi_when_all_asfound_never_refuted / C11_multi_stop_when_asfound_never_refuted).
   [m] = maximum over the children, [last_started] = blocking of the child started last. *)
Definition cap_never (m last_started : bk) : bk :=
  if bk_eqb m BNever && negb (bk_eqb last_started BNever) then BMaybe else m.
(* when_all.hpp:345 (sends_done = true), 347 with 322-330 (max_element over the children, never only when
   the last child is never), 349-350 *)
Definition tr_when_all (a b : traits) : traits :=
  {| t_blocking := cap_never (bk_max (t_blocking a) (t_blocking b)) (t_blocking b);
     t_sends_done := true;
     t_affine := t_affine a && t_affine b |}.
(* stop_when.hpp:346 (sends_done = true), 350-358 (max(source, trigger), never only when the trigger is never),
   360-362 *)
Definition tr_stop_when (src trg : traits) : traits :=
  {| t_blocking := cap_never (bk_max (t_blocking src) (t_blocking trg)) (t_blocking trg);
     t_sends_done := true;
     t_affine := t_affine src && t_affine trg |}.

(* done_as_optional.hpp:40-47  let_done(then(s, to_optional), [] { return just(optional{}); }) *)
Definition tr_done_as_optional (p : traits) : traits :=
  tr_let_done (tr_then p) tr_just.

(* ---- the C++ expression emitted by tools/k2.py to_cpp ------------------------------------- *)
Definition un_traits (k : ukind) (p : traits) : traits :=
  match k with
  | UThen _ => tr_then p                               (* unifex::then(S, fnobj) *)
  | UUponErr _ => tr_upon_error p                      (* k2::uerr, k2.hpp:216-218 *)
  | UUponDone _ => tr_upon_done p                      (* k2::udone, k2.hpp:219-221 *)
  | UWithQ _ _ => tr_with_query_value p
  | UUnstoppable => tr_unstoppable p
  | UMat => tr_then (tr_materialize p)                 (* k2::mat, k2.hpp:228 *)
  | UDoneOpt => tr_then (tr_done_as_optional p)        (* k2::dopt, k2.hpp:229-231 *)
  end.

Definition bin_traits (k : bkind) (a b : traits) : traits :=
  match k with
  | BLetV => tr_let_value a b
  | BLetE => tr_let_error a b
  | BLetD => tr_let_done a b
  | BSeq => tr_sequence (tr_then a) b                  (* sequence(k2::voided(A), B), k2.hpp:210 *)
  | BFinally => tr_finally a (tr_then b)               (* finally(A, k2::voided(B)) *)
  | BWhenAll => tr_then (tr_when_all a b)              (* k2::wall, k2.hpp:211-215 *)
  | BStopWhen => tr_stop_when a (tr_then b)            (* stop_when(A, k2::voided(B)) *)
  end.

Fixpoint traits_of (e : sexpr) : traits :=
  match e with
  | Just _ | Var _ => tr_just                          (* unifex::just(int) *)
  | JustErr _ | JustDone => tr_inl                     (* k2::inl *)
  | Leaf _ | LeafN _ => tr_leaf                        (* k2::leaf *)
  | Un k s => un_traits k (traits_of s)
  | Bin k a b => bin_traits k (traits_of a) (traits_of b)
  end.

Definition blocking_of (e : sexpr) : bk := t_blocking (traits_of e).
Definition sends_done_of (e : sexpr) : bool := t_sends_done (traits_of e).
Definition affine_of (e : sexpr) : bool := t_affine (traits_of e).

(* ---- the RUN-TIME answer unifex::blocking(s) for the same C++ expression ---------------------
   blocking.hpp:94-112: a tag_invoke customisation if one matches the CPO, otherwise the static
   Sender::blocking.  Customisations that forward to the children's run-time answer:
     then.hpp:188-191, with_query_value.hpp:180-183, materialize.hpp:221-224 (child);
     let_value.hpp:426-435, let_error.hpp:436-446, let_done.hpp:329-335
        (max(rt(pred), min(STATIC successor, maybe)));
     finally.hpp:691-696 (max of the two children's run-time answers);
     stop_when.hpp:397-405 (the static formula over the two children's run-time answers).
   upon_error.hpp:172-175, upon_done.hpp:192-195, unstoppable.hpp:71-74, sequence.hpp:307-313 and
   when_all.hpp:375-384 spell their customisation tag_t<blocking>, which inside the class names the
   static data member [blocking], not the CPO: it never matches and the CPO answers with the static
   value.  Mirrored as written. *)
Definition rt_let (rt_pred static_succ : bk) : bk := bk_max rt_pred (bk_min static_succ BMaybe).

Fixpoint rt_blocking_of (e : sexpr) : bk :=
  match e with
  | Un k s =>
      match k with
      | UThen _ | UWithQ _ _ => rt_blocking_of s
      | UMat => rt_blocking_of s                                  (* then -> materialize -> s *)
      | UDoneOpt => rt_let (rt_blocking_of s) (t_blocking tr_just) (* then -> let_done(then(s), just) *)
      | UUponErr _ | UUponDone _ | UUnstoppable => blocking_of e   (* customisation never matches *)
      end
  | Bin k a b =>
      match k with
      | BLetV | BLetE | BLetD => rt_let (rt_blocking_of a) (blocking_of b)
      | BFinally => bk_max (rt_blocking_of a) (rt_blocking_of b)               (* then(b) -> b *)
      | BStopWhen => cap_never (bk_max (rt_blocking_of a) (rt_blocking_of b)) (rt_blocking_of b)
      | BSeq | BWhenAll => blocking_of e                           (* customisation never matches *)
      end
  | _ => blocking_of e                                             (* just / k2::inl / k2::leaf *)
  end.

End CalcTraits.
