(* C04 on the sender calculus: stop requests reach running children; completion never outlives a
   stop callback.  Uses the equation lemmas of Calc/QueryProofs.v.
     Part 1  counting: stop callbacks run at most once per leaf, leaves start at most once
     Part 2  the liveness/stop-state invariant [live] and what [stop] does (A1, A2, A5)
     Part 3  losers of when_all / stop_when are stopped (A3)
     Part 4  whole runs (A1-A5 lifted), A4 *)
From Coq Require Import ZArith List Bool Lia Arith.
From V Require Import Calc.CalcDefs Calc.QueryProofs.
Import ListNotations.
Import Calc.

(* ================================================================================================ *)
(* Part 1: counting                                                                                 *)
(* ================================================================================================ *)
Definition cnt (p : tev -> bool) (tr : list tev) : nat := length (filter p tr).
Lemma cnt_app p t1 t2 : cnt p (t1 ++ t2) = cnt p t1 + cnt p t2.
Proof. unfold cnt. rewrite filter_app, app_length. reflexivity. Qed.
Lemma cnt_nil p : cnt p [] = 0.
Proof. reflexivity. Qed.
Lemma cnt_pos_in p tr : 1 <= cnt p tr -> exists t, In t tr /\ p t = true.
Proof.
  unfold cnt. induction tr as [|t tr IH]; simpl; [lia|].
  destruct (p t) eqn:E.
  - intros _. exists t. auto.
  - intros H. destruct (IH H) as (t' & H1 & H2). exists t'. auto.
Qed.
Lemma in_cnt_pos p tr t : In t tr -> p t = true -> 1 <= cnt p tr.
Proof.
  unfold cnt. induction tr as [|t' tr IH]; simpl; [contradiction|].
  intros [->|H] Hp.
  - rewrite Hp. simpl. lia.
  - specialize (IH H Hp). destruct (p t'); simpl; lia.
Qed.

Definition is_start (id : nat) (t : tev) : bool :=
  match t with TLeafStart i _ _ _ _ => Nat.eqb i id | _ => false end.
Definition is_stop (id : nat) (t : tev) : bool :=
  match t with TLeafStop i => Nat.eqb i id | _ => false end.
Definition cstart (id : nat) := cnt (is_start id).
Definition cstop (id : nat) := cnt (is_stop id).

Lemma cstart_app id t1 t2 : cstart id (t1 ++ t2) = cstart id t1 + cstart id t2.
Proof. apply cnt_app. Qed.
Lemma cstop_app id t1 t2 : cstop id (t1 ++ t2) = cstop id t1 + cstop id t2.
Proof. apply cnt_app. Qed.
Lemma cstart_nil id : cstart id [] = 0. Proof. reflexivity. Qed.
Lemma cstop_nil id : cstop id [] = 0. Proof. reflexivity. Qed.
Lemma cstart_calls id tr : Forall is_call tr -> cstart id tr = 0.
Proof. unfold cstart, cnt. induction 1 as [|t tr Ht _ IH]; simpl; [reflexivity|]. destruct t; simpl in *; tauto. Qed.
Lemma cstop_calls id tr : Forall is_call tr -> cstop id tr = 0.
Proof. unfold cstop, cnt. induction 1 as [|t tr Ht _ IH]; simpl; [reflexivity|]. destruct t; simpl in *; tauto. Qed.

Definition occ (id : nat) (e : sexpr) : nat := length (filter (fun i => Nat.eqb i id) (leaf_ids e)).
Lemma occ_bin id k a b : occ id (Bin k a b) = occ id a + occ id b.
Proof. unfold occ. simpl. rewrite filter_app, app_length. reflexivity. Qed.
Lemma occ_un id k s : occ id (Un k s) = occ id s.
Proof. reflexivity. Qed.
Lemma occ_nodup id e : NoDup (leaf_ids e) -> occ id e <= 1.
Proof.
  unfold occ. induction 1 as [|x l Hx Hl IH]; simpl; [lia|].
  destruct (Nat.eqb x id) eqn:E; simpl; [|lia].
  apply Nat.eqb_eq in E. subst x.
  assert (Z : filter (fun i => Nat.eqb i id) l = []).
  { clear IH Hl. induction l as [|y l IHl]; simpl; [reflexivity|].
    destruct (Nat.eqb y id) eqn:E.
    - apply Nat.eqb_eq in E. subst. exfalso. apply Hx. left. reflexivity.
    - apply IHl. intros H. apply Hx. right. exact H. }
  rewrite Z. simpl. lia.
Qed.

Definition ind (i id : nat) : nat := if Nat.eqb i id then 1 else 0.

(* running leaves that have not seen stop / running leaves / occurrences not started yet *)
Fixpoint nun (id : nat) (e : sexpr) (st : ost) : nat :=
  match e, st with
  | Leaf i, OLeaf false false => ind i id
  | LeafN i, OLeaf false false => ind i id
  | Un _ s, ONode _ sc _ => nun id s sc
  | Bin _ a b, ONode _ sa sb => nun id a sa + nun id b sb
  | _, _ => 0
  end.
Fixpoint nrun (id : nat) (e : sexpr) (st : ost) : nat :=
  match e, st with
  | Leaf i, OLeaf false _ => ind i id
  | LeafN i, OLeaf false _ => ind i id
  | Un _ s, ONode _ sc _ => nrun id s sc
  | Bin _ a b, ONode _ sa sb => nrun id a sa + nrun id b sb
  | _, _ => 0
  end.
Fixpoint avail (id : nat) (e : sexpr) (st : ost) : nat :=
  match e, st with
  | Un _ s, ONode _ sc _ => avail id s sc
  | Bin k a b, ONode ns sa sb =>
      if is_seq k then
        match ph ns with
        | PFirst => avail id a sa + occ id b
        | _ => avail id b sb
        end
      else avail id a sa + avail id b sb
  | _, _ => 0
  end.

Lemma nun_fin id e : nun id e OFin = 0. Proof. destruct e; reflexivity. Qed.
Lemma nrun_fin id e : nrun id e OFin = 0. Proof. destruct e; reflexivity. Qed.
Lemma avail_fin id e : avail id e OFin = 0. Proof. destruct e; reflexivity. Qed.
Lemma nun_un id k s ns sc sb : nun id (Un k s) (ONode ns sc sb) = nun id s sc. Proof. reflexivity. Qed.
Lemma nrun_un id k s ns sc sb : nrun id (Un k s) (ONode ns sc sb) = nrun id s sc. Proof. reflexivity. Qed.
Lemma avail_un id k s ns sc sb : avail id (Un k s) (ONode ns sc sb) = avail id s sc. Proof. reflexivity. Qed.
Lemma nun_bin id k a b ns sa sb : nun id (Bin k a b) (ONode ns sa sb) = nun id a sa + nun id b sb.
Proof. reflexivity. Qed.
Lemma nrun_bin id k a b ns sa sb : nrun id (Bin k a b) (ONode ns sa sb) = nrun id a sa + nrun id b sb.
Proof. reflexivity. Qed.
Lemma avail_conc id k a b ns sa sb : is_seq k = false ->
  avail id (Bin k a b) (ONode ns sa sb) = avail id a sa + avail id b sb.
Proof. intros H. simpl. rewrite H. reflexivity. Qed.
Lemma avail_seq1 id k a b ns sa sb : is_seq k = true -> ph ns = PFirst ->
  avail id (Bin k a b) (ONode ns sa sb) = avail id a sa + occ id b.
Proof. intros H H2. simpl. rewrite H, H2. reflexivity. Qed.
Lemma avail_seq2 id k a b ns sa sb : is_seq k = true -> ph ns <> PFirst ->
  avail id (Bin k a b) (ONode ns sa sb) = avail id b sb.
Proof. intros H H2. simpl. rewrite H. destruct (ph ns); congruence. Qed.
Lemma nun_le_nrun id e : forall st, nun id e st <= nrun id e st.
Proof.
  induction e; intros st; destruct st as [|c s|ns sa sb]; simpl; try lia.
  - destruct c, s; lia.
  - destruct c, s; lia.
  - apply IHe.
  - specialize (IHe1 sa). specialize (IHe2 sb). lia.
Qed.

(* the bundle of inequalities; [n0 r0 a0] = the quantities before the call *)
Definition cineq (id : nat) (e : sexpr) (st' : ost) (tr : list tev) (n0 r0 a0 : nat) : Prop :=
  cstop id tr + nun id e st' <= cstart id tr + n0 /\
  cstart id tr + avail id e st' <= a0 /\
  nrun id e st' <= r0 + cstart id tr.

Definition StartC (e : sexpr) : Prop := forall id en st tr r,
  start e en = (st, tr, r) -> cineq id e st tr 0 0 (occ id e).
Definition StopC (e : sexpr) : Prop := forall id st st' tr r,
  stop e st = (st', tr, r) -> cineq id e st' tr (nun id e st) (nrun id e st) (avail id e st).
Definition LeafevC (e : sexpr) : Prop := forall id0 st id o st' tr r hit,
  leafev e st id o = (st', tr, r, hit) ->
  cineq id0 e st' tr (nun id0 e st) (nrun id0 e st) (avail id0 e st) /\
  (hit = true -> nrun id e st' + 1 <= nrun id e st + cstart id tr).

Lemma cineq_fin id e tr n0 r0 a0 :
  cstop id tr <= cstart id tr + n0 -> cstart id tr <= a0 -> cineq id e OFin tr n0 r0 a0.
Proof. unfold cineq. rewrite nun_fin, nrun_fin, avail_fin. lia. Qed.

Lemma finish_cases2 k ns sa sb tr fin l st tr' r :
  finish_conc k ns sa sb tr fin l = (st, tr', r) -> l = false ->
  (exists o, fin = Some o /\ st = OFin /\ tr' = tr /\ r = Some o) \/
  (fin = None /\ st = ONode ns sa sb /\ tr' = tr /\ r = None).
Proof.
  intros H Hl. apply finish_cases in H; [|exact Hl].
  destruct H as [(o & -> & -> & -> & ->)|H]; [left|right; exact H].
  rewrite app_nil_r. eauto.
Qed.

Ltac cn := unfold cineq in *; repeat rewrite ?cstart_app, ?cstop_app, ?cstart_nil, ?cstop_nil, ?nun_fin, ?nrun_fin, ?avail_fin in *.

(* the successor of a sequential algorithm *)
Lemma seq_next_c id k a b ns tra oa st tr r :
  is_seq k = true -> StartC b ->
  seq_next k b ns tra oa = (st, tr, r) ->
  exists trb, tr = tra ++ trb /\ cineq id (Bin k a b) st trb 0 0 (occ id b).
Proof.
  intros Hk Sb H. unfold seq_next in H.
  destruct (after_first k (n_env ns) oa) as [o'|[en2 sv]] eqn:Haf.
  - inv H. exists []. rewrite app_nil_r. split; [reflexivity|]. apply cineq_fin; cn; lia.
  - destruct (start b en2) as [[sb trb] rb] eqn:Hb. specialize (Sb id _ _ _ _ Hb).
    exists trb. destruct rb; inv H; (split; [reflexivity|]).
    + cn. lia.
    + cn. rewrite nun_bin, nrun_bin, avail_seq2, nun_fin, nrun_fin by (auto; simpl; discriminate). lia.
Qed.

Lemma finish_c id k a b ns sa sb tr fin l st tr' r n0 r0 a0 :
  is_seq k = false ->
  finish_conc k ns sa sb tr fin l = (st, tr', r) -> l = false ->
  cstop id tr + (nun id a sa + nun id b sb) <= cstart id tr + n0 ->
  cstart id tr + (avail id a sa + avail id b sb) <= a0 ->
  nrun id a sa + nrun id b sb <= r0 + cstart id tr ->
  cineq id (Bin k a b) st tr' n0 r0 a0.
Proof.
  intros Hk H Hl H1 H2 H3. apply finish_cases2 in H; [|exact Hl].
  destruct H as [(o & -> & -> & -> & ->)|(-> & -> & -> & ->)].
  - apply cineq_fin; lia.
  - unfold cineq. rewrite nun_bin, nrun_bin, avail_conc by exact Hk. lia.
Qed.

Lemma conc_b_done_c id k a b ns sa sb' tr ob st tr' r :
  is_seq k = false -> StopC a ->
  conc_b_done k a ns sa sb' tr ob = (st, tr', r) ->
  exists tra, tr' = tr ++ tra /\
    cineq id (Bin k a b) st tra (nun id a sa + nun id b sb') (nrun id a sa + nrun id b sb')
          (avail id a sa + avail id b sb').
Proof.
  intros Hk Pa H. unfold conc_b_done in H.
  destruct (conc_child_done k ns true ob) as [[ns1 newly] fin] eqn:Hc.
  destruct fin as [o1|].
  - exists []. rewrite app_nil_r. split.
    + rewrite finish_some in H. inv H. rewrite app_nil_r. reflexivity.
    + rewrite finish_some in H. inv H. apply cineq_fin; cn; lia.
  - destruct newly.
    + destruct (stop a sa) as [[sa' tra] ra] eqn:Hs. specialize (Pa id _ _ _ _ Hs).
      exists tra. destruct ra as [oa|].
      * destruct (conc_child_done k ns1 false oa) as [[ns2 x] fin2] eqn:Hc2.
        assert (E : tr' = tr ++ tra).
        { apply finish_cases2 in H; [|reflexivity]. destruct H as [(? & _ & _ & -> & _)|(_ & _ & -> & _)]; reflexivity. }
        split; [exact E|]. subst tr'.
        destruct fin2 as [o2|].
        -- rewrite finish_some in H. inv H. cn. lia.
        -- rewrite finish_none in H. inv H. cn. rewrite nun_bin, nrun_bin, avail_conc by exact Hk. lia.
      * inv H. split; [reflexivity|]. cn. rewrite nun_bin, nrun_bin, avail_conc by exact Hk. lia.
    + inv H. exists []. rewrite app_nil_r. split; [reflexivity|].
      cn. rewrite nun_bin, nrun_bin, avail_conc by exact Hk. lia.
Qed.

Lemma conc_a_done_c id k a b ns sa' sb tr oa st tr' r :
  is_seq k = false -> StopC b ->
  conc_a_done k b ns sa' sb tr oa = (st, tr', r) ->
  exists trb, tr' = tr ++ trb /\
    cineq id (Bin k a b) st trb (nun id a sa' + nun id b sb) (nrun id a sa' + nrun id b sb)
          (avail id a sa' + avail id b sb).
Proof.
  intros Hk Pb H. unfold conc_a_done in H.
  destruct (conc_child_done k ns false oa) as [[ns1 newly] fin] eqn:Hc.
  destruct fin as [o1|].
  - exists []. rewrite app_nil_r. split.
    + rewrite finish_some in H. inv H. rewrite app_nil_r. reflexivity.
    + rewrite finish_some in H. inv H. apply cineq_fin; cn; lia.
  - destruct newly.
    + destruct (stop b sb) as [[sb' trb] rb] eqn:Hs. specialize (Pb id _ _ _ _ Hs).
      exists trb. destruct rb as [ob|].
      * destruct (conc_child_done k ns1 true ob) as [[ns2 x] fin2] eqn:Hc2.
        assert (E : tr' = tr ++ trb).
        { apply finish_cases2 in H; [|reflexivity]. destruct H as [(? & _ & _ & -> & _)|(_ & _ & -> & _)]; reflexivity. }
        split; [exact E|]. subst tr'.
        destruct fin2 as [o2|].
        -- rewrite finish_some in H. inv H. cn. lia.
        -- rewrite finish_none in H. inv H. cn. rewrite nun_bin, nrun_bin, avail_conc by exact Hk. lia.
      * inv H. split; [reflexivity|]. cn. rewrite nun_bin, nrun_bin, avail_conc by exact Hk. lia.
    + inv H. exists []. rewrite app_nil_r. split; [reflexivity|].
      cn. rewrite nun_bin, nrun_bin, avail_conc by exact Hk. lia.
Qed.

Lemma start_conc_c id k a b en st tr r :
  is_seq k = false -> StartC a -> StopC a -> StartC b ->
  start_conc k a b en = (st, tr, r) ->
  cineq id (Bin k a b) st tr 0 0 (occ id (Bin k a b)).
Proof.
  intros Hk Sa Pa Sb H. unfold start_conc in H. rewrite occ_bin.
  destruct (start a (env_own en (e_stopped en))) as [[sa tra] ra] eqn:Ha.
  specialize (Sa id _ _ _ _ Ha).
  destruct (match ra with
            | Some oa => conc_child_done k (conc_ns0 en) false oa
            | None => (conc_ns0 en, false, None) end) as [[ns1 x1] x2] eqn:Hm.
  destruct (start b (env_own en (own_stop ns1))) as [[sb trb] rb] eqn:Hb.
  specialize (Sb id _ _ _ _ Hb).
  destruct rb as [ob|].
  - destruct (conc_b_done_c id k a b _ _ _ _ _ _ _ _ Hk Pa H) as (tra2 & -> & Hc).
    cn. lia.
  - inv H. cn. rewrite nun_bin, nrun_bin, avail_conc by exact Hk. lia.
Qed.

Lemma stop_conc_c id k a b ns sa sb st' tr r :
  is_seq k = false -> StopC a -> StopC b ->
  stop_conc k a b ns sa sb = (st', tr, r) ->
  cineq id (Bin k a b) st' tr (nun id a sa + nun id b sb) (nrun id a sa + nrun id b sb)
        (avail id a sa + avail id b sb).
Proof.
  intros Hk Pa Pb H. unfold stop_conc in H.
  destruct (if bdone ns then (sb, [], None) else stop b sb) as [[sb' trb] rb] eqn:Hb.
  assert (Cb : cineq id b sb' trb (nun id b sb) (nrun id b sb) (avail id b sb)).
  { destruct (bdone ns); [inv Hb; cn; lia|]. eapply Pb; eassumption. }
  destruct (match rb with
            | Some ob => conc_child_done k (ns_set_own (stopped_ns ns) true) true ob
            | None => (ns_set_own (stopped_ns ns) true, false, None) end) as [[ns2 x] fin1] eqn:Hm.
  destruct fin1 as [o1|].
  - eapply finish_c; [exact Hk|exact H|reflexivity|..]; cn; lia.
  - destruct (if adone ns2 then (sa, [], None) else stop a sa) as [[sa' tra] ra] eqn:Ha.
    assert (Ca : cineq id a sa' tra (nun id a sa) (nrun id a sa) (avail id a sa)).
    { destruct (adone ns2); [inv Ha; cn; lia|]. eapply Pa; eassumption. }
    destruct (match ra with
              | Some oa => conc_child_done k ns2 false oa
              | None => (ns2, false, None) end) as [[ns3 y] fin2] eqn:Hm2.
    eapply finish_c; [exact Hk|exact H|reflexivity|..]; cn; lia.
Qed.

Lemma leafev_conc_c id0 k a b ns sa sb id o st' tr r hit :
  is_seq k = false -> LeafevC a -> LeafevC b -> StopC a -> StopC b ->
  leafev_conc k a b ns sa sb id o = (st', tr, r, hit) ->
  cineq id0 (Bin k a b) st' tr (nun id0 a sa + nun id0 b sb) (nrun id0 a sa + nrun id0 b sb)
        (avail id0 a sa + avail id0 b sb) /\
  (hit = true -> nrun id (Bin k a b) st' + 1 <= nrun id a sa + nrun id b sb + cstart id tr).
Proof.
  intros Hk La Lb Pa Pb H. unfold leafev_conc in H.
  destruct (if adone ns then (sa, [], None, false) else leafev a sa id o) as [[[sa' tra] ra] hita] eqn:Ha.
  destruct hita.
  - assert (Ca : cineq id0 a sa' tra (nun id0 a sa) (nrun id0 a sa) (avail id0 a sa) /\
                 nrun id a sa' + 1 <= nrun id a sa + cstart id tra).
    { destruct (adone ns); [inv Ha|]. destruct (La id0 _ _ _ _ _ _ _ Ha) as [C1 C2]. auto. }
    destruct Ca as [Ca Ca'].
    destruct ra as [oa|].
    + injection H as H Hhit.
      destruct (conc_a_done_c id0 k a b _ _ _ _ _ _ _ _ Hk Pb H) as (trb & -> & Hc).
      destruct (conc_a_done_c id k a b _ _ _ _ _ _ _ _ Hk Pb H) as (trb' & E & Hc').
      apply app_inv_head in E. subst trb'.
      cn. split; [lia|]. intros _. lia.
    + inv H. cn. rewrite !nun_bin, !nrun_bin, !avail_conc by exact Hk. split; [lia|]. intros _. lia.
  - destruct (if bdone ns then (sb, [], None, false) else leafev b sb id o) as [[[sb' trb] rb] hitb] eqn:Hb.
    assert (Cb : cineq id0 b sb' trb (nun id0 b sb) (nrun id0 b sb) (avail id0 b sb) /\
                 (hitb = true -> nrun id b sb' + 1 <= nrun id b sb + cstart id trb)).
    { destruct (bdone ns); [inv Hb; split; [cn; lia|discriminate]|].
      destruct (Lb id0 _ _ _ _ _ _ _ Hb) as [C1 C2]. auto. }
    destruct Cb as [Cb Cb'].
    destruct rb as [ob|].
    + injection H as H Hhit. subst hitb.
      destruct (conc_b_done_c id0 k a b _ _ _ _ _ _ _ _ Hk Pa H) as (tra2 & -> & Hc).
      destruct (conc_b_done_c id k a b _ _ _ _ _ _ _ _ Hk Pa H) as (tra2' & E & Hc').
      apply app_inv_head in E. subst tra2'.
      cn. split; [lia|]. intros Hh. specialize (Cb' Hh). lia.
    + inv H. cn. rewrite !nun_bin, !nrun_bin, !avail_conc by exact Hk.
      split; [lia|]. intros Hh. specialize (Cb' Hh). lia.
Qed.

Lemma start_stop_c e : StartC e /\ StopC e.
Proof.
  induction e as [v|x| |n|i|i|k s IH|k a IHa b IHb].
  - split; [intros id en st tr r H; simpl in H; inv H; apply cineq_fin; cn; lia
           |intros id st st' tr r H; destruct st; simpl in H; inv H; cn; simpl; lia].
  - split; [intros id en st tr r H; simpl in H; inv H; apply cineq_fin; cn; lia
           |intros id st st' tr r H; destruct st; simpl in H; inv H; cn; simpl; lia].
  - split; [intros id en st tr r H; simpl in H; inv H; apply cineq_fin; cn; lia
           |intros id st st' tr r H; destruct st; simpl in H; inv H; cn; simpl; lia].
  - split; [intros id en st tr r H; simpl in H; inv H; apply cineq_fin; cn; lia
           |intros id st st' tr r H; destruct st; simpl in H; inv H; cn; simpl; lia].
  - split.
    + intros id en st tr r H. simpl in H.
      destruct (e_stopped en); inv H; unfold cineq, cstop, cstart, cnt, occ; simpl; unfold ind;
        destruct (Nat.eqb i id); simpl; lia.
    + intros id st st' tr r H. destruct st as [|c sn|]; simpl in H; try (inv H; cn; simpl; lia).
      destruct c, sn; inv H; unfold cineq, cstop, cstart, cnt, occ; simpl; unfold ind;
        destruct (Nat.eqb i id); simpl; lia.
  - split.
    + intros id en st tr r H. simpl in H.
      destruct (e_stopped en); inv H; unfold cineq, cstop, cstart, cnt, occ; simpl; unfold ind;
        destruct (Nat.eqb i id); simpl; lia.
    + intros id st st' tr r H. destruct st as [|c sn|]; simpl in H; try (inv H; cn; simpl; lia).
      destruct c, sn; inv H; unfold cineq, cstop, cstart, cnt, occ; simpl; unfold ind;
        destruct (Nat.eqb i id); simpl; lia.
  - destruct IH as [Ss Ps]. split.
    + intros id en st tr r H. rewrite start_un in H.
      destruct (start s (un_env k en)) as [[sc tr1] r1] eqn:Hs. specialize (Ss id _ _ _ _ Hs).
      rewrite occ_un. destruct r1 as [o1|].
      * destruct (un_result k o1) as [tr2 o'] eqn:Hu. inv H. apply un_result_calls in Hu.
        cn. rewrite (cstart_calls _ _ Hu), (cstop_calls _ _ Hu). lia.
      * inv H. cn. rewrite nun_un, nrun_un, avail_un. lia.
    + intros id st st' tr r H.
      destruct st as [|c sn|ns sc sb]; [rewrite stop_fin in H; inv H; cn; lia|simpl in H; inv H; cn; simpl; lia|].
      rewrite nun_un, nrun_un, avail_un.
      destruct (is_unst k) eqn:Hk.
      * apply is_unst_true in Hk. subst k. rewrite stop_un_unst in H. inv H.
        cn. rewrite nun_un, nrun_un, avail_un. lia.
      * rewrite stop_un in H by exact Hk. unfold stop_un_body in H.
        destruct (stop s sc) as [[sc' tr1] r1] eqn:Hs. specialize (Ps id _ _ _ _ Hs).
        destruct r1 as [o1|].
        -- destruct (un_result k o1) as [tr2 o'] eqn:Hu. inv H. apply un_result_calls in Hu.
           cn. rewrite (cstart_calls _ _ Hu), (cstop_calls _ _ Hu). lia.
        -- inv H. cn. rewrite nun_un, nrun_un, avail_un. lia.
  - destruct IHa as [Sa Pa]. destruct IHb as [Sb Pb].
    destruct (is_seq k) eqn:Hk.
    + split.
      * intros id en st tr r H. rewrite start_bin_seq in H by exact Hk. unfold start_seq in H.
        rewrite occ_bin.
        destruct (start a en) as [[sa tra] ra] eqn:Ha. specialize (Sa id _ _ _ _ Ha).
        destruct ra as [oa|].
        -- destruct (seq_next_c id k a b _ _ _ _ _ _ Hk Sb H) as (trb & -> & Hc). cn. lia.
        -- inv H. cn. rewrite nun_bin, nrun_bin, avail_seq1, nun_fin, nrun_fin by (auto; reflexivity). lia.
      * intros id st st' tr r H.
        destruct st as [|c sn|ns sa sb]; [rewrite stop_fin in H; inv H; cn; lia|simpl in H; inv H; cn; simpl; lia|].
        rewrite stop_bin, Hk in H. rewrite nun_bin, nrun_bin.
        destruct (ph ns) eqn:Hp.
        -- rewrite avail_seq1 by assumption.
           unfold stop_seq1 in H. destruct (stop a sa) as [[sa' tra] ra] eqn:Ha.
           specialize (Pa id _ _ _ _ Ha).
           destruct ra as [oa|].
           ++ destruct (seq_next_c id k a b _ _ _ _ _ _ Hk Sb H) as (trb & -> & Hc). cn. lia.
           ++ inv H. cn. rewrite nun_bin, nrun_bin, avail_seq1 by assumption. lia.
        -- rewrite avail_seq2 by (auto; congruence).
           unfold stop_seq2 in H. destruct (stop b sb) as [[sb' trb] rb] eqn:Hb.
           specialize (Pb id _ _ _ _ Hb).
           destruct rb; inv H; cn; [lia|].
           rewrite nun_bin, nrun_bin, avail_seq2 by (auto; simpl; congruence). lia.
        -- rewrite avail_seq2 by (auto; congruence).
           unfold stop_seq2 in H. destruct (stop b sb) as [[sb' trb] rb] eqn:Hb.
           specialize (Pb id _ _ _ _ Hb).
           destruct rb; inv H; cn; [lia|].
           rewrite nun_bin, nrun_bin, avail_seq2 by (auto; simpl; congruence). lia.
    + split.
      * intros id en st tr r H. rewrite start_bin_conc in H by exact Hk.
        eapply start_conc_c; eauto.
      * intros id st st' tr r H.
        destruct st as [|c sn|ns sa sb]; [rewrite stop_fin in H; inv H; cn; lia|simpl in H; inv H; cn; simpl; lia|].
        rewrite stop_bin, Hk in H. rewrite nun_bin, nrun_bin, avail_conc by exact Hk.
        destruct (own_stop ns).
        -- inv H. cn. rewrite nun_bin, nrun_bin, avail_conc by exact Hk. lia.
        -- eapply stop_conc_c; eauto.
Qed.

Lemma leafev_c e : LeafevC e.
Proof.
  induction e as [v|x| |n|i|i|k s IH|k a IHa b IHb].
  - intros id0 st id o st' tr r hit H; destruct st; simpl in H; inv H; (split; [cn; simpl; lia|discriminate]).
  - intros id0 st id o st' tr r hit H; destruct st; simpl in H; inv H; (split; [cn; simpl; lia|discriminate]).
  - intros id0 st id o st' tr r hit H; destruct st; simpl in H; inv H; (split; [cn; simpl; lia|discriminate]).
  - intros id0 st id o st' tr r hit H; destruct st; simpl in H; inv H; (split; [cn; simpl; lia|discriminate]).
  - intros id0 st id o st' tr r hit H. destruct st as [|c sn|]; simpl in H; try (inv H; split; [cn; simpl; lia|discriminate]).
    destruct c; [inv H; split; [cn; simpl; lia|discriminate]|].
    destruct (Nat.eqb id i) eqn:E; inv H.
    + apply Nat.eqb_eq in E. subst i. split; [cn; simpl; lia|]. intros _. simpl. unfold ind. rewrite Nat.eqb_refl. cn. lia.
    + split; [cn; simpl; lia|discriminate].
  - intros id0 st id o st' tr r hit H. destruct st as [|c sn|]; simpl in H; try (inv H; split; [cn; simpl; lia|discriminate]).
    destruct c; [inv H; split; [cn; simpl; lia|discriminate]|].
    destruct (Nat.eqb id i) eqn:E; inv H.
    + apply Nat.eqb_eq in E. subst i. split; [cn; simpl; lia|]. intros _. simpl. unfold ind. rewrite Nat.eqb_refl. cn. lia.
    + split; [cn; simpl; lia|discriminate].
  - intros id0 st id o st' tr r hit H.
    destruct st as [|c sn|ns sc sb]; [rewrite leafev_fin in H; inv H; split; [cn; lia|discriminate]
                                     |simpl in H; inv H; split; [cn; simpl; lia|discriminate]|].
    rewrite leafev_un in H. unfold leafev_un_body in H.
    destruct (leafev s sc id o) as [[[sc' tr1] r1] h1] eqn:Hs.
    destruct (IH id0 _ _ _ _ _ _ _ Hs) as [C1 C2].
    rewrite !nun_un, !nrun_un, !avail_un.
    destruct r1 as [o1|].
    + destruct (un_result k o1) as [tr2 o'] eqn:Hu. inv H. apply un_result_calls in Hu.
      cn. rewrite !(cstart_calls _ _ Hu), (cstop_calls _ _ Hu). split; [lia|]. intros Hh. specialize (C2 Hh). lia.
    + inv H. cn. rewrite !nun_un, !nrun_un, !avail_un. split; [lia|]. exact C2.
  - destruct (start_stop_c a) as [Sa Pa]. destruct (start_stop_c b) as [Sb Pb].
    intros id0 st id o st' tr r hit H.
    destruct st as [|c sn|ns sa sb]; [rewrite leafev_fin in H; inv H; split; [cn; lia|discriminate]
                                     |simpl in H; inv H; split; [cn; simpl; lia|discriminate]|].
    rewrite leafev_bin in H. rewrite !nun_bin, !nrun_bin.
    destruct (is_seq k) eqn:Hk.
    + destruct (ph ns) eqn:Hp.
      * rewrite avail_seq1 by assumption.
        unfold leafev_seq1 in H. destruct (leafev a sa id o) as [[[sa' tra] ra] h1] eqn:Ha.
        destruct (IHa id0 _ _ _ _ _ _ _ Ha) as [C1 C2].
        destruct ra as [oa|].
        -- injection H as H Hhit. subst h1.
           destruct (seq_next_c id0 k a b _ _ _ _ _ _ Hk Sb H) as (trb & -> & Hc).
           destruct (seq_next_c id k a b _ _ _ _ _ _ Hk Sb H) as (trb' & E & Hc').
           apply app_inv_head in E. subst trb'.
           cn. split; [lia|]. intros Hh. specialize (C2 Hh). lia.
        -- inv H. cn. rewrite !nun_bin, !nrun_bin, !avail_seq1 by assumption.
           split; [lia|]. intros Hh. specialize (C2 Hh). lia.
      * rewrite avail_seq2 by (auto; congruence).
        unfold leafev_seq2 in H. destruct (leafev b sb id o) as [[[sb' trb] rb] h1] eqn:Hb.
        destruct (IHb id0 _ _ _ _ _ _ _ Hb) as [C1 C2].
        destruct rb; inv H; cn.
        -- split; [lia|]. intros Hh. specialize (C2 Hh). lia.
        -- rewrite !nun_bin, !nrun_bin, !avail_seq2 by (auto; congruence).
           split; [lia|]. intros Hh. specialize (C2 Hh). lia.
      * rewrite avail_seq2 by (auto; congruence).
        unfold leafev_seq2 in H. destruct (leafev b sb id o) as [[[sb' trb] rb] h1] eqn:Hb.
        destruct (IHb id0 _ _ _ _ _ _ _ Hb) as [C1 C2].
        destruct rb; inv H; cn.
        -- split; [lia|]. intros Hh. specialize (C2 Hh). lia.
        -- rewrite !nun_bin, !nrun_bin, !avail_seq2 by (auto; congruence).
           split; [lia|]. intros Hh. specialize (C2 Hh). lia.
    + rewrite avail_conc by exact Hk. eapply leafev_conc_c; eauto.
Qed.

(* ---- consequences of the counting lemmas used below -------------------------------------------- *)
Lemma occ_pos_in id e : 1 <= occ id e -> In id (leaf_ids e).
Proof.
  unfold occ. induction (leaf_ids e) as [|x l IH]; simpl; [lia|].
  destruct (Nat.eqb x id) eqn:E.
  - apply Nat.eqb_eq in E. auto.
  - auto.
Qed.
Lemma avail_le_occ id e : forall st, avail id e st <= occ id e.
Proof.
  induction e; intros st; destruct st as [|c s|ns sa sb]; simpl; try lia.
  - rewrite occ_un. apply IHe.
  - rewrite occ_bin. specialize (IHe1 sa). specialize (IHe2 sb).
    destruct (is_seq k); [destruct (ph ns)|]; lia.
Qed.
Lemma start_in_cstart id s sp a b tr : In (TLeafStart id s sp a b) tr -> 1 <= cstart id tr.
Proof. intros H. eapply in_cnt_pos; [exact H|]. simpl. apply Nat.eqb_refl. Qed.
Lemma stop_in_cstop id tr : In (TLeafStop id) tr -> 1 <= cstop id tr.
Proof. intros H. eapply in_cnt_pos; [exact H|]. simpl. apply Nat.eqb_refl. Qed.
Lemma cstart_in id tr : 1 <= cstart id tr -> exists s sp a b, In (TLeafStart id s sp a b) tr.
Proof.
  intros H. apply cnt_pos_in in H. destruct H as (t & Hin & Hp).
  destruct t; simpl in Hp; try discriminate. apply Nat.eqb_eq in Hp. subst. eauto.
Qed.
Lemma cstop_in id tr : 1 <= cstop id tr -> In (TLeafStop id) tr.
Proof.
  intros H. apply cnt_pos_in in H. destruct H as (t & Hin & Hp).
  destruct t; simpl in Hp; try discriminate. apply Nat.eqb_eq in Hp. subst. exact Hin.
Qed.

Lemma start_ids e en st tr r id s sp a b :
  start e en = (st, tr, r) -> In (TLeafStart id s sp a b) tr -> In id (leaf_ids e).
Proof.
  intros H Hin. apply start_in_cstart in Hin.
  destruct (start_stop_c e) as [S _]. destruct (S id _ _ _ _ H) as (_ & H2 & _).
  apply occ_pos_in. lia.
Qed.
Lemma leafev_ids e st i o st' tr r hit id s sp a b :
  leafev e st i o = (st', tr, r, hit) -> In (TLeafStart id s sp a b) tr -> In id (leaf_ids e).
Proof.
  intros H Hin. apply start_in_cstart in Hin.
  destruct (leafev_c e id _ _ _ _ _ _ _ H) as ((_ & H2 & _) & _).
  pose proof (avail_le_occ id e st). apply occ_pos_in. lia.
Qed.

(* ================================================================================================ *)
(* Part 2: the stop-state invariant                                                                 *)
(* ================================================================================================ *)

(* running leaves [OLeaf false s] with [p s], on the current path(s); [cross] = also below unstoppable *)
Fixpoint lv (cross : bool) (p : bool -> bool) (e : sexpr) (st : ost) : list nat :=
  match e, st with
  | Leaf id, OLeaf false s => if p s then [id] else []
  | LeafN id, OLeaf false s => if p s then [id] else []
  | Un k s, ONode _ sc _ => if (is_unst k && negb cross)%bool then [] else lv cross p s sc
  | Bin k a b, ONode ns sa sb =>
      if is_seq k then
        match ph ns with PFirst => lv cross p a sa | _ => lv cross p b sb end
      else lv cross p a sa ++ lv cross p b sb
  | _, _ => []
  end.
(* running leaves connected to the stop token of the receiver of e *)
Definition reach : sexpr -> ost -> list nat := lv false (fun _ => true).
Definition reach_unseen : sexpr -> ost -> list nat := lv false negb.
Definition reach_seen : sexpr -> ost -> list nat := lv false (fun s => s).
Definition running_leaves : sexpr -> ost -> list nat := lv true (fun _ => true).

Lemma lv_fin c p e : lv c p e OFin = [].
Proof. destruct e; reflexivity. Qed.
Lemma lv_un c p k s ns sc sb :
  lv c p (Un k s) (ONode ns sc sb) = if (is_unst k && negb c)%bool then [] else lv c p s sc.
Proof. reflexivity. Qed.
Lemma lv_seq1 c p k a b ns sa sb : is_seq k = true -> ph ns = PFirst ->
  lv c p (Bin k a b) (ONode ns sa sb) = lv c p a sa.
Proof. intros H1 H2. simpl. rewrite H1, H2. reflexivity. Qed.
Lemma lv_seq2 c p k a b ns sa sb : is_seq k = true -> ph ns <> PFirst ->
  lv c p (Bin k a b) (ONode ns sa sb) = lv c p b sb.
Proof. intros H1 H2. simpl. rewrite H1. destruct (ph ns); congruence. Qed.
Lemma lv_conc c p k a b ns sa sb : is_seq k = false ->
  lv c p (Bin k a b) (ONode ns sa sb) = lv c p a sa ++ lv c p b sb.
Proof. intros H1. simpl. rewrite H1. reflexivity. Qed.

Lemma lv_split c p e : forall st id,
  In id (lv c (fun _ => true) e st) -> In id (lv c p e st) \/ In id (lv c (fun s => negb (p s)) e st).
Proof.
  induction e; intros st i H; destruct st as [|cc s|ns sa sb]; simpl in *; try contradiction.
  - destruct cc; [contradiction|]. destruct (p s); simpl; auto.
  - destruct cc; [contradiction|]. destruct (p s); simpl; auto.
  - destruct (is_unst k && negb c)%bool; [contradiction|]. auto.
  - destruct (is_seq k).
    + destruct (ph ns); auto.
    + apply in_app_or in H. rewrite !in_app_iff. destruct H as [H|H]; [apply IHe1 in H|apply IHe2 in H]; tauto.
Qed.

Definition chld (P : Prop) (sa : ost) (d : bool) : Prop := if d then sa = OFin else P.

(* [live tok e st]: st is the state of a started, uncompleted operation of e whose receiver's stop
   token currently answers stop_requested() = tok.  It says that every node on a path along which
   stop requests propagate knows the current stop state, that running leaves connected to the token
   have seen the request iff it was made, that the own source of when_all/stop_when is requested
   whenever the outer token is, and that a live node has a live child. *)
Fixpoint live (tok : bool) (e : sexpr) (st : ost) {struct e} : Prop :=
  match e, st with
  | Leaf _, OLeaf c s => c = false /\ s = tok
  | LeafN _, OLeaf c s => c = false /\ s = tok
  | Un k s, ONode ns sc _ =>
      (is_unst k = false -> e_stopped (n_env ns) = tok) /\
      live (if is_unst k then false else tok) s sc
  | Bin k a b, ONode ns sa sb =>
      e_stopped (n_env ns) = tok /\
      if is_seq k then
        match ph ns with PFirst => live tok a sa | _ => live tok b sb end
      else
        (tok = true -> own_stop ns = true) /\
        (if adone ns then sa = OFin else live (own_stop ns) a sa) /\
        (if bdone ns then sb = OFin else live (own_stop ns) b sb) /\
        (adone ns && bdone ns)%bool = false
  | _, _ => False
  end.

Lemma live_fin tok e : live tok e OFin -> False.
Proof. destruct e; exact (fun H => H). Qed.
Lemma live_un tok k s ns sc sb :
  live tok (Un k s) (ONode ns sc sb) =
  ((is_unst k = false -> e_stopped (n_env ns) = tok) /\ live (if is_unst k then false else tok) s sc).
Proof. reflexivity. Qed.
Lemma live_seq1 tok k a b ns sa sb : is_seq k = true -> ph ns = PFirst ->
  live tok (Bin k a b) (ONode ns sa sb) = (e_stopped (n_env ns) = tok /\ live tok a sa).
Proof. intros H1 H2. simpl. rewrite H1, H2. reflexivity. Qed.
Lemma live_seq2 tok k a b ns sa sb : is_seq k = true -> ph ns <> PFirst ->
  live tok (Bin k a b) (ONode ns sa sb) = (e_stopped (n_env ns) = tok /\ live tok b sb).
Proof. intros H1 H2. simpl. rewrite H1. destruct (ph ns); congruence. Qed.
Lemma live_conc tok k a b ns sa sb : is_seq k = false ->
  live tok (Bin k a b) (ONode ns sa sb) =
  (e_stopped (n_env ns) = tok /\ (tok = true -> own_stop ns = true) /\
   chld (live (own_stop ns) a sa) sa (adone ns) /\ chld (live (own_stop ns) b sb) sb (bdone ns) /\
   (adone ns && bdone ns)%bool = false).
Proof. intros H1. simpl. rewrite H1. reflexivity. Qed.

(* once the token is stopped, every running leaf connected to it has seen the request *)
Lemma live_true_unseen e : forall st, live true e st -> reach_unseen e st = [].
Proof.
  unfold reach_unseen.
  induction e; intros st H; destruct st as [|c s|ns sa sb]; simpl in *; try contradiction; try reflexivity.
  - destruct H as [-> ->]. reflexivity.
  - destruct H as [-> ->]. reflexivity.
  - destruct H as [_ H]. destruct (is_unst k); simpl; [reflexivity|]. auto.
  - destruct H as [_ H]. destruct (is_seq k).
    + destruct (ph ns); auto.
    + destruct H as (Ho & Ha & Hb & _). rewrite (Ho eq_refl) in Ha, Hb.
      assert (Ea : lv false negb e1 sa = []) by (destruct (adone ns); [subst; apply lv_fin|auto]).
      assert (Eb : lv false negb e2 sb = []) by (destruct (bdone ns); [subst; apply lv_fin|auto]).
      rewrite Ea, Eb. reflexivity.
Qed.

(* a live operation has a running leaf *)
Lemma live_running e : forall tok st, live tok e st -> running_leaves e st <> [].
Proof.
  unfold running_leaves.
  induction e; intros tok st H; destruct st as [|c s|ns sa sb]; simpl in *; try contradiction.
  - destruct H as [-> _]. discriminate.
  - destruct H as [-> _]. discriminate.
  - destruct H as [_ H]. rewrite andb_false_r. exact (IHe _ _ H).
  - destruct H as [_ H]. destruct (is_seq k).
    + destruct (ph ns); [exact (IHe1 _ _ H)|exact (IHe2 _ _ H)|exact (IHe2 _ _ H)].
    + destruct H as (_ & Ha & Hb & Hd). intros E. apply app_eq_nil in E. destruct E as [Ea Eb].
      destruct (adone ns); [destruct (bdone ns); [discriminate|]|].
      * exact (IHe2 _ _ Hb Eb).
      * exact (IHe1 _ _ Ha Ea).
Qed.

(* ---- leaf starts see the stop state --------------------------------------------------------------- *)
Fixpoint under_unst (e : sexpr) : list nat :=
  match e with
  | Un k s => if is_unst k then leaf_ids s else under_unst s
  | Bin _ a b => under_unst a ++ under_unst b
  | _ => []
  end.
(* leaves not below unstoppable *)
Fixpoint sreach (e : sexpr) : list nat :=
  match e with
  | Leaf id => [id]
  | LeafN id => [id]
  | Un k s => if is_unst k then [] else sreach s
  | Bin _ a b => sreach a ++ sreach b
  | _ => []
  end.

Definition tr_stopped (e : sexpr) (tr : list tev) : Prop :=
  forall id s sp a b, In (TLeafStart id s sp a b) tr -> s = true \/ In id (under_unst e).

Lemma trs_nil e : tr_stopped e [].
Proof. intros id s sp a b []. Qed.
Lemma trs_app e t1 t2 : tr_stopped e t1 -> tr_stopped e t2 -> tr_stopped e (t1 ++ t2).
Proof. intros H1 H2 id s sp a b H. apply in_app_or in H. destruct H; eauto. Qed.
Lemma trs_calls e tr : Forall is_call tr -> tr_stopped e tr.
Proof.
  intros H id s sp a b Hin. rewrite Forall_forall in H. apply H in Hin. contradiction Hin.
Qed.
Lemma trs_un k s tr : is_unst k = false -> tr_stopped s tr -> tr_stopped (Un k s) tr.
Proof. intros Hk H id st sp a b Hin. simpl. rewrite Hk. eauto. Qed.
Lemma trs_unst k s tr : is_unst k = true ->
  (forall id st sp a b, In (TLeafStart id st sp a b) tr -> In id (leaf_ids s)) -> tr_stopped (Un k s) tr.
Proof. intros Hk H id st sp a b Hin. simpl. rewrite Hk. right. eauto. Qed.
Lemma trs_bin_a k a b tr : tr_stopped a tr -> tr_stopped (Bin k a b) tr.
Proof. intros H id st sp x y Hin. simpl. rewrite in_app_iff. destruct (H _ _ _ _ _ Hin); auto. Qed.
Lemma trs_bin_b k a b tr : tr_stopped b tr -> tr_stopped (Bin k a b) tr.
Proof. intros H id st sp x y Hin. simpl. rewrite in_app_iff. destruct (H _ _ _ _ _ Hin); auto. Qed.
#[global] Hint Resolve trs_nil trs_app trs_bin_a trs_bin_b : calc.

Definition resL (tok : bool) (e : sexpr) (st : ost) (r : option outcome) : Prop :=
  (r = None -> live tok e st) /\ (r <> None -> st = OFin).
Lemma resL_some tok e o : resL tok e OFin (Some o).
Proof. split; [discriminate|reflexivity]. Qed.
Lemma resL_none tok e st : live tok e st -> resL tok e st None.
Proof. split; [auto|congruence]. Qed.
#[global] Hint Resolve resL_some resL_none : calc.

Definition StartL (e : sexpr) : Prop := forall en st tr r,
  start e en = (st, tr, r) ->
  resL (e_stopped en) e st r /\ (e_stopped en = true -> tr_stopped e tr).
Definition StopL (e : sexpr) : Prop := forall tok st st' tr r,
  stop e st = (st', tr, r) -> live tok e st ->
  resL true e st' r /\ tr_stopped e tr /\
  (forall id, In id (reach_unseen e st) -> In (TLeafStop id) tr).
Definition LeafevL (e : sexpr) : Prop := forall tok st id o st' tr r hit,
  leafev e st id o = (st', tr, r, hit) -> live tok e st ->
  resL tok e st' r /\ (tok = true -> tr_stopped e tr).

Lemma seq_next_l tok k a b ns tra oa st tr r :
  is_seq k = true -> StartL b -> e_stopped (n_env ns) = tok ->
  seq_next k b ns tra oa = (st, tr, r) ->
  resL tok (Bin k a b) st r /\ exists trb, tr = tra ++ trb /\ (tok = true -> tr_stopped b trb).
Proof.
  intros Hk Sb He H. unfold seq_next in H.
  destruct (after_first k (n_env ns) oa) as [o'|[en2 sv]] eqn:Haf.
  - inv H. split; auto with calc. exists []. rewrite app_nil_r. auto with calc.
  - assert (He2 : e_stopped en2 = e_stopped (n_env ns)).
    { apply after_first_env in Haf. destruct Haf as [->|[v ->]]; reflexivity. }
    destruct (start b en2) as [[sb trb] rb] eqn:Hb.
    destruct (Sb _ _ _ _ Hb) as [[L1 L2] T]. rewrite He2 in L1, T.
    destruct rb as [ob|]; inv H.
    + split; auto with calc. eauto.
    + split; [|eauto]. apply resL_none. rewrite live_seq2 by (auto; simpl; discriminate).
      split; [reflexivity|]. auto.
Qed.

Lemma ccd_both_done k ns i o ns2 nw fin :
  conc_child_done k ns i o = (ns2, nw, fin) ->
  (if i then adone ns else bdone ns) = true -> fin <> None.
Proof.
  intros H Hd. apply ccd_spec in H. destruct H as (_ & _ & _ & E4 & E5 & _ & _ & Hf).
  intros E. apply Hf in E. rewrite E4, E5 in E. destruct i; rewrite Hd in E; discriminate.
Qed.

(* b completed (its state is gone), a possibly still running *)
Lemma conc_b_done_l tok k a b ns sa sb' tr ob st tr' r :
  is_seq k = false -> StopL a ->
  e_stopped (n_env ns) = tok -> (tok = true -> own_stop ns = true) ->
  chld (live (own_stop ns) a sa) sa (adone ns) -> sb' = OFin -> bdone ns = false ->
  conc_b_done k a ns sa sb' tr ob = (st, tr', r) ->
  resL tok (Bin k a b) st r /\ exists tra, tr' = tr ++ tra /\ tr_stopped a tra.
Proof.
  intros Hk Pa He Ho Ha -> Hbd H. unfold conc_b_done in H.
  destruct (conc_child_done k ns true ob) as [[ns1 newly] fin] eqn:Hc.
  apply ccd_spec in Hc. destruct Hc as (E1 & _ & _ & E4 & E5 & E6 & E7 & Ef).
  destruct fin as [o1|].
  - rewrite finish_some in H. inv H. split; auto with calc. exists []. auto with calc.
  - assert (Had : adone ns = false).
    { destruct Ef as [Ef _]. specialize (Ef eq_refl). rewrite E4, E5, andb_true_r in Ef. exact Ef. }
    rewrite Had in Ha. simpl in Ha.
    destruct newly.
    + rewrite (E7 eq_refl) in *. simpl in E6.
      destruct (stop a sa) as [[sa' tra] ra] eqn:Hs.
      destruct (Pa _ _ _ _ _ Hs Ha) as ([L1 L2] & T & _).
      destruct ra as [oa|].
      * destruct (conc_child_done k ns1 false oa) as [[ns2 x] fin2] eqn:Hc2.
        assert (Hf2 : fin2 <> None) by (eapply ccd_both_done; [exact Hc2|exact E5]).
        destruct fin2 as [o2|]; [|congruence].
        rewrite finish_some in H. inv H. split; auto with calc.
        exists tra. rewrite app_nil_r. auto.
      * inv H. split; [|eauto]. apply resL_none. rewrite live_conc by exact Hk.
        rewrite E1, E4, E5, E6, Had. simpl. auto 6.
    + inv H. split; [|exists []; rewrite app_nil_r; auto with calc].
      apply resL_none. rewrite live_conc by exact Hk.
      rewrite E1, E4, E5, E6, Had, orb_false_r. simpl. auto 6.
Qed.

Lemma conc_a_done_l tok k a b ns sa' sb tr oa st tr' r :
  is_seq k = false -> StopL b ->
  e_stopped (n_env ns) = tok -> (tok = true -> own_stop ns = true) ->
  chld (live (own_stop ns) b sb) sb (bdone ns) -> sa' = OFin -> adone ns = false ->
  conc_a_done k b ns sa' sb tr oa = (st, tr', r) ->
  resL tok (Bin k a b) st r /\ exists trb, tr' = tr ++ trb /\ tr_stopped b trb.
Proof.
  intros Hk Pb He Ho Hb -> Had H. unfold conc_a_done in H.
  destruct (conc_child_done k ns false oa) as [[ns1 newly] fin] eqn:Hc.
  apply ccd_spec in Hc. destruct Hc as (E1 & _ & _ & E4 & E5 & E6 & E7 & Ef).
  destruct fin as [o1|].
  - rewrite finish_some in H. inv H. split; auto with calc. exists []. auto with calc.
  - assert (Hbd : bdone ns = false).
    { destruct Ef as [Ef _]. specialize (Ef eq_refl). rewrite E4, E5 in Ef. exact Ef. }
    rewrite Hbd in Hb. simpl in Hb.
    destruct newly.
    + rewrite (E7 eq_refl) in *. simpl in E6.
      destruct (stop b sb) as [[sb' trb] rb] eqn:Hs.
      destruct (Pb _ _ _ _ _ Hs Hb) as ([L1 L2] & T & _).
      destruct rb as [ob|].
      * destruct (conc_child_done k ns1 true ob) as [[ns2 x] fin2] eqn:Hc2.
        assert (Hf2 : fin2 <> None) by (eapply ccd_both_done; [exact Hc2|exact E4]).
        destruct fin2 as [o2|]; [|congruence].
        rewrite finish_some in H. inv H. split; auto with calc.
        exists trb. rewrite app_nil_r. auto.
      * inv H. split; [|eauto]. apply resL_none. rewrite live_conc by exact Hk.
        rewrite E1, E4, E5, E6, Hbd. simpl. auto 6.
    + inv H. split; [|exists []; rewrite app_nil_r; auto with calc].
      apply resL_none. rewrite live_conc by exact Hk.
      rewrite E1, E4, E5, E6, Hbd, orb_false_r. simpl. auto 6.
Qed.

Lemma un_env_stopped k en : e_stopped (un_env k en) = if is_unst k then false else e_stopped en.
Proof. destruct k; try reflexivity. destruct q; reflexivity. Qed.

Lemma start_conc_l k a b en st tr r :
  is_seq k = false -> StartL a -> StopL a -> StartL b ->
  start_conc k a b en = (st, tr, r) ->
  resL (e_stopped en) (Bin k a b) st r /\ (e_stopped en = true -> tr_stopped (Bin k a b) tr).
Proof.
  intros Hk Sa Pa Sb H. unfold start_conc in H.
  destruct (start a (env_own en (e_stopped en))) as [[sa tra] ra] eqn:Ha.
  destruct (Sa _ _ _ _ Ha) as [[La1 La2] Ta].
  change (e_stopped (env_own en (e_stopped en))) with (e_stopped en) in *.
  destruct (match ra with
            | Some oa => conc_child_done k (conc_ns0 en) false oa
            | None => (conc_ns0 en, false, None) end) as [[ns1 x1] x2] eqn:Hm.
  assert (F : n_env ns1 = en /\ bdone ns1 = false /\ (e_stopped en = true -> own_stop ns1 = true) /\
              chld (live (own_stop ns1) a sa) sa (adone ns1)).
  { destruct ra as [oa|].
    - apply ccd_spec in Hm. destruct Hm as (E1 & _ & _ & E4 & E5 & E6 & E7 & _).
      rewrite E1, E4, E5, E6. simpl. repeat split; auto.
      + intros ->. reflexivity.
      + apply La2. discriminate.
    - inv Hm. simpl. repeat split; auto. }
  destruct F as (F1 & F2 & F3 & F4).
  destruct (start b (env_own en (own_stop ns1))) as [[sb trb] rb] eqn:Hb.
  destruct (Sb _ _ _ _ Hb) as [[Lb1 Lb2] Tb].
  change (e_stopped (env_own en (own_stop ns1))) with (own_stop ns1) in *.
  destruct rb as [ob|].
  - destruct (conc_b_done_l (e_stopped en) k a b ns1 sa OFin (tra ++ trb) ob st tr r Hk Pa)
      as [R (tra2 & -> & T2)]; auto.
    { rewrite F1. reflexivity. }
    split; [exact R|]. intros Hs. auto 6 with calc.
  - injection H as Hst Htr Hr. subst st tr r. split; [|intros Hs; auto 6 with calc].
    apply resL_none. rewrite live_conc by exact Hk. rewrite F1, F2.
    split; [reflexivity|]. split; [exact F3|]. split; [exact F4|]. split; [simpl; auto|].
    apply andb_false_r.
Qed.

(* the optional stop of one child inside the cancel callback of a concurrent node *)
Lemma opt_stop_l e (d : bool) s s' tr r :
  StopL e -> chld (live false e s) s d ->
  (if d then (s, [], None) else stop e s) = (s', tr, r) ->
  (r = None -> chld (live true e s') s' d) /\ (r <> None -> s' = OFin /\ d = false) /\
  tr_stopped e tr /\ (forall id, In id (reach_unseen e s) -> In (TLeafStop id) tr).
Proof.
  intros P Hc H. destruct d; simpl in *.
  - inv H. split; [auto|]. split; [congruence|]. split; [apply trs_nil|].
    unfold reach_unseen. rewrite lv_fin. intros id [].
  - destruct (P _ _ _ _ _ H Hc) as ([L1 L2] & T & U). auto.
Qed.

Lemma opt_ccd k ns i (ro : option outcome) ns2 x fin :
  match ro with Some o => conc_child_done k ns i o | None => (ns, false, None) end = (ns2, x, fin) ->
  n_env ns2 = n_env ns /\ (own_stop ns = true -> own_stop ns2 = true) /\
  adone ns2 = match ro with Some _ => if i then adone ns else true | None => adone ns end /\
  bdone ns2 = match ro with Some _ => if i then true else bdone ns | None => bdone ns end /\
  (ro = None -> fin = None) /\
  (ro <> None -> (fin = None <-> (adone ns2 && bdone ns2)%bool = false)).
Proof.
  intros H. destruct ro as [o|].
  - apply ccd_spec in H. destruct H as (E1 & _ & _ & E4 & E5 & E6 & _ & Ef).
    rewrite E6. repeat split; auto; try congruence.
    + intros ->. reflexivity.
    + apply Ef.
    + apply Ef.
  - inv H. repeat split; auto; congruence.
Qed.

Lemma stop_conc_l tok k a b ns sa sb st' tr r :
  is_seq k = false -> StopL a -> StopL b -> own_stop ns = false ->
  live tok (Bin k a b) (ONode ns sa sb) ->
  stop_conc k a b ns sa sb = (st', tr, r) ->
  resL true (Bin k a b) st' r /\ tr_stopped (Bin k a b) tr /\
  (forall id, In id (reach_unseen (Bin k a b) (ONode ns sa sb)) -> In (TLeafStop id) tr).
Proof.
  intros Hk Pa Pb Hown HL H. rewrite live_conc in HL by exact Hk.
  destruct HL as (He & Ho & Ha & Hb & Hd). rewrite Hown in Ha, Hb.
  unfold reach_unseen. rewrite lv_conc by exact Hk.
  unfold stop_conc in H.
  destruct (if bdone ns then (sb, [], None) else stop b sb) as [[sb' trb] rb] eqn:Hbs.
  destruct (opt_stop_l b _ _ _ _ _ Pb Hb Hbs) as (B1 & B2 & B3 & B4).
  destruct (match rb with
            | Some ob => conc_child_done k (ns_set_own (stopped_ns ns) true) true ob
            | None => (ns_set_own (stopped_ns ns) true, false, None) end) as [[ns2 x] fin1] eqn:Hm.
  apply opt_ccd in Hm. simpl in Hm. destruct Hm as (M1 & M2 & M3 & M4 & M5 & M6).
  specialize (M2 eq_refl).
  destruct fin1 as [o1|].
  - rewrite finish_some_leaky in H. inv H.
    assert (Hrb : rb <> None) by (intros E; apply M5 in E; discriminate).
    destruct (B2 Hrb) as [-> Hbd].
    destruct rb as [ob|]; [|congruence].
    assert (Had : adone ns = true).
    { destruct (M6 Hrb) as [_ M6b]. rewrite M3 in M6b.
      destruct (adone ns); [reflexivity|]. simpl in M6b. discriminate (M6b eq_refl). }
    rewrite Had in Ha. simpl in Ha. subst sa.
    split; [auto with calc|]. split; [rewrite app_nil_r; auto with calc|].
    intros id Hin. rewrite lv_fin in Hin. simpl in Hin. rewrite app_nil_r. auto.
  - destruct (if adone ns2 then (sa, [], None) else stop a sa) as [[sa' tra] ra] eqn:Has.
    rewrite M3 in Has.
    assert (Ha2 : chld (live false a sa) sa (match rb with Some _ => adone ns | None => adone ns end))
      by (destruct rb; exact Ha).
    destruct (opt_stop_l a _ _ _ _ _ Pa Ha2 Has) as (A1 & A2 & A3 & A4).
    destruct (match ra with
              | Some oa => conc_child_done k ns2 false oa
              | None => (ns2, false, None) end) as [[ns3 y] fin2] eqn:Hm2.
    apply opt_ccd in Hm2. destruct Hm2 as (N1 & N2 & N3 & N4 & N5 & N6).
    specialize (N2 M2).
    assert (T : tr_stopped (Bin k a b) (trb ++ tra)) by auto with calc.
    assert (U : forall id, In id (lv false negb a sa ++ lv false negb b sb) -> In (TLeafStop id) (trb ++ tra)).
    { intros id Hin. apply in_app_or in Hin. apply in_or_app. destruct Hin; [right; auto|left; auto]. }
    destruct fin2 as [o2|].
    + rewrite finish_some_leaky in H. inv H. rewrite app_nil_r. auto with calc.
    + rewrite finish_none in H. inv H. split; [|auto].
      apply resL_none. rewrite live_conc by exact Hk.
      rewrite N1, M1, N2, N3, N4, M3, M4. simpl.
      split; [reflexivity|]. split; [reflexivity|].
      assert (Hdd : (adone ns3 && bdone ns3)%bool = false).
      { destruct ra as [oa|].
        - apply N6; [discriminate|reflexivity].
        - rewrite N3, N4. destruct rb as [ob|].
          + apply M6; [discriminate|reflexivity].
          + rewrite M3, M4. exact Hd. }
      rewrite N3, N4, M3, M4 in Hdd.
      split; [|split; [|exact Hdd]].
      * destruct ra as [oa|].
        -- destruct (A2 ltac:(discriminate)) as [-> _]. destruct rb; reflexivity.
        -- specialize (A1 eq_refl). destruct rb; exact A1.
      * destruct rb as [ob|].
        -- destruct (B2 ltac:(discriminate)) as [-> _]. destruct ra; reflexivity.
        -- specialize (B1 eq_refl). destruct ra; exact B1.
Qed.

Lemma leafev_conc_l tok k a b ns sa sb id o st' tr r hit :
  is_seq k = false -> LeafevL a -> LeafevL b -> StopL a -> StopL b ->
  live tok (Bin k a b) (ONode ns sa sb) ->
  leafev_conc k a b ns sa sb id o = (st', tr, r, hit) ->
  resL tok (Bin k a b) st' r /\ (tok = true -> tr_stopped (Bin k a b) tr).
Proof.
  intros Hk La Lb Pa Pb HL H. assert (HL0 := HL). rewrite live_conc in HL by exact Hk.
  destruct HL as (He & Ho & Ha & Hb & Hd). unfold leafev_conc in H.
  destruct (if adone ns then (sa, [], None, false) else leafev a sa id o) as [[[sa' tra] ra] hita] eqn:Has.
  destruct hita.
  - destruct (adone ns) eqn:Had; [inv Has|]. simpl in Ha.
    destruct (La _ _ _ _ _ _ _ _ Has Ha) as [[L1 L2] T].
    destruct ra as [oa|].
    + injection H as H Hhit.
      destruct (conc_a_done_l tok k a b ns sa' sb tra oa st' tr r Hk Pb He Ho Hb) as [R (trb & -> & T2)]; auto.
      { apply L2. discriminate. }
      split; [exact R|]. intros Ht. specialize (T (Ho Ht)). auto with calc.
    + inv H. split; [|intros Ht; specialize (T (Ho Ht)); auto with calc].
      apply resL_none. rewrite live_conc by exact Hk. rewrite Had. simpl. auto 6.
  - destruct (if bdone ns then (sb, [], None, false) else leafev b sb id o) as [[[sb' trb] rb] hitb] eqn:Hbs.
    destruct (bdone ns) eqn:Hbd.
    + inv Hbs. inv H. split; [apply resL_none; exact HL0|]. intros _. apply trs_nil.
    + simpl in Hb. destruct (Lb _ _ _ _ _ _ _ _ Hbs Hb) as [[L1 L2] T].
      destruct rb as [ob|].
      * injection H as H Hhit.
        destruct (conc_b_done_l tok k a b ns sa sb' trb ob st' tr r Hk Pa He Ho Ha) as [R (tra2 & -> & T2)]; auto.
        { apply L2. discriminate. }
        split; [exact R|]. intros Ht. specialize (T (Ho Ht)). auto with calc.
      * inv H. split; [|intros Ht; specialize (T (Ho Ht)); auto with calc].
        apply resL_none. rewrite live_conc by exact Hk. rewrite Hbd. simpl. auto 6.
Qed.

Lemma start_stop_l e : StartL e /\ StopL e.
Proof.
  induction e as [v|x| |n|i|i|k s IH|k a IHa b IHb].
  - split; [intros en st tr r H; simpl in H; inv H; auto with calc
           |intros tok st st' tr r H HL; destruct st; contradiction HL].
  - split; [intros en st tr r H; simpl in H; inv H; auto with calc
           |intros tok st st' tr r H HL; destruct st; contradiction HL].
  - split; [intros en st tr r H; simpl in H; inv H; auto with calc
           |intros tok st st' tr r H HL; destruct st; contradiction HL].
  - split; [intros en st tr r H; simpl in H; inv H; auto with calc
           |intros tok st st' tr r H HL; destruct st; contradiction HL].
  - split.
    + intros en st tr r H. simpl in H. destruct (e_stopped en) eqn:Es; inv H.
      * split; [apply resL_none; simpl; auto|]. intros _ id s sp a b [Hin|[Hin|[]]]; inv Hin. auto.
      * split; [apply resL_none; simpl; auto|]. discriminate.
    + intros tok st st' tr r H HL. destruct st as [|c sn|]; try contradiction HL.
      destruct HL as [-> ->]. destruct tok; simpl in H; inv H.
      * split; [apply resL_none; simpl; auto|]. split; [apply trs_nil|]. intros id [].
      * split; [apply resL_none; simpl; auto|]. split; [intros id s sp a b [Hin|[]]; inv Hin|].
        intros id [<-|[]]. left. reflexivity.
  - split.
    + intros en st tr r H. simpl in H. destruct (e_stopped en) eqn:Es; inv H.
      * split; [auto with calc|]. intros _ id s sp a b [Hin|[Hin|[]]]; inv Hin. auto.
      * split; [apply resL_none; simpl; auto|]. discriminate.
    + intros tok st st' tr r H HL. destruct st as [|c sn|]; try contradiction HL.
      destruct HL as [-> ->]. destruct tok; simpl in H; inv H.
      * split; [apply resL_none; simpl; auto|]. split; [apply trs_nil|]. intros id [].
      * split; [auto with calc|]. split; [intros id s sp a b [Hin|[]]; inv Hin|].
        intros id [<-|[]]. left. reflexivity.
  - destruct IH as [Ss Ps]. split.
    + intros en st tr r H. rewrite start_un in H.
      destruct (start s (un_env k en)) as [[sc tr1] r1] eqn:Hs.
      destruct (Ss _ _ _ _ Hs) as [[L1 L2] T]. rewrite un_env_stopped in L1, T.
      assert (T' : e_stopped en = true -> tr_stopped (Un k s) tr1).
      { intros Hst. destruct (is_unst k) eqn:Hk.
        - apply trs_unst; [exact Hk|]. intros. eapply start_ids; eassumption.
        - apply trs_un; auto. }
      destruct r1 as [o1|].
      * destruct (un_result k o1) as [tr2 o'] eqn:Hu. inv H. split; [auto with calc|].
        intros Hst. apply trs_app; auto. apply trs_calls. eapply un_result_calls. eassumption.
      * inv H. split; [|exact T']. apply resL_none. rewrite live_un. auto.
    + intros tok st st' tr r H HL. destruct st as [|c sn|ns sc sb]; try contradiction HL.
      rewrite live_un in HL. destruct HL as [He HL].
      destruct (is_unst k) eqn:Hk.
      * apply is_unst_true in Hk. subst k. rewrite stop_un_unst in H. inv H.
        split; [apply resL_none; rewrite live_un; simpl; split; [discriminate|exact HL]|].
        split; [apply trs_nil|]. intros id [].
      * rewrite stop_un in H by exact Hk. unfold stop_un_body in H.
        destruct (stop s sc) as [[sc' tr1] r1] eqn:Hs.
        destruct (Ps _ _ _ _ _ Hs HL) as ([L1 L2] & T & U).
        apply (trs_un k) in T; [|exact Hk].
        assert (U' : forall id, In id (reach_unseen (Un k s) (ONode ns sc sb)) -> In (TLeafStop id) tr1).
        { unfold reach_unseen. rewrite lv_un, Hk. exact U. }
        destruct r1 as [o1|].
        -- destruct (un_result k o1) as [tr2 o'] eqn:Hu. inv H. split; [auto with calc|].
           split; [apply trs_app; auto; apply trs_calls; eapply un_result_calls; eassumption|].
           intros id Hin. apply in_or_app. left. auto.
        -- inv H. split; [|auto]. apply resL_none. rewrite live_un, Hk. split; [reflexivity|auto].
  - destruct IHa as [Sa Pa]. destruct IHb as [Sb Pb].
    destruct (is_seq k) eqn:Hk.
    + split.
      * intros en st tr r H. rewrite start_bin_seq in H by exact Hk. unfold start_seq in H.
        destruct (start a en) as [[sa tra] ra] eqn:Ha.
        destruct (Sa _ _ _ _ Ha) as [[L1 L2] T].
        destruct ra as [oa|].
        -- destruct (seq_next_l (e_stopped en) k a b (mk_nst PFirst en) _ _ _ _ _ Hk Sb eq_refl H) as [R (trb & -> & T2)].
           split; [exact R|]. intros Hst. auto with calc.
        -- inv H. split; [|intros Hst; auto with calc]. apply resL_none.
           rewrite live_seq1 by (auto; reflexivity). auto.
      * intros tok st st' tr r H HL. destruct st as [|c sn|ns sa sb]; try contradiction HL.
        rewrite stop_bin, Hk in H. unfold reach_unseen.
        destruct (ph ns) eqn:Hp.
        -- rewrite live_seq1 in HL by assumption. destruct HL as [He HL].
           rewrite lv_seq1 by assumption.
           unfold stop_seq1 in H. destruct (stop a sa) as [[sa' tra] ra] eqn:Ha.
           destruct (Pa _ _ _ _ _ Ha HL) as ([L1 L2] & T & U).
           destruct ra as [oa|].
           ++ destruct (seq_next_l true k a b (stopped_ns ns) _ _ _ _ _ Hk Sb eq_refl H) as [R (trb & -> & T2)].
              split; [exact R|]. split; [auto with calc|]. intros id Hin. apply in_or_app. left. auto.
           ++ inv H. split; [|auto with calc]. apply resL_none.
              rewrite live_seq1 by (auto; exact Hp). auto.
        -- assert (Hp' : ph ns <> PFirst) by congruence.
           rewrite live_seq2 in HL by assumption. destruct HL as [He HL].
           rewrite lv_seq2 by assumption.
           unfold stop_seq2 in H. destruct (stop b sb) as [[sb' trb] rb] eqn:Hb.
           destruct (Pb _ _ _ _ _ Hb HL) as ([L1 L2] & T & U).
           destruct rb; inv H; (split; [|auto with calc]); [auto with calc|].
           apply resL_none. rewrite live_seq2 by (auto; exact Hp'). auto.
        -- assert (Hp' : ph ns <> PFirst) by congruence.
           rewrite live_seq2 in HL by assumption. destruct HL as [He HL].
           rewrite lv_seq2 by assumption.
           unfold stop_seq2 in H. destruct (stop b sb) as [[sb' trb] rb] eqn:Hb.
           destruct (Pb _ _ _ _ _ Hb HL) as ([L1 L2] & T & U).
           destruct rb; inv H; (split; [|auto with calc]); [auto with calc|].
           apply resL_none. rewrite live_seq2 by (auto; exact Hp'). auto.
    + split.
      * intros en st tr r H. rewrite start_bin_conc in H by exact Hk.
        eapply start_conc_l; eauto.
      * intros tok st st' tr r H HL. destruct st as [|c sn|ns sa sb]; try contradiction HL.
        rewrite stop_bin, Hk in H.
        destruct (own_stop ns) eqn:Hown.
        -- inv H. rewrite live_conc in HL by exact Hk. destruct HL as (He & Ho & Ha & Hb & Hd).
           rewrite Hown in Ha, Hb.
           split; [apply resL_none; rewrite live_conc by exact Hk; simpl; rewrite Hown; auto 6|].
           split; [apply trs_nil|]. unfold reach_unseen. rewrite lv_conc by exact Hk.
           assert (Ea : lv false negb a sa = []).
           { destruct (adone ns); simpl in Ha; [subst; apply lv_fin|apply live_true_unseen; exact Ha]. }
           assert (Eb : lv false negb b sb = []).
           { destruct (bdone ns); simpl in Hb; [subst; apply lv_fin|apply live_true_unseen; exact Hb]. }
           rewrite Ea, Eb. intros id [].
        -- eapply stop_conc_l; eauto.
Qed.

Lemma leafev_l e : LeafevL e.
Proof.
  induction e as [v|x| |n|i|i|k s IH|k a IHa b IHb];
    try (intros tok st id o st' tr r hit H HL; destruct st; contradiction HL).
  - intros tok st id o st' tr r hit H HL. destruct st as [|c sn|]; try contradiction HL.
    assert (HL0 := HL). destruct HL as [-> ->]. simpl in H.
    destruct (Nat.eqb id i); inv H; auto with calc.
  - intros tok st id o st' tr r hit H HL. destruct st as [|c sn|]; try contradiction HL.
    assert (HL0 := HL). destruct HL as [-> ->]. simpl in H.
    destruct (Nat.eqb id i); inv H; auto with calc.
  - intros tok st id o st' tr r hit H HL. destruct st as [|c sn|ns sc sb]; try contradiction HL.
    rewrite live_un in HL. destruct HL as [He HL].
    rewrite leafev_un in H. unfold leafev_un_body in H.
    destruct (leafev s sc id o) as [[[sc' tr1] r1] h1] eqn:Hs.
    destruct (IH _ _ _ _ _ _ _ _ Hs HL) as [[L1 L2] T].
    assert (T' : tok = true -> tr_stopped (Un k s) tr1).
    { intros Hst. destruct (is_unst k) eqn:Hk.
      - apply trs_unst; [exact Hk|]. intros. eapply leafev_ids; eassumption.
      - apply trs_un; auto. }
    destruct r1 as [o1|].
    + destruct (un_result k o1) as [tr2 o'] eqn:Hu. inv H. split; [auto with calc|].
      intros Hst. apply trs_app; auto. apply trs_calls. eapply un_result_calls. eassumption.
    + inv H. split; [|exact T']. apply resL_none. rewrite live_un. auto.
  - destruct (start_stop_l a) as [Sa Pa]. destruct (start_stop_l b) as [Sb Pb].
    intros tok st id o st' tr r hit H HL. destruct st as [|c sn|ns sa sb]; try contradiction HL.
    rewrite leafev_bin in H. destruct (is_seq k) eqn:Hk.
    + destruct (ph ns) eqn:Hp.
      * rewrite live_seq1 in HL by assumption. destruct HL as [He HL].
        unfold leafev_seq1 in H. destruct (leafev a sa id o) as [[[sa' tra] ra] h1] eqn:Ha.
        destruct (IHa _ _ _ _ _ _ _ _ Ha HL) as [[L1 L2] T].
        destruct ra as [oa|].
        -- injection H as H Hhit.
           destruct (seq_next_l tok k a b _ _ _ _ _ _ Hk Sb He H) as [R (trb & -> & T2)].
           split; [exact R|]. intros Hst. auto with calc.
        -- inv H. split; [|intros Hst; auto with calc]. apply resL_none.
           rewrite live_seq1 by (auto; exact Hp). auto.
      * assert (Hp' : ph ns <> PFirst) by congruence.
        rewrite live_seq2 in HL by assumption. destruct HL as [He HL].
        unfold leafev_seq2 in H. destruct (leafev b sb id o) as [[[sb' trb] rb] h1] eqn:Hb.
        destruct (IHb _ _ _ _ _ _ _ _ Hb HL) as [[L1 L2] T].
        destruct rb; inv H; (split; [|intros Hst; auto with calc]); [auto with calc|].
        apply resL_none. rewrite live_seq2 by (auto; exact Hp'). auto.
      * assert (Hp' : ph ns <> PFirst) by congruence.
        rewrite live_seq2 in HL by assumption. destruct HL as [He HL].
        unfold leafev_seq2 in H. destruct (leafev b sb id o) as [[[sb' trb] rb] h1] eqn:Hb.
        destruct (IHb _ _ _ _ _ _ _ _ Hb HL) as [[L1 L2] T].
        destruct rb; inv H; (split; [|intros Hst; auto with calc]); [auto with calc|].
        apply resL_none. rewrite live_seq2 by (auto; exact Hp'). auto.
    + eapply leafev_conc_l; eauto.
Qed.

(* ---- A1: what [stop] does, on a live state -------------------------------------------------------- *)
Lemma reach_split e st id : In id (reach e st) -> In id (reach_unseen e st) \/ In id (reach_seen e st).
Proof.
  intros H. apply (lv_split false (fun s => s)) in H. destruct H; [right|left]; assumption.
Qed.

Theorem stop_reaches e tok st st' tr r :
  live tok e st -> stop e st = (st', tr, r) ->
  (forall id, In id (reach e st) -> In (TLeafStop id) tr \/ In id (reach_seen e st)) /\
  (forall id, In id (reach e st') -> In id (reach_seen e st')) /\
  (r = None -> live true e st') /\ (r <> None -> st' = OFin).
Proof.
  intros HL H. destruct (start_stop_l e) as [_ P].
  destruct (P _ _ _ _ _ H HL) as ([L1 L2] & _ & U).
  split; [|split; [|split; assumption]].
  - intros id Hin. apply reach_split in Hin. destruct Hin; auto.
  - intros id Hin. destruct r as [o|].
    + rewrite L2 in Hin by discriminate. unfold reach in Hin. rewrite lv_fin in Hin. contradiction.
    + apply reach_split in Hin. destruct Hin as [Hin|Hin]; [|exact Hin].
      rewrite (live_true_unseen e st' (L1 eq_refl)) in Hin. contradiction.
Qed.

(* no stop callback runs for a leaf that is not a running, connected leaf that has not seen stop yet,
   unless that leaf was started in the same call (a successor started with a stopped token) *)
Definition StopT (e : sexpr) : Prop := forall id st st' tr r,
  stop e st = (st', tr, r) -> In (TLeafStop id) tr -> In id (reach_unseen e st) \/ 1 <= cstart id tr.

Lemma calls_no_stop id tr : Forall is_call tr -> ~ In (TLeafStop id) tr.
Proof. intros H Hin. rewrite Forall_forall in H. exact (H _ Hin). Qed.

Lemma seq_next_t id k (a : sexpr) b ns tra oa st tr r :
  is_seq k = true -> seq_next k b ns tra oa = (st, tr, r) ->
  In (TLeafStop id) tr -> In (TLeafStop id) tra \/ 1 <= cstart id tr.
Proof.
  intros Hk H Hin. destruct (start_stop_c b) as [Sb _].
  destruct (seq_next_c id k a b _ _ _ _ _ _ Hk Sb H) as (trb & -> & C1 & _).
  apply in_app_or in Hin. destruct Hin as [Hin|Hin]; [auto|].
  right. apply stop_in_cstop in Hin. rewrite cstart_app. lia.
Qed.

Lemma stop_conc_tr k a b ns sa sb st' tr r :
  stop_conc k a b ns sa sb = (st', tr, r) ->
  exists trb tra, tr = trb ++ tra /\
    (trb = [] \/ exists sb' rb, stop b sb = (sb', trb, rb)) /\
    (tra = [] \/ exists sa' ra, stop a sa = (sa', tra, ra)).
Proof.
  intros H. unfold stop_conc in H.
  destruct (if bdone ns then (sb, [], None) else stop b sb) as [[sb' trb] rb] eqn:Hbs.
  assert (B : trb = [] \/ exists sb' rb, stop b sb = (sb', trb, rb)).
  { destruct (bdone ns); [inv Hbs; auto|eauto]. }
  destruct (match rb with
            | Some ob => conc_child_done k (ns_set_own (stopped_ns ns) true) true ob
            | None => (ns_set_own (stopped_ns ns) true, false, None) end) as [[ns2 x] fin1].
  destruct fin1 as [o1|].
  - rewrite finish_some_leaky in H. inv H. exists trb, []. auto.
  - destruct (if adone ns2 then (sa, [], None) else stop a sa) as [[sa' tra] ra] eqn:Has.
    assert (A : tra = [] \/ exists sa' ra, stop a sa = (sa', tra, ra)).
    { destruct (adone ns2); [inv Has; auto|eauto]. }
    destruct (match ra with
              | Some oa => conc_child_done k ns2 false oa
              | None => (ns2, false, None) end) as [[ns3 y] fin2].
    exists trb, tra. split; [|auto].
    destruct fin2; [rewrite finish_some_leaky in H; inv H; apply app_nil_r|rewrite finish_none in H; inv H; reflexivity].
Qed.

Lemma stop_t e : StopT e.
Proof.
  induction e as [v|x| |n|i|i|k s IH|k a IHa b IHb];
    try (intros id st st' tr r H Hin; destruct st; simpl in H; inv H; contradiction Hin).
  - intros id st st' tr r H Hin. destruct st as [|c sn|]; simpl in H; try (inv H; contradiction Hin).
    destruct c, sn; inv H; try contradiction Hin. destruct Hin as [Hin|[]]. inv Hin. left. left. reflexivity.
  - intros id st st' tr r H Hin. destruct st as [|c sn|]; simpl in H; try (inv H; contradiction Hin).
    destruct c, sn; inv H; try contradiction Hin. destruct Hin as [Hin|[]]. inv Hin. left. left. reflexivity.
  - intros id st st' tr r H Hin.
    destruct st as [|c sn|ns sc sb]; [rewrite stop_fin in H; inv H; contradiction Hin|simpl in H; inv H; contradiction Hin|].
    destruct (is_unst k) eqn:Hk.
    + apply is_unst_true in Hk. subst k. rewrite stop_un_unst in H. inv H. contradiction Hin.
    + rewrite stop_un in H by exact Hk. unfold stop_un_body in H. unfold reach_unseen. rewrite lv_un, Hk. simpl.
      destruct (stop s sc) as [[sc' tr1] r1] eqn:Hs.
      destruct r1 as [o1|].
      * destruct (un_result k o1) as [tr2 o'] eqn:Hu. inv H. apply un_result_calls in Hu.
        apply in_app_or in Hin. destruct Hin as [Hin|Hin]; [|exfalso; eapply calls_no_stop; eassumption].
        destruct (IH _ _ _ _ _ Hs Hin); [auto|]. right. rewrite cstart_app. lia.
      * inv H. eauto.
  - intros id st st' tr r H Hin.
    destruct st as [|c sn|ns sa sb]; [rewrite stop_fin in H; inv H; contradiction Hin|simpl in H; inv H; contradiction Hin|].
    rewrite stop_bin in H. unfold reach_unseen. destruct (is_seq k) eqn:Hk.
    + destruct (ph ns) eqn:Hp.
      * rewrite lv_seq1 by assumption. unfold stop_seq1 in H.
        destruct (stop a sa) as [[sa' tra] ra] eqn:Ha.
        destruct ra as [oa|].
        -- destruct (seq_next_t id k a b _ _ _ _ _ _ Hk H Hin) as [Hin'|Hc]; [|auto].
           destruct (IHa _ _ _ _ _ Ha Hin'); [auto|]. right.
           destruct (start_stop_c b) as [Sb _].
           destruct (seq_next_c id k a b _ _ _ _ _ _ Hk Sb H) as (trb & -> & _).
           rewrite cstart_app. lia.
        -- inv H. eauto.
      * rewrite lv_seq2 by (auto; congruence). unfold stop_seq2 in H.
        destruct (stop b sb) as [[sb' trb] rb] eqn:Hb. destruct rb; inv H; eauto.
      * rewrite lv_seq2 by (auto; congruence). unfold stop_seq2 in H.
        destruct (stop b sb) as [[sb' trb] rb] eqn:Hb. destruct rb; inv H; eauto.
    + destruct (own_stop ns); [inv H; contradiction Hin|].
      rewrite lv_conc by exact Hk.
      apply stop_conc_tr in H. destruct H as (trb & tra & -> & B & A).
      apply in_app_or in Hin. rewrite cstart_app, in_app_iff. destruct Hin as [Hin|Hin].
      * destruct B as [->|(sb' & rb & Hb)]; [contradiction Hin|].
        destruct (IHb _ _ _ _ _ Hb Hin); [auto|right; lia].
      * destruct A as [->|(sa' & ra & Ha)]; [contradiction Hin|].
        destruct (IHa _ _ _ _ _ Ha Hin); [auto|right; lia].
Qed.

Theorem stop_only_reach e id st st' tr r :
  stop e st = (st', tr, r) -> In (TLeafStop id) tr ->
  In id (reach_unseen e st) \/ exists s sp a b, In (TLeafStart id s sp a b) tr.
Proof.
  intros H Hin. destruct (stop_t e _ _ _ _ _ H Hin) as [Hr|Hc]; [auto|].
  right. apply cstart_in. exact Hc.
Qed.

(* ---- A5: stop starts and completes nothing unless a stop-reactive leaf is reached ---------------- *)
Fixpoint reactive (e : sexpr) (st : ost) : list nat :=
  match e, st with
  | LeafN id, OLeaf false false => [id]
  | Un k s, ONode _ sc _ => if is_unst k then [] else reactive s sc
  | Bin k a b, ONode ns sa sb =>
      if is_seq k then
        match ph ns with PFirst => reactive a sa | _ => reactive b sb end
      else reactive a sa ++ reactive b sb
  | _, _ => []
  end.
Definition is_stop_ev (t : tev) : Prop := exists id, t = TLeafStop id.

Lemma stop_inert e : forall st st' tr r,
  stop e st = (st', tr, r) -> reactive e st = [] -> r = None /\ Forall is_stop_ev tr.
Proof.
  induction e as [v|x| |n|i|i|k s IH|k a IHa b IHb];
    try (intros st st' tr r H Hr; destruct st; simpl in H; inv H; auto; fail).
  - intros st st' tr r H Hr. destruct st as [|c sn|]; simpl in H; try (inv H; auto; fail).
    destruct c, sn; inv H; auto. split; [reflexivity|]. repeat constructor. exists i. reflexivity.
  - intros st st' tr r H Hr. destruct st as [|c sn|]; simpl in H; try (inv H; auto; fail).
    destruct c, sn; inv H; auto. discriminate Hr.
  - intros st st' tr r H Hr.
    destruct st as [|c sn|ns sc sb]; [rewrite stop_fin in H; inv H; auto|simpl in H; inv H; auto|].
    destruct (is_unst k) eqn:Hk.
    + apply is_unst_true in Hk. subst k. rewrite stop_un_unst in H. inv H. auto.
    + rewrite stop_un in H by exact Hk. unfold stop_un_body in H. simpl in Hr. rewrite Hk in Hr.
      destruct (stop s sc) as [[sc' tr1] r1] eqn:Hs. destruct (IH _ _ _ _ Hs Hr) as [-> F]. inv H. auto.
  - intros st st' tr r H Hr.
    destruct st as [|c sn|ns sa sb]; [rewrite stop_fin in H; inv H; auto|simpl in H; inv H; auto|].
    rewrite stop_bin in H. simpl in Hr. destruct (is_seq k) eqn:Hk.
    + destruct (ph ns) eqn:Hp.
      * unfold stop_seq1 in H. destruct (stop a sa) as [[sa' tra] ra] eqn:Ha.
        destruct (IHa _ _ _ _ Ha Hr) as [-> F]. inv H. auto.
      * unfold stop_seq2 in H. destruct (stop b sb) as [[sb' trb] rb] eqn:Hb.
        destruct (IHb _ _ _ _ Hb Hr) as [-> F]. inv H. auto.
      * unfold stop_seq2 in H. destruct (stop b sb) as [[sb' trb] rb] eqn:Hb.
        destruct (IHb _ _ _ _ Hb Hr) as [-> F]. inv H. auto.
    + destruct (own_stop ns); [inv H; auto|].
      apply app_eq_nil in Hr. destruct Hr as [Hra Hrb].
      unfold stop_conc in H.
      destruct (if bdone ns then (sb, [], None) else stop b sb) as [[sb' trb] rb] eqn:Hbs.
      assert (B : rb = None /\ Forall is_stop_ev trb).
      { destruct (bdone ns); [inv Hbs; auto|eauto]. }
      destruct B as [-> Fb].
      destruct (if adone (ns_set_own (stopped_ns ns) true) then (sa, [], None) else stop a sa)
        as [[sa' tra] ra] eqn:Has.
      assert (A : ra = None /\ Forall is_stop_ev tra).
      { destruct (adone (ns_set_own (stopped_ns ns) true)); [inv Has; auto|eauto]. }
      destruct A as [-> Fa]. rewrite finish_none in H. inv H. split; [reflexivity|].
      apply Forall_app. auto.
Qed.

(* ================================================================================================ *)
(* Part 3: A3 - losers are stopped                                                                  *)
(* ================================================================================================ *)
Definition loser_cond (k : bkind) (o : outcome) : Prop :=
  k = BStopWhen \/ (k = BWhenAll /\ forall v, o <> OVal v).

Theorem losers_stopped_a k a b ns sa sb id o sa' tra oa st' tr r hit tok :
  is_seq k = false ->
  live tok (Bin k a b) (ONode ns sa sb) ->
  adone ns = false -> leafev a sa id o = (sa', tra, Some oa, true) ->   (* the event completes child a *)
  loser_cond k oa -> own_stop ns = false -> bdone ns = false ->      (* b running, not yet told *)
  leafev (Bin k a b) (ONode ns sa sb) id o = (st', tr, r, hit) ->
  forall id', In id' (reach_unseen b sb) -> In (TLeafStop id') tr.
Proof.
  intros Hk HL Had Ha Hl Hown Hbd H id' Hin.
  rewrite live_conc in HL by exact Hk. destruct HL as (_ & _ & _ & Lb & _).
  rewrite Hbd, Hown in Lb. simpl in Lb.
  rewrite leafev_bin, Hk in H. unfold leafev_conc in H. rewrite Had, Ha in H.
  injection H as H _. unfold conc_a_done in H.
  destruct (ccd_newly k ns false oa Hown Hl) as (ns1 & fin & Hc). rewrite Hc in H.
  apply ccd_spec in Hc. destruct Hc as (_ & _ & _ & E4 & E5 & _ & _ & Ef).
  assert (fin = None) by (apply Ef; rewrite E4, E5, Hbd; reflexivity). subst fin.
  destruct (stop b sb) as [[sb' trb] rb] eqn:Hs.
  destruct (start_stop_l b) as [_ Pb]. destruct (Pb _ _ _ _ _ Hs Lb) as (_ & _ & U).
  specialize (U _ Hin).
  destruct rb as [ob|].
  - destruct (conc_child_done k ns1 true ob) as [[ns2 x] fin2].
    apply finish_cases2 in H; [|reflexivity].
    destruct H as [(? & _ & _ & -> & _)|(_ & _ & -> & _)]; apply in_or_app; auto.
  - inv H. apply in_or_app. auto.
Qed.

Theorem losers_stopped_b k a b ns sa sb id o sb' trb ob st' tr r hit tok :
  is_seq k = false ->
  live tok (Bin k a b) (ONode ns sa sb) ->
  (adone ns = false -> snd (leafev a sa id o) = false) ->             (* the event is not for a *)
  bdone ns = false -> leafev b sb id o = (sb', trb, Some ob, true) ->  (* it completes child b *)
  loser_cond k ob -> own_stop ns = false -> adone ns = false ->
  leafev (Bin k a b) (ONode ns sa sb) id o = (st', tr, r, hit) ->
  forall id', In id' (reach_unseen a sa) -> In (TLeafStop id') tr.
Proof.
  intros Hk HL Hmiss Hbd Hb Hl Hown Had H id' Hin.
  rewrite live_conc in HL by exact Hk. destruct HL as (_ & _ & La & _ & _).
  rewrite Had, Hown in La. simpl in La. specialize (Hmiss Had).
  rewrite leafev_bin, Hk in H. unfold leafev_conc in H. rewrite Had in H.
  destruct (leafev a sa id o) as [[[sa1 tra1] ra1] hita]. simpl in Hmiss. subst hita.
  rewrite Hbd, Hb in H.
  injection H as H _. unfold conc_b_done in H.
  destruct (ccd_newly k ns true ob Hown Hl) as (ns1 & fin & Hc). rewrite Hc in H.
  apply ccd_spec in Hc. destruct Hc as (_ & _ & _ & E4 & E5 & _ & _ & Ef).
  assert (fin = None) by (apply Ef; rewrite E4, E5, Had; reflexivity). subst fin.
  destruct (stop a sa) as [[sa' tra] ra] eqn:Hs.
  destruct (start_stop_l a) as [_ Pa]. destruct (Pa _ _ _ _ _ Hs La) as (_ & _ & U).
  specialize (U _ Hin).
  destruct ra as [oa|].
  - destruct (conc_child_done k ns1 false oa) as [[ns2 x] fin2].
    apply finish_cases2 in H; [|reflexivity].
    destruct H as [(? & _ & _ & -> & _)|(_ & _ & -> & _)]; apply in_or_app; auto.
  - inv H. apply in_or_app. auto.
Qed.

(* ================================================================================================ *)
(* Part 4: whole runs                                                                               *)
(* ================================================================================================ *)
Definition tevs (xs : list xev) : list tev :=
  flat_map (fun x => match x with XT t => [t] | _ => [] end) xs.
Lemma tevs_app l1 l2 : tevs (l1 ++ l2) = tevs l1 ++ tevs l2.
Proof. apply flat_map_app. Qed.
Lemma tevs_map tr : tevs (map XT tr) = tr.
Proof. induction tr; simpl; congruence. Qed.
Lemma tevs_in t xs : In t (tevs xs) <-> In (XT t) xs.
Proof.
  unfold tevs. rewrite in_flat_map. split.
  - intros (x & Hx & Ht). destruct x; simpl in Ht; try contradiction. destruct Ht as [->|[]]. exact Hx.
  - intros H. exists (XT t). split; [exact H|left; reflexivity].
Qed.

Definition not_xt (x : xev) : Prop := match x with XT _ => False | _ => True end.
Definition liftx (Q : tev -> Prop) (x : xev) : Prop := match x with XT t => Q t | _ => True end.
Lemma liftx_delta Q tr extra : Forall Q tr -> Forall not_xt extra -> Forall (liftx Q) (map XT tr ++ extra).
Proof.
  intros H1 H2. apply Forall_app. split.
  - induction H1; simpl; constructor; auto.
  - eapply Forall_impl; [|exact H2]. intros x. destruct x; simpl; tauto.
Qed.
Lemma tevs_extra extra : Forall not_xt extra -> tevs extra = [].
Proof. induction 1 as [|x l Hx _ IH]; simpl; [reflexivity|]. destruct x; simpl in *; tauto. Qed.

(* one script entry: what it calls and what it appends *)
Inductive step_kind (e : sexpr) (rs rs' : run_state) (st : ost) (tr : list tev) (o : option outcome) : Prop :=
| SK_leaf id ov : leafev e (r_st rs) id ov = (st, tr, o, true) -> r_stopped rs' = r_stopped rs ->
                  step_kind e rs rs' st tr o
| SK_stop : r_stopped rs = false -> stop e (r_st rs) = (st, tr, o) -> r_stopped rs' = true ->
            step_kind e rs rs' st tr o
| SK_skip : st = r_st rs -> tr = [] -> o = None -> (r_stopped rs = true -> r_stopped rs' = true) ->
            (r_stopped rs' = true -> r_stopped rs = true) -> step_kind e rs rs' st tr o.

Lemma absorb_delta rs st tr o :
  exists extra, r_st (absorb rs (st, tr, o)) = st /\ r_stopped (absorb rs (st, tr, o)) = r_stopped rs /\
    r_tr (absorb rs (st, tr, o)) = r_tr rs ++ map XT tr ++ extra /\ Forall not_xt extra.
Proof.
  unfold absorb. destruct o as [oc|]; simpl.
  - eexists. split; [reflexivity|]. split; [reflexivity|]. split; [rewrite <- app_assoc; reflexivity|].
    repeat constructor.
  - exists []. rewrite app_nil_r. repeat split; constructor.
Qed.

Lemma run_ev_delta e rs ev :
  exists st tr o extra,
    r_st (run_ev e rs ev) = st /\
    r_tr (run_ev e rs ev) = r_tr rs ++ map XT tr ++ extra /\ Forall not_xt extra /\
    step_kind e rs (run_ev e rs ev) st tr o /\
    (o = None \/ st = OFin -> True).
Proof.
  destruct ev as [id ov|]; simpl.
  - destruct (leafev e (r_st rs) id ov) as [[[st tr] o] hit] eqn:H. destruct hit.
    + destruct (absorb_delta rs st tr o) as (extra & A1 & A2 & A3 & A4).
      exists st, tr, o, extra. repeat split; auto. eapply SK_leaf; eauto.
    + exists (r_st rs), [], None, [XSkip]. simpl. repeat split; auto; [repeat constructor|].
      apply SK_skip; auto.
  - destruct (r_stopped rs) eqn:Hs.
    + exists (r_st rs), [], None, [XSkip]. simpl. repeat split; auto; [repeat constructor|].
      apply SK_skip; auto.
    + destruct (stop e (r_st rs)) as [[st tr] o] eqn:H.
      destruct (absorb_delta {| r_st := r_st rs; r_stopped := true; r_roots := r_roots rs; r_tr := r_tr rs |} st tr o)
        as (extra & A1 & A2 & A3 & A4).
      exists st, tr, o, extra. repeat split; auto. apply SK_stop; auto.
Qed.

(* suffixes of runs *)
Lemma fold_suffix e (J : run_state -> Prop) (Q : tev -> Prop) :
  (forall rs ev, J rs -> J (run_ev e rs ev) /\
                 exists d, r_tr (run_ev e rs ev) = r_tr rs ++ d /\ Forall (liftx Q) d) ->
  forall s2 rs, J rs ->
    J (fold_left (run_ev e) s2 rs) /\
    exists d, r_tr (fold_left (run_ev e) s2 rs) = r_tr rs ++ d /\ Forall (liftx Q) d.
Proof.
  intros Hstep. induction s2 as [|ev s2 IH]; intros rs HJ; simpl.
  - split; [exact HJ|]. exists []. rewrite app_nil_r. auto.
  - destruct (Hstep rs ev HJ) as [HJ' (d1 & E1 & F1)].
    destruct (IH _ HJ') as [HJ'' (d2 & E2 & F2)].
    split; [exact HJ''|]. exists (d1 ++ d2). rewrite E2, E1, app_assoc. split; [reflexivity|].
    apply Forall_app. auto.
Qed.

(* ---- reachable states are well-formed and live ------------------------------------------------------ *)
Definition IL (e : sexpr) (rs : run_state) : Prop :=
  r_st rs = OFin \/ live (r_stopped rs) e (r_st rs).

Lemma resL_IL tok e st o : resL tok e st o -> st = OFin \/ live tok e st.
Proof. intros [L1 L2]. destruct o; [left; apply L2; discriminate|right; auto]. Qed.

Lemma run_start_l e pre : IL e (run_start e pre).
Proof.
  unfold run_start, IL. destruct (start e (root_env pre)) as [[st tr] o] eqn:H.
  destruct (start_stop_l e) as [S _]. destruct (S _ _ _ _ H) as [R _].
  destruct (absorb_delta {| r_st := OFin; r_stopped := pre; r_roots := 0; r_tr := [] |} st tr o)
    as (extra & A1 & A2 & _). rewrite A1, A2. simpl. eapply resL_IL. exact R.
Qed.

Lemma run_ev_l e rs ev : IL e rs -> IL e (run_ev e rs ev).
Proof.
  intros HI. destruct (run_ev_delta e rs ev) as (st & tr & o & extra & E1 & _ & _ & K & _).
  unfold IL. rewrite E1. destruct K as [id ov H Hs|Hs H Hs' | -> _ _ Hs1 Hs2].
  - rewrite Hs. destruct HI as [HI|HI].
    + rewrite HI, leafev_fin in H. discriminate.
    + destruct (leafev_l e _ _ _ _ _ _ _ _ H HI) as [R _]. eapply resL_IL. exact R.
  - rewrite Hs'. destruct HI as [HI|HI].
    + rewrite HI, stop_fin in H. inv H. auto.
    + destruct (start_stop_l e) as [_ P]. destruct (P _ _ _ _ _ H HI) as (R & _). eapply resL_IL. exact R.
  - destruct HI as [HI|HI]; [auto|]. right.
    destruct (r_stopped rs) eqn:E1'.
    + rewrite (Hs1 eq_refl). exact HI.
    + destruct (r_stopped (run_ev e rs ev)); [discriminate (Hs2 eq_refl)|exact HI].
Qed.

Theorem exec_live e pre script :
  r_st (exec e pre script) = OFin \/ live (r_stopped (exec e pre script)) e (r_st (exec e pre script)).
Proof. apply (exec_invariant e pre (IL e)); [apply run_start_l|intros; apply run_ev_l; assumption]. Qed.

(* ---- A1 (counting): stop callbacks at most once per leaf, leaves start at most once -------------- *)
Definition IC (e : sexpr) (id : nat) (rs : run_state) : Prop :=
  cstop id (tevs (r_tr rs)) + nun id e (r_st rs) <= cstart id (tevs (r_tr rs)) /\
  cstart id (tevs (r_tr rs)) + avail id e (r_st rs) <= occ id e /\
  nrun id e (r_st rs) <= cstart id (tevs (r_tr rs)).

Lemma run_start_c e pre id : IC e id (run_start e pre).
Proof.
  unfold run_start, IC. destruct (start e (root_env pre)) as [[st tr] o] eqn:H.
  destruct (start_stop_c e) as [S _]. specialize (S id _ _ _ _ H).
  destruct (absorb_delta {| r_st := OFin; r_stopped := pre; r_roots := 0; r_tr := [] |} st tr o)
    as (extra & A1 & A2 & A3 & A4). rewrite A1, A3. simpl.
  rewrite tevs_app, tevs_map, (tevs_extra _ A4), app_nil_r. cn. lia.
Qed.

Lemma run_ev_c e rs ev id : IC e id rs -> IC e id (run_ev e rs ev).
Proof.
  intros HI. destruct (run_ev_delta e rs ev) as (st & tr & o & extra & E1 & E2 & E3 & K & _).
  unfold IC in *. rewrite E1, E2, !tevs_app, tevs_map, (tevs_extra _ E3), app_nil_r.
  destruct K as [i ov H Hs|Hs H Hs' | -> -> _ _ _].
  - destruct (leafev_c e id _ _ _ _ _ _ _ H) as [C _]. cn. lia.
  - destruct (start_stop_c e) as [_ P]. specialize (P id _ _ _ _ H). cn. lia.
  - rewrite app_nil_r. exact HI.
Qed.

Theorem stop_at_most_once e pre script id :
  NoDup (leaf_ids e) ->
  cstop id (tevs (r_tr (exec e pre script))) <= cstart id (tevs (r_tr (exec e pre script))) /\
  cstart id (tevs (r_tr (exec e pre script))) <= 1.
Proof.
  intros ND.
  assert (H : IC e id (exec e pre script)).
  { apply (exec_invariant e pre (IC e id)); [apply run_start_c|intros; apply run_ev_c; assumption]. }
  destruct H as (H1 & H2 & _). pose proof (occ_nodup id e ND). lia.
Qed.

(* after leaf id was completed from outside, nothing about that leaf happens any more *)
Definition about (id : nat) (t : tev) : Prop :=
  match t with
  | TLeafStart i _ _ _ _ => i <> id
  | TLeafStop i => i <> id
  | _ => True
  end.
Definition dead (e : sexpr) (id : nat) (rs : run_state) : Prop :=
  avail id e (r_st rs) = 0 /\ nrun id e (r_st rs) = 0.

Lemma zero_counts_about id tr : cstart id tr = 0 -> cstop id tr = 0 -> Forall (about id) tr.
Proof.
  intros H1 H2. apply Forall_forall. intros t Hin. destruct t; simpl; auto.
  - intros ->. apply start_in_cstart in Hin. lia.
  - intros ->. apply stop_in_cstop in Hin. lia.
Qed.

Lemma dead_step e id rs ev :
  dead e id rs ->
  dead e id (run_ev e rs ev) /\
  exists d, r_tr (run_ev e rs ev) = r_tr rs ++ d /\ Forall (liftx (about id)) d.
Proof.
  intros [D1 D2]. destruct (run_ev_delta e rs ev) as (st & tr & o & extra & E1 & E2 & E3 & K & _).
  unfold dead. rewrite E1.
  assert (C : cineq id e st tr (nun id e (r_st rs)) (nrun id e (r_st rs)) (avail id e (r_st rs))).
  { destruct K as [i ov H Hs|Hs H Hs' | -> -> _ _ _].
    - destruct (leafev_c e id _ _ _ _ _ _ _ H) as [C _]. exact C.
    - destruct (start_stop_c e) as [_ P]. exact (P id _ _ _ _ H).
    - cn. lia. }
  pose proof (nun_le_nrun id e (r_st rs)). cn.
  split; [lia|]. eexists. split; [exact E2|]. apply liftx_delta; [|exact E3].
  apply zero_counts_about; lia.
Qed.

Theorem no_event_after_completion e pre s1 s2 id o :
  NoDup (leaf_ids e) ->
  snd (leafev e (r_st (exec e pre s1)) id o) = true ->      (* the completion applies *)
  exists d, r_tr (exec e pre (s1 ++ EvLeaf id o :: s2)) = r_tr (exec e pre (s1 ++ [EvLeaf id o])) ++ d /\
            Forall (liftx (about id)) d.
Proof.
  intros ND Hhit.
  assert (HC : IC e id (exec e pre s1)).
  { apply (exec_invariant e pre (IC e id)); [apply run_start_c|intros; apply run_ev_c; assumption]. }
  assert (HD : dead e id (exec e pre (s1 ++ [EvLeaf id o]))).
  { rewrite exec_snoc. set (rs := exec e pre s1) in *. simpl.
    destruct (leafev e (r_st rs) id o) as [[[st tr] r] hit] eqn:H. simpl in Hhit. subst hit.
    destruct (absorb_delta rs st tr r) as (extra & A1 & _). unfold dead. rewrite A1.
    destruct (leafev_c e id _ _ _ _ _ _ _ H) as [C C']. specialize (C' eq_refl).
    destruct HC as (H1 & H2 & H3). pose proof (occ_nodup id e ND). cn. lia. }
  replace (s1 ++ EvLeaf id o :: s2) with ((s1 ++ [EvLeaf id o]) ++ s2) by (rewrite <- app_assoc; reflexivity).
  rewrite exec_app.
  destruct (fold_suffix e (dead e id) (about id) (fun rs ev => dead_step e id rs ev) s2 _ HD) as [_ R].
  exact R.
Qed.

(* ---- A1 on reachable states -------------------------------------------------------------------------- *)
Theorem run_stop_reaches e pre s1 st' tr r :
  stop e (r_st (exec e pre s1)) = (st', tr, r) ->
  (forall id, In id (reach e (r_st (exec e pre s1))) ->
              In (TLeafStop id) tr \/ In id (reach_seen e (r_st (exec e pre s1)))) /\
  (forall id, In id (reach e st') -> In id (reach_seen e st')) /\
  (forall id, In (TLeafStop id) tr ->
              In id (reach_unseen e (r_st (exec e pre s1))) \/ exists s sp a b, In (TLeafStart id s sp a b) tr) /\
  (r = None -> st' = OFin \/ running_leaves e st' <> []) /\ (r <> None -> st' = OFin).
Proof.
  intros H. split; [|split; [|split]].
  - destruct (exec_live e pre s1) as [E|HL].
    + rewrite E. unfold reach. rewrite lv_fin. intros id [].
    + destruct (stop_reaches _ _ _ _ _ _ HL H) as (A & _). exact A.
  - destruct (exec_live e pre s1) as [E|HL].
    + rewrite E, stop_fin in H. inv H. unfold reach. rewrite lv_fin. intros id [].
    + destruct (stop_reaches _ _ _ _ _ _ HL H) as (_ & A & _). exact A.
  - intros id Hin. eapply stop_only_reach; eassumption.
  - destruct (exec_live e pre s1) as [E|HL].
    + rewrite E, stop_fin in H. inv H. split; [auto|congruence].
    + destruct (stop_reaches _ _ _ _ _ _ HL H) as (_ & _ & A & B). split; [|exact B].
      intros Hr. right. eapply live_running. exact (A Hr).
Qed.

(* ---- A5 ------------------------------------------------------------------------------------------------ *)
Theorem stop_prompt e tok st st' tr r :
  live tok e st -> stop e st = (st', tr, r) ->
  (r = None -> running_leaves e st' <> []) /\
  (r <> None -> st' = OFin /\ running_leaves e st' = []).
Proof.
  intros HL H. destruct (stop_reaches _ _ _ _ _ _ HL H) as (_ & _ & A & B). split.
  - intros Hr. eapply live_running. exact (A Hr).
  - intros Hr. rewrite (B Hr). split; [reflexivity|]. unfold running_leaves. apply lv_fin.
Qed.

(* ---- A2: leaves started after the stop request start stopped ---------------------------------------- *)
Definition sees_stop (e : sexpr) (t : tev) : Prop :=
  match t with
  | TLeafStart id s _ _ _ => s = true \/ In id (under_unst e)
  | _ => True
  end.
Lemma trs_forall e tr : tr_stopped e tr -> Forall (sees_stop e) tr.
Proof.
  intros H. apply Forall_forall. intros t Hin. destruct t; simpl; auto. eapply H. exact Hin.
Qed.

Definition JS (e : sexpr) (rs : run_state) : Prop := IL e rs /\ r_stopped rs = true.

Lemma stopped_step e rs ev :
  JS e rs ->
  JS e (run_ev e rs ev) /\
  exists d, r_tr (run_ev e rs ev) = r_tr rs ++ d /\ Forall (liftx (sees_stop e)) d.
Proof.
  intros [HI Hs]. split; [split; [apply run_ev_l; exact HI|]|].
  - destruct (run_ev_delta e rs ev) as (st & tr & o & extra & _ & _ & _ & K & _).
    destruct K as [i ov H Hs'|Hs' H Hs''|_ _ _ Hs1 _]; [congruence|congruence|auto].
  - destruct (run_ev_delta e rs ev) as (st & tr & o & extra & E1 & E2 & E3 & K & _).
    eexists. split; [exact E2|]. apply liftx_delta; [|exact E3].
    destruct K as [i ov H Hs'|Hs' H Hs''| _ -> _ _ _]; [|congruence|constructor].
    destruct HI as [HI|HI]; [rewrite HI, leafev_fin in H; discriminate|].
    destruct (leafev_l e _ _ _ _ _ _ _ _ H HI) as [_ T]. apply trs_forall. exact (T Hs).
Qed.

Lemma stop_step e rs :
  IL e rs ->
  JS e (run_ev e rs EvStop) /\
  exists d, r_tr (run_ev e rs EvStop) = r_tr rs ++ d /\ Forall (liftx (sees_stop e)) d.
Proof.
  intros HI. destruct (r_stopped rs) eqn:Hs.
  - apply stopped_step. split; assumption.
  - split; [split; [apply run_ev_l; exact HI|]|]; simpl; rewrite Hs.
    + destruct (stop e (r_st rs)) as [[st tr] o].
      destruct (absorb_delta {| r_st := r_st rs; r_stopped := true; r_roots := r_roots rs; r_tr := r_tr rs |} st tr o)
        as (extra & _ & A2 & _). exact A2.
    + destruct (stop e (r_st rs)) as [[st tr] o] eqn:H.
      destruct (absorb_delta {| r_st := r_st rs; r_stopped := true; r_roots := r_roots rs; r_tr := r_tr rs |} st tr o)
        as (extra & _ & _ & A3 & A4).
      eexists. split; [exact A3|]. apply liftx_delta; [|exact A4].
      destruct HI as [HI|HI]; [rewrite HI, stop_fin in H; inv H; constructor|].
      rewrite Hs in HI. destruct (start_stop_l e) as [_ P]. destruct (P _ _ _ _ _ H HI) as (_ & T & _).
      apply trs_forall. exact T.
Qed.

Theorem after_stop_starts_stopped e pre s1 s2 :
  exists d, r_tr (exec e pre (s1 ++ EvStop :: s2)) = r_tr (exec e pre s1) ++ d /\
            Forall (liftx (sees_stop e)) d.
Proof.
  rewrite exec_app.
  change (fold_left (run_ev e) (EvStop :: s2) (exec e pre s1))
    with (fold_left (run_ev e) s2 (run_ev e (exec e pre s1) EvStop)).
  assert (HI : IL e (exec e pre s1)) by apply exec_live.
  destruct (stop_step e _ HI) as [HJ (d1 & E1 & F1)].
  destruct (fold_suffix e (JS e) (sees_stop e) (stopped_step e) s2 _ HJ) as [_ (d2 & E2 & F2)].
  exists (d1 ++ d2). rewrite E2, E1, app_assoc. split; [reflexivity|]. apply Forall_app. auto.
Qed.

Theorem prestopped_starts_stopped e script :
  Forall (liftx (sees_stop e)) (r_tr (exec e true script)).
Proof.
  unfold exec.
  assert (H0 : JS e (run_start e true) /\ Forall (liftx (sees_stop e)) (r_tr (run_start e true))).
  { split; [split; [apply run_start_l|]|]; unfold run_start;
      destruct (start e (root_env true)) as [[st tr] o] eqn:H;
      destruct (absorb_delta {| r_st := OFin; r_stopped := true; r_roots := 0; r_tr := [] |} st tr o)
        as (extra & _ & A2 & A3 & A4).
    - exact A2.
    - rewrite A3. simpl. apply liftx_delta; [|exact A4].
      destruct (start_stop_l e) as [S _]. destruct (S _ _ _ _ H) as [_ T].
      apply trs_forall. apply T. reflexivity. }
  destruct H0 as [HJ F0].
  destruct (fold_suffix e (JS e) (sees_stop e) (stopped_step e) script _ HJ) as [_ (d & E & F)].
  rewrite E. apply Forall_app. auto.
Qed.

(* with unique identifiers: "connected" and "below unstoppable" exclude each other *)
Lemma sreach_ids e id : In id (sreach e) -> In id (leaf_ids e).
Proof.
  induction e; simpl; auto.
  - destruct (is_unst k); [intros []|auto].
  - rewrite !in_app_iff. tauto.
Qed.
Lemma under_ids e id : In id (under_unst e) -> In id (leaf_ids e).
Proof.
  induction e; simpl; auto.
  - destruct (is_unst k); auto.
  - rewrite !in_app_iff. tauto.
Qed.
Lemma sreach_not_under e id : NoDup (leaf_ids e) -> In id (sreach e) -> ~ In id (under_unst e).
Proof.
  induction e; simpl; intros ND H1 H2; try contradiction.
  - destruct (is_unst k); [contradiction|]. exact (IHe ND H1 H2).
  - apply in_app_or in H1. apply in_app_or in H2.
    destruct H1 as [H1|H1], H2 as [H2|H2].
    + exact (IHe1 (nodup_app_l _ _ _ ND) H1 H2).
    + eapply nodup_app_disj; [exact ND|apply sreach_ids; exact H1|apply under_ids; exact H2].
    + eapply nodup_app_disj; [exact ND|apply under_ids; exact H2|apply sreach_ids; exact H1].
    + exact (IHe2 (nodup_app_r _ _ _ ND) H1 H2).
Qed.

Theorem after_stop_connected_start_stopped e pre s1 s2 :
  NoDup (leaf_ids e) ->
  exists d, r_tr (exec e pre (s1 ++ EvStop :: s2)) = r_tr (exec e pre s1) ++ d /\
    forall id s sp a b, In (XT (TLeafStart id s sp a b)) d -> In id (sreach e) -> s = true.
Proof.
  intros ND. destruct (after_stop_starts_stopped e pre s1 s2) as (d & E & F).
  exists d. split; [exact E|]. intros id s sp a b Hin Hr.
  rewrite Forall_forall in F. specialize (F _ Hin). simpl in F.
  destruct F as [F|F]; [exact F|]. exfalso. eapply sreach_not_under; eassumption.
Qed.

Theorem prestopped_connected_start_stopped e script id s sp a b :
  NoDup (leaf_ids e) ->
  In (XT (TLeafStart id s sp a b)) (r_tr (exec e true script)) -> In id (sreach e) -> s = true.
Proof.
  intros ND Hin Hr. pose proof (prestopped_starts_stopped e script) as F.
  rewrite Forall_forall in F. specialize (F _ Hin). simpl in F.
  destruct F as [F|F]; [exact F|]. exfalso. eapply sreach_not_under; eassumption.
Qed.

(* the state invariant behind A2, in the words of the property: once the root token is stopped,
   every live node on a path along which the request propagates has a stopped environment,
   every connected running leaf has seen the request *)
Theorem stopped_state_invariant e pre script :
  r_stopped (exec e pre script) = true ->
  r_st (exec e pre script) = OFin \/
  (live true e (r_st (exec e pre script)) /\ reach_unseen e (r_st (exec e pre script)) = []).
Proof.
  intros Hs. destruct (exec_live e pre script) as [E|HL]; [auto|]. rewrite Hs in HL.
  right. split; [exact HL|]. apply live_true_unseen. exact HL.
Qed.

(* leaves whose token cannot be stopped (directly below unstoppable) never see it stopped *)
Theorem unstoppable_not_stopped e pre script id st sp a b :
  In (XT (TLeafStart id st sp a b)) (r_tr (exec e pre script)) -> sp = false -> st = false.
Proof. intros H. exact (proj2 (queries_sees e pre script id st sp a b H)). Qed.

(* ---- A4: deregistered before completion ------------------------------------------------------------ *)
Theorem root_completes_unregistered e pre script o n :
  In (XRoot o n) (r_tr (exec e pre script)) -> n = 0.
Proof.
  intros H. pose proof (run_events_ok e pre script) as F. rewrite Forall_forall in F. exact (F _ H).
Qed.

Theorem no_leak e pre script root : ~ In (XT (TLeak root)) (r_tr (exec e pre script)).
Proof.
  intros H. pose proof (run_events_ok e pre script) as F. rewrite Forall_forall in F. exact (F _ H).
Qed.

(* stop_when as it was written (leaky_as_written): the completion on the cancel-callback path delivers
   with the callback still registered.  [stop_conc_w] is [stop_conc] with the old leak condition. *)
Definition stop_conc_w (k : bkind) (a b : sexpr) (ns : nst) (sa sb : ost) : res :=
  let '(sb', trb, rb) := if bdone ns then (sb, [], None) else stop b sb in
  let '(ns2, _, fin1) :=
      match rb with
      | Some ob => conc_child_done k (ns_set_own (stopped_ns ns) true) true ob
      | None => (ns_set_own (stopped_ns ns) true, false, None)
      end in
  match fin1 with
  | Some _ => finish_conc k ns2 sa sb' trb fin1 (leaky_as_written k)
  | None =>
      let '(sa', tra, ra) := if adone ns2 then (sa, [], None) else stop a sa in
      let '(ns3, _, fin2) :=
          match ra with
          | Some oa => conc_child_done k ns2 false oa
          | None => (ns2, false, None)
          end in
      finish_conc k ns3 sa' sb' (trb ++ tra) fin2 (leaky_as_written k)
  end.

Example leak_as_written_refuted :
  leaky_as_written BStopWhen = true /\ leaky BStopWhen = false /\
  (forall ns sa sb tr o, finish_conc BStopWhen ns sa sb tr (Some o) (leaky_as_written BStopWhen) =
                         (OFin, tr ++ (if reg ns then [TLeak (e_root (n_env ns))] else []), Some o)) /\
  let e := Bin BStopWhen (LeafN 0) (LeafN 1) in
  match r_st (run_start e false) with
  | ONode ns sa sb =>
      reg ns = true /\
      stop_conc_w BStopWhen (LeafN 0) (LeafN 1) ns sa sb = (OFin, [TLeafStop 1; TLeafStop 0; TLeak true], Some ODone) /\
      stop e (ONode ns sa sb) = (OFin, [TLeafStop 1; TLeafStop 0], Some ODone)
  | _ => False
  end.
Proof.
  split; [reflexivity|]. split; [reflexivity|]. split; [intros; reflexivity|].
  vm_compute. repeat split.
Qed.

(* "no TLeafStop for a leaf that is not in reach e st" is false as such: a successor started by the
   cascade with an already stopped token runs its callback inline.  [stop_only_reach] is the true form. *)
Example stop_outside_reach_refuted :
  let e := Bin BLetD (LeafN 0) (Leaf 1) in
  let st := r_st (run_start e false) in
  reach e st = [0] /\
  snd (fst (stop e st)) = [TLeafStop 0; TLeafStart 1 true true 0%Z 0%Z; TLeafStop 1].
Proof. vm_compute. split; reflexivity. Qed.
