(* C04 on the sender calculus: stop requests reach running children; completion never outlives a
   stop callback.  Uses the equation lemmas of Calc/QueryProofs.v.
     Part 1  counting: stop callbacks run at most once per leaf, leaves start at most once
     Part 2  the liveness/stop-state invariant [live] and what [stop] does (A1, A2, A5)
     Part 3  losers of when_all / stop_when are stopped (A3)
     Part 4  whole runs (A1-A5 lifted), A4 *)
From Coq Require Import ZArith List Bool Lia Arith.
From V Require Import Calc.CalcDefs Calc.QueryProofs.
Import ListNotations.
Import Calc.

(* ================================================================================================ *)
(* Part 1: counting                                                                                 *)
(* ================================================================================================ *)
Definition cnt (p : tev -> bool) (tr : list tev) : nat := length (filter p tr).
Lemma cnt_app p t1 t2 : cnt p (t1 ++ t2) = cnt p t1 + cnt p t2.
Proof. unfold cnt. rewrite filter_app, app_length. reflexivity. Qed.
Lemma cnt_nil p : cnt p [] = 0.
Proof. reflexivity. Qed.
Lemma cnt_pos_in p tr : 1 <= cnt p tr -> exists t, In t tr /\ p t = true.
Proof.
  unfold cnt. induction tr as [|t tr IH]; simpl; [lia|].
  destruct (p t) eqn:E.
  - intros _. exists t. auto.
  - intros H. destruct (IH H) as (t' & H1 & H2). exists t'. auto.
Qed.
Lemma in_cnt_pos p tr t : In t tr -> p t = true -> 1 <= cnt p tr.
Proof.
  unfold cnt. induction tr as [|t' tr IH]; simpl; [contradiction|].
  intros [->|H] Hp.
  - rewrite Hp. simpl. lia.
  - specialize (IH H Hp). destruct (p t'); simpl; lia.
Qed.

Definition is_start (id : nat) (t : tev) : bool :=
  match t with TLeafStart i _ _ _ _ => Nat.eqb i id | _ => false end.
Definition is_stop (id : nat) (t : tev) : bool :=
  match t with TLeafStop i => Nat.eqb i id | _ => false end.
Definition cstart (id : nat) := cnt (is_start id).
Definition cstop (id : nat) := cnt (is_stop id).

Lemma cstart_app id t1 t2 : cstart id (t1 ++ t2) = cstart id t1 + cstart id t2.
Proof. apply cnt_app. Qed.
Lemma cstop_app id t1 t2 : cstop id (t1 ++ t2) = cstop id t1 + cstop id t2.
Proof. apply cnt_app. Qed.
Lemma cstart_calls id tr : Forall is_call tr -> cstart id tr = 0.
Proof. unfold cstart, cnt. induction 1 as [|t tr Ht _ IH]; simpl; [reflexivity|]. destruct t; simpl in *; tauto. Qed.
Lemma cstop_calls id tr : Forall is_call tr -> cstop id tr = 0.
Proof. unfold cstop, cnt. induction 1 as [|t tr Ht _ IH]; simpl; [reflexivity|]. destruct t; simpl in *; tauto. Qed.

Definition occ (id : nat) (e : sexpr) : nat := length (filter (fun i => Nat.eqb i id) (leaf_ids e)).
Lemma occ_bin id k a b : occ id (Bin k a b) = occ id a + occ id b.
Proof. unfold occ. simpl. rewrite filter_app, app_length. reflexivity. Qed.
Lemma occ_un id k s : occ id (Un k s) = occ id s.
Proof. reflexivity. Qed.
Lemma occ_nodup id e : NoDup (leaf_ids e) -> occ id e <= 1.
Proof.
  unfold occ. induction 1 as [|x l Hx Hl IH]; simpl; [lia|].
  destruct (Nat.eqb x id) eqn:E; simpl; [|lia].
  apply Nat.eqb_eq in E. subst x.
  assert (Z : filter (fun i => Nat.eqb i id) l = []).
  { clear IH Hl. induction l as [|y l IHl]; simpl; [reflexivity|].
    destruct (Nat.eqb y id) eqn:E.
    - apply Nat.eqb_eq in E. subst. exfalso. apply Hx. left. reflexivity.
    - apply IHl. intros H. apply Hx. right. exact H. }
  rewrite Z. simpl. lia.
Qed.

Definition ind (i id : nat) : nat := if Nat.eqb i id then 1 else 0.

(* running leaves that have not seen stop / running leaves / occurrences not started yet *)
Fixpoint nun (id : nat) (e : sexpr) (st : ost) : nat :=
  match e, st with
  | Leaf i, OLeaf false false => ind i id
  | LeafN i, OLeaf false false => ind i id
  | Un _ s, ONode _ sc _ => nun id s sc
  | Bin _ a b, ONode _ sa sb => nun id a sa + nun id b sb
  | _, _ => 0
  end.
Fixpoint nrun (id : nat) (e : sexpr) (st : ost) : nat :=
  match e, st with
  | Leaf i, OLeaf false _ => ind i id
  | LeafN i, OLeaf false _ => ind i id
  | Un _ s, ONode _ sc _ => nrun id s sc
  | Bin _ a b, ONode _ sa sb => nrun id a sa + nrun id b sb
  | _, _ => 0
  end.
Fixpoint avail (id : nat) (e : sexpr) (st : ost) : nat :=
  match e, st with
  | Un _ s, ONode _ sc _ => avail id s sc
  | Bin k a b, ONode ns sa sb =>
      if is_seq k then
        match ph ns with
        | PFirst => avail id a sa + occ id b
        | _ => avail id b sb
        end
      else avail id a sa + avail id b sb
  | _, _ => 0
  end.

Lemma nun_fin id e : nun id e OFin = 0. Proof. destruct e; reflexivity. Qed.
Lemma nrun_fin id e : nrun id e OFin = 0. Proof. destruct e; reflexivity. Qed.
Lemma avail_fin id e : avail id e OFin = 0. Proof. destruct e; reflexivity. Qed.
Lemma nun_un id k s ns sc sb : nun id (Un k s) (ONode ns sc sb) = nun id s sc. Proof. reflexivity. Qed.
Lemma nrun_un id k s ns sc sb : nrun id (Un k s) (ONode ns sc sb) = nrun id s sc. Proof. reflexivity. Qed.
Lemma avail_un id k s ns sc sb : avail id (Un k s) (ONode ns sc sb) = avail id s sc. Proof. reflexivity. Qed.
Lemma nun_bin id k a b ns sa sb : nun id (Bin k a b) (ONode ns sa sb) = nun id a sa + nun id b sb.
Proof. reflexivity. Qed.
Lemma nrun_bin id k a b ns sa sb : nrun id (Bin k a b) (ONode ns sa sb) = nrun id a sa + nrun id b sb.
Proof. reflexivity. Qed.
Lemma avail_conc id k a b ns sa sb : is_seq k = false ->
  avail id (Bin k a b) (ONode ns sa sb) = avail id a sa + avail id b sb.
Proof. intros H. simpl. rewrite H. reflexivity. Qed.
Lemma avail_seq1 id k a b ns sa sb : is_seq k = true -> ph ns = PFirst ->
  avail id (Bin k a b) (ONode ns sa sb) = avail id a sa + occ id b.
Proof. intros H H2. simpl. rewrite H, H2. reflexivity. Qed.
Lemma avail_seq2 id k a b ns sa sb : is_seq k = true -> ph ns <> PFirst ->
  avail id (Bin k a b) (ONode ns sa sb) = avail id b sb.
Proof. intros H H2. simpl. rewrite H. destruct (ph ns); congruence. Qed.
Lemma nun_le_nrun id e : forall st, nun id e st <= nrun id e st.
Proof.
  induction e; intros st; destruct st as [|c s|ns sa sb]; simpl; try lia.
  - destruct c, s; lia.
  - destruct c, s; lia.
  - apply IHe.
  - specialize (IHe1 sa). specialize (IHe2 sb). lia.
Qed.

(* the bundle of inequalities; [n0 r0 a0] = the quantities before the call *)
Definition cineq (id : nat) (e : sexpr) (st' : ost) (tr : list tev) (n0 r0 a0 : nat) : Prop :=
  cstop id tr + nun id e st' <= cstart id tr + n0 /\
  cstart id tr + avail id e st' <= a0 /\
  nrun id e st' <= r0 + cstart id tr.

Definition StartC (e : sexpr) : Prop := forall id en st tr r,
  start e en = (st, tr, r) -> cineq id e st tr 0 0 (occ id e).
Definition StopC (e : sexpr) : Prop := forall id st st' tr r,
  stop e st = (st', tr, r) -> cineq id e st' tr (nun id e st) (nrun id e st) (avail id e st).
Definition LeafevC (e : sexpr) : Prop := forall id0 st id o st' tr r hit,
  leafev e st id o = (st', tr, r, hit) ->
  cineq id0 e st' tr (nun id0 e st) (nrun id0 e st) (avail id0 e st) /\
  (hit = true -> nrun id e st' + 1 <= nrun id e st + cstart id tr).

Lemma cineq_fin id e tr n0 r0 a0 :
  cstop id tr <= cstart id tr + n0 -> cstart id tr <= a0 -> cineq id e OFin tr n0 r0 a0.
Proof. unfold cineq. rewrite nun_fin, nrun_fin, avail_fin. lia. Qed.

Lemma finish_cases2 k ns sa sb tr fin l st tr' r :
  finish_conc k ns sa sb tr fin l = (st, tr', r) -> l = false ->
  (exists o, fin = Some o /\ st = OFin /\ tr' = tr /\ r = Some o) \/
  (fin = None /\ st = ONode ns sa sb /\ tr' = tr /\ r = None).
Proof.
  intros H Hl. apply finish_cases in H; [|exact Hl].
  destruct H as [(o & -> & -> & -> & ->)|H]; [left|right; exact H].
  rewrite app_nil_r. eauto.
Qed.

Ltac cn := unfold cineq in *; repeat rewrite ?cstart_app, ?cstop_app, ?nun_fin, ?nrun_fin, ?avail_fin in *.

(* the successor of a sequential algorithm *)
Lemma seq_next_c id k a b ns tra oa st tr r :
  is_seq k = true -> StartC b ->
  seq_next k b ns tra oa = (st, tr, r) ->
  exists trb, tr = tra ++ trb /\ cineq id (Bin k a b) st trb 0 0 (occ id b).
Proof.
  intros Hk Sb H. unfold seq_next in H.
  destruct (after_first k (n_env ns) oa) as [o'|[en2 sv]] eqn:Haf.
  - inv H. exists []. rewrite app_nil_r. split; [reflexivity|]. apply cineq_fin; simpl; lia.
  - destruct (start b en2) as [[sb trb] rb] eqn:Hb. specialize (Sb id _ _ _ _ Hb).
    exists trb. destruct rb; inv H; (split; [reflexivity|]).
    + cn. apply cineq_fin; lia.
    + cn. rewrite nun_bin, nrun_bin, avail_seq2, nun_fin, nrun_fin by (auto; simpl; discriminate). lia.
Qed.

Lemma finish_c id k a b ns sa sb tr fin l st tr' r n0 r0 a0 :
  is_seq k = false ->
  finish_conc k ns sa sb tr fin l = (st, tr', r) -> l = false ->
  cstop id tr + (nun id a sa + nun id b sb) <= cstart id tr + n0 ->
  cstart id tr + (avail id a sa + avail id b sb) <= a0 ->
  nrun id a sa + nrun id b sb <= r0 + cstart id tr ->
  cineq id (Bin k a b) st tr' n0 r0 a0.
Proof.
  intros Hk H Hl H1 H2 H3. apply finish_cases2 in H; [|exact Hl].
  destruct H as [(o & -> & -> & -> & ->)|(-> & -> & -> & ->)].
  - apply cineq_fin; lia.
  - unfold cineq. rewrite nun_bin, nrun_bin, avail_conc by exact Hk. lia.
Qed.

Lemma conc_b_done_c id k a b ns sa sb' tr ob st tr' r :
  is_seq k = false -> StopC a ->
  conc_b_done k a ns sa sb' tr ob = (st, tr', r) ->
  exists tra, tr' = tr ++ tra /\
    cineq id (Bin k a b) st tra (nun id a sa + nun id b sb') (nrun id a sa + nrun id b sb')
          (avail id a sa + avail id b sb').
Proof.
  intros Hk Pa H. unfold conc_b_done in H.
  destruct (conc_child_done k ns true ob) as [[ns1 newly] fin] eqn:Hc.
  destruct fin as [o1|].
  - exists []. rewrite app_nil_r. split.
    + rewrite finish_some in H. inv H. rewrite app_nil_r. reflexivity.
    + rewrite finish_some in H. inv H. apply cineq_fin; simpl; lia.
  - destruct newly.
    + destruct (stop a sa) as [[sa' tra] ra] eqn:Hs. specialize (Pa id _ _ _ _ Hs).
      exists tra. destruct ra as [oa|].
      * destruct (conc_child_done k ns1 false oa) as [[ns2 x] fin2] eqn:Hc2.
        assert (E : tr' = tr ++ tra).
        { apply finish_cases2 in H; [|reflexivity]. destruct H as [(? & _ & _ & -> & _)|(_ & _ & -> & _)]; reflexivity. }
        split; [exact E|]. subst tr'.
        destruct fin2 as [o2|].
        -- rewrite finish_some in H. inv H. cn. apply cineq_fin; lia.
        -- rewrite finish_none in H. inv H. cn. rewrite nun_bin, nrun_bin, avail_conc by exact Hk. lia.
      * inv H. split; [reflexivity|]. cn. rewrite nun_bin, nrun_bin, avail_conc by exact Hk. lia.
    + inv H. exists []. rewrite app_nil_r. split; [reflexivity|].
      cn. rewrite nun_bin, nrun_bin, avail_conc by exact Hk. simpl. lia.
Qed.

Lemma conc_a_done_c id k a b ns sa' sb tr oa st tr' r :
  is_seq k = false -> StopC b ->
  conc_a_done k b ns sa' sb tr oa = (st, tr', r) ->
  exists trb, tr' = tr ++ trb /\
    cineq id (Bin k a b) st trb (nun id a sa' + nun id b sb) (nrun id a sa' + nrun id b sb)
          (avail id a sa' + avail id b sb).
Proof.
  intros Hk Pb H. unfold conc_a_done in H.
  destruct (conc_child_done k ns false oa) as [[ns1 newly] fin] eqn:Hc.
  destruct fin as [o1|].
  - exists []. rewrite app_nil_r. split.
    + rewrite finish_some in H. inv H. rewrite app_nil_r. reflexivity.
    + rewrite finish_some in H. inv H. apply cineq_fin; simpl; lia.
  - destruct newly.
    + destruct (stop b sb) as [[sb' trb] rb] eqn:Hs. specialize (Pb id _ _ _ _ Hs).
      exists trb. destruct rb as [ob|].
      * destruct (conc_child_done k ns1 true ob) as [[ns2 x] fin2] eqn:Hc2.
        assert (E : tr' = tr ++ trb).
        { apply finish_cases2 in H; [|reflexivity]. destruct H as [(? & _ & _ & -> & _)|(_ & _ & -> & _)]; reflexivity. }
        split; [exact E|]. subst tr'.
        destruct fin2 as [o2|].
        -- rewrite finish_some in H. inv H. cn. apply cineq_fin; lia.
        -- rewrite finish_none in H. inv H. cn. rewrite nun_bin, nrun_bin, avail_conc by exact Hk. lia.
      * inv H. split; [reflexivity|]. cn. rewrite nun_bin, nrun_bin, avail_conc by exact Hk. lia.
    + inv H. exists []. rewrite app_nil_r. split; [reflexivity|].
      cn. rewrite nun_bin, nrun_bin, avail_conc by exact Hk. simpl. lia.
Qed.
