(* What acceptance by the monitor [mrun] means, in plain list terms. *)
From Coq Require Import ZArith List Bool Arith Lia.
From V Require Import Calc.StreamDefs Calc.StreamSpec Calc.StreamInv.
Import ListNotations.
Import SCalc.

Definition is_nstart (id : nat) (t : tev) : bool :=
  match t with TNextStart i _ _ => Nat.eqb i id | _ => false end.
Definition is_ndone (id : nat) (t : tev) : bool :=
  match t with TNextDone i _ _ => Nat.eqb i id | _ => false end.
Definition is_cstart (id : nat) (t : tev) : bool :=
  match t with TCleanupStart i => Nat.eqb i id | _ => false end.
Definition is_cdone (id : nat) (t : tev) : bool :=
  match t with TCleanupDone i _ => Nat.eqb i id | _ => false end.
Definition cnt (f : tev -> bool) (evs : list tev) : nat := length (filter f evs).
Definition b2n (b : bool) : nat := if b then 1 else 0.

Lemma cnt_app f a b : cnt f (a ++ b) = (cnt f a + cnt f b)%nat.
Proof. unfold cnt. rewrite filter_app, app_length. reflexivity. Qed.
Lemma cnt_cons f t l : cnt f (t :: l) = (b2n (f t) + cnt f l)%nat.
Proof. unfold cnt. simpl. destruct (f t); reflexivity. Qed.

(* one step of the monitor in terms of the four counters *)
Lemma mstep_facts : forall id m t m', mstep id m t = Some m' ->
  (m_n m' = m_n m + b2n (is_nstart id t))%nat /\
  (b2n (m_out m') + b2n (is_ndone id t) = b2n (m_out m) + b2n (is_nstart id t))%nat /\
  (is_cstart id t = true -> m_out m = false /\ m_cl m = 0%nat /\ m_n m <> 0%nat /\ m_cl m' = 1%nat) /\
  (is_cdone id t = true -> m_cl m = 1%nat /\ m_cl m' = 2%nat) /\
  (is_nstart id t = true -> m_cl m = 0%nat) /\
  (is_cstart id t = false -> is_cdone id t = false -> m_cl m' = m_cl m).
Proof.
  intros id m t m' H. destruct t; cbn [mstep is_nstart is_ndone is_cstart is_cdone] in *;
    try (inversion H; subst; repeat split; intros; try discriminate; auto; simpl; lia);
    destruct (Nat.eqb id0 id) eqn:E;
    try (inversion H; subst; repeat split; intros; try discriminate; auto; simpl; lia).
  - destruct (m_out m) eqn:Eo; cbn [andb negb] in H; try discriminate.
    destruct (Nat.eqb (m_cl m) 0) eqn:Ec; cbn [andb negb] in H; try discriminate.
    destruct (Nat.eqb k (m_n m)); inversion H; subst; simpl.
    apply Nat.eqb_eq in Ec. repeat split; intros; try discriminate; auto; rewrite ?Eo; simpl; auto; try lia.
  - destruct (m_out m) eqn:Eo; cbn [andb negb] in H; try discriminate.
    destruct (Nat.eqb (S k) (m_n m)); inversion H; subst; simpl.
    repeat split; intros; try discriminate; auto; rewrite ?Eo; simpl; auto; try lia.
  - destruct (m_out m) eqn:Eo; cbn [andb negb] in H; try discriminate.
    destruct (Nat.eqb (S k) (m_n m)); inversion H; subst; simpl.
    repeat split; intros; try discriminate; auto; rewrite ?Eo; simpl; auto; try lia.
  - destruct (m_out m) eqn:Eo; cbn [andb negb] in H; try discriminate.
    destruct (Nat.eqb (m_cl m) 0) eqn:Ec; cbn [andb negb] in H; try discriminate.
    destruct (Nat.eqb (m_n m) 0) eqn:En; cbn [andb negb] in H; inversion H; subst; simpl.
    apply Nat.eqb_eq in Ec. apply Nat.eqb_neq in En. repeat split; intros; try discriminate; auto.
  - destruct (Nat.eqb (m_cl m) 1) eqn:Ec; inversion H; subst; simpl.
    apply Nat.eqb_eq in Ec. repeat split; intros; try discriminate; auto; rewrite ?Eo; simpl; auto; try lia.
Qed.

Lemma mrun_counts : forall id evs m m', mrun id m evs = Some m' ->
  (m_n m' = m_n m + cnt (is_nstart id) evs)%nat /\
  (b2n (m_out m') + cnt (is_ndone id) evs = b2n (m_out m) + cnt (is_nstart id) evs)%nat /\
  (m_cl m <= m_cl m')%nat /\
  (cnt (is_cstart id) evs + (if Nat.eqb (m_cl m) 0 then 0 else 1) <= 1)%nat /\
  (m_cl m <> 0%nat -> cnt (is_nstart id) evs = 0%nat).
Proof.
  intros id. induction evs as [|t evs IH]; intros m m' H; simpl in H.
  - inversion H; subst. unfold cnt. simpl. repeat split; try lia. destruct (Nat.eqb (m_cl m') 0); lia.
  - destruct (mstep id m t) as [m1|] eqn:E; try discriminate.
    destruct (mstep_facts _ _ _ _ E) as (F1 & F2 & F3 & F4 & F5 & F6).
    destruct (IH _ _ H) as (I1 & I2 & I3 & I4 & I5). rewrite !cnt_cons.
    assert (Hcl : (m_cl m <= m_cl m1)%nat).
    { destruct (is_cstart id t) eqn:Ec; [destruct (F3 eq_refl) as (_ & ? & _ & ?); lia|].
      destruct (is_cdone id t) eqn:Ed; [destruct (F4 eq_refl); lia|]. rewrite F6; auto. }
    repeat split; try lia.
    + destruct (is_cstart id t) eqn:Ec.
      * destruct (F3 eq_refl) as (_ & C0 & _ & C1). rewrite C0. simpl. rewrite C1 in I4. simpl in I4. lia.
      * simpl. destruct (Nat.eqb_spec (m_cl m) 0); destruct (Nat.eqb_spec (m_cl m1) 0); lia.
    + intros Hn. destruct (is_nstart id t) eqn:Es; [specialize (F5 eq_refl); lia|]. simpl. apply I5. lia.
Qed.

Section Corollaries.
Variables (id : nat) (evs : list tev).
Hypothesis Hacc : exists m, mrun id m0 evs = Some m.

(* cleanup of a source is started at most once *)
Lemma cleanup_at_most_once : (cnt (is_cstart id) evs <= 1)%nat.
Proof. destruct Hacc as [m H]. destruct (mrun_counts _ _ _ _ H) as (_ & _ & _ & H4 & _). simpl in H4. lia. Qed.

(* at the moment cleanup starts: some next was started before, every started next has completed, and no
   next is started afterwards *)
Lemma cleanup_after_last_next : forall a b, evs = a ++ TCleanupStart id :: b ->
  (cnt (is_nstart id) a <> 0)%nat /\ cnt (is_nstart id) a = cnt (is_ndone id) a /\ cnt (is_nstart id) b = 0%nat.
Proof.
  intros a b E. destruct Hacc as [m H]. rewrite E, mrun_app in H.
  destruct (mrun id m0 a) as [m1|] eqn:Ea; try discriminate. cbn [mrun] in H.
  destruct (mstep id m1 (TCleanupStart id)) as [m2|] eqn:Es; try discriminate.
  destruct (mstep_facts _ _ _ _ Es) as (_ & _ & F3 & _).
  assert (Ec : is_cstart id (TCleanupStart id) = true) by (simpl; apply Nat.eqb_refl).
  destruct (F3 Ec) as (Ho & _ & Hn & Hc).
  destruct (mrun_counts _ _ _ _ Ea) as (A1 & A2 & _). simpl in A1, A2. rewrite Ho in A2. simpl in A2.
  destruct (mrun_counts _ _ _ _ H) as (_ & _ & _ & _ & B5).
  repeat split; try lia; try (apply B5; lia).
Qed.

(* a next is never started while another one of the same source is outstanding *)
Lemma nexts_do_not_overlap : forall a b, evs = a ++ b ->
  (cnt (is_ndone id) a <= cnt (is_nstart id) a <= S (cnt (is_ndone id) a))%nat.
Proof.
  intros a b E. destruct Hacc as [m H]. rewrite E, mrun_app in H.
  destruct (mrun id m0 a) as [m1|] eqn:Ea; try discriminate.
  destruct (mrun_counts _ _ _ _ Ea) as (_ & A2 & _). simpl in A2. destruct (m_out m1); simpl in A2; lia.
Qed.
End Corollaries.

Lemma mquiet_counts : forall id evs m, mrun id m0 evs = Some m -> mquiet m ->
  cnt (is_nstart id) evs = cnt (is_ndone id) evs /\
  (cnt (is_nstart id) evs = 0%nat /\ cnt (is_cstart id) evs = 0%nat \/ m_cl m = 2%nat).
Proof.
  intros id evs m H [Ho Hq]. destruct (mrun_counts _ _ _ _ H) as (A1 & A2 & _ & A4 & _). simpl in *.
  rewrite Ho in A2. simpl in A2. split; [lia|]. destruct Hq as [Hq|[Hn Hc]]; auto. left. split; [lia|].
  (* cl = 0 at the end: no cleanup start occurred *)
  clear - H Hc. revert H. generalize m0. induction evs as [|t evs IH]; intros mm H; simpl in *; auto.
  destruct (mstep id mm t) as [m1|] eqn:E; try discriminate. rewrite cnt_cons.
  destruct (mstep_facts _ _ _ _ E) as (_ & _ & F3 & _). rewrite (IH _ H).
  destruct (is_cstart id t) eqn:Ec; auto. destruct (F3 eq_refl) as (_ & _ & _ & C1).
  destruct (mrun_counts _ _ _ _ H) as (_ & _ & Hle & _). lia.
Qed.

Lemma mrun_cl_cases : forall id evs m m', mrun id m evs = Some m' ->
  (m_cl m = 0 -> cnt (is_cstart id) evs <= 1 /\ cnt (is_cdone id) evs <= cnt (is_cstart id) evs /\
                 m_cl m' = cnt (is_cstart id) evs + cnt (is_cdone id) evs) /\
  (m_cl m = 1 -> cnt (is_cstart id) evs = 0 /\ cnt (is_cdone id) evs <= 1 /\ m_cl m' = 1 + cnt (is_cdone id) evs) /\
  (2 <= m_cl m -> cnt (is_cstart id) evs = 0 /\ cnt (is_cdone id) evs = 0 /\ m_cl m' = m_cl m).
Proof.
  intros id. induction evs as [|t evs IH]; intros m m' H; simpl in H.
  - inversion H; subst. unfold cnt; simpl. repeat split; lia.
  - destruct (mstep id m t) as [m1|] eqn:E; try discriminate.
    destruct (mstep_facts _ _ _ _ E) as (_ & _ & F3 & F4 & _ & F6).
    destruct (IH _ _ H) as (I0 & I1 & I2). rewrite !cnt_cons.
    destruct (is_cstart id t) eqn:Ec.
    + destruct (F3 eq_refl) as (_ & C0 & _ & C1).
      assert (Ed : is_cdone id t = false) by (destruct t; simpl in *; auto; discriminate).
      rewrite Ed. simpl. destruct (I1 C1) as (A & B & C). repeat split; intros; try lia.
    + destruct (is_cdone id t) eqn:Ed.
      * destruct (F4 eq_refl) as [C1 C2]. simpl. assert (C2' : 2 <= m_cl m1) by lia.
        destruct (I2 C2') as (A & B & C). repeat split; intros; try lia.
      * specialize (F6 eq_refl eq_refl). simpl. rewrite F6 in *. repeat split; intros.
        all: try (destruct (I0 ltac:(assumption)) as (A & B & C); lia).
        all: try (destruct (I1 ltac:(assumption)) as (A & B & C); lia).
        all: try (destruct (I2 ltac:(assumption)) as (A & B & C); lia).
Qed.

(* a quiet source: every next completed; either nothing of it ever happened, or its cleanup was started
   exactly once, after some next, and completed exactly once *)
Lemma mquiet_plain : forall id evs m, mrun id m0 evs = Some m -> mquiet m ->
  cnt (is_nstart id) evs = cnt (is_ndone id) evs /\
  ((cnt (is_nstart id) evs = 0 /\ cnt (is_cstart id) evs = 0 /\ cnt (is_cdone id) evs = 0) \/
   (cnt (is_nstart id) evs <> 0 /\ cnt (is_cstart id) evs = 1 /\ cnt (is_cdone id) evs = 1)).
Proof.
  intros id evs m H [Ho Hq]. destruct (mrun_counts _ _ _ _ H) as (A1 & A2 & _).
  destruct (mrun_cl_cases _ _ _ _ H) as (C0 & _ & _). destruct (C0 eq_refl) as (B1 & B2 & B3).
  simpl in *. rewrite Ho in A2. simpl in A2. split; [lia|].
  destruct Hq as [Hq|[Hn Hc]].
  - right. assert (Hc1 : cnt (is_cstart id) evs = 1) by lia. split; [|lia].
    assert (Hin : exists t, In t evs /\ is_cstart id t = true).
    { clear - Hc1. induction evs as [|t evs IH]; [unfold cnt in Hc1; simpl in Hc1; lia|].
      rewrite cnt_cons in Hc1. destruct (is_cstart id t) eqn:Ec; [exists t; split; [left|]; auto|].
      simpl in Hc1. destruct (IH Hc1) as (t' & Hi & Ht). exists t'. split; [right|]; auto. }
    destruct Hin as (t & Hi & Ht). destruct t; simpl in Ht; try discriminate. apply Nat.eqb_eq in Ht. subst id0.
    destruct (in_split _ _ Hi) as (a & b & Eab).
    destruct (cleanup_after_last_next id evs (ex_intro _ m H) a b Eab) as (Hn & _).
    rewrite Eab, cnt_app. lia.
  - left. lia.
Qed.
